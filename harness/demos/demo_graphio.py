#!/venv/bin/python
"""
Correspondence run for Model/GraphOrder.lean and Model/CltIo.lean (C02 / C06 / C12 / C13, binary Chow-Liu trees).

run:  cd /verif && PYTHONPATH=/repo:/verif /venv/bin/python harness/demos/demo_graphio.py [seed]
      (driver: $DEEPROB_DRIVER, default /verif/lean/.lake/build/bin/driver; library: PYTHONPATH only)

Parts
 i    `compute_bfs_ordering` == driver op `bfsorder`, EXACTLY: every rooted spanning tree with n <= 6
      (all n^(n-1) of them), random well-formed vectors up to n = 12 (list and int32-ndarray input),
      random ILL-formed vectors (several / no `-1`, cycles, out-of-range and negative entries): exception <-> `none`.
 ii   `BinaryCLT(scope, tree=..., params=log cpt).log_likelihood` on rows with NaNs (the message-passing path) against
      `cltpass` in the code's own order (|delta log| <= 1e-5): all {0,1,NaN} rows for n <= 4, sampled rows above;
      on the model side: 3 random child-first orders give EXACTLY `Clt.value`; the reviewers' regression tree
      [3,4,1,-1,0]; fitted CLTs, whose `bfs` comes from SciPy (`maximum_spanning_tree`): `reversed(clt.bfs[1:])` is
      child-first and the pass in THAT order gives `Clt.value`; the whole array `messages` of
      `message_passing(..., return_lls=False)` for reduce = 'mar' AND 'mpe' against `cltmsgs` (|delta log| <= 1e-5).
 iii  `save_binary_clt_json` / `load_binary_clt_json` (file object and path), 3 generations: every document ==
      `cltdoc` document of that generation EXACTLY (numbers as decimal fractions), every loaded object
      (scope / tree / root / bfs / float32 params) == the model's object of that generation EXACTLY.
 iv   hand-made documents (node ids permuted, random edge sets, missing attributes): `load_binary_clt_json` raises
      <-> `cltload` answers null; otherwise scope / tree / root / bfs agree.
Exit status 0 iff model and implementation agree on everything generated.
"""
import io, json, os, random, subprocess, sys, tempfile, itertools, math, warnings
from decimal import Decimal
from fractions import Fraction as Fr
import numpy as np

from deeprob.utils.graph import compute_bfs_ordering
from deeprob.spn.structure.cltree import BinaryCLT
from deeprob.spn.structure.io import save_binary_clt_json, load_binary_clt_json

EXE = os.environ.get('DEEPROB_DRIVER', __import__('os').path.join(__import__('os').path.dirname(__import__('os').path.dirname(__import__('os').path.dirname(__import__('os').path.abspath(__file__)))), 'lean', '.lake', 'build', 'bin', 'driver'))
SEED = int(sys.argv[1]) if len(sys.argv) > 1 else 20260929
rnd = random.Random(SEED)
nrs = np.random.RandomState(SEED % (2 ** 32))
try:
    sys.set_int_max_str_digits(0)
except AttributeError:
    pass


class Driver:
    def __init__(self):
        if not os.path.exists(EXE):
            sys.exit('model driver is not built: ' + EXE)
        self.p = subprocess.Popen([EXE], stdin=subprocess.PIPE, stdout=subprocess.PIPE, text=True, bufsize=1)
        self.lines = 0

    def ask(self, obj):
        self.p.stdin.write(json.dumps(obj) + '\n')
        self.p.stdin.flush()
        ans = self.p.stdout.readline()
        if not ans:
            sys.exit('model driver died')
        self.lines += 1
        ans = ans.rstrip('\n')
        if ans.startswith('bad-op'):
            sys.exit(f'driver: {ans} for {json.dumps(obj)[:300]}')
        return ans

    def close(self):
        self.p.stdin.close()
        self.p.wait(timeout=10)


def fs(q):
    q = Fr(q)
    return f"{q.numerator}/{q.denominator}"


def pq(s):
    n, d = s.split('/')
    return Fr(int(n), int(d))


def fx(x):
    return Fr(float(x))


MISMATCH = []
COUNT = {}


def cnt(k, n=1):
    COUNT[k] = COUNT.get(k, 0) + n


def bad(part, what, replay):
    MISMATCH.append((part, what, replay))
    if len(MISMATCH) <= 15:
        print(f'MISMATCH [{part}] {what}\n   replay: {json.dumps(replay)[:600]}')


# ------------------------------------------------------------------------------------------------- generators
def all_pred_vectors(n):
    """every predecessor vector over n variables that encodes a rooted spanning tree (same enumeration as
    /verif/harness/clt.py `all_pred_vectors`; there are n^(n-1) of them)"""
    out = []
    for root in range(n):
        others = [i for i in range(n) if i != root]
        for parents in itertools.product(range(n), repeat=n - 1):
            pred = [-1] * n
            for i, p in zip(others, parents):
                pred[i] = p
            if any(pred[i] == i for i in others):
                continue
            good = True
            for i in range(n):
                j, steps = i, 0
                while pred[j] != -1 and steps <= n:
                    j = pred[j]
                    steps += 1
                if pred[j] != -1:
                    good = False
                    break
            if good:
                out.append(pred)
    assert len(out) == n ** (n - 1)
    return out


def random_tree(n):
    """uniform-ish random rooted spanning tree as a predecessor vector (random attachment + relabelling)"""
    perm = list(range(n))
    rnd.shuffle(perm)
    pred = [None] * n
    pred[perm[0]] = -1
    for k in range(1, n):
        pred[perm[k]] = perm[rnd.randrange(k)]
    return pred


def random_cpt(n):
    """rational tables with entries in [1/20, 19/20], rows summing to one; the two root rows are NOT forced equal"""
    t = []
    for _ in range(n):
        rows = []
        for _ in range(2):
            p = Fr(rnd.randint(1, 19), 20)
            rows.append([1 - p, p])
        t.append(rows)
    return t


def child_first_order(pred):
    """random order of the non-root nodes in which every child precedes its parent"""
    n = len(pred)
    kids = {i: [c for c in range(n) if pred[c] == i] for i in range(n)}
    done, order = set(), []
    pending = [i for i in range(n) if pred[i] != -1]
    while pending:
        ready = [i for i in pending if all(c in done for c in kids[i])]
        x = rnd.choice(ready)
        order.append(x)
        done.add(x)
        pending.remove(x)
    return order


def py_bfs(tree):
    try:
        with warnings.catch_warnings():
            warnings.simplefilter('ignore')
            return [int(v) for v in compute_bfs_ordering(tree)]
    except Exception:
        return None


# ------------------------------------------------------------------------------------------------- part i
def part_i(drv):
    def check(tree, kind):
        got = py_bfs(list(tree))
        ans = drv.ask({'op': 'bfsorder', 'tree': list(tree)})
        exp = None if ans == 'none' else [int(t) for t in ans.split()]
        cnt('i.' + kind)
        if got != exp:
            bad('i', f'compute_bfs_ordering {got} vs model {exp}', {'op': 'bfsorder', 'tree': list(tree)})
        return got

    for n in range(1, 7):
        for pred in all_pred_vectors(n):
            check(pred, 'exhaustive')
    for _ in range(1500):
        n = rnd.randint(7, 12)
        pred = random_tree(n)
        got = check(pred, 'random')
        arr = np.array(pred, dtype=np.int32)
        got2 = [int(v) for v in compute_bfs_ordering(arr)]
        cnt('i.ndarray')
        if got2 != got:
            bad('i', f'ndarray input gives {got2}, list input {got}', {'tree': pred})
    for _ in range(3000):
        n = rnd.randint(1, 7)
        lo = rnd.choice([-1, -1, -2, -n - 1])
        hi = rnd.choice([n - 1, n - 1, n])
        tree = [rnd.randint(lo, hi) for _ in range(n)]
        if rnd.random() < 0.6 and n > 0:
            # force exactly one -1 so that the loop is reached
            tree = [t if t != -1 else rnd.randint(0, n - 1) for t in tree]
            tree[rnd.randrange(n)] = -1
        check(tree, 'illformed')


# ------------------------------------------------------------------------------------------------- part ii
def part_ii(drv):
    def rows_for(n):
        if n <= 4:
            return [list(r) for r in itertools.product([0, 1, None], repeat=n) if None in r]
        out = []
        for _ in range(24):
            r = [rnd.choice([0, 1, None]) for _ in range(n)]
            if None not in r:
                r[rnd.randrange(n)] = None
            out.append(r)
        return out

    def one_tree(pred, cpt, scope=None, clt=None, kind='constructed'):
        n = len(pred)
        scope = scope or list(range(n))
        if clt is None:
            logp = [[[math.log(float(v)) for v in row] for row in t] for t in cpt]
            clt = BinaryCLT(scope, tree=list(pred), params=logp)
        rows = rows_for(n)
        x = np.array([[np.nan if v is None else float(v) for v in r] for r in rows], dtype=np.float32)
        with np.errstate(all='ignore'):
            ll = clt.log_likelihood(x)[:, 0]
        cptq = [[[fs(v) for v in row] for row in t] for t in cpt]
        code_order = [int(v) for v in list(reversed(list(clt.bfs)[1:]))]
        orders = [child_first_order(pred) for _ in range(3)]
        for r, l in zip(rows, ll):
            req = {'op': 'cltpass', 'tree': list(pred), 'params': cptq, 'row': r}
            if kind == 'fitted':
                req['order'] = code_order          # SciPy's order, not compute_bfs_ordering's
            ans = dict(kv.split('=') for kv in drv.ask(req).split())
            cnt('ii.rows.' + kind)
            if ans['pass'] == 'none' or ans['childFirst'] != 'true' or ans['wf'] != 'true':
                bad('ii', f'model refuses the code order: {ans}', req)
                continue
            v = pq(ans['pass'])
            if v != pq(ans['value']):
                bad('ii', f'array pass in the code order {v} != Clt.value {ans["value"]}', req)
            ref = math.log(v) if v > 0 else -math.inf
            if not (abs(float(l) - ref) <= 1e-5 + 1e-6 * abs(ref)):
                bad('ii', f'log_likelihood {float(l)!r} vs model {ref!r}', req)
            if rnd.random() < 0.25:
                xr = np.array([[np.nan if v is None else float(v) for v in r]], dtype=np.float32)
                for red in ('mar', 'mpe'):
                    with np.errstate(all='ignore'):
                        msgs = clt.message_passing(xr, ~np.isnan(xr), return_lls=False, reduce=red)
                    reqm = {'op': 'cltmsgs', 'tree': list(pred), 'params': cptq, 'row': r, 'reduce': red}
                    if kind == 'fitted':
                        reqm['order'] = code_order
                    am = drv.ask(reqm)
                    cnt('ii.messages.' + red)
                    slots = [tuple(pq(t) for t in sl.split(',')) for sl in am.split()] if am != 'none' else None
                    ok = slots is not None and len(slots) == n
                    if ok:
                        for j in range(n):
                            for k in (0, 1):
                                refm = math.log(slots[j][k])
                                if abs(float(msgs[j, 0, k]) - refm) > 1e-5 + 1e-6 * abs(refm):
                                    ok = False
                    if not ok:
                        bad('ii', f'messages ({red}) differ: impl {msgs[:, 0, :].tolist()} model {am}', reqm)
            for o in orders:
                req2 = dict(req, order=o)
                a2 = dict(kv.split('=') for kv in drv.ask(req2).split())
                cnt('ii.orders')
                if a2['childFirst'] != 'true' or a2['pass'] != ans['value']:
                    bad('ii', f'child-first order {o}: {a2}', req2)

    for n in range(1, 5):
        trees = all_pred_vectors(n)
        for pred in (trees if n <= 3 else rnd.sample(trees, 24)):
            one_tree(pred, random_cpt(n))
            cnt('ii.trees')
    for _ in range(40):
        n = rnd.randint(5, 9)
        one_tree(random_tree(n), random_cpt(n))
        cnt('ii.trees')
    # the reviewers' regression tree, every row
    pred = [3, 4, 1, -1, 0]
    cpt = random_cpt(5)
    logp = [[[math.log(float(v)) for v in row] for row in t] for t in cpt]
    clt = BinaryCLT(list(range(5)), tree=pred, params=logp)
    rows = [list(r) for r in itertools.product([0, 1, None], repeat=5) if None in r]
    x = np.array([[np.nan if v is None else float(v) for v in r] for r in rows], dtype=np.float32)
    ll = clt.log_likelihood(x)[:, 0]
    cptq = [[[fs(v) for v in row] for row in t] for t in cpt]
    dropped = 0
    for r, l in zip(rows, ll):
        req = {'op': 'cltpass', 'tree': pred, 'params': cptq, 'row': r}
        ans = dict(kv.split('=') for kv in drv.ask(req).split())
        v = pq(ans['pass'])
        cnt('ii.regression.rows')
        if v != pq(ans['value']) or abs(float(l) - math.log(v)) > 1e-5 + 1e-6 * abs(math.log(v)):
            bad('ii', f'regression tree: impl {float(l)!r} model {ans}', req)
        a2 = dict(kv.split('=') for kv in drv.ask(dict(req, order=[4, 2, 1, 0])).split())
        if a2['childFirst'] != 'false':
            bad('ii', 'the bad order is reported child-first', req)
        if a2['pass'] != ans['value']:
            dropped += 1
    cnt('ii.regression.rows_changed_by_bad_order', dropped)
    if dropped == 0:
        bad('ii', 'the bad order [4,2,1,0] changed no row', {'tree': pred})
    # fitted CLTs: bfs from SciPy
    for _ in range(25):
        n = rnd.randint(3, 8)
        data = (nrs.rand(200, n) < nrs.rand(n)).astype(np.float32)
        for c in range(1, n):
            if nrs.rand() < 0.6:
                src = nrs.randint(c)
                flip = nrs.rand(200) < 0.2
                data[:, c] = np.where(flip, 1 - data[:, src], data[:, src])
        scope = list(range(n))
        clt = BinaryCLT(scope, root=int(nrs.randint(n)))
        clt.fit(data, [[0, 1]] * n, alpha=0.1, random_state=nrs)
        pred = [int(v) for v in clt.tree]
        cpt = [[[fx(np.exp(np.float64(v))) for v in row] for row in t] for t in clt.params]
        # exact linear tables of the stored float32 logs are irrational: use the float64 exp as THE table on both sides
        clt2 = BinaryCLT(scope, tree=pred, params=[[[math.log(float(v)) for v in row] for row in t] for t in cpt])
        clt2.bfs = clt.bfs            # keep SciPy's order
        one_tree(pred, cpt, scope=scope, clt=clt2, kind='fitted')
        cnt('ii.trees.fitted')
        if [int(v) for v in clt.bfs] != py_bfs(pred):
            cnt('ii.fitted.bfs_differs_from_compute_bfs_ordering')


# ------------------------------------------------------------------------------------------------- part iii
def doc_norm(d):
    """a document with every float as an exact Fraction"""
    def num(v):
        if isinstance(v, str):
            return pq(v)
        if isinstance(v, Decimal):
            return Fr(v)
        return Fr(v)
    nodes = []
    for nd in d['nodes']:
        nodes.append((nd['id'], nd.get('scope'),
                      None if 'weight' not in nd else [[num(v) for v in row] for row in nd['weight']]))
    edges = [(e['source'], e['target']) for e in d['edges']]
    return (d['directed'], d['multigraph'], d['graph'], nodes, edges)


def obj_of_clt(clt):
    return {'scope': [int(s) for s in clt.scope], 'tree': [int(t) for t in clt.tree], 'root': int(clt.root),
            'bfs': [int(b) for b in clt.bfs],
            'params': [[[fx(v) for v in row] for row in t] for t in clt.params]}


def obj_of_model(o):
    return {'scope': o['scope'], 'tree': o['tree'], 'root': o['root'], 'bfs': o['bfs'],
            'params': [[[pq(v) for v in row] for row in t] for t in o['params']]}


def part_iii(drv):
    GENS = 3
    tmpdir = tempfile.mkdtemp(prefix='graphio')

    def run(clt, kind):
        req = {'op': 'cltdoc', 'scope': [int(s) for s in clt.scope], 'tree': [int(t) for t in clt.tree],
               'params': [[[fs(fx(v)) for v in row] for row in t] for t in clt.params], 'gens': GENS}
        ans = json.loads(drv.ask(req))
        cur = clt
        for g in range(GENS):
            use_path = (g % 2 == 1) if kind != 'path' else True
            try:
                if use_path:
                    path = os.path.join(tmpdir, f'c{rnd.randrange(10 ** 9)}.json')
                    save_binary_clt_json(cur, path)
                    text = open(path).read()
                    nxt = load_binary_clt_json(path)
                    os.remove(path)
                else:
                    f = io.StringIO()
                    save_binary_clt_json(cur, f)
                    text = f.getvalue()
                    nxt = load_binary_clt_json(io.StringIO(text))
            except Exception as ex:
                bad('iii', f'generation {g + 1}: save/load raised {type(ex).__name__}: {ex} (the model loads it)', req)
                return
            real = doc_norm(json.loads(text, parse_float=Decimal))
            mdoc = ans['docs'][g] if g < len(ans['docs']) else None
            cnt('iii.docs')
            if mdoc is None or doc_norm(mdoc) != real:
                bad('iii', f'generation {g + 1} document differs ({kind})', req)
                return
            if g == 0 and (ans['doc'] is None or doc_norm(ans['doc']) != real):
                bad('iii', 'cltEncode differs from generation 1', req)
            mobj = ans['mem'][g] if g < len(ans['mem']) else None
            cnt('iii.objects')
            if mobj is None or obj_of_model(mobj) != obj_of_clt(nxt):
                bad('iii', f'generation {g + 1} loaded object differs ({kind}): '
                           f'{obj_of_clt(nxt) if mobj is None else [k for k in obj_of_clt(nxt) if obj_of_clt(nxt)[k] != obj_of_model(mobj)[k]]}', req)
                return
            if g == 0:
                # the exact decode: same scope / tree / root / bfs, parameters = the document numbers
                dec = ans['decoded']
                want = obj_of_clt(nxt)
                if dec is None or any(dec[k] != want[k] for k in ('scope', 'tree', 'root', 'bfs')) or \
                        [[[pq(v) for v in row] for row in t] for t in dec['params']] != [w for (_, _, w) in real[3]]:
                    bad('iii', 'cltDecode differs', req)
                if want['bfs'] != py_bfs(want['tree']):
                    bad('iii', 'loaded bfs is not compute_bfs_ordering(tree)', req)
            cur = nxt
        cnt('iii.clts.' + kind)

    for k in range(60):
        n = rnd.randint(1, 9)
        pred = random_tree(n)
        scope = rnd.sample(range(30), n)
        p = nrs.uniform(0.02, 0.98, size=(n, 2)).astype(np.float64)
        params = np.log(np.stack([1 - p, p], axis=2)).astype(np.float32)
        clt = BinaryCLT(scope, tree=pred, params=params.tolist())
        run(clt, 'constructed' if k % 3 else 'path')
    for _ in range(15):
        n = rnd.randint(2, 8)
        data = (nrs.rand(150, n) < nrs.rand(n)).astype(np.float32)
        scope = sorted(rnd.sample(range(30), n))
        clt = BinaryCLT(scope, root=scope[int(nrs.randint(n))])
        clt.fit(data, [[0, 1]] * n, alpha=0.1, random_state=nrs)
        run(clt, 'fitted')
    os.rmdir(tmpdir)


# ------------------------------------------------------------------------------------------------- part iv
def part_iv(drv):
    W = [[-0.69314718, -0.69314718], [-0.69314718, -0.69314718]]
    Wq = [[fs(Fr(Decimal(repr(v)))) for v in row] for row in W]
    for _ in range(1200):
        n = rnd.randint(1, 6)
        ids = list(range(n))
        if rnd.random() < 0.15:
            ids[rnd.randrange(n)] = rnd.choice([n, n + 1])        # an id outside 0..n-1
        rnd.shuffle(ids)
        scopes = rnd.sample(range(20), n)
        mode = rnd.random()
        if mode < 0.5:
            pred = random_tree(n)
            edges = [(pred[i], i) for i in range(n) if pred[i] != -1]
            if rnd.random() < 0.3 and edges:
                k = rnd.randrange(len(edges))
                edges[k] = (edges[k][1], edges[k][0]) if rnd.random() < 0.5 else (rnd.randrange(n), rnd.randrange(n))
            rnd.shuffle(edges)
            # relabel through ids
            edges = [(ids[a], ids[b]) for a, b in edges]
        else:
            m = rnd.randint(0, n + 1)
            edges = [(rnd.choice(ids), rnd.choice(ids)) for _ in range(m)]
        nodes = []
        for i, s in zip(ids, scopes):
            nd = {'id': i}
            if rnd.random() > 0.04:
                nd['scope'] = s
                nd['weight'] = W
            nodes.append(nd)
        doc = {'directed': True, 'multigraph': False, 'graph': {}, 'nodes': nodes,
               'edges': [{'source': a, 'target': b} for a, b in edges]}
        not_tree = False
        try:
            with warnings.catch_warnings():
                warnings.simplefilter('ignore')
                clt = load_binary_clt_json(io.StringIO(json.dumps(doc)))
            got = {'scope': [int(s) for s in clt.scope], 'tree': [int(t) for t in clt.tree], 'root': int(clt.root),
                   'bfs': [int(b) for b in clt.bfs]}
        except Exception as ex:
            got = None
            not_tree = isinstance(ex, ValueError) and str(ex) == 'The graph is not a tree'
        req = {'op': 'cltload', 'nodes': [dict(nd, **({'weight': Wq} if 'weight' in nd else {})) for nd in nodes],
               'edges': doc['edges']}
        full = json.loads(drv.ask(req))
        ans = full['obj']
        exp = None if ans is None else {k: ans[k] for k in ('scope', 'tree', 'root', 'bfs')}
        cnt('iv.accepted' if got is not None else ('iv.rejected.not_a_tree' if not_tree else 'iv.rejected.other'))
        if got != exp:
            bad('iv', f'load_binary_clt_json {got} vs model {exp}', req)
        # the reason: "The graph is not a tree" is raised exactly when the model's isArborescence says false
        if (full['arborescence'] is False) != not_tree:
            bad('iv', f'is_arborescence: impl raised not-a-tree={not_tree}, model says {full["arborescence"]}', req)


def main():
    drv = Driver()
    part_i(drv)
    part_ii(drv)
    part_iii(drv)
    part_iv(drv)
    drv.close()
    print(f'seed {SEED}; driver lines {drv.lines}')
    for k in sorted(COUNT):
        print(f'  {k}: {COUNT[k]}')
    if MISMATCH:
        print(f'DISAGREEMENTS: {len(MISMATCH)}')
        sys.exit(1)
    print('model and implementation agree on everything generated')
    sys.exit(0)


if __name__ == '__main__':
    main()
