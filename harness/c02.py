"""C02 — NaN marginals equal the sum over all completions (SPNs, CLTs alone and as leaves)."""
import itertools, math, json, hashlib
import numpy as np
from harness.common import parse_q, close_log, qlog, Infra, np_seed, fstr
from harness.common import sexp
from harness import spn as S
from harness.build import build_from_table, table_with_py
from harness.c01 import iso_floor, cont_value, near_edge, FAMILIES

from deeprob.spn.structure.node import assign_ids
from deeprob.spn.structure.cltree import BinaryCLT
from deeprob.spn.structure.node import Sum, Product
from deeprob.spn.structure.leaf import Bernoulli
from deeprob.spn.algorithms.inference import likelihood, log_likelihood


def impl_ll(root, X):
    if isinstance(root, BinaryCLT):
        return np.asarray(root.log_likelihood(X[:, root.scope])).reshape(-1)
    return np.asarray(log_likelihood(root, X)).reshape(-1)


def gen_case(ctx, k):
    rs = np.random.RandomState(np_seed(ctx.sub_rng('net', k)))
    ncols = int(rs.randint(1, 7))
    nv = int(rs.randint(1, min(ncols, 5) + 1))
    scope = sorted(int(v) for v in rs.choice(ncols, nv, replace=False))
    mode = k % 4
    if mode == 0 and nv >= 2 and k % 8 == 4:
        # structure given at construction, parameters learned by fit() afterwards (the chain the XPC learner uses); trees rooted at
        # the first position of the scope included
        from harness import clt as CL
        preds = CL.all_pred_vectors(nv) if nv <= 4 else [[int(t) for t in S.rand_clt(rs, list(range(nv))).tree]]
        pred = preds[rs.randint(len(preds))]
        if rs.rand() < 0.5:
            pred = [p_ for p_ in preds if p_[0] == -1][rs.randint(len([p_ for p_ in preds if p_[0] == -1]))] if nv <= 4 else pred
        root = CL.make_fitted_clt(rs, [int(v) for v in rs.permutation(scope)], pred)
        ctx.count('clt-constructed-with-a-tree-then-fitted')
    elif mode == 0 and nv >= 2:
        root = S.rand_clt(rs, [int(v) for v in rs.permutation(scope)])      # a Chow-Liu tree used alone
    else:
        kinds = FAMILIES[rs.randint(len(FAMILIES))] if mode != 1 else ('bern',)
        root = S.rand_spn(rs, scope, depth=int(rs.randint(0, 5)), kinds=kinds, share=float(rs.choice([0.0, 0.3, 0.6])),
                          clt=(mode in (1, 2)))
    if isinstance(root, BinaryCLT) or not getattr(root, 'children', None):
        root.id = 0
    else:
        assign_ids(root)
    return root, ncols, rs


def batch(order, scope, ncols, rs, dom, n_pat, n_val):
    cont = {}
    for n in order:
        if S.is_continuous(n):
            cont.setdefault(n.scope[0], []).append(n)
    nv = len(scope)
    if 2 ** nv <= n_pat:
        pats = [tuple(bool(b) for b in bits) for bits in itertools.product([0, 1], repeat=nv)]
        all_pat = True
    else:
        pats = [tuple(bool(rs.rand() < 0.5) for _ in scope) for _ in range(n_pat)] + [tuple([True] * nv), tuple([False] * nv)]
        all_pat = False
    rows = []
    for p in pats:
        for _ in range(n_val):
            x = np.zeros(ncols, dtype=np.float32)
            for v, miss in zip(scope, p):
                if miss:
                    x[v] = np.nan
                elif v in cont:
                    x[v] = cont_value(rs, cont[v])
                else:
                    x[v] = rs.randint(dom[v])
            rows.append(x)
    # shuffle so that complete and incomplete rows are interleaved in one batch (CLT evi/mar mask split)
    idx = rs.permutation(len(rows))
    return np.array([rows[i] for i in idx], dtype=np.float32), all_pat


def brute_force_impl(root, x, order, dom, scope):
    """S-level oracle on the implementation: Σ over completions of its own complete-evidence likelihoods"""
    miss = [v for v in scope if np.isnan(x[v])]
    cont = {n.scope[0] for n in order if S.is_continuous(n)}
    if any(v in cont for v in miss) or np.prod([dom[v] for v in miss] or [1]) > 4096:
        return None
    rows = []
    for c in itertools.product(*[range(dom[v]) for v in miss]):
        y = x.copy()
        for v, val in zip(miss, c):
            y[v] = val
        rows.append(y)
    Y = np.array(rows, dtype=np.float32)
    ll = impl_ll(root, Y).astype(np.float64)
    return float(np.sum(np.exp(ll)))


def check_net(ctx, root, ncols, rs, n_pat, n_val, tag):
    floor = iso_floor()
    table, order, index, _ = S.export_net(root)
    dom = S.domain_of(order)
    scope = list(root.scope)
    X, all_pat = batch(order, scope, ncols, rs, dom, n_pat, n_val)
    replay = lambda rows: dict(kind='c02', table=table_with_py(table, order), ncols=ncols, rows=rows)
    try:
        ll = impl_ll(root, X)
    except Exception as ex:
        ctx.violation('c02-inference-raises', f'log_likelihood raised {type(ex).__name__}: {ex} on a valid model with NaN evidence',
                      replay=replay(np.where(np.isnan(X), None, X).tolist()))
        return
    drv = ctx.get_driver() if ctx.driver_ok else None
    nontriv = (len(table) > 1 or isinstance(root, BinaryCLT)) and len(scope) >= 2
    key = hashlib.sha256((json.dumps(table, sort_keys=True)).encode()).hexdigest()[:16]
    ctx.case(tag, nontrivial_key=key if nontriv else None,
             sample=dict(nodes=len(table), kinds=S.describe(order), scope=scope, rows=len(X), all_patterns=all_pat,
                         a_row=[None if np.isnan(t) else float(t) for t in X[0]]))
    ctx.count('nets')
    ctx.count('clt_alone' if isinstance(root, BinaryCLT) else 'spn')
    if drv:
        ans = drv.ask(dict(op='net', nodes=table, root=index[id(root)], dom=dom))
        if 'wellOrdered=true' not in ans:
            raise Infra(f'exported table not well-formed: {ans}')
    nvars = len(dom)
    small = np.prod([max(dom[v], 1) for v in scope]) <= 64 and not any(S.is_continuous(n) for n in order)
    for r, x in enumerate(X):
        ctx.count('rows')
        nmiss = int(np.sum(np.isnan(x[scope])))
        ctx.count(f'missing={min(nmiss, 5)}')
        if nmiss == len(scope) and abs(float(ll[r])) > 1e-4:
            ctx.violation('c02-all-missing', f'fully missing row has log-likelihood {float(ll[r])!r}, not 0',
                          replay=replay([[None] * ncols]))
            return
        bad = None
        if drv is not None and not near_edge(order, np.nan_to_num(x, nan=1e9)):
            row, dens = S.row_payload(order, x, nvars, floor)
            vals = [parse_q(t) for t in drv.ask(dict(op='eval', row=row, dens=dens)).split()]
            m = vals[index[id(root)]]
            if small and nmiss > 0 and r % 3 == 0:
                spec = parse_q(drv.ask(dict(op='margspec', row=row, dens=dens)))
                ctx.count('model_spec_instances')
                if spec == m:
                    ctx.count('model_spec_instances_exactly_equal')
                # equal exactly when the exported leaf tables sum to exactly one in Q (C02_marginal); float32 tables sum to 1 +- 1e-7
                if abs(float(spec) - float(m)) > 1e-5 * max(float(m), 1e-300):
                    raise Infra(f'model evalNet {m} != model sumOver spec {spec}: the theorem C02_marginal is contradicted by an instance')
            if not close_log(ll[r], m):
                bad = f'marginal log-likelihood {float(ll[r])!r} but the sum over completions of the circuit semantics is exp({qlog(m)!r})'
        if bad or drv is None:
            # failing-input search: the property's own statement evaluated on the implementation
            bf = brute_force_impl(root, x, order, dom, scope)
            xr = [None if np.isnan(t) else float(t) for t in x]
            if bf is not None:
                ok = abs(sexp(float(ll[r])) - bf) <= 1e-5 + 2e-4 * bf
                if not ok:
                    ctx.violation('c02-marginal-vs-completions',
                                  f'marginal likelihood {sexp(float(ll[r]))!r} != sum over completions of complete-evidence likelihoods {bf!r} at row {xr}',
                                  replay=replay([xr]))
                    return
            if bad:
                # failing-input search around the disagreeing row: mark one or two of its observed variables missing and evaluate the
                # property's own statement on the implementation
                obs = [v for v in scope if not np.isnan(x[v])]
                for sub in [(v,) for v in obs] + [(a, b) for i, a in enumerate(obs) for b in obs[i + 1:]][:40]:
                    y = x.copy()
                    for v in sub:
                        y[v] = np.nan
                    bf2 = brute_force_impl(root, y, order, dom, scope)
                    if bf2 is None:
                        continue
                    l2 = float(impl_ll(root, y[None, :])[0])
                    if abs(sexp(l2) - bf2) > 1e-5 + 2e-4 * bf2:
                        yr = [None if np.isnan(t) else float(t) for t in y]
                        ctx.violation('c02-marginal-vs-completions',
                                      f'marginal likelihood {sexp(l2)!r} != sum over completions of complete-evidence likelihoods {bf2!r} at row {yr}',
                                      replay=replay([yr]))
                        return
                ctx.violation('c02-model-disagrees', bad + f' at row {xr} (implementation is self-consistent on this row and its neighbours)',
                              replay=replay([xr]), found_input=False)
                return


def after_em(ctx, root, ncols, rs):
    """history: the parameters were updated by EM steps before the queries (a fitted / trained model is still a model)"""
    from deeprob.spn.learning.em import expectation_maximization
    order = S.children_first(root)[0]
    dom = S.domain_of(order)
    data = np.zeros((40, ncols), dtype=np.float32)
    for v in range(ncols):
        if v < len(dom) and dom[v] > 0:
            data[:, v] = rs.randint(dom[v], size=40)
    if isinstance(root, BinaryCLT):
        stats = rs.rand(40).astype(np.float32) + 0.1
        for _ in range(2):
            root.em_step(stats, data[:, root.scope], float(rs.choice([0.3, 0.9])))
    else:
        expectation_maximization(root, data, num_iter=2, batch_perc=0.5, step_size=float(rs.choice([0.3, 0.9])), random_init=False,
                                 random_state=int(rs.randint(1000)), verbose=False)


def extreme_clt_stream(ctx):
    """Chow-Liu trees whose evidence masses differ by hundreds of nats within ONE batch: wide trees (130..220 variables) and small
    trees with strongly peaked tables; rows with almost everything missing next to rows with almost everything observed. Reference:
    an independent log-domain recursion (harness/clt.py ref_clt_logvalue), row by row."""
    from harness import clt as CL
    quick = ctx.tier == 'quick'
    for k in range(10 if quick else 120):
        rs = np.random.RandomState(np_seed(ctx.sub_rng('extreme', k)))
        wide = (k % 2 == 0)
        n = int(rs.choice([130, 160, 220])) if wide else int(rs.randint(4, 8))
        hub = (k % 5 == 4)
        if hub:
            # a hub: one variable (not the root) with 30..60 children that copy it up to a few percent of noise; with the hub missing and
            # the children agreeing, the two messages of the hub differ by more than a hundred nats — in EITHER direction
            n = int(rs.choice([32, 45, 62]))
            pred = [-1, 0] + [1] * (n - 2)
            eps_ = rs.uniform(0.02, 0.05, size=n)
            params = np.zeros((n, 2, 2))
            params[:, 0, 1] = eps_; params[:, 0, 0] = 1 - eps_
            params[:, 1, 1] = 1 - eps_; params[:, 1, 0] = eps_
            params[0, :, 1] = 0.5; params[0, :, 0] = 0.5
            from deeprob.spn.structure.cltree import BinaryCLT as _CLT
            clt = _CLT(list(range(n)), root=0, tree=pred, params=np.log(params).tolist())
        else:
            clt, pred = CL.make_wide_clt(rs, n, peaked=not wide)
        clt.id = 0
        full = rs.randint(2, size=(6, n)).astype(np.float32)
        if hub:
            full[0::2, 2:] = 1.0; full[1::2, 2:] = 0.0
        X = full.copy()
        X[0, :] = np.nan                                   # nothing observed
        X[1, :] = np.nan; X[1, int(rs.randint(n))] = 1     # one variable observed
        X[2, int(rs.randint(n))] = np.nan                  # all but one observed
        X[3, rs.rand(n) < 0.5] = np.nan
        X[4, rs.rand(n) < 0.05] = np.nan
        if hub:
            X = full.copy()
            X[:, 1] = np.nan                               # the hub is missing in every row; its children all read 1 (even rows) / 0 (odd rows)
            X[2:4, 0] = np.nan
            X[4, 5:9] = np.nan
        # X[5] complete
        as_leaf = (k % 4 >= 2)
        if as_leaf:
            root = assign_ids(Product(children=[clt, Bernoulli(n, 0.3)]))
            XX = np.hstack([X, np.full((len(X), 1), np.nan, dtype=np.float32)])
        else:
            root, XX = clt, X
        lp = np.asarray(clt.params, dtype=np.float64)
        tag = ('hub' if hub else 'wide' if wide else 'peaked') + ('-as-leaf' if as_leaf else '-alone')
        ctx.case('extreme-clt', nontrivial_key=('extreme', k), sample=dict(stream='extreme-clt', kind=tag, variables=n) if k < 4 else None)
        ctx.count('extreme-clt:' + tag)
        rep = dict(kind='c02-extreme', pred=pred, params=lp.tolist(), rows=np.where(np.isnan(X), None, X).tolist(), as_leaf=as_leaf)
        try:
            ll = np.asarray(impl_ll(root, XX), dtype=np.float64).reshape(-1)
        except Exception as ex:
            ctx.violation('c02-inference-raises', f'log_likelihood raised {type(ex).__name__}: {ex} on a valid Chow-Liu tree over {n} variables', replay=rep)
            return
        for r in range(len(X)):
            row = [None if np.isnan(t) else int(t) for t in X[r]]
            ref = CL.ref_clt_logvalue(pred, lp, row)
            ctx.count('extreme-clt-rows')
            if abs(ll[r] - ref) > 2e-2 + 2e-4 * abs(ref):
                nmiss = sum(1 for t in row if t is None)
                ctx.violation('c02-marginal-vs-completions:extreme', f'{tag} tree over {n} variables, row with {nmiss} missing entries evaluated in a batch of {len(X)} rows: '
                                                                    f'log_likelihood {float(ll[r])!r} but the log of the sum over completions is {ref!r}',
                              replay=dict(rep, row_index=r))
                return


def run(ctx):
    n_nets = 400 if ctx.tier == 'quick' else 6000
    n_pat = 32 if ctx.tier == 'quick' else 64
    for k in range(n_nets):
        root, ncols, rs = gen_case(ctx, k)
        if k % 5 == 2 and all(isinstance(n, (Sum, Product, Bernoulli, BinaryCLT)) for n in S.children_first(root)[0]):
            try:
                after_em(ctx, root, ncols, rs)
                ctx.count('models-queried-after-EM-updates')
            except Exception as ex:
                ctx.count('em-did-not-run')
        check_net(ctx, root, ncols, rs, n_pat, 2 if ctx.tier == 'quick' else 3, f'net{k}')
        if ctx.n_new(with_input_only=True) >= 3:
            break


_run_core = run


def run(ctx):
    _run_core(ctx)
    if ctx.n_new(with_input_only=True) == 0:
        extreme_clt_stream(ctx)
    if ctx.n_new() == 0 and ctx.driver_ok:
        from harness.common import run_demo
        run_demo(ctx, 'demo_tr3.py', [1 + ctx.seed], 'c02-code-vs-generated-vs-model',
                 'inference / leaf likelihood code vs generated definitions vs model', env_extra=dict(DEMO_SECTIONS='a'))
        if ctx.n_new() == 0:
            run_demo(ctx, 'demo_graphio.py', [1 + ctx.seed], 'c02-message-passing-order-vs-model',
                     'compute_bfs_ordering and the array pass of message_passing against the model (order, messages, values)')
        if ctx.n_new() == 0:
            run_demo(ctx, 'demo_tr5clt.py', [1 + ctx.seed], 'c02-clt-loops-generated',
                     'BinaryCLT.message_passing: implementation = the LOOP generated from the source = fourth-wave definitions = model',
                     env_extra=dict(TR5_MAXN='4' if ctx.tier == 'quick' else '5'))
        if ctx.n_new() == 0:
            run_demo(ctx, 'demo_tr4.py', [1 + ctx.seed], 'c02-code-vs-generated-vs-model-4',
                     'BinaryCLT log_likelihood / mpe / message_passing / bfs order vs generated definitions vs model', env_extra=dict(DEMO_SECTIONS='b'))


def replay(rep):
    if rep['replay'].get('kind') == 'c02-extreme':
        from harness import clt as CL
        r = rep['replay']
        n = len(r['pred'])
        clt = BinaryCLT(list(range(n)), root=r['pred'].index(-1), tree=r['pred'], params=r['params'])
        clt.id = 0
        X = np.array([[np.nan if t is None else t for t in row] for row in r['rows']], dtype=np.float32)
        root, XX = (assign_ids(Product(children=[clt, Bernoulli(n, 0.3)])), np.hstack([X, np.full((len(X), 1), np.nan, dtype=np.float32)])) if r['as_leaf'] else (clt, X)
        ll = np.asarray(impl_ll(root, XX), dtype=np.float64).reshape(-1)
        ok = True
        for i in range(len(X)):
            ref = CL.ref_clt_logvalue(r['pred'], np.array(r['params']), [None if np.isnan(t) else int(t) for t in X[i]])
            print('row', i, 'log_likelihood', float(ll[i]), 'reference', ref)
            ok = ok and abs(ll[i] - ref) <= 2e-2 + 2e-4 * abs(ref)
        return bool(ok)
    if rep['replay'].get('kind') == 'demo':
        from harness.common import replay_demo
        return replay_demo(rep['replay'])
    r = rep['replay']
    root, order = build_from_table(r['table'])
    dom = S.domain_of(order)
    ok = True
    for row in r['rows']:
        x = np.array([np.nan if t is None else t for t in row], dtype=np.float32)
        ll = float(impl_ll(root, x[None, :])[0])
        bf = brute_force_impl(root, x, order, dom, list(root.scope))
        print('row', row, 'marginal', sexp(ll), 'sum over completions', bf)
        if bf is not None and abs(sexp(ll) - bf) > 1e-5 + 2e-4 * bf:
            ok = False
    return ok
