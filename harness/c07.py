"""C07 — conditional sampling draws from the exact conditional distribution and fills only missing entries."""
import itertools, json, hashlib, math
import numpy as np
import scipy.stats as ss
from harness.common import np_seed, Infra, parse_q, fstr, frac
from harness import spn as S
from harness import histories as Hist
from harness import clt as C
from harness.build import build_from_table, table_with_py
from harness.c01 import FAMILIES, iso_floor
from harness.c06 import random_evidence, basic_contract

from deeprob.spn.structure.node import Sum, Product, assign_ids
from deeprob.spn.structure.leaf import Bernoulli, Categorical, Gaussian, Uniform, Isotonic
from deeprob.spn.structure.cltree import BinaryCLT
from deeprob.spn.algorithms.sampling import sample
from deeprob.spn.algorithms.inference import log_likelihood

FWER = 1e-9


def hoeffding_eps(n, m_pairs):
    return math.sqrt(math.log(2.0 * m_pairs / FWER) / (2.0 * n))


def leaf_cdf(n, t):
    t = float(t)
    if isinstance(n, Gaussian):
        return 0.5 * (1.0 + math.erf((t - float(n.mean)) / (float(n.stddev) * math.sqrt(2.0))))
    if isinstance(n, Uniform):
        return min(1.0, max(0.0, (t - float(n.start)) / float(n.width)))
    if isinstance(n, Isotonic):
        b, pdf = S.iso_pdf_table(n)
        acc = 0.0
        for i in range(len(pdf)):
            if t >= b[i + 1]:
                acc += pdf[i] * (b[i + 1] - b[i])
            elif t > b[i]:
                acc += pdf[i] * (t - b[i])
        return min(1.0, acc)
    raise Infra('leaf_cdf')


class Budget:
    """all (case, outcome) pairs of a run share one family-wise error level"""
    def __init__(self, n_draws, m_pairs):
        self.n, self.m = n_draws, m_pairs
        self.eps = hoeffding_eps(n_draws, m_pairs)
        self.used = 0
        self.worst = 0.0


def discrete_case(ctx, k, bud):
    rs = np.random.RandomState(np_seed(ctx.sub_rng('net', k)))
    nv = int(rs.randint(1, 5))
    ncols = nv + int(rs.randint(0, 2))
    scope = sorted(int(v) for v in rs.choice(ncols, nv, replace=False))
    with_history = (k % 3 == 1)
    root = S.rand_spn(rs, scope, depth=int(rs.randint(1, 4)), kinds=('bern', 'cat'), share=float(rs.choice([0.0, 0.4])), clt=False,
                      same_categories=({} if with_history else None), no_repeat=with_history)
    if not getattr(root, 'children', None):
        root = Sum(scope=list(root.scope), children=[root, S.rand_leaf(rs, root.scope[0], ('cat',))], weights=np.array([0.3, 0.7], dtype=np.float32))
    if k % 5 == 4 and not with_history:
        # a leaf / sub-circuit that is a child of SEVERAL product nodes, listed first, second or last (region-graph shapes: products of one
        # layer sharing factors), each product with private factors of its own
        nv, ncols = 3, 3 + int(rs.randint(0, 2))
        scope = sorted(int(v) for v in rs.choice(ncols, nv, replace=False))
        sh = S.rand_leaf(rs, scope[0], ('bern',)) if rs.rand() < 0.5 else \
            Sum(children=[S.rand_leaf(rs, scope[0], ('bern',)), S.rand_leaf(rs, scope[0], ('bern',))], weights=np.array([0.35, 0.65], dtype=np.float32))
        prods = []
        for j in range(int(rs.randint(2, 5))):
            priv = [S.rand_leaf(rs, scope[1], ('bern', 'cat')), S.rand_leaf(rs, scope[2], ('bern',))]
            pos = int(rs.randint(0, 3))
            prods.append(Product(children=priv[:pos] + [sh] + priv[pos:]))
        w = rs.dirichlet(np.ones(len(prods))).astype(np.float32)
        root = Sum(children=prods, weights=(w / w.sum()).astype(np.float32))
        ctx.count('circuits-with-a-factor-shared-by-several-products')
    assign_ids(root)
    hist = None
    if with_history:
        # the circuit went through earlier calls of the session (queries that may fill caches, EM updates, re-weighting, prune, save/load)
        t0, o0, _, _ = S.export_net(root)
        root, steps = Hist.apply_history(rs, root, ncols, int(rs.randint(2, 4)), count=ctx.count,
                                         kinds=['query', 'em', 'em', 'em-step-direct', 'reassign-weights', 'prune-inplace', 'saveload', 'pickle'],
                                         first=['query:sample', 'query:mpe', 'query:sample'])
        if not getattr(root, 'children', None):
            return
        assign_ids(root)
        scope = sorted(int(v) for v in root.scope)
        hist = dict(table0=table_with_py(t0, o0), steps=steps)
        ctx.count('circuits-sampled-after-a-history')
    table, order, index, _ = S.export_net(root)
    dom = S.domain_of(order)
    ev = random_evidence(rs, scope, order, dom, ncols, 1)[0]
    for v in range(ncols):
        if v not in scope:
            ev[v] = np.nan
    miss = [v for v in scope if np.isnan(ev[v])]
    if not miss:
        ev[scope[0]] = np.nan
        miss = [scope[0]]
    n_out = int(np.prod([dom[v] for v in miss]))
    if n_out > 256:
        return
    key = hashlib.sha256(json.dumps(table, sort_keys=True).encode()).hexdigest()[:16]
    arity = max([len(e.get('ch', [])) for e in table if e['kind'] == 'sum'] or [0])
    ctx.case('discrete', nontrivial_key=(key, tuple(np.where(np.isnan(ev), -1, ev).tolist())),
             sample=dict(nodes=len(table), kinds=S.describe(order), evidence=[None if np.isnan(t) else float(t) for t in ev], outcomes=n_out,
                         max_sum_arity=arity))
    ctx.count(f'sum-arity={min(arity, 5)}')
    rep = dict(kind='c07', table=table_with_py(table, order), evidence=[None if np.isnan(t) else float(t) for t in ev],
               seed=int(rs.randint(2 ** 31 - 1)), n=bud.n, **(dict(history=hist) if hist else {}))
    X = np.repeat(ev[None, :], bud.n, axis=0)
    np.random.seed(rep['seed'])
    try:
        Y = sample(root, X)
    except Exception as ex:
        ctx.violation('c07-sample-raises', f'sample raised {type(ex).__name__}: {ex}', replay=rep)
        return
    msg = basic_contract(X[:2000], Y[:2000], scope, order)
    if msg:
        ctx.violation('c07-contract', 'sample: ' + msg, replay=rep)
        return
    # empirical law of the filled entries
    codes = np.zeros(bud.n, dtype=np.int64)
    for v in miss:
        codes = codes * dom[v] + Y[:, v].astype(np.int64)
    emp = np.bincount(codes, minlength=n_out) / bud.n
    # exact conditional pmf: from the model (exact rationals) when available, else from the implementation's own likelihoods
    exact = np.zeros(n_out)
    if ctx.driver_ok:
        drv = ctx.get_driver()
        drv.ask(dict(op='net', nodes=table, root=index[id(root)], dom=dom))
        row, _ = S.row_payload(order, ev, len(dom))
        bern = [i for i, n in enumerate(order) if isinstance(n, Bernoulli)]
        ans = drv.ask(dict(op='pmf', row=row, bern=bern))
        if ans in ('pmf-mismatch',):
            raise Infra('model: topDownPmf differs from eval x / eval e (theorem topDownPmf_exact contradicted)')
        if ans == 'zero-evidence':
            return
        for item in ans.split():
            keyv, q = item.split(':')
            digits = keyv.split(',') if ',' in keyv else list(keyv)
            code = 0
            for v in miss:
                code = code * dom[v] + int(digits[v])
            exact[code] = float(parse_q(q))
    else:
        combos = list(itertools.product(*[range(dom[v]) for v in miss]))
        Z = np.repeat(ev[None, :], len(combos), axis=0)
        for r, c in enumerate(combos):
            for v, val in zip(miss, c):
                Z[r, v] = val
        l = np.exp(np.asarray(log_likelihood(root, Z), dtype=np.float64).reshape(-1))
        exact = l / l.sum()
    dev = np.abs(emp - exact)
    bud.used += n_out
    bud.worst = max(bud.worst, float(dev.max()))
    if float(dev.max()) > bud.eps:
        o = int(np.argmax(dev))
        ctx.violation('c07-law', f'sampled frequency {emp[o]:.4f} of an outcome whose exact conditional probability is {exact[o]:.4f} '
                                 f'(N={bud.n}, bound {bud.eps:.4f} at family-wise level {FWER}); max sum arity {arity}'
                                 + (f' [after the session history {Hist.brief(hist["steps"])}]' if hist else ''), replay=rep)


def continuous_case(ctx, k, bud):
    """contract + DKW band for one continuous variable given evidence, conditional cdf from the model"""
    rs = np.random.RandomState(np_seed(ctx.sub_rng('cont', k)))
    nv = int(rs.randint(1, 4))
    scope = list(range(nv))
    kinds = [('gauss',), ('unif',), ('iso',), ('bern', 'gauss'), ('cat', 'iso', 'unif')][k % 5]
    root = S.rand_spn(rs, scope, depth=int(rs.randint(1, 4)), kinds=kinds, share=0.3, clt=False)
    if not getattr(root, 'children', None):
        return
    assign_ids(root)
    table, order, index, _ = S.export_net(root)
    dom = S.domain_of(order)
    cont_vars = sorted({n.scope[0] for n in order if S.is_continuous(n)})
    if not cont_vars:
        return
    target = cont_vars[rs.randint(len(cont_vars))]
    ev = random_evidence(rs, scope, order, dom, nv, 1)[0]
    ev[target] = np.nan
    if float(np.asarray(log_likelihood(root, ev[None, :])).reshape(-1)[0]) < -50:
        return
    ctx.case('continuous', nontrivial_key=('cont', k), sample=dict(kinds=S.describe(order), evidence=[None if np.isnan(t) else float(t) for t in ev], target=target))
    ctx.count('continuous-cases')
    rep = dict(kind='c07', table=table_with_py(table, order), evidence=[None if np.isnan(t) else float(t) for t in ev],
               seed=int(rs.randint(2 ** 31 - 1)), n=bud.n)
    X = np.repeat(ev[None, :], bud.n, axis=0)
    np.random.seed(rep['seed'])
    try:
        Y = sample(root, X)
    except Exception as ex:
        ctx.violation('c07-sample-raises', f'sample raised {type(ex).__name__}: {ex}', replay=rep)
        return
    msg = basic_contract(X[:2000], Y[:2000], scope, order)
    if msg:
        ctx.violation('c07-contract', 'sample: ' + msg, replay=rep)
        return
    from harness.c06 import double_precision_evidence_kept
    Xd = random_evidence(rs, scope, order, dom, nv, 6)
    if not double_precision_evidence_kept(ctx, root, Xd, scope, order, dict(rep, kind='c07-float64'), fn=sample, name='sample'):
        return
    if not ctx.driver_ok:
        return
    drv = ctx.get_driver()
    drv.ask(dict(op='net', nodes=table, root=index[id(root)], dom=dom))
    floor = iso_floor()
    row, dens = S.row_payload(order, ev, len(dom), floor)
    den = [parse_q(t) for t in drv.ask(dict(op='eval', row=row, dens=dens)).split()][index[id(root)]]
    ys = np.sort(Y[:, target].astype(np.float64))
    grid = [float(ys[int(q * (bud.n - 1))]) for q in (0.05, 0.2, 0.35, 0.5, 0.65, 0.8, 0.95)]
    eps = math.sqrt(math.log(2.0 * bud.m / FWER) / (2.0 * bud.n))
    for t in grid:
        # conditional cdf at t: replace the density of every leaf over `target` by its cdf value (linearity in that leaf)
        row2 = list(row)
        row2[target] = 0
        dens2 = dict(dens)
        for i, n in enumerate(order):
            if S.is_continuous(n) and n.scope[0] == target:
                dens2[str(i)] = fstr(frac(leaf_cdf(n, t)))
        num = [parse_q(x) for x in drv.ask(dict(op='eval', row=row2, dens=dens2)).split()][index[id(root)]]
        F = float(num / den)
        Femp = float(np.searchsorted(ys, t, side='right')) / bud.n
        bud.used += 1
        bud.worst = max(bud.worst, abs(F - Femp))
        if abs(F - Femp) > eps + 1e-6:
            ctx.violation('c07-law-continuous', f'empirical cdf {Femp:.4f} vs exact conditional cdf {F:.4f} of variable {target} at t={t:.4f} '
                                                f'(N={bud.n}, band {eps:.4f})', replay=rep)
            return


def clt_case(ctx, rs, scope, pred, bud, tag):
    clt = C.make_clt(rs, scope, pred)
    n = len(scope)
    ncols = max(scope) + 1
    ev = np.array([np.nan if rs.rand() < 0.6 else float(rs.randint(2)) for _ in range(n)], dtype=np.float32)
    if not np.any(np.isnan(ev)):
        ev[rs.randint(n)] = np.nan
    miss = [j for j in range(n) if np.isnan(ev[j])]
    rep = dict(kind='c07-clt', scope=[int(v) for v in scope], pred=list(pred), params=np.asarray(clt.params, dtype=np.float64).tolist(),
               evidence=[None if np.isnan(t) else float(t) for t in ev], seed=int(rs.randint(2 ** 31 - 1)), n=bud.n)
    ctx.case(tag, nontrivial_key=('clt', tuple(pred), tuple(scope), tuple(rep['evidence'])) if n >= 2 else None,
             sample=dict(scope=list(map(int, scope)), pred=list(pred), evidence=rep['evidence']))
    ctx.count('clt-cases')
    # which observed variables sit above / below a missing one
    X = np.repeat(ev[None, :], bud.n, axis=0)
    calls = []
    orig = ss.bernoulli.rvs

    def spy(p, *a, **kw):
        calls.append(np.array(p, dtype=np.float64, copy=True))
        return orig(p, *a, **kw)
    np.random.seed(rep['seed'])
    ss.bernoulli.rvs = spy
    try:
        try:
            Y = clt.sample(X)
        finally:
            ss.bernoulli.rvs = orig
    except Exception as ex:
        ctx.violation('c07-clt-sample-raises', f'BinaryCLT.sample raised {type(ex).__name__}: {ex}', replay=rep)
        return
    obs = ~np.isnan(X)
    if not np.array_equal(X[obs], Y[obs]) or np.any(np.isnan(Y)) or not np.all(np.isin(Y, [0.0, 1.0])):
        ctx.violation('c07-clt-contract', 'BinaryCLT.sample changed an observed entry or left / wrote a non-binary value', replay=rep)
        return
    # (a) law at the API: exact conditional from the implementation's own likelihood (and the model when available)
    combos = list(itertools.product([0, 1], repeat=len(miss)))
    Z = np.repeat(ev[None, :], len(combos), axis=0)
    for r, c in enumerate(combos):
        for j, val in zip(miss, c):
            Z[r, j] = val
    l = np.exp(np.asarray(clt.log_likelihood(Z), dtype=np.float64).reshape(-1))
    exact = l / l.sum()
    codes = np.zeros(bud.n, dtype=np.int64)
    for j in miss:
        codes = codes * 2 + Y[:, j].astype(np.int64)
    emp = np.bincount(codes, minlength=len(combos)) / bud.n
    dev = np.abs(emp - exact)
    bud.used += len(combos)
    bud.worst = max(bud.worst, float(dev.max()))
    if float(dev.max()) > bud.eps:
        o = int(np.argmax(dev))
        ctx.violation('c07-clt-law', f'CLT sampler: frequency {emp[o]:.4f} of completion {combos[o]} of the missing variables {[scope[j] for j in miss]}, exact conditional '
                                     f'{exact[o]:.4f} (N={bud.n}, bound {bud.eps:.4f})', replay=rep)
        return
    # (a') one batch whose rows have the SAME observed columns but DIFFERENT observed values: every row must be completed from the
    # conditional given ITS values (two groups, each checked against its own exact conditional)
    obs_idx = [j for j in range(n) if not np.isnan(ev[j])]
    if obs_idx and n >= 2:
        ev2 = ev.copy()
        flip = obs_idx[rs.randint(len(obs_idx))]
        ev2[flip] = 1.0 - ev2[flip]
        half = bud.n // 2
        XX = np.vstack([np.repeat(ev[None, :], half, axis=0), np.repeat(ev2[None, :], half, axis=0)])
        XX = XX[rs.permutation(len(XX))]
        grp2 = XX[:, flip] == ev2[flip]
        np.random.seed(rep['seed'] + 1)
        try:
            YY = clt.sample(XX)
        except Exception as ex:
            ctx.violation('c07-clt-sample-raises', f'BinaryCLT.sample raised {type(ex).__name__}: {ex} on a batch of two evidence vectors', replay=rep)
            return
        ctx.count('clt-two-group-batches')
        eps2 = math.sqrt(math.log(2.0 * bud.m / FWER) / (2.0 * half))
        for gname, gmask, gev in (('first', ~grp2, ev), ('second', grp2, ev2)):
            Zg = np.repeat(gev[None, :], len(combos), axis=0)
            for r_, c_ in enumerate(combos):
                for j, val in zip(miss, c_):
                    Zg[r_, j] = val
            lg = np.exp(np.asarray(clt.log_likelihood(Zg), dtype=np.float64).reshape(-1))
            if lg.sum() <= 0:
                continue
            exg = lg / lg.sum()
            cg = np.zeros(int(gmask.sum()), dtype=np.int64)
            for j in miss:
                cg = cg * 2 + YY[gmask][:, j].astype(np.int64)
            empg = np.bincount(cg, minlength=len(combos)) / max(int(gmask.sum()), 1)
            bud.used += len(combos)
            if float(np.abs(empg - exg).max()) > eps2:
                o = int(np.argmax(np.abs(empg - exg)))
                ctx.violation('c07-clt-law:two-groups', f'CLT sampler on a batch of two evidence vectors with the same observed columns: in the {gname} group the completion '
                                                        f'{combos[o]} of {[scope[j] for j in miss]} has frequency {empg[o]:.4f}, exact conditional given that group\'s evidence '
                                                        f'{exg[o]:.4f} (N={int(gmask.sum())}, bound {eps2:.4f})',
                              replay=dict(rep, evidence2=[None if np.isnan(t) else float(t) for t in ev2]))
                return
    # (b) draw parameters vs the model's exact local conditionals (1e-5), if the call shape is as expected
    if not ctx.driver_ok:
        return
    bfs = [int(b) for b in clt.bfs]
    expected = [j for j in bfs if np.isnan(ev[j])]
    if len(calls) != n or any(len(c) != (bud.n if np.isnan(ev[j]) else 0) for c, j in zip(calls, bfs)):
        ctx.count('bernoulli-interception-shape-mismatch')
        return
    drv = ctx.get_driver()
    pay = C.clt_payload(clt)
    row = [None] * ncols
    for j, v in enumerate(scope):
        if not np.isnan(ev[j]):
            row[v] = int(ev[j])
    seen = set()
    for r in range(min(bud.n, 400)):
        comp = tuple(int(Y[r, j]) for j in range(n))
        if comp in seen:
            continue
        seen.add(comp)
        x = [0] * ncols
        for j, v in enumerate(scope):
            x[v] = comp[j]
        ans = drv.ask(dict(op='clt_cond', row=row, x=x, **pay))
        items, pmf = ans.split(' | pmf=')
        model = {int(t.split(':')[0]): parse_q(t.split(':')[1]) for t in items.split()}
        for c, j in zip(calls, bfs):
            if np.isnan(ev[j]):
                ctx.count('bernoulli-parameters-compared')
                if abs(float(c[r]) - float(model[j])) > 1e-5:
                    ctx.violation('c07-clt-parameter', f'CLT sampler draws variable {scope[j]} with Bernoulli parameter {float(c[r]):.6f}; the exact conditional '
                                                       f'given the evidence and the parent value is {float(model[j]):.6f}', replay=rep)
                    return


def wide_mixture_case(ctx, k):
    """one batch mixing rows with heavy evidence (hundreds of observed variables: log-likelihoods around -200) and rows with no
    evidence at all: the branch of a sum node must be drawn from the posterior of ITS row, whatever else is in the batch"""
    rs = np.random.RandomState(np_seed(ctx.sub_rng('wide', k)))
    nv = int(rs.choice([200, 300]))
    nc = int(rs.randint(2, 5))
    P = rs.uniform(0.15, 0.85, size=(nc, nv))
    comps = [Product(children=[Bernoulli(v, float(P[c, v])) for v in range(nv)]) for c in range(nc)]
    w = rs.dirichlet(np.ones(nc)).astype(np.float32)
    root = assign_ids(Sum(children=comps, weights=(w / w.sum()).astype(np.float32)))
    target = int(rs.randint(nv))
    ev = (rs.rand(nv) < P[int(rs.randint(nc))]).astype(np.float32)       # typical for one component
    ev[target] = np.nan
    n_heavy, n_light = 6000, 6000
    X = np.vstack([np.repeat(ev[None, :], n_heavy, axis=0), np.full((n_light, nv), np.nan, dtype=np.float32)])
    X = X[rs.permutation(len(X))]
    heavy = ~np.isnan(X[:, (target + 1) % nv])
    seed = int(rs.randint(2 ** 31 - 1))
    rep = dict(kind='c07-wide', k=k, seed=ctx.seed)
    ctx.case('wide-mixture', nontrivial_key=('wide', k), sample=dict(stream='wide-mixture', variables=nv, components=nc, rows=len(X)))
    ctx.count('wide-mixture-cases')
    np.random.seed(seed)
    try:
        Y = sample(root, X)
    except Exception as ex:
        ctx.violation('c07-sample-raises', f'sample raised {type(ex).__name__}: {ex} on a mixed batch', replay=rep)
        return
    # exact posterior of the components given the heavy evidence, in the log domain (float64)
    obs = [v for v in range(nv) if v != target]
    lw = np.log(np.asarray(root.weights, dtype=np.float64)) + np.array([sum(math.log(P[c, v] if ev[v] == 1 else 1 - P[c, v]) for v in obs) for c in range(nc)])
    post = np.exp(lw - np.max(lw)); post /= post.sum()
    exact_heavy = float(np.dot(post, P[:, target]))
    exact_light = float(np.dot(np.asarray(root.weights, dtype=np.float64), P[:, target]))
    eps = math.sqrt(math.log(2.0 * 1e4 / FWER) / (2.0 * n_heavy))
    for name, mask, exact in (('heavy-evidence rows', heavy, exact_heavy), ('rows without evidence', ~heavy, exact_light)):
        f = float(np.mean(Y[mask, target]))
        if abs(f - exact) > eps:
            ctx.violation('c07-law:mixed-batch', f'{name} of a mixed batch ({nv} variables, evidence log-likelihood about {float(np.max(lw)):.0f}): sampled frequency of '
                                                 f'X{target}=1 is {f:.4f}, exact conditional probability {exact:.4f} (N={int(mask.sum())}, bound {eps:.4f})', replay=rep)
            return
    if np.isnan(Y).any() or not np.array_equal(Y[heavy][:, obs], X[heavy][:, obs]):
        ctx.violation('c07-contract', 'sample on a mixed batch left entries unfilled or changed evidence', replay=rep)


def zero_weight_case(ctx, k):
    """a mixture with a component of weight EXACTLY zero (what EM or a user's pruning of a mixture leaves behind) and evidence that
    this dead component explains far better than the live ones (seven observed near-deterministic variables, or a Gaussian several
    sigma away): the exact conditional gives the dead component probability 0, whatever the evidence — no sample may follow it"""
    rs = np.random.RandomState(np_seed(ctx.sub_rng('zero-weight', k)))
    gauss = (k % 2 == 1)
    if gauss:
        live = [Product(children=[Gaussian(0, float(rs.uniform(-1, 1)), 1.0), Bernoulli(1, float(rs.uniform(0.05, 0.3)))]) for _ in range(2)]
        dead = Product(children=[Gaussian(0, 9.0, 1.0), Bernoulli(1, 0.95)])
        ev = [9.0, None]
        target, p_dead = 1, 0.95
    else:
        nb = 8
        live = [Product(children=[Bernoulli(v, float(rs.uniform(0.02, 0.08))) for v in range(nb - 1)] + [Bernoulli(nb - 1, float(rs.uniform(0.1, 0.4)))]) for _ in range(2)]
        dead = Product(children=[Bernoulli(v, 0.97) for v in range(nb - 1)] + [Bernoulli(nb - 1, 0.9)])
        ev = [1.0] * (nb - 1) + [None]
        target, p_dead = nb - 1, 0.9
    pos = int(rs.randint(0, 3))
    ch = live[:pos] + [dead] + live[pos:]
    wl = rs.dirichlet(np.ones(2))
    w = list(wl[:pos]) + [0.0] + list(wl[pos:])
    root = assign_ids(Sum(children=ch, weights=np.array(w, dtype=np.float32)))
    n = 4000
    X = np.repeat(np.array([[np.nan if t is None else t for t in ev]], dtype=np.float32), n, axis=0)
    # exact conditional of the target variable given the evidence: mixture of the LIVE components, weighted by weight x evidence likelihood
    import math as _m
    num = den = 0.0
    for c, wi in zip(ch, w):
        if wi == 0.0:
            continue
        le = 1.0
        for lf in c.children:
            v = lf.scope[0]
            if ev[v] is None:
                continue
            le *= (_m.exp(-0.5 * (ev[v] - lf.mean) ** 2) / _m.sqrt(2 * _m.pi)) if isinstance(lf, Gaussian) else (float(lf.p) if ev[v] == 1.0 else 1.0 - float(lf.p))
        pt = [float(lf.p) for lf in c.children if lf.scope[0] == target][0]
        num += wi * le * pt
        den += wi * le
    exact = num / den
    ctx.count('zero-weight-mixtures')
    ctx.case('zero-weight', nontrivial_key=('zero-weight', k), sample=dict(gaussian_evidence=gauss, dead_child_position=pos))
    rep = dict(kind='c07-zero-weight', k=k, seed=ctx.seed)
    np.random.seed(int(rs.randint(2 ** 31 - 1)))
    try:
        Y = sample(root, X)
    except Exception as ex:
        ctx.violation(f'c07-raises:{type(ex).__name__}', f'sample raised {type(ex).__name__}: {str(ex)[:160]} on a mixture with a zero-weight component', replay=rep)
        return
    f = float(np.mean(Y[:, target]))
    eps = _m.sqrt(_m.log(2.0 * 64 / 1e-9) / (2.0 * n))
    if abs(f - exact) > eps:
        ctx.violation('c07-zero-weight', f'mixture with a component of weight exactly 0 that explains the evidence {ev} best: sampled frequency of x{target}=1 is {f:.4f}, '
                      f'the exact conditional (live components only) gives {exact:.4f} (the dead component would give {p_dead}); N={n}, bound {eps:.4f}', replay=rep)


def run(ctx):
    quick = ctx.tier == 'quick'
    n_draws = 200000 if quick else 1000000
    n_disc, n_cont, n_clt = (30, 10, 30) if quick else (400, 100, 400)
    bud = Budget(n_draws, m_pairs=(n_disc + 3 * n_clt) * 64 + n_cont * 7)
    ctx.extra['hoeffding_bound'] = bud.eps
    ctx.extra['family_wise_error_level'] = FWER
    for k in range(n_disc):
        discrete_case(ctx, k, bud)
        if ctx.n_new(with_input_only=True) >= 3:
            break
    for k in range(n_cont):
        continuous_case(ctx, k, bud)
        if ctx.n_new(with_input_only=True) >= 3:
            break
    for k in range(2 if quick else 20):
        wide_mixture_case(ctx, k)
        if ctx.n_new(with_input_only=True) >= 3:
            break
    for k in range(4 if quick else 40):
        zero_weight_case(ctx, k)
        if ctx.n_new(with_input_only=True) >= 3:
            break
    preds = [p for n in range(2, 5) for p in C.all_pred_vectors(n)]
    for k in range(n_clt):
        rs = np.random.RandomState(np_seed(ctx.sub_rng('clt', k)))
        if k % 3 == 2:
            n = int(rs.randint(5, 8))
            pred = [int(t) for t in S.rand_clt(rs, list(range(n))).tree]
        else:
            pred = preds[rs.randint(len(preds))]
            n = len(pred)
        scope = [int(v) for v in rs.choice(n + 2, n, replace=False)]
        clt_case(ctx, rs, scope, pred, bud, 'clt')
        if ctx.n_new(with_input_only=True) >= 3:
            break
    ctx.extra['pairs_used'] = bud.used
    ctx.extra['worst_deviation'] = bud.worst
    if bud.used > bud.m:
        raise Infra('more (case, outcome) pairs than budgeted for the union bound')


_run_core = run


def run(ctx):
    _run_core(ctx)
    if ctx.n_new() == 0 and ctx.driver_ok:
        from harness.common import run_demo
        if ctx.n_new() == 0:
            run_demo(ctx, 'demo_leaves.py', [20260929 + ctx.seed], 'c07-leaf-samplers-vs-model',
                     'leaf samplers (inverse transform) and cdfs against the exact leaf theory (LeafQ)')
        if ctx.n_new() == 0:
            run_demo(ctx, 'demo_tr5clt.py', [1 + ctx.seed], 'c07-clt-sample-loop-law',
                     'BinaryCLT.sample: the Bernoulli parameters the implementation draws with = the law of the LOOP generated from the source '
                     '= value(completed row) / value(evidence) of the model', env_extra=dict(DEMO_SECTIONS='c', TR5_MAXN='4'))
        if ctx.n_new() == 0:
            run_demo(ctx, 'demo_tr4.py', [1 + ctx.seed], 'c07-code-vs-generated-vs-model-4',
                     'sum_sample branch law vs generated entry vs model', env_extra=dict(DEMO_SECTIONS='g'))


def replay(rep):
    if rep['replay'].get('kind') == 'c07-zero-weight':
        from harness.common import Ctx
        ctx = Ctx('C07', 'quick', rep['replay']['seed'])
        ctx.driver_ok = False
        zero_weight_case(ctx, rep['replay']['k'])
        for v in ctx.violations:
            print('  ', v['what'][:300])
        return not ctx.violations
    if rep['replay'].get('kind') == 'c07-wide':
        from harness.common import Ctx
        ctx = Ctx('C07', 'quick', rep['replay']['seed'])
        ctx.driver_ok = False
        wide_mixture_case(ctx, rep['replay']['k'])
        for v in ctx.violations:
            print('  ', v['what'][:300])
        return not ctx.violations
    if rep['replay'].get('kind') == 'c07-float64':
        from harness.c06 import replay_float64
        return replay_float64(rep['replay'], sample)
    if rep['replay'].get('kind') == 'demo':
        from harness.common import replay_demo
        return replay_demo(rep['replay'])
    r = rep['replay']
    n = r['n']
    if r['kind'] == 'c07-clt':
        clt = BinaryCLT(r['scope'], root=r['scope'][r['pred'].index(-1)], tree=r['pred'], params=np.array(r['params'], dtype=np.float32))
        ev = np.array([np.nan if t is None else t for t in r['evidence']], dtype=np.float32)
        miss = [j for j in range(len(ev)) if np.isnan(ev[j])]
        np.random.seed(r['seed'])
        Y = clt.sample(np.repeat(ev[None, :], n, axis=0))
        combos = list(itertools.product([0, 1], repeat=len(miss)))
        Z = np.repeat(ev[None, :], len(combos), axis=0)
        for i, c in enumerate(combos):
            for j, val in zip(miss, c):
                Z[i, j] = val
        l = np.exp(np.asarray(clt.log_likelihood(Z), dtype=np.float64).reshape(-1))
        exact = l / l.sum()
        codes = np.zeros(n, dtype=np.int64)
        for j in miss:
            codes = codes * 2 + Y[:, j].astype(np.int64)
        emp = np.bincount(codes, minlength=len(combos)) / n
        print('exact', exact.round(4).tolist(), 'sampled', emp.round(4).tolist())
        return float(np.abs(emp - exact).max()) <= hoeffding_eps(n, 10000)
    root, order = build_from_table(r['table'])
    if r.get('history'):
        root, _ = build_from_table(r['history']['table0'])
        root = Hist.replay_history(root, r['history']['steps'])
        assign_ids(root)
        order = S.export_net(root)[1]
    ev = np.array([np.nan if t is None else t for t in r['evidence']], dtype=np.float32)
    dom = S.domain_of(order)
    miss = [v for v in root.scope if np.isnan(ev[v])]
    if any(S.is_continuous(x) and x.scope[0] in miss for x in order):
        print('continuous target: replay by rerunning the check')
        return True
    np.random.seed(r['seed'])
    Y = sample(root, np.repeat(ev[None, :], n, axis=0))
    combos = list(itertools.product(*[range(dom[v]) for v in miss]))
    Z = np.repeat(ev[None, :], len(combos), axis=0)
    for i, c in enumerate(combos):
        for v, val in zip(miss, c):
            Z[i, v] = val
    l = np.exp(np.asarray(log_likelihood(root, Z), dtype=np.float64).reshape(-1))
    exact = l / l.sum()
    codes = np.zeros(n, dtype=np.int64)
    for v in miss:
        codes = codes * dom[v] + Y[:, v].astype(np.int64)
    emp = np.bincount(codes, minlength=len(combos)) / n
    print('exact', exact.round(4).tolist(), 'sampled', emp.round(4).tolist())
    return float(np.abs(emp - exact).max()) <= hoeffding_eps(n, 10000)
