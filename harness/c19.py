"""C19 — moment queries return exact moments; derived statistics equal their textbook definitions."""
import json, hashlib, math
from fractions import Fraction
import numpy as np
from harness.common import np_seed, Infra, parse_q, fstr, frac
from harness import spn as S
from harness.build import build_from_table, table_with_py

from deeprob.spn.structure.node import Sum, Product, assign_ids
from deeprob.spn.structure.leaf import Bernoulli, Categorical, Gaussian, Uniform, Isotonic
from deeprob.spn.algorithms import moments as M

KINDS = [('bern',), ('cat',), ('bern', 'cat'), ('gauss',), ('unif',), ('iso',), ('bern', 'cat', 'gauss', 'unif', 'iso')]


def leaf_raw_moment(n, k):
    """closed-form raw moment E[X^k] of a leaf (independent of SciPy), as a float computed in high precision"""
    if isinstance(n, Bernoulli):
        return Fraction(float(n.p)) if k > 0 else Fraction(1)
    if isinstance(n, Categorical):
        return sum(Fraction(float(p)) * Fraction(int(c)) ** k for c, p in zip(n.categories, n.probabilities))
    if isinstance(n, Gaussian):
        mu, s = Fraction(float(n.mean)), Fraction(float(n.stddev))
        # E[X^k] = sum_j C(k,2j) mu^(k-2j) s^(2j) (2j-1)!!
        tot = Fraction(0)
        for j in range(0, k // 2 + 1):
            dfact = 1
            for t in range(1, 2 * j, 2):
                dfact *= t
            tot += math.comb(k, 2 * j) * mu ** (k - 2 * j) * s ** (2 * j) * dfact
        return tot
    if isinstance(n, Uniform):
        a, w = Fraction(float(n.start)), Fraction(float(n.width))
        b = a + w
        return (b ** (k + 1) - a ** (k + 1)) / ((k + 1) * w)
    if isinstance(n, Isotonic):
        br = [Fraction(float(t)) for t in n.breaks]
        d = [Fraction(float(t)) for t in n.densities]
        w = [br[i + 1] - br[i] for i in range(len(d))]
        if np.allclose([float(t) for t in w], float(w[0])):       # SciPy reads the numbers as counts when the widths are (nearly) equal
            d = [di / wi for di, wi in zip(d, w)]
        z = sum(di * wi for di, wi in zip(d, w))
        return sum((di / z) * (br[i + 1] ** (k + 1) - br[i] ** (k + 1)) / (k + 1) for i, di in enumerate(d))
    raise Infra('leaf_raw_moment')


def textbook(m1, m2, m3, m4):
    """central statistics from raw moments, exact rationals except the final power"""
    var = m2 - m1 ** 2
    c3 = m3 - 3 * m1 * m2 + 2 * m1 ** 3
    c4 = m4 - 4 * m1 * m3 + 6 * m1 ** 2 * m2 - 3 * m1 ** 4
    return var, c3, c4


def cond_tol(terms, result, eps=2.0 ** -23):
    """float32 evaluation of a cancelling combination: relative tolerance scaled by the condition number"""
    s = sum(abs(float(t)) for t in terms)
    return 64 * eps * s + 1e-6 * abs(float(result)) + 1e-7


def offset_root(rs):
    """continuous leaves far from the origin with narrow supports (measurements such as 30000 +- 0.01): the moments of such a
    leaf are as exact a question as any other; the power differences b^(k+1) - a^(k+1) cancel almost completely"""
    from deeprob.spn.structure.node import Sum, Product
    off = float(rs.choice([-3e4, -1e3, 1e2, 1e3, 3e4]))

    def iso(v):
        nb = int(rs.randint(1, 5))
        w = rs.choice([0.01, 0.05, 0.5], size=nb) if rs.rand() < 0.5 else np.full(nb, float(rs.choice([0.01, 0.1])))
        br = off + np.concatenate([[0.0], np.cumsum(w)])
        d = rs.rand(nb) + 0.1
        return Isotonic(v, densities=(d / d.sum()).tolist(), breaks=br.tolist())

    def uni(v):
        if rs.rand() < 0.4:
            # a leaf FITTED on a column that is constant in its slice and large (a Unix timestamp, an id, a price in cents): the library
            # itself floors the width at 1e-5, so |start| / width reaches 1e14
            u = Uniform(v)
            ts = float(rs.choice([1.6e9, 1.7e9 + float(rs.randint(10 ** 6)), 2.5e7, -4.2e8, 86400.0 * 19000]))
            u.fit(np.full((int(rs.randint(2, 30)), 1), ts), (ts - 1.0, ts + 1.0))
            return u
        return Uniform(v, start=off + float(rs.uniform(-1, 1)), width=float(rs.choice([0.01, 0.1, 2.0, 1e-5])))
    l0 = [iso(0), iso(0)] if rs.rand() < 0.6 else [iso(0), uni(0)]
    w = rs.dirichlet(np.ones(2)).astype(np.float32)
    s0 = Sum(children=l0, weights=(w / w.sum()).astype(np.float32))
    if rs.rand() < 0.5:
        return s0
    return Product(children=[s0, uni(1) if rs.rand() < 0.5 else iso(1)])


def one_case(ctx, k, root=None):
    rs = np.random.RandomState(np_seed(ctx.sub_rng('net', k, root is not None)))
    nv = int(rs.randint(1, 5))
    scope = [int(v) for v in rs.permutation(nv)]            # root scope {0..n-1} in any order
    kinds = KINDS[k % len(KINDS)]
    if root is None:
        root = S.rand_spn(rs, scope, depth=int(rs.randint(0, 4)), kinds=kinds, share=float(rs.choice([0.0, 0.4])), clt=False)
    else:
        ctx.count('far-offset-narrow-support-circuits')
    if getattr(root, 'children', None):
        assign_ids(root)
    else:
        root.id = 0
    table, order, index, _ = S.export_net(root)
    key = hashlib.sha256(json.dumps(table, sort_keys=True).encode()).hexdigest()[:16]
    ctx.case('net', nontrivial_key=key if len(table) > 1 else None, sample=dict(nodes=len(table), kinds=S.describe(order), scope=list(root.scope)))
    for kk, c in S.describe(order).items():
        ctx.count('leaf:' + kk, c) if kk not in ('Sum', 'Product') else None
    rep = dict(kind='c19', table=table_with_py(table, order))
    # guards
    try:
        M.moment(root, order=-1)
        ctx.violation('c19-negative-order', 'a negative moment order was accepted', replay=rep)
        return
    except ValueError:
        pass
    m0 = M.moment(root, order=0)
    if not np.array_equal(np.asarray(m0), np.ones(len(root.scope), dtype=np.float32)):
        ctx.violation('c19-order-zero', f'moment of order 0 is {np.asarray(m0).tolist()}, not ones', replay=rep)
        return
    # raw moments vs exact model / closed forms
    raw = {}
    for kord in (1, 2, 3, 4):
        try:
            mi = np.asarray(M.moment(root, order=kord), dtype=np.float64)
        except Exception as ex:
            ctx.violation('c19-moment-raises', f'moment(order={kord}) raised {type(ex).__name__}: {ex}', replay=rep)
            return
        raw[kord] = mi
        if ctx.driver_ok:
            moms = [fstr(leaf_raw_moment(n, kord)) if S.is_continuous(n) else '0/1' for n in order]
            ans = ctx.get_driver().ask(dict(op='momentnet', nodes=table, root=index[id(root)], k=kord, moms=moms))
            exact = [parse_q(t) for t in ans.split()]
        else:
            exact = None
        if exact is not None:
            for v in range(len(root.scope)):
                ctx.count('raw-moments-compared')
                ref = float(exact[v])
                if abs(mi[v] - ref) > 1e-5 + 2e-5 * abs(ref):
                    ctx.violation(f'c19-raw-moment', f'moment(order={kord})[{v}] = {mi[v]!r} but E[X_{v}^{kord}] = {ref!r}', replay=dict(rep, order=kord, var=v))
                    return
    # derived statistics = textbook functions of the implementation's own raw moments
    try:
        e_i = np.asarray(M.expectation(root), dtype=np.float64)
        v_i = np.asarray(M.variance(root), dtype=np.float64)
        with np.errstate(all='ignore'):
            s_i = np.asarray(M.skewness(root), dtype=np.float64)
            k_i = np.asarray(M.kurtosis(root), dtype=np.float64)
    except Exception as ex:
        ctx.violation('c19-derived-raises', f'derived statistic raised {type(ex).__name__}: {ex}', replay=rep)
        return
    for v in range(len(root.scope)):
        m1, m2, m3, m4 = (Fraction(float(raw[j][v])) for j in (1, 2, 3, 4))
        var, c3, c4 = textbook(m1, m2, m3, m4)
        if abs(e_i[v] - float(m1)) > 1e-6 * (1 + abs(float(m1))):
            ctx.violation('c19-expectation', f'expectation[{v}] = {e_i[v]!r} but first raw moment is {float(m1)!r}', replay=dict(rep, var=v))
            return
        if abs(v_i[v] - float(var)) > cond_tol([m2, m1 ** 2], var):
            ctx.violation('c19-variance', f'variance[{v}] = {v_i[v]!r} but m2 - m1^2 = {float(var)!r}', replay=dict(rep, var=v))
            return
        if float(var) < 1e-3:
            ctx.count('variables_with_tiny_variance_skipped')
            continue
        sd = math.sqrt(float(var))
        sk = float(c3) / sd ** 3
        ku = float(c4) / float(var) ** 2 - 3.0
        # error propagation: numerator cancellation and the variance in the denominator (relative error of var amplified by 1.5 / 2)
        rel_var = cond_tol([m2, m1 ** 2], var) / float(var)
        if rel_var >= 0.25:
            # m2 - m1^2 cancels (almost) completely in the precision the raw moments are reported in (float32): standardised moments
            # computed from them carry no information, whatever the formula (far-offset narrow distributions)
            ctx.count('derived-statistics-ill-conditioned-not-compared')
            continue
        tol_s = cond_tol([m3, 3 * m1 * m2, 2 * m1 ** 3], c3) / sd ** 3 + abs(sk) * 1.5 * rel_var + 1e-5
        tol_k = cond_tol([m4, 4 * m1 * m3, 6 * m1 ** 2 * m2, 3 * m1 ** 4, 4 * m1 ** 4, 8 * m1 ** 2 * m2, m2 ** 2], c4) / float(var) ** 2 + (abs(ku) + 3) * 2 * rel_var + 1e-5
        ctx.count('derived-statistics-compared')
        if not (abs(s_i[v] - sk) <= tol_s):
            ctx.violation('c19-skewness', f'skewness[{v}] = {s_i[v]!r} but the third standardised central moment of the reported raw moments is {sk!r} '
                                          f'(m1={float(m1):.6g}, m2={float(m2):.6g}, m3={float(m3):.6g})', replay=dict(rep, var=v))
            return
        if not (abs(k_i[v] - ku) <= tol_k):
            ctx.violation('c19-kurtosis', f'kurtosis[{v}] = {k_i[v]!r} but the excess kurtosis of the reported raw moments is {ku!r}', replay=dict(rep, var=v))
            return


CORPUS = [dict(cls='Bernoulli', p=0.2), dict(cls='Gaussian', mean=2.0, stddev=0.5)]


def run_corpus(ctx):
    for c in CORPUS:
        leaf = Bernoulli(0, c['p']) if c['cls'] == 'Bernoulli' else Gaussian(0, c['mean'], c['stddev'])
        leaf.id = 0
        table, order, _, _ = S.export_net(leaf)
        rep = dict(kind='c19', table=table_with_py(table, order))
        ctx.case('corpus', nontrivial_key='corpus:' + c['cls'], sample=c)
        m = [float(np.asarray(M.moment(leaf, order=j))[0]) for j in (1, 2, 3)]
        var = m[1] - m[0] ** 2
        sk = (m[2] - 3 * m[0] * m[1] + 2 * m[0] ** 3) / var ** 1.5
        got = float(np.asarray(M.skewness(leaf))[0])
        if abs(got - sk) > 1e-3 * (1 + abs(sk)):
            ctx.violation('c19-skewness', f'skewness of {c} = {got!r} but the textbook value from its raw moments is {sk!r}', replay=rep)


def history_case(ctx, k):
    """query -> parameter update by EM -> query again: the second answer must be the moments of the CURRENT parameters"""
    from deeprob.spn.learning.em import expectation_maximization
    rs = np.random.RandomState(np_seed(ctx.sub_rng('hist', k)))
    nv = int(rs.randint(1, 4))
    scope = list(range(nv))
    root = S.rand_spn(rs, scope, depth=int(rs.randint(1, 4)), kinds=(('cat',), ('bern', 'cat'), ('gauss', 'cat'))[k % 3], share=0.3, clt=False, same_categories={})
    if not getattr(root, 'children', None):
        return
    assign_ids(root)
    order0 = S.children_first(root)[0]
    dom = S.domain_of(order0)
    data = np.zeros((40, nv), dtype=np.float32)
    for v in range(nv):
        cont = [n for n in order0 if S.is_continuous(n) and n.scope[0] == v]
        data[:, v] = rs.randn(40) if cont else rs.randint(dom[v], size=40)
    ctx.case('history', nontrivial_key=('hist', k), sample=dict(kinds=S.describe(order0), steps='moment, EM x2, moment'))
    ctx.count('history-cases')
    for phase in range(2):
        table, order, index, _ = S.export_net(root)
        rep = dict(kind='c19', table=table_with_py(table, order), history='after EM' if phase else 'fresh')
        for kord in (1, 2):
            mi = np.asarray(M.moment(root, order=kord), dtype=np.float64)
            if ctx.driver_ok:
                moms = [fstr(leaf_raw_moment(n, kord)) if S.is_continuous(n) else '0/1' for n in order]
                exact = [float(parse_q(t)) for t in ctx.get_driver().ask(dict(op='momentnet', nodes=table, root=index[id(root)], k=kord, moms=moms)).split()]
                for v in range(nv):
                    if abs(mi[v] - exact[v]) > 1e-5 + 2e-5 * abs(exact[v]):
                        ctx.violation('c19-raw-moment-after-update', f'moment(order={kord})[{v}] = {mi[v]!r} but E[X_{v}^{kord}] under the current parameters = {exact[v]!r} '
                                                                    f'({"after EM updates following an earlier query" if phase else "fresh model"})', replay=rep)
                        return
        if phase == 0:
            try:
                expectation_maximization(root, data, num_iter=2, batch_perc=0.5, step_size=0.7, random_init=False, random_state=int(rs.randint(1000)), verbose=False)
            except Exception:
                return


def run(ctx):
    run_corpus(ctx)
    for k in range(20 if ctx.tier == 'quick' else 300):
        history_case(ctx, k)
        if ctx.n_new(with_input_only=True) >= 3:
            return
    n = 300 if ctx.tier == 'quick' else 5000
    for k in range(n):
        one_case(ctx, k)
        if ctx.n_new(with_input_only=True) >= 3:
            break
    for k in range(40 if ctx.tier == 'quick' else 600):
        rs = np.random.RandomState(np_seed(ctx.sub_rng('offset', k)))
        one_case(ctx, k, root=offset_root(rs))
        if ctx.n_new(with_input_only=True) >= 3:
            break


_run_core = run


def run(ctx):
    _run_core(ctx)
    if ctx.n_new() == 0 and ctx.driver_ok:
        from harness.common import run_demo
        run_demo(ctx, 'demo_tr3.py', [1 + ctx.seed], 'c19-code-vs-generated-vs-model',
                 'moment / leaf_moment vs generated definitions vs model', env_extra=dict(DEMO_SECTIONS='d'))
        if ctx.n_new() == 0:
            run_demo(ctx, 'demo_tr5eval.py', [1 + ctx.seed], 'c19-moment-loop-generated',
                     'moments.moment / eval_bottom_up: implementation = the LOOPS generated from the source = model')
        if ctx.n_new() == 0:
            run_demo(ctx, 'demo_leaves.py', [20260929 + ctx.seed], 'c19-leaf-families-vs-model',
                     'leaf pdf / cdf / ppf / moments / modes / sampling law of every univariate family against the exact leaf theory (LeafQ)')


def replay(rep):
    if rep['replay'].get('kind') == 'demo':
        from harness.common import replay_demo
        return replay_demo(rep['replay'])
    root, order = build_from_table(rep['replay']['table'])
    if not getattr(root, 'children', None):
        root.id = 0
    m = [np.asarray(M.moment(root, order=j), dtype=np.float64) for j in (1, 2, 3, 4)]
    ok = True
    with np.errstate(all='ignore'):
        s_i = np.asarray(M.skewness(root), dtype=np.float64)
    for v in range(len(root.scope)):
        var = m[1][v] - m[0][v] ** 2
        if var < 1e-3:
            continue
        sk = (m[2][v] - 3 * m[0][v] * m[1][v] + 2 * m[0][v] ** 3) / var ** 1.5
        print(f'var {v}: skewness reported {s_i[v]}, textbook {sk}')
        ok = ok and abs(s_i[v] - sk) <= 1e-2 * (1 + abs(sk))
    return ok
