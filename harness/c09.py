"""C09 — pruning preserves the distribution and yields a normal form; copy leaves the original untouched."""
import json, hashlib
from copy import deepcopy
import numpy as np
from harness.common import np_seed, Infra
from harness import spn as S
from harness import rewrite as R
from harness.build import build_from_table, table_with_py

from deeprob.spn.structure.node import Sum, Product, assign_ids
from deeprob.spn.algorithms.structure import prune
from deeprob.spn.algorithms.inference import log_likelihood
from deeprob.spn.utils.validity import check_spn


def oracle(root, res, rs, before, after):
    """the property's statement on the implementation's own result; returns (fingerprint, message) or None"""
    if before != after:
        return 'c09-original-modified', 'prune(copy=True) modified the original circuit'
    try:
        check_spn(res, labeled=True, smooth=True, decomposable=True)
    except ValueError as ex:
        return 'c09-invalid-result', f'pruned circuit fails validation: {ex}'
    nf = R.normal_form_violation(res)
    if nf:
        return 'c09-not-normal-form', f'pruned circuit is not in normal form: {nf}'
    order = S.children_first(root)[0]
    dom = S.domain_of(order)
    ncols = len(dom)
    X = R.query_rows(rs, sorted(root.scope), dom, ncols)
    a = np.asarray(log_likelihood(root, X)).reshape(-1)
    b = np.asarray(log_likelihood(res, X)).reshape(-1)
    d = np.abs(a - b)
    if np.any(d > 5e-4 + 2e-5 * np.abs(a)):
        r = int(np.argmax(d))
        return 'c09-value-changed', f'log-likelihood {float(a[r])} before vs {float(b[r])} after pruning at {X[r].tolist()}'
    t1 = R.canon(res)
    res2 = prune(res, copy=True)
    why = R.same(t1, R.canon(res2), with_orig=False)
    if why:
        return 'c09-not-idempotent', f'pruning the pruned circuit changes it: {why}'
    return None


def to_float64_weights(root):
    for n in S.bfs_order(root):
        if isinstance(n, Sum):
            n.weights = np.asarray(n.weights, dtype=np.float64)
    return root


def one_case(ctx, name, root, rs):
    assign_ids(root)
    table, order, index, _ = S.export_net(root)
    key = hashlib.sha256(json.dumps(table, sort_keys=True).encode()).hexdigest()[:16]
    indeg = {}
    for e in table:
        for c in set(e.get('ch', [])):
            indeg[c] = indeg.get(c, 0) + 1
    shared = any(v > 1 for v in indeg.values())
    ctx.case(name, nontrivial_key=key if len(table) > 1 else None,
             sample=dict(name=name, nodes=len(table), kinds=S.describe(order), shared=shared))
    ctx.count('shared' if shared else 'tree-shaped')
    rep = dict(kind='c09', table=table_with_py(table, order), weights_dtype='float64' if 'float64-weights' in name else 'float32')
    if 'float64-weights' in name:
        ctx.count('float64-weight-circuits')
    before = S.export_net(root)[0]
    try:
        res = prune(root, copy=True)
    except Exception as ex:
        ctx.violation('c09-prune-raises', f'prune raised {type(ex).__name__}: {ex} on a valid circuit', replay=rep)
        return
    after = S.export_net(root)[0]
    o = oracle(root, res, rs, before, after)
    if o:
        ctx.violation(o[0], o[1] + f' [{name}, {len(table)} nodes]', replay=rep)
        return
    ctx.count('already-normal-form' if R.normal_form_violation(root) is None else 'rewritten')
    if not ctx.driver_ok:
        return
    # correspondence with the net-level model (structure, ids, child order, node identity, weights)
    drv = ctx.get_driver()
    r2 = deepcopy(root)
    order2 = S.export_net(r2)[1]
    origin = {id(n): i for i, n in enumerate(order2)}
    res2 = prune(r2, copy=False)
    py = R.canon(res2, origin)
    drv.ask(dict(op='net', nodes=table, root=len(table) - 1))
    ans = drv.ask(dict(op='prune', order='kahn'))
    why = R.same(py, R.parse_table(ans)) if ' ' in ans else f'model answered {ans}'
    if why:
        ctx.violation('c09-model-disagrees', f'implementation result differs from the model: {why} (the implementation result satisfies the property)',
                      replay=rep, found_input=False)
        return
    if drv.ask(dict(op='prune')) != ans:
        raise Infra('model: storage-order pass and Kahn-order pass differ')
    t2 = S.export_net(res)[0]
    drv.ask(dict(op='net', nodes=t2, root=len(t2) - 1))
    if drv.ask(dict(op='normalform')) != 'true':
        ctx.violation('c09-model-normalform', 'model says the implementation result is not in normal form', replay=rep, found_input=False)


def cases(ctx, n):
    for name, root in R.special_cases():
        yield name, root, np.random.RandomState(1)
    k = 0
    while k < n:
        rs = np.random.RandomState(np_seed(ctx.sub_rng('net', k)))
        k += 1
        nv = int(rs.randint(1, 6))
        use_clt = (k % 4 == 2)          # Chow-Liu leaves (multivariate leaf objects) in a quarter of the circuits
        card = {v: (2 if use_clt else int(rs.randint(2, 4))) for v in range(nv)}
        root = R.gen(rs, list(range(nv)), int(rs.randint(2, 6)), {}, card, share=float(rs.choice([0.0, 0.3, 0.6])), clt=use_clt)
        if not isinstance(root, (Sum, Product)):
            continue
        if k % 3 == 0:
            # mixture weights kept in double precision (what `Sum(weights=np.array([...]))` stores): same circuit, other dtype
            to_float64_weights(root)
            yield f'rand{k}-float64-weights', root, rs
            continue
        yield f'rand{k}', root, rs


def run(ctx):
    n = 300 if ctx.tier == 'quick' else 5000
    for name, root, rs in cases(ctx, n):
        one_case(ctx, name, root, rs)
        if ctx.n_new(with_input_only=True) >= 3:
            break


def replay(rep):
    root, order = build_from_table(rep['replay']['table'])
    if rep['replay'].get('weights_dtype') == 'float64':
        to_float64_weights(root)
    before = S.export_net(root)[0]
    res = prune(root, copy=True)
    after = S.export_net(root)[0]
    o = oracle(root, res, np.random.RandomState(0), before, after)
    print('oracle:', o)
    return o is None
