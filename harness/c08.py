"""C08 — parallel evaluation equals sequential evaluation under every thread schedule."""
import json, hashlib, os, sys, time
import numpy as np
from harness.common import np_seed, Infra, VERIF
from harness import spn as S
from harness.build import table_with_py

HOOKS = os.path.join(VERIF, 'hooks')
if HOOKS not in sys.path:
    sys.path.insert(0, HOOKS)
import deeprob_verif_hooks as H

from deeprob.spn.structure.node import Sum, Product, assign_ids, topological_order_layered, topological_order, bfs, dfs_post_order
from deeprob.spn.structure.leaf import Bernoulli
from deeprob.spn.algorithms import evaluation as E
from deeprob.spn.algorithms.inference import likelihood, log_likelihood, mpe
from deeprob.spn.algorithms.sampling import sample


def fan_net(k, nvars=1):
    """k product parents in one layer sharing one child (plus private children), under one root sum"""
    shared = Bernoulli(0, 0.4)
    parents = []
    for i in range(k):
        if nvars > 1:
            parents.append(Product(children=[shared] + [Bernoulli(v, 0.3 + 0.4 * ((i + v) % 2)) for v in range(1, nvars)]))
        else:
            parents.append(Sum(children=[shared, Bernoulli(0, 0.1 + 0.8 * i / max(k - 1, 1))], weights=[0.5, 0.5]))
    w = np.full(k, 1.0 / k, dtype=np.float32)
    root = Sum(children=parents, weights=w / w.sum())
    return assign_ids(root)


def skip_edge_net(b_first, heavy):
    """a sub-circuit `b` that is a child of the root AND of the root's other child `a` (an edge that jumps over a layer: layers
    [root], [a], [b, ...], [leaves]); with most of the root's weight on the direct edge every row of a small batch descends
    root -> b and the layer of `a` receives no row at all"""
    b = Product(children=[Bernoulli(0, 0.7), Bernoulli(1, 0.2)])
    b2 = Product(children=[Bernoulli(0, 0.1), Bernoulli(1, 0.9)])
    a = Sum(children=[b, b2], weights=np.array([0.5, 0.5], dtype=np.float32))
    w = np.array([heavy, 1.0 - heavy], dtype=np.float32)
    root = Sum(children=[b, a], weights=w) if b_first else Sum(children=[a, b], weights=w[::-1].copy())
    return assign_ids(root)


def two_writers_skip_net(k=2):
    """a child `c` written by k parents of ONE layer while a longer path (through `d`) puts `c` two layers further down: the
    writers are concurrent although `c` is not in the layer right below them"""
    c = Bernoulli(0, 0.4)
    d = Sum(children=[c, Bernoulli(0, 0.9)], weights=np.array([0.5, 0.5], dtype=np.float32))
    parents = [Sum(children=[c, d], weights=np.array([0.5, 0.5], dtype=np.float32))]
    for i in range(1, k):
        parents.append(Sum(children=[c, Bernoulli(0, 0.1 + 0.8 * i / k)], weights=np.array([0.5, 0.5], dtype=np.float32)))
    w = np.full(k, 1.0 / k, dtype=np.float32)
    return assign_ids(Sum(children=parents, weights=w / w.sum()))


def clt_product_net(rs):
    """products whose children are a Chow-Liu leaf (two columns) and univariate leaves: all leaves of one layer are reached by the
    same rows"""
    def comp():
        clt = S.rand_clt(rs, [0, 1])
        return Product(children=[clt, Bernoulli(2, float(rs.uniform(0.2, 0.8))), Bernoulli(3, float(rs.uniform(0.2, 0.8)))])
    w = rs.dirichlet(np.ones(2)).astype(np.float32)
    return assign_ids(Sum(children=[comp(), comp()], weights=(w / w.sum()).astype(np.float32)))


def random_dag(rs):
    nv = int(rs.randint(2, 5))
    clt = bool(rs.rand() < 0.4)          # multivariate (Chow-Liu) leaves: their top-down step touches several columns of x
    root = S.rand_spn(rs, list(range(nv)), depth=int(rs.randint(2, 5)), kinds=('bern',) if clt else ('bern', 'cat'), share=0.6, clt=clt)
    if not getattr(root, 'children', None):
        return fan_net(3)
    return assign_ids(root)


def record(fn):
    rec = H.Recorder()
    H.RECORDER = rec
    try:
        out = fn()
    finally:
        H.RECORDER = None
    return out, rec


def tasks_of(rec):
    """per layer: list of task traces {task, acts:[{kind, array, rows|cells, locked}]}; also checks the barrier"""
    layers = {}
    last_seq_of_layer, first_seq_of_layer = {}, {}
    pending = {}                                    # (task, array, footprint) -> read seen since last write
    for ev in rec.events:
        if ev['kind'] in ('task_begin', 'task_end', 'acquire', 'release'):
            if ev['kind'] == 'task_begin':
                layers.setdefault(ev['layer'], {}).setdefault(ev['task'], [])
            continue
        lay, task = ev.get('layer', -1), ev.get('task')
        if task is None or lay < 0:
            continue
        first_seq_of_layer.setdefault(lay, ev['seq'])
        last_seq_of_layer[lay] = ev['seq']
        if 'rows' in ev:
            fp = dict(rows=ev['rows'])
            fkey = ('r', tuple(ev['rows']))
        else:
            cells = [[r, c] for r in ev['cells_rows'] for c in ev['cells_cols']]
            fp = dict(cells=cells)
            fkey = ('c', tuple(ev['cells_rows']), tuple(ev['cells_cols']))
        acts = layers.setdefault(lay, {}).setdefault(task, [])
        key = (task, ev['array'], fkey)
        if ev['kind'] == 'read':
            pending[key] = (len(acts), ev['locked'])
            acts.append(dict(kind='read', array=ev['array'], locked=ev['locked'], **fp))
        else:
            if key in pending and ev['array'] == 'masks':
                i, rlocked = pending.pop(key)
                acts[i] = None                      # the read half of a read-modify-write
                acts.append(dict(kind='or', array=ev['array'], locked=bool(ev['locked'] and rlocked), **fp))
            else:
                pending.pop(key, None)
                acts.append(dict(kind='write', array=ev['array'], locked=ev['locked'], **fp))
    out = []
    for lay in sorted(l for l in layers if l >= 0):      # layer -1 = tasks of a sequential (n_jobs = 0) pass
        out.append([dict(task=t, acts=[a for a in acts if a is not None]) for t, acts in sorted(layers[lay].items())])
    barrier_ok = all(last_seq_of_layer[a] < first_seq_of_layer[b] for a in last_seq_of_layer for b in first_seq_of_layer if a < b)
    return out, barrier_ok


def unfilled_after(root, X, nj, fn=None):
    Y = (fn or mpe)(root, X, n_jobs=nj)
    return int(np.isnan(Y[:, list(root.scope)]).sum())


def forced_schedule(ctx, root, ncols, widen=0.002):
    """failing-input search 1: the real code on the offending circuit under an adversarial (but admissible) scheduler: the hook pauses
    between the read half and the write half of every UNLOCKED mask update (deeprob_verif_hooks.WIDEN)"""
    H.RECORDER = H.NullRecorder()
    H.WIDEN = widen
    try:
        for attempt in range(4 if ctx.tier == 'quick' else 12):
            nj = (4, 8, -1, 3)[attempt % 4]
            nrows = (16, 96)[attempt % 2]
            # partial evidence, so that different rows descend through different parents of the shared child
            rs = np.random.RandomState(attempt)
            X = rs.randint(2, size=(nrows, ncols)).astype(np.float32)
            X[rs.rand(nrows, ncols) < 0.6] = np.nan
            X[0, :] = np.nan
            ctx.count('forced-schedule-runs')
            # sampling spreads the rows over all branches (mpe sends equal rows down one branch), so both racing parents carry rows
            for q in ('sample', 'mpe'):
                np.random.seed(attempt)
                n = unfilled_after(root, X.copy(), nj, sample if q == 'sample' else mpe)
                if n:
                    return dict(kind='c08-forced', query=q, rows=np.where(np.isnan(X), None, X).tolist(), n_jobs=nj, unfilled=n, widen=widen, attempt=attempt)
    finally:
        H.WIDEN = 0.0
        H.RECORDER = None
    return None


def stress(ctx, rep, root=None, ncols=None):
    """failing-input search 2: un-instrumented runs of the real code: the offending circuit, then many parents of one shared child;
    large batches, many threads"""
    cands = ([('offending', root, ncols)] if root is not None else []) + [('fan16', fan_net(16), 1)]
    for attempt in range(6 if ctx.tier == 'quick' else 16):
        which, net, nc = cands[attempt % len(cands)]
        nj = (16, -1)[(attempt // len(cands)) % 2]
        rows = 2_000_000 if which == 'fan16' else 400_000
        X = np.full((rows, nc), np.nan, dtype=np.float32)
        unfilled = unfilled_after(net, X, nj)
        ctx.count('stress-runs')
        if unfilled:
            return dict(kind='c08-stress', net=which, parents=16, rows=rows, n_jobs=nj, unfilled=unfilled, attempt=attempt)
    return None


def nested_net(rs, nv):
    """root sum with a nested sum (prune merges it) and shared leaves"""
    leaves = {v: [Bernoulli(v, float(rs.uniform(0.1, 0.9))) for _ in range(2)] for v in range(nv)}
    def prod():
        return Product(children=[leaves[v][rs.randint(2)] for v in range(nv)])
    inner = Sum(children=[prod(), prod()], weights=[0.3, 0.7])
    single = Product(children=[Sum(children=[prod()], weights=[1.0])]) if rs.rand() < 0.5 else prod()
    w = rs.dirichlet(np.ones(3)).astype(np.float32)
    root = Sum(children=[inner, single, prod()], weights=w / w.sum())
    return assign_ids(root)


def history_stream(ctx, quick):
    """histories on ONE root object: a parallel query, an in-place change of the structure (prune without copy, a new component,
    re-labelling), then the same parallel query again — it must still equal the sequential result on the object as it is now"""
    from deeprob.spn.algorithms.structure import prune
    for k in range(8 if quick else 80):
        rs = np.random.RandomState(np_seed(ctx.sub_rng('hist', k)))
        nv = int(rs.randint(2, 5))
        root = nested_net(rs, nv) if k % 2 == 0 else random_dag(rs)
        if not isinstance(root, Sum):
            continue
        nv = max(root.scope) + 1
        dom = S.domain_of(S.export_net(root)[1])
        Q = np.array([[rs.randint(max(dom[v], 1)) for v in range(nv)] for _ in range(6)], dtype=np.float32)
        Qn = Q.copy()
        Qn[rs.rand(*Qn.shape) < 0.5] = np.nan
        steps = []
        try:
            for nj in (2, -1):
                log_likelihood(root, Qn, n_jobs=nj), mpe(root, Qn, n_jobs=nj)
            steps.append('parallel log_likelihood+mpe')
            change = ('prune-inplace', 'new-component', 'prune-inplace+new-component')[k % 3]
            if 'prune' in change:
                root = prune(root, copy=False)
                if getattr(root, 'children', None):
                    assign_ids(root)
            if 'new-component' in change and isinstance(root, Sum):
                comp = Product(children=[Bernoulli(v, float(rs.uniform(0.2, 0.8))) for v in sorted(root.scope)]) if len(root.scope) > 1 \
                    else Bernoulli(root.scope[0], 0.3)
                root.children.append(comp)
                w = np.append(np.asarray(root.weights, dtype=np.float64) * 0.75, 0.25).astype(np.float32)
                root.weights = w / w.sum()
                assign_ids(root)
            steps.append(change)
        except Exception as ex:
            ctx.count('history-setup-raised')
            continue
        ctx.count('histories')
        ctx.count('history:' + change)
        table, order, _, _ = S.export_net(root)
        rep = dict(kind='c08-hist', k=k, seed=ctx.seed, steps=steps, table=table_with_py(table, order), rows=np.where(np.isnan(Qn), None, Qn).tolist())
        ref_ll, ref_m = log_likelihood(root, Qn), mpe(root, Qn)
        for nj in (2, 4, -1):
            try:
                b, c = log_likelihood(root, Qn, n_jobs=nj), mpe(root, Qn, n_jobs=nj)
            except Exception as ex:
                ctx.violation('c08-history-raises', f'after the history {steps} on one root object, the parallel pass (n_jobs={nj}) raised {type(ex).__name__}: {ex} '
                                                    f'while the sequential pass returns', replay=dict(rep, n_jobs=nj))
                return
            if not np.array_equal(b, ref_ll) or not np.array_equal(np.nan_to_num(c, nan=-9.5), np.nan_to_num(ref_m, nan=-9.5)):
                ctx.violation('c08-history-result', f'after the history {steps} on one root object, n_jobs={nj} gives {np.asarray(b).reshape(-1)[:4].tolist()} but the '
                                                    f'sequential pass {np.asarray(ref_ll).reshape(-1)[:4].tolist()}', replay=dict(rep, n_jobs=nj))
                return


def ambient_backend_check(ctx, quick):
    """the caller may have selected another joblib backend for its own purposes (joblib.parallel_backend('loky')): the layer-wise
    passes share arrays between their tasks and must keep running on threads — parallel == sequential under an ambient backend"""
    import joblib
    for k in range(2 if quick else 10):
        rs = np.random.RandomState(np_seed(ctx.sub_rng('ambient', k)))
        root = fan_net(4, 3) if k == 0 else random_dag(rs)
        table, order, _, _ = S.export_net(root)
        dom = S.domain_of(order)
        Q = np.array([[rs.randint(max(dom[v], 1)) for v in range(len(dom))] for _ in range(7)], dtype=np.float32)
        Q[rs.rand(*Q.shape) < 0.5] = np.nan
        rep = dict(kind='c08', table=table_with_py(table, order), rows=np.where(np.isnan(Q), None, Q).tolist(), ambient_backend='loky')
        ref_ll, ref_m = log_likelihood(root, Q), mpe(root, Q)
        ctx.count('ambient-backend-runs')
        try:
            with joblib.parallel_backend('loky'):
                b = log_likelihood(root, Q, n_jobs=2)
                c = mpe(root, Q, n_jobs=2)
        except Exception as ex:
            ctx.violation('c08-ambient-backend-raises', f'inside joblib.parallel_backend("loky") the parallel pass (n_jobs=2) raised {type(ex).__name__}: {str(ex)[:150]} '
                                                        f'while the sequential pass returns', replay=dict(rep, n_jobs=2))
            return
        if not np.array_equal(b, ref_ll) or not np.array_equal(np.nan_to_num(c, nan=-9.5), np.nan_to_num(ref_m, nan=-9.5)):
            ctx.violation('c08-ambient-backend-result', f'inside joblib.parallel_backend("loky"), n_jobs=2 gives {np.asarray(b).reshape(-1)[:3].tolist()} but the sequential pass '
                                                        f'{np.asarray(ref_ll).reshape(-1)[:3].tolist()}', replay=dict(rep, n_jobs=2))
            return


def run(ctx):
    quick = ctx.tier == 'quick'
    if E._verif_hooks is None:
        raise Infra('verification hooks are not active in deeprob.spn.algorithms.evaluation (DEEPROB_KIT_VERIF=1 and PYTHONPATH must contain /verif/hooks)')
    nets = [('fan2', fan_net(2)), ('fan5', fan_net(5)), ('fan16', fan_net(16)), ('fan4x3', fan_net(4, 3)),
            ('clt-under-product', clt_product_net(np.random.RandomState(np_seed(ctx.sub_rng('cltprod'))))),
            ('skip-edge-b-first', skip_edge_net(True, 0.97)), ('skip-edge-a-first', skip_edge_net(False, 0.97)),
            ('skip-edge-balanced', skip_edge_net(True, 0.5)), ('two-writers-skip-layer', two_writers_skip_net(2)),
            ('eight-writers-skip-layer', two_writers_skip_net(8))]
    for k in range(10 if quick else 150):
        rs = np.random.RandomState(np_seed(ctx.sub_rng('dag', k)))
        nets.append((f'dag{k}', random_dag(rs)))
    discipline_broken = None
    for name, root in nets:
        table, order, index, _ = S.export_net(root)
        dom = S.domain_of(order)
        ncols = len(dom)
        rs = np.random.RandomState(np_seed(ctx.sub_rng('rows', name)))
        nrows = int(rs.choice([1, 7, 40]))
        X = np.zeros((nrows, ncols), dtype=np.float32)
        for v in range(ncols):
            X[:, v] = rs.randint(max(dom[v], 1), size=nrows)
        Q = X.copy()
        Q[rs.rand(*Q.shape) < 0.5] = np.nan
        key = hashlib.sha256(json.dumps(table, sort_keys=True).encode()).hexdigest()[:16]
        indeg = {}
        for e in table:
            for c in set(e.get('ch', [])):
                indeg[c] = indeg.get(c, 0) + 1
        shared = sum(1 for v in indeg.values() if v > 1)
        ctx.case(name, nontrivial_key=key if shared else None, sample=dict(net=name, nodes=len(table), shared_children=shared, rows=nrows))
        rep = dict(kind='c08', table=table_with_py(table, order), rows=np.where(np.isnan(Q), None, Q).tolist())
        # (iii) results: every parallel setting equals the sequential result
        ref_l, ref_ll, ref_m = likelihood(root, Q), log_likelihood(root, Q), mpe(root, Q)
        for nj in (2, 4, -1):
            ctx.count('parallel-runs')
            a, b, c = likelihood(root, Q, n_jobs=nj), log_likelihood(root, Q, n_jobs=nj), mpe(root, Q, n_jobs=nj)
            if not (np.array_equal(a, ref_l) and np.array_equal(b, ref_ll)):
                ctx.violation('c08-bottomup-result', f'likelihood with n_jobs={nj} differs from the sequential result [{name}]', replay=dict(rep, n_jobs=nj))
            if not np.array_equal(np.nan_to_num(c, nan=-9.5), np.nan_to_num(ref_m, nan=-9.5)):
                ctx.violation('c08-topdown-result', f'mpe with n_jobs={nj} differs from the sequential result [{name}]', replay=dict(rep, n_jobs=nj))
            np.random.seed(0)
            sm = sample(root, Q, n_jobs=nj)
            obs = ~np.isnan(Q)
            scope = list(root.scope)
            if np.any(np.isnan(sm[:, scope])) or not np.array_equal(sm[obs], Q[obs]):
                ctx.violation('c08-sample-incomplete', f'sample with n_jobs={nj} left entries unfilled or changed evidence [{name}]', replay=dict(rep, n_jobs=nj))
        # (i)-(ii) recorded accesses of the parallel passes: layering, barrier, lock discipline
        recs = []
        for nj in (4, -1):
            (_, rec_bu) = record(lambda: log_likelihood(root, Q, n_jobs=nj))
            (_, rec_td) = record(lambda: mpe(root, Q, n_jobs=nj))
            recs += [(f'bottom-up (n_jobs={nj})', rec_bu), (f'top-down (n_jobs={nj})', rec_td)]
        for label, rec in recs:
            # mpe records its forward pass (sequential, not traced) and the top-down parallel pass
            layers, barrier_ok = tasks_of(rec)
            ctx.count('traces')
            ctx.count('recorded-accesses', sum(len(t['acts']) for l in layers for t in l))
            if not barrier_ok:
                ctx.violation('c08-barrier', f'{label}: accesses of a later layer precede accesses of an earlier one [{name}]', replay=rep)
            if ctx.driver_ok:
                drv = ctx.get_driver()
                ans = drv.ask(dict(op='trace', layers=layers))
                if ans != 'disciplined':
                    ctx.count('undisciplined-traces')
                    if discipline_broken is None:
                        discipline_broken = (name, label, ans, rep, root, ncols)
                if label.startswith('top-down'):
                    drv.ask(dict(op='net', nodes=table, root=index[id(root)], dom=dom))
                    m = drv.ask(dict(op='layers'))
                    impl_layers = topological_order_layered(root)
                    txt = '|'.join(' '.join(str(index[id(n)]) for n in lay) for lay in impl_layers) + ' reachOK=true'
                    hook_txt = [[i for i in lay] for lay in rec.layers]
                    ctx.count('layerings-vs-model')
                    if m != txt:
                        ctx.violation('c08-layers-vs-model', f'layered order differs from the model: impl {txt} model {m} [{name}]', replay=rep, found_input=False)
                    # three-way, exact: implementation = the loop GENERATED from the current source (Gen.S5layered… / Gen.S5topo…
                    # iterated by the driver) = the model (Sched.layers / Net.kahn)
                    g = drv.ask(dict(op='s5_layers'))
                    ctx.count('layerings-vs-generated')
                    if not (g == txt == m):
                        ctx.violation('c08-layers-vs-generated', f'topological_order_layered: impl {txt} generated {g} model {m} [{name}]', replay=rep, found_input=False)
                    impl_order = topological_order(root)
                    otxt = 'none' if impl_order is None else ' '.join(str(index[id(n)]) for n in impl_order)
                    go, mo = drv.ask(dict(op='s5_topo')), drv.ask(dict(op='kahn'))
                    ctx.count('orderings-vs-generated')
                    if not (go == otxt + ' queueempty=true' and mo == otxt):
                        ctx.violation('c08-topo-vs-generated', f'topological_order: impl {otxt} generated {go} model {mo} [{name}]', replay=rep, found_input=False)
                    btxt = ' '.join(str(index[id(n)]) for n in bfs(root))
                    gb, mb = drv.ask(dict(op='s5_bfs')), drv.ask(dict(op='collect'))
                    dtxt = ' '.join(str(index[id(n)]) for n in dfs_post_order(root))
                    gd = drv.ask(dict(op='s5_dfs'))
                    ctx.count('walks-vs-generated')
                    if not (gb == btxt + ' workempty=true' and mb == btxt):
                        ctx.violation('c08-bfs-vs-generated', f'bfs: impl {btxt} generated {gb} model {mb} [{name}]', replay=rep, found_input=False)
                    if gd != dtxt + ' workempty=true':
                        ctx.violation('c08-dfs-vs-generated', f'dfs_post_order: impl {dtxt} generated {gd} [{name}]', replay=rep, found_input=False)
                    if [sorted(l) for l in hook_txt] != [sorted(int(n.id) for n in lay) for lay in impl_layers]:
                        ctx.violation('c08-layers-run', f'the layers actually run differ from topological_order_layered [{name}]', replay=rep, found_input=False)
        if ctx.n_new(with_input_only=True) >= 3:
            return
    if ctx.n_new() == 0:
        history_stream(ctx, quick)
    if ctx.n_new() == 0:
        ambient_backend_check(ctx, quick)
    if discipline_broken is not None:
        name, label, ans, rep, bad_root, bad_ncols = discipline_broken
        # the theorem topdown_atomic_schedule_indep no longer applies: by nonatomic_lost_update an interleaving of the recorded
        # read / write halves loses an update. Search the real code for a run on which this happens.
        hist = dict(kind='c08-history', net=name, pass_=label, offending=ans,
                    note='by theorem nonatomic_lost_update: schedule read(A), read(B), write(A), write(B) of the two recorded read-modify-write updates of the same mask row loses the update of A')
        found = forced_schedule(ctx, bad_root, bad_ncols) if label.startswith('top-down') else None
        if found:
            ctx.violation('c08-lost-update', f'unsynchronised read-modify-write of a shared mask row ({ans}) [{name}]; with a pause between the read and the '
                                             f'write half of the unlocked updates, {found["query"]} with n_jobs={found["n_jobs"]} leaves {found["unfilled"]} entries unfilled '
                                             f'on {len(found["rows"])} partially observed rows',
                          replay=dict(found, table=rep['table'], history=hist))
            return
        found = stress(ctx, rep, bad_root, bad_ncols)
        if found:
            ctx.violation('c08-lost-update', f'unsynchronised read-modify-write of a shared mask row ({ans}); on the real code {found["unfilled"]} entries stay unfilled '
                                             f'({found["net"]} circuit, {found["rows"]} rows, n_jobs={found["n_jobs"]})',
                          replay=dict(found, table=rep['table'], history=hist))
        else:
            ctx.violation('c08-discipline', f'{label} pass is not disciplined: {ans} [{name}]; no run of the real code lost an update in this search',
                          replay=hist, found_input=False)


def replay(rep):
    r = rep['replay']
    if r.get('kind') == 'c08-hist':
        class _C:   # the history is regenerated from its seed (the stale state lives in the library, not in the table)
            pass
        from harness.common import Ctx
        print('history:', r['steps'], '- rerun `check.py C08` with the same seed to regenerate it; comparing the final object only')
        from harness.build import build_from_table
        root, _ = build_from_table(r['table'])
        Q = np.array([[np.nan if v is None else v for v in row] for row in r['rows']], dtype=np.float32)
        a, b = log_likelihood(root, Q), log_likelihood(root, Q, n_jobs=r['n_jobs'])
        return bool(np.array_equal(a, b))
    if r.get('kind') == 'c08-forced':
        from harness.build import build_from_table
        root, _ = build_from_table(r['table'])
        assign_ids(root)
        ncols = max(root.scope) + 1
        H.RECORDER = H.NullRecorder()
        H.WIDEN = r['widen']
        try:
            for attempt in range(6):
                X = np.array([[np.nan if v is None else v for v in row] for row in r['rows']], dtype=np.float32)
                np.random.seed(attempt)
                n = unfilled_after(root, X.copy(), r['n_jobs'], sample if r.get('query') == 'sample' else mpe)
                print('attempt', attempt, 'unfilled entries under the widened schedule', n)
                if n:
                    return False
        finally:
            H.WIDEN = 0.0
            H.RECORDER = None
        return True
    if r.get('kind') == 'c08-stress':
        if r.get('net') == 'offending':
            from harness.build import build_from_table
            root, _ = build_from_table(r['table'])
            assign_ids(root)
            for attempt in range(8):
                n = unfilled_after(root, np.full((r['rows'], max(root.scope) + 1), np.nan, dtype=np.float32), r['n_jobs'])
                print('attempt', attempt, 'unfilled entries', n)
                if n:
                    return False
            return True
        root = fan_net(r['parents'])
        for attempt in range(8):
            X = np.full((r['rows'], 1), np.nan, dtype=np.float32)
            Y = mpe(root, X, n_jobs=r['n_jobs'])
            n = int(np.isnan(Y).sum())
            print('attempt', attempt, 'unfilled entries', n)
            if n:
                return False
        return True
    print('history replay: see the recorded offending pair', r.get('offending'))
    return True
