"""Rebuild deeprob-kit objects from an exported node table (used by replays)."""
import numpy as np
from deeprob.spn.structure.node import Sum, Product
from deeprob.spn.structure.leaf import Bernoulli, Categorical, Gaussian, Uniform, Isotonic
from deeprob.spn.structure.cltree import BinaryCLT


def py_of(n):
    if isinstance(n, Bernoulli):
        return dict(cls='Bernoulli', p=float(n.p))
    if isinstance(n, Categorical):
        return dict(cls='Categorical', categories=[int(c) for c in n.categories], probabilities=[float(p) for p in n.probabilities])
    if isinstance(n, Gaussian):
        return dict(cls='Gaussian', mean=float(n.mean), stddev=float(n.stddev))
    if isinstance(n, Uniform):
        return dict(cls='Uniform', start=float(n.start), width=float(n.width))
    if isinstance(n, Isotonic):
        return dict(cls='Isotonic', densities=[float(d) for d in n.densities], breaks=[float(b) for b in n.breaks])
    if isinstance(n, BinaryCLT):
        return dict(cls='BinaryCLT', root=int(n.scope[n.root]), tree=[int(t) for t in n.tree],
                    params=np.asarray(n.params, dtype=np.float64).tolist())
    if isinstance(n, Sum):
        return dict(cls='Sum', weights=[float(w) for w in (n.weights if n.weights is not None else [])])
    if isinstance(n, Product):
        return dict(cls='Product')
    return dict(cls=type(n).__name__)


def table_with_py(table, order):
    out = []
    for e, n in zip(table, order):
        d = dict(e)
        d['py'] = py_of(n)
        out.append(d)
    return out


def build_from_table(table):
    """children-first table (with 'py' constructor info) -> (root object, nodes in table order)"""
    objs = []
    for e in table:
        p = e['py']
        c = p['cls']
        if c == 'Bernoulli':
            n = Bernoulli(e['scope'][0], p=p['p'])
        elif c == 'Categorical':
            n = Categorical(e['scope'][0], categories=p['categories'], probabilities=p['probabilities'])
        elif c == 'Gaussian':
            n = Gaussian(e['scope'][0], mean=p['mean'], stddev=p['stddev'])
        elif c == 'Uniform':
            n = Uniform(e['scope'][0], start=p['start'], width=p['width'])
        elif c == 'Isotonic':
            n = Isotonic(e['scope'][0], densities=p['densities'], breaks=p['breaks'])
        elif c == 'BinaryCLT':
            n = BinaryCLT(list(e['scope']), root=p['root'], tree=p['tree'], params=p['params'])
        elif c == 'Sum':
            n = Sum(scope=list(e['scope']), children=[objs[i] for i in e['ch']], weights=np.array(p['weights'], dtype=np.float32))
        elif c == 'Product':
            n = Product(scope=list(e['scope']), children=[objs[i] for i in e['ch']])
        else:
            raise ValueError(c)
        n.id = e['id']
        objs.append(n)
    return objs[-1] if objs else None, objs
