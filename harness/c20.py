"""C20 — the scikit-learn facade agrees with the circuit it wraps."""
import json, hashlib, math
import numpy as np
from harness.common import np_seed, Infra, parse_q, fstr, frac
from harness import spn as S
from harness.build import table_with_py

from deeprob.spn.structure.node import Sum, Product, assign_ids
from deeprob.spn.structure.leaf import Bernoulli, Categorical, Gaussian
from deeprob.spn.structure.cltree import BinaryCLT
from deeprob.spn.models.sklearn import SPNClassifier, SPNEstimator
from deeprob.spn.algorithms.inference import log_likelihood, mpe


LABELS = None      # class label values of the current case (None: 0..K-1)


def label_values(n_classes):
    return np.arange(n_classes, dtype=np.float32) if LABELS is None else np.array(LABELS, dtype=np.float32)


def make_data(rs, n_rows, n_feat, n_classes, gaussian, balance=None):
    y = rs.choice(n_classes, size=n_rows, p=balance)
    y[:n_classes] = np.arange(n_classes)                       # every class present
    centers = rs.rand(n_classes, n_feat)
    if gaussian:
        X = centers[y] * 3 + rs.randn(n_rows, n_feat) * 0.7
    else:
        X = (rs.rand(n_rows, n_feat) < (0.15 + 0.7 * centers[y])).astype(np.float32)
    return X.astype(np.float32), label_values(n_classes)[y].astype(np.float32)


def fit_classifier(rs, n_feat, n_classes, gaussian, clf=None, balance=None):
    X, y = make_data(rs, int(rs.choice([40, 80, 150])), n_feat, n_classes, gaussian, balance)
    dist = [Gaussian if gaussian else Bernoulli] * n_feat
    if clf is None:
        clf = SPNClassifier(dist, learn_leaf='mle', split_rows='kmeans', split_cols='gvs' if not gaussian else 'rdc',
                            min_rows_slice=int(rs.choice([20, 40])), min_cols_slice=2, random_state=int(rs.randint(1000)), verbose=False)
    clf.fit(X, y)
    return clf


def label_of(leaf):
    """the class a branch stands for, read off the PARAMETERS of its label leaf (not through the library's mpe)"""
    if isinstance(leaf, Bernoulli):
        return 1.0 if float(leaf.p) >= 0.5 else 0.0
    return float(leaf.categories[int(np.argmax(np.asarray(leaf.probabilities, dtype=np.float64)))])


def posterior_reference(ctx, clf, data):
    """class posterior table from the exact model values of the class sub-circuits (label missing)"""
    root = clf.spn_
    table, order, index, _ = S.export_net(root)
    dom = S.domain_of(order)
    drv = ctx.get_driver()
    drv.ask(dict(op='net', nodes=table, root=index[id(root)], dom=dom))
    ws = [fstr(frac(w)) for w in root.weights]
    L = [[] for _ in root.children]
    for x in data:
        row, dens = S.row_payload(order, x, len(dom))
        vals = drv.ask(dict(op='eval', row=row, dens=dens)).split()
        for k, c in enumerate(root.children):
            L[k].append(vals[index[id(c)]])
    ans = drv.ask(dict(op='posterior', w=ws, L=L, rows=len(data)))
    tab, pred = ans.split(' | ')
    P = [[float(parse_q(t)) for t in r.split()] for r in tab.split(';')]
    return np.array(P), [int(t) for t in pred.split()]


def check_classifier(ctx, clf, rs, n_feat, n_classes, gaussian, rep, tag):
    for n_rows in sorted({1, n_classes, n_classes + 3, int(rs.choice([7, 20])), 5}):
        X, _ = make_data(rs, max(n_rows, n_classes), n_feat, n_classes, gaussian)
        X = X[:n_rows]
        if n_rows == 5 and gaussian:
            X = X + np.float32(rs.choice([25.0, 60.0, -40.0]))      # evidence far from every class: likelihoods underflow in the linear domain
            ctx.count('outlier-batches')
        miss = rs.rand(*X.shape) < 0.3
        X = np.where(miss, np.nan, X).astype(np.float32)
        ctx.count('rows=classes' if n_rows == n_classes else 'rows!=classes')
        r2 = dict(rep, X=np.where(np.isnan(X), None, X).tolist())
        try:
            P = np.asarray(clf.predict_proba(X))
            LP = np.asarray(clf.predict_log_proba(X))
        except Exception as ex:
            ctx.violation(f'c20-predict_proba-raises:{type(ex).__name__}', f'predict_proba raised {type(ex).__name__}: {ex} for {n_rows} rows and {n_classes} classes', replay=r2)
            return
        if P.shape != (n_rows, n_classes):
            ctx.violation('c20-proba-shape', f'predict_proba returned shape {P.shape} for {n_rows} rows and {n_classes} classes', replay=r2)
            return
        if np.any(np.abs(P.sum(axis=1) - 1.0) > 1e-4):
            ctx.violation('c20-proba-rows', f'predict_proba rows sum to {P.sum(axis=1).tolist()} ({n_rows} rows, {n_classes} classes)', replay=r2)
            return
        if not np.allclose(np.exp(LP), P, atol=1e-6):
            ctx.violation('c20-logproba', 'predict_proba is not exp(predict_log_proba)', replay=r2)
            return
        data = np.hstack([X, np.full((n_rows, 1), np.nan, dtype=np.float32)])
        # reference from the wrapped circuit itself (the property) ...
        _, lls = log_likelihood(clf.spn_, data, return_results=True)
        cl = np.log(clf.spn_.weights)[None, :] + np.stack([lls[c.id] for c in clf.spn_.children], axis=1)
        ref = np.exp(cl - np.logaddexp.reduce(cl, axis=1, keepdims=True))
        if np.any(np.abs(ref - P) > 1e-4):
            r, k = np.unravel_index(int(np.argmax(np.abs(ref - P))), P.shape)
            ctx.violation('c20-proba-value', f'predict_proba[{r},{k}] = {P[r, k]!r} but prior x evidence likelihood normalised over classes is {ref[r, k]!r}', replay=r2)
            return
        # ... and from the exact model
        Pm = None
        if ctx.driver_ok:
            try:
                Pm, pred_m = posterior_reference(ctx, clf, data)
            except (S.ExtremeDensity, ZeroDivisionError):
                ctx.count('batches-too-extreme-for-the-exact-model')      # decided by the log-domain reference above
        if Pm is not None:
            ctx.count('posterior-entries-vs-model', Pm.size)
            if np.any(np.abs(Pm - P) > 2e-4):
                r, k = np.unravel_index(int(np.argmax(np.abs(Pm - P))), P.shape)
                ctx.violation('c20-proba-vs-model', f'predict_proba[{r},{k}] = {P[r, k]!r}, exact posterior {Pm[r, k]!r}', replay=r2)
                return
        pred = np.asarray(clf.predict(X))
        if pred.shape != (n_rows,):
            ctx.violation('c20-predict-shape', f'predict returned shape {pred.shape}', replay=r2)
            return
        labels = []
        for c in clf.spn_.children:          # the class each branch stands for = mode of its label leaf
            lab = [n for n in S.bfs_order(c) if n.scope == [n_feat]]
            labels.append(label_of(lab[0]))
        for r in range(n_rows):
            srt = np.sort(ref[r])[::-1]
            if len(srt) > 1 and srt[0] - srt[1] < 1e-4:
                ctx.count('near-tie-rows-excluded')
                continue
            if float(pred[r]) != labels[int(np.argmax(ref[r]))]:
                ctx.violation('c20-predict', f'predict gives class {pred[r]} but the largest class probability is that of class {labels[int(np.argmax(ref[r]))]} ({ref[r].tolist()})', replay=r2)
                return
    # conditional sampling with given labels, full sampling with a requested number of rows
    y = label_values(n_classes)[rs.randint(n_classes, size=5)].astype(np.float32)
    np.random.seed(int(rs.randint(2 ** 31 - 1)))
    try:
        Sx = np.asarray(clf.sample(y=y))
        Sn = np.asarray(clf.sample(n=4))
    except Exception as ex:
        ctx.violation('c20-sample-raises', f'classifier sample raised {type(ex).__name__}: {ex}', replay=rep)
        return
    if Sx.shape != (5, n_feat + 1) or not np.array_equal(Sx[:, -1], y) or np.any(np.isnan(Sx)):
        ctx.violation('c20-sample-labels', f'sample(y=...) returned shape {Sx.shape} / changed labels / left NaNs', replay=rep)
        return
    if Sn.shape != (4, n_feat + 1) or np.any(np.isnan(Sn)):
        ctx.violation('c20-sample-count', f'sample(n=4) returned shape {Sn.shape} or left NaNs', replay=rep)
        return
    S0 = np.asarray(clf.sample(n=0))
    if S0.shape != (0, n_feat + 1):
        ctx.violation('c20-sample-count', f'sample(n=0) returned shape {S0.shape}, not (0, {n_feat + 1})', replay=rep)


def mpe_label(leaf):
    x = np.array([[np.nan]])
    return float(leaf.mpe(x)[0, 0])


def check_estimator(ctx, rs, rep):
    n_feat = int(rs.randint(2, 6))
    X = (rs.rand(int(rs.choice([60, 120])), n_feat) < rs.rand(n_feat)).astype(np.float32)
    est = SPNEstimator([Bernoulli] * n_feat, [[0, 1]] * n_feat, learn_leaf='mle', split_rows='kmeans', split_cols='gvs', min_rows_slice=30,
                       random_state=int(rs.randint(1000)), verbose=False)
    est.fit(X)
    Q = X[:9].copy()
    Q[rs.rand(*Q.shape) < 0.4] = np.nan
    a = np.asarray(est.predict_log_proba(Q)).reshape(-1)
    b = np.asarray(log_likelihood(est.spn_, Q)).reshape(-1)
    if not np.allclose(a, b, atol=1e-6):
        ctx.violation('c20-estimator-logproba', 'estimator log-probabilities differ from the wrapped circuit', replay=rep)
        return
    m1, m2 = np.asarray(est.mpe(Q)), np.asarray(mpe(est.spn_, Q))
    if not np.array_equal(m1, m2) or not np.array_equal(np.isnan(Q), np.isnan(X[:9]) | np.isnan(Q)):
        ctx.violation('c20-estimator-mpe', 'estimator MPE differs from the wrapped circuit', replay=rep)
        return
    np.random.seed(int(rs.randint(2 ** 31 - 1)))
    Q0 = Q.copy()
    s1 = np.asarray(est.sample(n=6))
    s2 = np.asarray(est.sample(X=Q))
    if not np.array_equal(np.isnan(Q), np.isnan(Q0)) or not np.array_equal(Q[~np.isnan(Q0)], Q0[~np.isnan(Q0)]):
        ctx.violation('c20-estimator-caller-array', 'estimator mpe / sample(X=...) modified the caller\'s query matrix (its missing entries were filled in)', replay=rep)
        return
    s0 = np.asarray(est.sample(n=0))
    if s0.shape != (0, n_feat):
        ctx.violation('c20-estimator-sample-count', f'estimator sample(n=0) returned shape {s0.shape}, not (0, {n_feat})', replay=rep)
        return
    obs = ~np.isnan(Q)
    if s1.shape != (6, n_feat) or np.any(np.isnan(s1)) or s2.shape != Q.shape or np.any(np.isnan(s2)) or not np.array_equal(s2[obs], Q[obs]):
        ctx.violation('c20-estimator-sample', 'estimator sampling: wrong number of rows, unfilled entries or changed evidence', replay=rep)
        return
    if not np.all(np.isin(s1, [0.0, 1.0])):
        ctx.violation('c20-estimator-sample', 'estimator sampling: out-of-domain values', replay=rep)


def check_estimator_xpc(ctx, rs, rep):
    """the estimator facade over the XPC learners (`method='xpc'`): Chow-Liu leaves with shuffled variable orderings inside a learned
    circuit.  `predict_log_proba` on complete and NaN-marked rows against an evaluation of the wrapped circuit from its PARAMETERS
    (`S.ref_value`: plain recursion, Chow-Liu leaves by enumeration), `mpe` / `sample` contract."""
    n_feat = int(rs.choice([4, 5, 6, 8]))
    base = (rs.rand(300, n_feat) < 0.5)
    for j in range(1, n_feat):          # dependent columns, so that the partitions keep multi-variable Chow-Liu leaves
        if rs.rand() < 0.6:
            base[:, j] = np.where(rs.rand(300) < 0.8, base[:, j - 1], ~base[:, j - 1])
    X = base.astype(np.float32)
    cfg = dict(method='xpc', det=bool(rs.rand() < 0.3), sd=bool(rs.rand() < 0.5), min_part_inst=int(rs.choice([20, 40])), conj_len=int(rs.choice([1, 2])),
               arity=int(rs.choice([2, 3])), use_clt=True, random_seed=int(rs.randint(1000)))
    est = SPNEstimator([Bernoulli] * n_feat, [[0, 1]] * n_feat, **cfg)
    try:
        import io, contextlib
        with contextlib.redirect_stdout(io.StringIO()):
            est.fit(X)
    except Exception:
        ctx.count('xpc-fit-did-not-return')
        return
    ctx.count('xpc-estimators')
    unsorted = [n for n in S.bfs_order(est.spn_) if isinstance(n, BinaryCLT) and list(n.scope) != sorted(n.scope)]
    ctx.count('xpc-estimators-with-unsorted-clt-scope' if unsorted else 'xpc-estimators-sorted-scopes-only')
    if any(max(n.scope) - min(n.scope) + 1 == len(n.scope) for n in unsorted):
        ctx.count('xpc-estimators-with-unsorted-clt-scope-over-an-interval-of-columns')
    rep = dict(rep, cfg={k: (v if not isinstance(v, (np.integer, np.bool_)) else v.item()) for k, v in cfg.items()}, n_feat=n_feat)
    Q = X[rs.permutation(len(X))[:12]].copy()
    Q[6:][rs.rand(6, n_feat) < 0.4] = np.nan
    a = np.asarray(est.predict_log_proba(Q), dtype=np.float64).reshape(-1)
    for r in range(len(Q)):
        ref = S.ref_value(est.spn_, Q[r].astype(np.float64))
        if ref <= 0 or abs(math.exp(a[r]) - ref) > 1e-6 + 2e-4 * ref:
            ctx.violation('c20-estimator-xpc-logproba', f'estimator (method=xpc) predict_log_proba {a[r]!r} (probability {math.exp(a[r])!r}) but the wrapped circuit, '
                          f'evaluated from its parameters, has value {ref!r} at {[None if np.isnan(t) else float(t) for t in Q[r]]}', replay=rep)
            return
    m1 = np.asarray(est.mpe(Q))
    obs = ~np.isnan(Q)
    if m1.shape != Q.shape or np.any(np.isnan(m1)) or not np.array_equal(m1[obs], Q[obs]) or not np.all(np.isin(m1, [0.0, 1.0])):
        ctx.violation('c20-estimator-xpc-mpe', 'estimator (method=xpc) mpe: unfilled entries, changed evidence or out-of-domain values', replay=rep)
        return
    s2 = np.asarray(est.sample(X=Q))
    if s2.shape != Q.shape or np.any(np.isnan(s2)) or not np.array_equal(s2[obs], Q[obs]):
        ctx.violation('c20-estimator-xpc-sample', 'estimator (method=xpc) sample(X=...): unfilled entries or changed evidence', replay=rep)


def impossible_evidence_case(ctx, rs, rep):
    """a classifier whose leaves hold probabilities of exactly zero (unsmoothed fit: `learn_leaf_kwargs={'alpha': 0.0}`, a feature value
    never seen in any class) queried with rows that are impossible under every class, next to ordinary rows: `predict_proba` still
    returns probability vectors (entries in [0, 1], rows summing to one), and on the possible rows the exact posterior"""
    n_feat, n_classes = int(rs.randint(3, 6)), int(rs.randint(2, 4))
    n_rows = int(rs.choice([60, 120]))
    y = rs.permutation(np.arange(n_rows) % n_classes)
    centers = rs.rand(n_classes, n_feat)
    X = (rs.rand(n_rows, n_feat) < (0.15 + 0.7 * centers[y])).astype(np.float32)
    X[:, 0] = 0.0                                          # never 1 in any class
    clf = SPNClassifier([Bernoulli] * n_feat, [[0, 1]] * n_feat + [list(range(n_classes))], learn_leaf='mle', split_rows='kmeans', split_cols='gvs',
                        min_rows_slice=int(rs.choice([20, 40])), min_cols_slice=2, learn_leaf_kwargs={'alpha': 0.0}, random_state=int(rs.randint(1000)), verbose=False)
    try:
        clf.fit(X, y.astype(np.float32))
    except Exception:
        ctx.count('fit-did-not-return')
        return
    Q = X[:8].copy()
    Q[:4, 0] = 1.0                                         # four impossible rows, four ordinary ones
    ctx.count('classifiers-queried-with-impossible-evidence')
    try:
        P = np.asarray(clf.predict_proba(Q), dtype=np.float64)
    except Exception as ex:
        ctx.violation(f'c20-raises:{type(ex).__name__}', f'predict_proba raised {type(ex).__name__}: {str(ex)[:160]} on rows that are impossible under every class', replay=rep)
        return
    if P.shape != (8, n_classes) or np.any(np.isnan(P)) or np.any(P < -1e-6) or np.any(P > 1 + 1e-6) or np.any(np.abs(P.sum(axis=1) - 1.0) > 1e-4):
        r = int(np.argmax(np.abs(np.nan_to_num(P.sum(axis=1), nan=9.0) - 1.0))) if P.shape == (8, n_classes) else 0
        ctx.violation('c20-proba-not-a-distribution', f'predict_proba on a row that is impossible under every class (feature 0 was never 1 in training, unsmoothed leaves) '
                      f'returns {P[r].tolist() if P.ndim == 2 else P.shape} (sum {float(np.nansum(P[r])) if P.ndim == 2 else None}): not a probability vector', replay=rep)


def unsorted_domain_case(ctx, rs, rep):
    """categorical features whose domains the USER lists in another order than increasing (`domains=[[2, 0, 1], [1, 3, 0, 2], ...]`): the
    fitted leaves keep the caller's order; `predict_proba` against the posterior of the wrapped circuit evaluated from its parameters"""
    n_feat, n_classes = int(rs.randint(2, 5)), int(rs.randint(2, 4))
    cards = [int(rs.randint(3, 5)) for _ in range(n_feat)]
    n_rows = int(rs.choice([80, 160]))
    y = rs.permutation(np.arange(n_rows) % n_classes)
    X = np.stack([(rs.randint(0, c, size=n_rows) + y) % c for c in cards], axis=1).astype(np.float32)
    # how the codes of a feature are anchored is the caller's business: 0..c-1, or centred codes (-1 / 0 / +1 for down / flat / up,
    # -2..2 for a Likert item) — a category is a label, not an array position
    offs = [int(rs.choice([0, 0, -1, -2])) for _ in cards]
    X = X + np.array(offs, dtype=np.float32)[None, :]
    if any(offs):
        ctx.count('classifiers-with-negative-category-codes')
    doms = []
    for c, off in zip(cards, offs):
        d = [int(t) + off for t in rs.permutation(c)]
        while d == sorted(d) and off == 0:
            d = [int(t) for t in rs.permutation(c)]
        doms.append(d)
    clf = None
    for split_cols in ('gvs', 'rdc', 'random'):      # (the G-test splitter builds histogram bins from the domain and refuses unsorted ones)
        c_ = SPNClassifier([Categorical] * n_feat, doms + [list(range(n_classes))], learn_leaf='mle', split_rows='kmeans', split_cols=split_cols,
                           min_rows_slice=int(rs.choice([20, 40])), min_cols_slice=2, random_state=int(rs.randint(1000)), verbose=False)
        try:
            c_.fit(X, y.astype(np.float32))
            clf = c_
            break
        except Exception:
            ctx.count('fit-did-not-return')
    if clf is None:
        return
    ctx.count('classifiers-with-unsorted-feature-domains')
    Q = X[:10].copy()
    Q[5:][rs.rand(5, n_feat) < 0.4] = np.nan
    try:
        P = np.asarray(clf.predict_proba(Q), dtype=np.float64)
    except Exception as ex:
        ctx.violation(f'c20-raises:{type(ex).__name__}', f'predict_proba raised {type(ex).__name__}: {str(ex)[:160]} (feature domains {doms})', replay=rep)
        return
    for r in range(len(Q)):
        # the property's posterior: class prior x class-conditional evidence likelihood (the class branch with the label missing), normalised
        xr = np.append(Q[r].astype(np.float64), np.nan)
        joint = np.array([float(w) * S.ref_value(b, xr) for w, b in zip(clf.spn_.weights, clf.spn_.children)])
        if joint.sum() <= 0 or len(joint) != n_classes:
            continue
        post = joint / joint.sum()
        if P.shape != (len(Q), n_classes) or np.any(np.abs(P[r] - post) > 1e-4):
            ctx.violation('c20-posterior-unsorted-domains', f'classifier over categorical features with the user-given domains {doms}: predict_proba row '
                          f'{P[r].tolist() if P.ndim == 2 else P.shape} but prior x class-conditional likelihood of the wrapped circuit, evaluated from its parameters and normalised, is {post.tolist()} '
                          f'at {[None if np.isnan(t) else float(t) for t in Q[r]]}', replay=rep)
            return


def clf_case(ctx, k):
    rs = np.random.RandomState(np_seed(ctx.sub_rng('clf', k)))
    n_classes = [2, 3, 5, 2, 4][k % 5]
    n_feat = int(rs.randint(2, 6))
    gaussian = (k % 4 == 3)
    global LABELS
    LABELS = None
    if n_classes >= 3 and k % 2 == 1:
        # class labels that are not 0..K-1 (shifted, or with gaps): positions and label values must not be confused
        LABELS = (list(range(1, n_classes + 1)) if k % 4 == 1 else sorted(int(v) for v in rs.choice(9, n_classes, replace=False)))
        ctx.count('label-sets-not-0..K-1')
    rep = dict(kind='c20', k=k, n_classes=n_classes, n_feat=n_feat, gaussian=gaussian, seed=ctx.seed, labels=LABELS)
    try:
        clf = fit_classifier(rs, n_feat, n_classes, gaussian)
    except Exception as ex:
        ctx.count('fit-did-not-return')
        return
    table = S.export_net(clf.spn_)[0]
    key = hashlib.sha256(json.dumps(table, sort_keys=True).encode()).hexdigest()[:16]
    ctx.case('classifier', nontrivial_key=key, sample=dict(rep, nodes=len(table)))
    ctx.count(f'classes={n_classes}')
    check_classifier(ctx, clf, rs, n_feat, n_classes, gaussian, rep, 'fit')
    if ctx.n_new() == 0 and k % 2 == 0:
        # histories on the SAME estimator object: queried, then refitted on data with another class balance (or its circuit
        # re-weighted / trained further), then queried again: the facade must follow the circuit it wraps NOW
        hist = ['fit', 'predict_proba']
        try:
            if k % 4 == 0:
                bal = rs.dirichlet(np.ones(n_classes) * 0.5) * 0.8 + 0.2 / n_classes
                fit_classifier(rs, n_feat, n_classes, gaussian, clf=clf, balance=bal / bal.sum())
                hist.append('refit on data with another class balance')
            else:
                w = rs.dirichlet(np.ones(len(clf.spn_.weights))).astype(np.float32) * 0.9 + 0.1 / len(clf.spn_.weights)
                clf.spn_.weights = (w / w.sum()).astype(np.float32)
                hist.append('root weights of the wrapped circuit re-assigned')
        except Exception as ex:
            ctx.count('history-step-did-not-return')
            return
        ctx.count('histories:' + hist[-1])
        check_classifier(ctx, clf, rs, n_feat, n_classes, gaussian, dict(rep, history=hist), 'history')
        if ctx.n_new(with_input_only=True) >= 3:
            return


def check_estimator_float64(ctx, rs, rep):
    """continuous features, double-precision evidence that is not single-precision: completions and conditional samples must keep
    every given entry bit for bit (as the wrapped circuit's mpe / sample do)"""
    n_feat = int(rs.randint(2, 5))
    X = (rs.randn(int(rs.choice([80, 160])), n_feat) * rs.uniform(0.5, 3, size=n_feat) + rs.uniform(-5, 1000, size=n_feat)).astype(np.float32)
    est = SPNEstimator([Gaussian] * n_feat, learn_leaf='mle', split_rows='kmeans', split_cols='rdc', min_rows_slice=40, random_state=int(rs.randint(1000)), verbose=False)
    try:
        est.fit(X)
    except Exception:
        ctx.count('fit-did-not-return')
        return
    Q = X[:12].astype(np.float64) * (1.0 + 3e-10) + 1e-10
    Q[rs.rand(*Q.shape) < 0.4] = np.nan
    Q[0, :] = np.nan
    obs = ~np.isnan(Q)
    rep = dict(rep, X=np.where(np.isnan(Q), None, Q).tolist())
    for name, fn in (('mpe', lambda: est.mpe(Q.copy())), ('sample', lambda: est.sample(X=Q.copy()))):
        np.random.seed(int(rs.randint(2 ** 31 - 1)))
        try:
            out = np.asarray(fn())
        except Exception as ex:
            ctx.violation(f'c20-estimator-{name}-raises', f'estimator {name} raised {type(ex).__name__}: {ex} on double-precision evidence', replay=rep)
            return
        ctx.count(f'estimator-float64-{name}')
        if out.shape != Q.shape or np.isnan(out).any():
            ctx.violation(f'c20-estimator-{name}-incomplete', f'estimator {name}: wrong shape or unfilled entries', replay=rep)
            return
        bad = obs & ~(out == Q)
        if bad.any():
            r, c = np.argwhere(bad)[0]
            ctx.violation(f'c20-estimator-{name}-evidence-changed', f'estimator {name} returned {out[r, c]!r} for the given entry {Q[r, c]!r} (double-precision evidence)',
                          replay=rep)
            return


def run(ctx):
    n = 14 if ctx.tier == 'quick' else 200
    for k in range(n):
        clf_case(ctx, k)
        if ctx.n_new(with_input_only=True) >= 3:
            return
    for k in range(4 if ctx.tier == 'quick' else 60):
        rs = np.random.RandomState(np_seed(ctx.sub_rng('est', k)))
        ctx.case('estimator', nontrivial_key=('est', k), sample=dict(kind='estimator', k=k))
        check_estimator(ctx, rs, dict(kind='c20-est', k=k, seed=ctx.seed))
        if ctx.n_new() == 0:
            unsorted_domain_case(ctx, rs, dict(kind='c20-unsorted-domains', k=k, seed=ctx.seed))
        if ctx.n_new() == 0:
            impossible_evidence_case(ctx, rs, dict(kind='c20-impossible', k=k, seed=ctx.seed))
        for j in range(5):
            if ctx.n_new() == 0:
                check_estimator_xpc(ctx, rs, dict(kind='c20-est-xpc', k=k, j=j, seed=ctx.seed))
        if ctx.n_new(with_input_only=True) >= 3:
            return
        ctx.case('estimator-float64', nontrivial_key=('est64', k), sample=dict(kind='estimator-float64', k=k))
        check_estimator_float64(ctx, rs, dict(kind='c20-est64', k=k, seed=ctx.seed))
        if ctx.n_new(with_input_only=True) >= 3:
            return


_run_core = run


def run(ctx):
    _run_core(ctx)
    if ctx.n_new() == 0 and ctx.driver_ok:
        from harness.common import run_demo
        run_demo(ctx, 'demo_tr3.py', [1 + ctx.seed], 'c20-code-vs-generated-vs-model',
                 'predict_proba / predict_log_proba / predict vs generated definitions vs posterior model', env_extra=dict(DEMO_SECTIONS='e'))


def replay(rep):
    if rep['replay'].get('kind') == 'demo':
        from harness.common import replay_demo
        return replay_demo(rep['replay'])
    r = rep['replay']
    if r['kind'] != 'c20':
        print('estimator case: re-run the check with VERIF_SEED =', r.get('seed'))
        return True
    # the case (data, fit, history, queries) is regenerated from its seed and run through the same oracle, without the model
    from harness.common import Ctx
    ctx = Ctx('C20', 'quick', r['seed'])
    ctx.driver_ok = False
    clf_case(ctx, r['k'])
    for v in ctx.violations:
        print('  ', v['what'][:300])
    return not ctx.violations
