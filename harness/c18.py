"""C18 — cutset networks evaluate their OR-tree semantics and are normalised."""
import itertools, json, math
import numpy as np
from harness.common import np_seed, Infra, parse_q, fstr, frac, close_log, qlog

from deeprob.spn.structure.cnet import BinaryCNet
from deeprob.spn.learning.cnet_bayesian import learn_cnet_bd, learn_cnet_bic


def gen_data(rs, k):
    nv = int(rs.randint(2, 9))
    nr = int(rs.choice([4, 15, 60, 150, 400, 800]))
    fam = k % 6
    X = rs.randint(0, 2, size=(nr, nv))
    if fam == 1:
        z = rs.randint(0, 2, size=(nr, 2))
        X = np.stack([np.where(rs.rand(nr) < 0.15, 1 - z[:, j % 2], z[:, j % 2]) for j in range(nv)], axis=1)
    elif fam == 2:
        X[:, rs.randint(nv)] = rs.randint(2)                      # a constant column
    elif fam == 3:
        X = np.tile(rs.randint(0, 2, size=(1, nv)), (nr, 1))      # identical rows: nothing to split on
    elif fam == 4:
        X = (rs.rand(nr, nv) < 0.1).astype(int)
    elif fam == 5:
        # context-specific dependence (x3 = x1 xor x2 if x0 = 0 else x1): makes the learners split below the root
        nv = max(nv, 4)
        nr = int(rs.choice([300, 600, 1000]))
        X = rs.randint(0, 2, size=(nr, nv))
        X[:, 3] = np.where(X[:, 0] == 0, X[:, 1] ^ X[:, 2], X[:, 1])
        if nv > 4:
            X[:, 4] = np.where(X[:, 1] == 1, X[:, 0] ^ X[:, 2], X[:, 4])
    return X.astype(np.float32), ['random', 'clustered', 'constant-column', 'identical-rows', 'sparse', 'context-specific'][fam]


def learn(rs, X, k):
    which = k % 3
    if which == 0:
        kw = dict(alpha=float(rs.choice([0.01, 0.1, 1.0])), min_n_samples=int(rs.choice([1, 5, 10, 40])), min_n_features=int(rs.choice([1, 2])),
                  min_mean_entropy=float(rs.choice([0.0, 0.01, 0.3])))
        c = BinaryCNet(scope=list(range(X.shape[1])))
        if (k // 3) % 3 == 1:
            # history: the same object was fitted before, on other data (few rows: not split at all / many rows: split): it must
            # afterwards be the network of the LAST fit
            X0 = (rs.rand(int(rs.choice([3, 6, 200])), X.shape[1]) < 0.5).astype(np.float32)
            try:
                c.fit(X0, **dict(kw, min_n_samples=int(rs.choice([1, 50]))))
                learn.history = dict(first_fit_data=X0.astype(int).tolist(), first_fit_min_n_samples=None)
            except Exception:
                c = BinaryCNet(scope=list(range(X.shape[1])))
        c.fit(X, **kw)
        return 'fit', kw, c
    if which == 1:
        kw = dict(ess=float(rs.choice([0.1, 1.0, 4.0])), n_cand_cuts=int(rs.choice([2, 3, 10])))
        return 'bd', kw, learn_cnet_bd(X, **kw)
    kw = dict(alpha=float(rs.choice([0.01, 0.1, 1.0])), n_cand_cuts=int(rs.choice([2, 3, 10])))
    return 'bic', kw, learn_cnet_bic(X, **kw)


def export(node, depth=0):
    """OR-tree as nested JSON; returns (tree, problems)"""
    probs = []
    scope = [int(v) for v in node.scope]
    if getattr(node, 'clt', None) is not None and not node.children:
        clt = node.clt
        if [int(v) for v in clt.scope] != scope:
            probs.append(f'leaf tree scope {list(clt.scope)} differs from the node scope {scope}')
        t = np.exp(np.asarray(clt.params, dtype=np.float64))
        return dict(kind='clt', scope=scope, pred=[int(p) for p in clt.tree],
                    cpt=[[[fstr(frac(t[i, l, kk])) for kk in range(2)] for l in range(2)] for i in range(len(scope))]), probs
    if not node.children or len(node.children) != 2 or node.weights is None or node.or_id is None:
        probs.append(f'node over {scope} is neither a split (two children, weights, cut variable) nor a leaf with a tree')
        return None, probs
    w = [float(x) for x in node.weights]
    if not (0 < w[0] < 1 and 0 < w[1] < 1 and abs(w[0] + w[1] - 1) < 1e-6):
        probs.append(f'branch weights {w} are not a pair (w, 1-w) in (0,1)')
    if node.or_id not in scope:
        probs.append(f'cut variable {node.or_id} not in the node scope {scope}')
    exp_scope = [v for v in scope if v != node.or_id]
    kids = []
    for c in node.children:
        if [int(v) for v in c.scope] != exp_scope:
            probs.append(f'child scope {list(c.scope)} is not the parent scope minus the cut variable {exp_scope}')
        t, p = export(c, depth + 1)
        probs += p
        kids.append(t)
    if any(t is None for t in kids):
        return None, probs
    return dict(kind='or', scope=scope, v=int(node.or_id), w=[fstr(frac(x)) for x in w], ch=kids), probs


def or_depth(node):
    return 0 if not node.children else 1 + max(or_depth(ch) for ch in node.children)


def semantics_py(node, x):
    """the property's statement written independently: branch weights selected by the row x CLT likelihood at the leaf reached"""
    ll = 0.0
    while node.children:
        b = int(x[node.or_id])
        ll += math.log(float(node.weights[b]))
        node = node.children[b]
    cols = [int(v) for v in node.scope]
    return ll + float(np.asarray(node.clt.log_likelihood(np.array([[x[v] for v in cols]], dtype=np.float32))).reshape(-1)[0])


def one_case(ctx, k):
    rs = np.random.RandomState(np_seed(ctx.sub_rng('data', k)))
    X, fam = gen_data(rs, k)
    nr, nv = X.shape
    rep = dict(kind='c18', k=k, seed=ctx.seed)
    learn.history = None
    try:
        which, kw, c = learn(rs, X, k)
    except Exception as ex:
        ctx.count('learner-did-not-return:' + type(ex).__name__)
        return
    ctx.case(which, nontrivial_key=json.dumps([X.tolist(), which, kw]), sample=dict(learner=which, args=kw, data_family=fam, rows=nr, vars=nv,
                                                                                    split=bool(c.children)))
    ctx.count('learner:' + which)
    ctx.count('root-split' if c.children else 'no-split-at-all')
    ctx.count(f'or-depth={or_depth(c)}')
    rep.update(learner=which, args=kw, data=X.astype(int).tolist(), history=learn.history)
    if learn.history:
        ctx.count('fitted-twice-on-one-object')
    rows = np.array(list(itertools.product([0, 1], repeat=nv)), dtype=np.float32)
    try:
        ll = np.asarray(c.log_likelihood(rows), dtype=np.float64).reshape(-1)
    except Exception as ex:
        ctx.violation(f'c18-evaluation-raises:{type(ex).__name__}', f'{which}({kw}) on {fam} data {nr}x{nv} returned a network whose log_likelihood raises '
                                                                    f'{type(ex).__name__}: {ex} (root split: {bool(c.children)})', replay=rep)
        return
    mass = float(np.sum(np.exp(ll)))
    if abs(mass - 1.0) > 1e-4:
        ctx.violation('c18-mass', f'likelihoods of all {len(rows)} binary rows sum to {mass}', replay=rep)
        return
    # the value of a row must not depend on which other rows are in the batch: single rows, and the rows of one branch only
    for sub in [rows[i:i + 1] for i in range(0, len(rows), max(1, len(rows) // 12))] + [rows[rows[:, 0] == 1], rows[rows[:, -1] == 0]]:
        if len(sub) == 0:
            continue
        try:
            l2 = np.asarray(c.log_likelihood(sub), dtype=np.float64).reshape(-1)
        except Exception as ex:
            ctx.violation(f'c18-evaluation-raises:{type(ex).__name__}', f'log_likelihood raises {type(ex).__name__}: {ex} on a batch of {len(sub)} row(s)', replay=rep)
            return
        ctx.count('sub-batches')
        for x_, v_ in zip(sub, l2):
            ref = semantics_py(c, x_)
            if abs(ref - v_) > 1e-4 + 1e-5 * abs(ref):
                ctx.violation('c18-batch-dependent', f'row {x_.tolist()} evaluated in a batch of {len(sub)} row(s): log_likelihood {v_} but branch weights x leaf tree '
                                                     f'likelihood gives {ref}', replay=dict(rep, rows=sub.tolist()))
                return
    # two or more evaluations of the same learned network overlapping in time (a data set scored in chunks by a thread pool): every row
    # still gets its own value
    if c.children and k % 3 == 0:
        import threading
        chunks = [rows[i::4] for i in range(4)]
        refs = [ll[i::4] for i in range(4)]
        bad, start = [], threading.Barrier(4)

        def work(ci):
            try:
                start.wait(10)
                for _ in range(25):
                    got = np.asarray(c.log_likelihood(chunks[ci]), dtype=np.float64).reshape(-1)
                    if got.shape != refs[ci].shape or np.any(np.abs(got - refs[ci]) > 1e-4 + 1e-5 * np.abs(refs[ci])):
                        bad.append(f'chunk {ci}: values differ from those of the sequential evaluation (e.g. row {chunks[ci][0].tolist()})')
                        return
            except Exception as ex:
                bad.append(f'chunk {ci}: {type(ex).__name__}: {str(ex)[:120]}')
        ts = [threading.Thread(target=work, args=(i,), daemon=True) for i in range(4)]
        for t in ts:
            t.start()
        for t in ts:
            t.join(60)
        ctx.count('concurrent-evaluations')
        if bad:
            ctx.violation('c18-concurrent', f'four threads scoring disjoint chunks of the rows with the same learned network ({which}): ' + bad[0], replay=dict(rep, concurrent=True))
            return
    tree, probs = export(c)
    if probs:
        ctx.violation('c18-malformed', 'returned network is malformed: ' + probs[0], replay=rep)
        return
    for r in range(0, len(rows), max(1, len(rows) // 40)):
        ref = semantics_py(c, rows[r])
        if abs(ref - ll[r]) > 1e-4 + 1e-5 * abs(ref):
            ctx.violation('c18-semantics', f'row {rows[r].tolist()}: log_likelihood {ll[r]} but branch weights x leaf tree likelihood gives {ref}', replay=rep)
            return
    if ctx.driver_ok:
        drv = ctx.get_driver()
        ans = drv.ask(dict(op='cnet', tree=tree, rows=[[int(v) for v in row] for row in rows]))
        vals = [parse_q(t) for t in ans.split()]
        ctx.count('rows-vs-model', len(vals))
        for r, q in enumerate(vals):
            if not close_log(ll[r], q, atol=1e-3):
                ctx.violation('c18-vs-model', f'row {rows[r].tolist()}: log_likelihood {ll[r]} but the OR-tree semantics is {qlog(q)}', replay=rep)
                return
        tot = float(sum(vals))
        if abs(tot - 1.0) > 1e-5:
            ctx.violation('c18-model-mass', f'exact OR-tree values sum to {tot}', replay=rep)


def run(ctx):
    n = 150 if ctx.tier == 'quick' else 2000
    for k in range(n):
        one_case(ctx, k)
        if ctx.n_new(with_input_only=True) >= 3:
            break


_run_core = run


def run(ctx):
    _run_core(ctx)
    if ctx.n_new() == 0 and ctx.driver_ok:
        from harness.common import run_demo
        run_demo(ctx, 'demo_cnetlearn.py', ['--n', 150 if ctx.tier == 'quick' else 2500, '--seed', ctx.seed], 'c18-learner-vs-model',
                 'the three cutset-network learners against the Lean learner machine replaying their decisions (tree, exact weights, leaf rows)', env_extra=None)
        if ctx.n_new() == 0:
            run_demo(ctx, 'demo_tr3.py', [1 + ctx.seed], 'c18-code-vs-generated-vs-model',
                     'BinaryCNet.log_likelihood routing vs generated step vs cnetBatch', env_extra=dict(DEMO_SECTIONS='c'))
        if ctx.n_new() == 0:
            run_demo(ctx, 'demo_tr4.py', [1 + ctx.seed], 'c18-code-vs-generated-vs-model-4',
                     'cutset-network learner iterations vs generated steps vs the learner machine', env_extra=dict(DEMO_SECTIONS='e'))


def replay(rep):
    if rep['replay'].get('kind') == 'demo':
        from harness.common import replay_demo
        return replay_demo(rep['replay'])
    r = rep['replay']
    if r.get('history') or r.get('concurrent'):
        # regenerate the whole case (both fits on one object) from its seed and run it through the same oracle, without the model
        from harness.common import Ctx
        ctx = Ctx('C18', 'quick', r['seed'])
        ctx.driver_ok = False
        one_case(ctx, r['k'])
        for v in ctx.violations:
            print('  ', v['what'][:300])
        return not ctx.violations
    X = np.array(r['data'], dtype=np.float32)
    kw = r['args']
    if r['learner'] == 'fit':
        c = BinaryCNet(scope=list(range(X.shape[1])))
        c.fit(X, **kw)
    elif r['learner'] == 'bd':
        c = learn_cnet_bd(X, **kw)
    else:
        c = learn_cnet_bic(X, **kw)
    rows = np.array(list(itertools.product([0, 1], repeat=X.shape[1])), dtype=np.float32)
    try:
        ll = np.asarray(c.log_likelihood(rows), dtype=np.float64).reshape(-1)
    except Exception as ex:
        print('log_likelihood raised', type(ex).__name__, ex)
        return False
    print('mass', float(np.sum(np.exp(ll))))
    return abs(float(np.sum(np.exp(ll))) - 1) < 1e-4
