"""C03 — validation accepts exactly the smooth, decomposable, well-labelled circuits; gates reject before use."""
import itertools, json, hashlib, copy
import numpy as np
from harness.common import Infra, np_seed
from harness import spn as S
from harness.build import table_with_py

from deeprob.spn.structure.node import Sum, Product, assign_ids
from deeprob.spn.structure.leaf import Bernoulli
from deeprob.spn.utils.validity import check_spn
from deeprob.spn.algorithms import inference, sampling, structure, moments
from deeprob.spn.learning.em import expectation_maximization


# ----------------------------------------------------------------------------- raw construction (constructors would refuse)
def raw(kind, scope, children=(), weights=None, nid=0):
    if kind == 'leaf':
        n = Bernoulli(0, 0.5)
    elif kind == 'sum':
        n = Sum.__new__(Sum)
        n.weights = None if weights is None else np.array(weights, dtype=np.float32)
    else:
        n = Product.__new__(Product)
    n.scope = list(scope)
    n.children = list(children)
    n.id = nid
    return n


def impl_verdict(root):
    try:
        check_spn(root, labeled=True, smooth=True, decomposable=True)
        return 'accept'
    except ValueError as ex:
        m = str(ex)
        if 'not correctly labeled' in m:
            return 'reject:labeled'
        if 'not smooth' in m:
            return 'reject:smooth'
        if 'not decomposable' in m:
            return 'reject:decomposable'
        return 'reject:other:' + m
    except Exception as ex:
        # `check_spn` raises TypeError (not ValueError) for a sum whose weights are None (`Props/C03Opt.lean: OVerdict.typeError`);
        # the generators of this module never build one, so any other exception is a disagreement with a concrete circuit
        return 'reject:raises:' + type(ex).__name__


def spec_verdict(root):
    """the property's iff, written independently of the library (the failing-input oracle)"""
    nodes = S.bfs_order(root)
    ids = [n.id for n in nodes]
    if sorted(ids) != list(range(len(nodes))):
        return 'reject:labeled'
    for n in nodes:
        if isinstance(n, Sum):
            if len(n.children) == 0 or n.weights is None or len(n.weights) != len(n.children):
                return 'reject:smooth'
            if any(set(c.scope) != set(n.scope) for c in n.children):
                return 'reject:smooth'
    for n in nodes:
        if isinstance(n, Product):
            if len(n.children) == 0:
                return 'reject:decomposable'
            cat = [v for c in n.children for v in c.scope]
            if len(cat) != len(set(cat)) or set(cat) != set(n.scope):
                return 'reject:decomposable'
    return 'accept'


def model_verdict(ctx, root):
    drv = ctx.get_driver()
    table, order, index, acyclic = S.export_net(root)
    drv.ask(dict(op='net', nodes=table, root=index[id(root)], dom=[2, 2, 2, 2, 2, 2, 2, 2]))
    v = drv.ask(dict(op='check'))
    return ':'.join(v.split(':')[:2]), table, order


class UserSum(Sum):
    """a user's subclass of a sum node (own EM step, own bookkeeping, ...): still a sum node for every algorithm, and for validation"""


class UserProduct(Product):
    """a user's subclass of a product node"""


def subclassed(root):
    """a copy of the circuit in which every other inner node is an instance of a user subclass of its class"""
    from copy import deepcopy
    r = deepcopy(root)
    for k, n in enumerate(S.bfs_order(r)):
        if k % 2 == 0 or len(S.bfs_order(r)) < 4:
            if type(n) is Sum:
                n.__class__ = UserSum
            elif type(n) is Product:
                n.__class__ = UserProduct
    return r


def compare(ctx, root, tag, sample=None, subclass=False):
    if subclass:
        root = subclassed(root)
    iv = impl_verdict(root)
    sv = spec_verdict(root)
    ctx.count('verdict:' + sv)
    table = None
    if ctx.driver_ok:
        mv, table, order = model_verdict(ctx, root)
    else:
        mv = None
        table, order, _, _ = S.export_net(root)
    key = hashlib.sha256(json.dumps(table, sort_keys=True).encode()).hexdigest()[:16]
    ctx.case(tag, nontrivial_key=key if len(table) > 1 else None, sample=sample or dict(table=table, impl=iv, model=mv, spec=sv))
    if iv != sv:
        # property false of the implementation on this circuit
        ctx.violation('c03-verdict:' + sv + '->' + iv,
                      f'validation says {iv} but the circuit is {sv} by the property (ids {[n.id for n in S.bfs_order(root)]})',
                      replay=dict(kind='c03', table=raw_table(root), subclass=subclass))
        return False
    if mv is not None and mv != iv:
        ctx.violation('c03-model-disagrees', f'model checkSpn says {mv}, implementation says {iv} (implementation agrees with the property here)',
                      replay=dict(kind='c03', table=raw_table(root)), found_input=False)
        return False
    return True


def raw_table(root):
    order, acyclic = S.children_first(root)
    if not acyclic:
        order = S.bfs_order(root)
    index = {id(n): i for i, n in enumerate(order)}
    return [dict(kind='sum' if isinstance(n, Sum) else 'prod' if isinstance(n, Product) else 'leaf', id=n.id if n.id is None else int(n.id),
                 scope=[int(v) for v in n.scope], ch=[index[id(c)] for c in n.children],
                 w=None if not isinstance(n, Sum) or n.weights is None else [float(w) for w in n.weights]) for n in order]


def from_raw_table(t):
    objs = []
    for e in t:
        objs.append(raw(e['kind'], e['scope'], [], e.get('w'), e['id']))
    for e, n in zip(t, objs):
        n.children = [objs[i] for i in e['ch']]
    return objs[-1] if all(all(c < i for c in e['ch']) for i, e in enumerate(t)) else objs[0]


# ----------------------------------------------------------------------------- bounded-exhaustive small nets
SCOPES = [[0], [1], [0, 1], [1, 0]]


def enumerate_small(n_nodes, scopes):
    """all children-first tables with n_nodes nodes whose last node reaches every node"""
    kinds = ['leaf', 'sum', 'prod']
    def rec(i, acc):
        if i == n_nodes:
            yield list(acc)
            return
        for k in kinds:
            child_sets = [()] if k == 'leaf' else [c for r in range(0, i + 1) for c in itertools.combinations(range(i), r)]
            for ch in child_sets:
                for sc in scopes:
                    acc.append((k, ch, sc))
                    yield from rec(i + 1, acc)
                    acc.pop()
    for t in rec(0, []):
        # reachability from the last node
        seen = {n_nodes - 1}
        stack = [n_nodes - 1]
        while stack:
            j = stack.pop()
            for c in t[j][1]:
                if c not in seen:
                    seen.add(c)
                    stack.append(c)
        if len(seen) == n_nodes:
            yield t


def build_small(t, id_mode, w_delta):
    objs = []
    n = len(t)
    for i, (k, ch, sc) in enumerate(t):
        w = None
        if k == 'sum':
            m = max(len(ch) + (w_delta if i == n - 1 else 0), 0)
            w = [1.0 / m] * m if m else []
        objs.append(raw(k, sc, [objs[c] for c in ch], w))
    # ids: topological (root 0) by reversed table order
    for j, o in enumerate(reversed(objs)):
        o.id = j
    if id_mode == 'shift':
        for o in objs:
            o.id += 1
    elif id_mode == 'dup' and n >= 2:
        objs[0].id = objs[1].id
    elif id_mode == 'gap':
        objs[0].id = n
    return objs[-1]


# ----------------------------------------------------------------------------- corruptions of valid circuits
def corruptions(rs, root):
    """yield (name, corrupted deep copy)"""
    def nodes_of(r):
        return S.bfs_order(r)
    base = copy.deepcopy(root)
    inner = [n for n in nodes_of(base) if n.children]
    if not inner:
        return
    for name in ['overlap-keep-union', 'overlap-non-adjacent', 'gap', 'missing-weight', 'extra-weight', 'id-clash', 'id-gap', 'childless', 'cycle', 'sum-scope',
                 'overlap-dup-scope-list', 'dup-scope-list-only', 'overlap-dup-in-child']:
        r = copy.deepcopy(root)
        ns = nodes_of(r)
        prods = [n for n in ns if isinstance(n, Product)]
        sums = [n for n in ns if isinstance(n, Sum)]
        if name == 'overlap-keep-union' and prods:
            p = prods[rs.randint(len(prods))]
            if len(p.children) >= 2:
                a, b = p.children[0], p.children[1]
                # child a additionally claims a variable of child b: union unchanged, overlap introduced
                extra = raw('prod', list(a.scope) + [b.scope[0]], [a, raw('leaf', [b.scope[0]])])
                p.children = [extra] + list(p.children[1:])
                assign_ids(r)
                yield name, r
        elif name == 'overlap-non-adjacent' and prods:
            # a further child, placed LAST, repeats a variable of the FIRST child: with >= 3 children the two are not adjacent
            p = prods[rs.randint(len(prods))]
            if len(p.children) >= 2:
                p.children = list(p.children) + [raw('leaf', [p.children[0].scope[0]])]
                assign_ids(r)
                yield name, r
        elif name == 'gap' and prods:
            p = prods[rs.randint(len(prods))]
            if len(p.children) >= 2:
                p.children = list(p.children[1:])
                assign_ids(r)
                yield name, r
        elif name == 'missing-weight' and sums:
            s = sums[rs.randint(len(sums))]
            s.weights = s.weights[:-1]
            yield name, r
        elif name == 'extra-weight' and sums:
            s = sums[rs.randint(len(sums))]
            s.weights = np.append(s.weights, np.float32(0.0))
            yield name, r
        elif name == 'id-clash' and len(ns) >= 2:
            ns[-1].id = ns[0].id
            yield name, r
        elif name == 'id-gap':
            ns[-1].id = len(ns)
            yield name, r
        elif name == 'childless':
            n = [x for x in ns if x.children][rs.randint(len([x for x in ns if x.children]))]
            n.children = []
            if isinstance(n, Sum):
                n.weights = np.array([], dtype=np.float32)
            if n is r or True:
                try:
                    assign_ids(r)
                except Exception:
                    pass
            yield name, r
        elif name == 'cycle':
            leafparents = [x for x in ns if x.children and x is not r]
            if leafparents:
                x = leafparents[rs.randint(len(leafparents))]
                x.children = list(x.children) + [r]
                if isinstance(x, Sum):
                    x.weights = np.append(x.weights, np.float32(0.0))
                yield name, r
        elif name == 'sum-scope' and sums:
            s = sums[rs.randint(len(sums))]
            s.scope = list(s.scope) + [max(s.scope) + 7]
            yield name, r
        elif name == 'overlap-dup-scope-list' and prods:
            # a further child repeats a variable AND the product's own scope list repeats it as often: lengths agree, sets agree
            p = prods[rs.randint(len(prods))]
            v = p.children[rs.randint(len(p.children))].scope[0]
            p.children = list(p.children) + [raw('leaf', [v])]
            p.scope = list(p.scope) + [v]
            assign_ids(r)
            yield name, r
        elif name == 'dup-scope-list-only' and prods:
            # only the scope LIST of a product repeats a variable; as sets nothing changed (still a valid circuit by the property)
            p = prods[rs.randint(len(prods))]
            p.scope = list(p.scope) + [p.scope[0]]
            yield name, r
        elif name == 'overlap-dup-in-child' and prods:
            # a child whose own scope list repeats a variable (sets unchanged) next to the product
            p = prods[rs.randint(len(prods))]
            c = p.children[rs.randint(len(p.children))]
            if not c.children:
                c.scope = list(c.scope) + [c.scope[0]]
                yield name, r


GATES = ['likelihood', 'log_likelihood', 'mpe', 'sample', 'prune', 'marginalize', 'em', 'moment']


def gate_call(name, root, ncols):
    X = np.zeros((2, ncols), dtype=np.float32)
    Xn = X.copy()
    Xn[:, :] = np.nan
    if name == 'likelihood':
        return inference.likelihood(root, X)
    if name == 'log_likelihood':
        return inference.log_likelihood(root, X)
    if name == 'mpe':
        return inference.mpe(root, Xn)
    if name == 'sample':
        return sampling.sample(root, Xn)
    if name == 'prune':
        return structure.prune(root, copy=True)
    if name == 'marginalize':
        return structure.marginalize(root, [root.scope[0]], copy=True)
    if name == 'em':
        return expectation_maximization(root, X, num_iter=1, batch_perc=1.0, verbose=False)
    if name == 'moment':
        return moments.moment(root, order=1)


def check_gates(ctx, root, name, ncols):
    """every entry point must refuse an invalid circuit with an error before producing a result"""
    for g in GATES:
        ctx.count('gate:' + g)
        try:
            gate_call(g, copy.deepcopy(root), ncols)
        except ValueError:
            continue
        except RecursionError:
            ctx.violation(f'c03-gate:{g}:recursion', f'{g} recursed without bound on an invalid circuit ({name}) instead of rejecting it',
                          replay=dict(kind='c03-gate', gate=g, table=raw_table(root), ncols=ncols))
            return
        except Exception as ex:
            # touched the circuit and crashed with something else than the validation error
            ctx.violation(f'c03-gate:{g}:{type(ex).__name__}',
                          f'{g} did not reject an invalid circuit ({name}) with a validation error; it ran into {type(ex).__name__}: {ex}',
                          replay=dict(kind='c03-gate', gate=g, table=raw_table(root), ncols=ncols))
            return
        else:
            ctx.violation(f'c03-gate:{g}:returned', f'{g} returned a result for an invalid circuit ({name})',
                          replay=dict(kind='c03-gate', gate=g, table=raw_table(root), ncols=ncols))
            return


# ----------------------------------------------------------------------------- histories: earlier calls of the same session
PROVOCATIONS = ['em-narrow-data', 'mpe-narrow-data', 'sample-narrow-data', 'likelihood-narrow-data', 'marginalize-empty', 'marginalize-all',
                'em-ok', 'mpe-ok', 'sample-ok', 'prune-ok', 'marginalize-ok', 'moment-bad-order', 'mpe-no-nan-3d', 'clt-marginalize-foreign']


def provoke(name, root, nv):
    """an earlier call of the session on a VALID circuit; several of them raise inside the library (bad data shape, bad
    arguments) — whatever they do, validation of later circuits must not depend on it. Returns what happened."""
    from deeprob.spn.structure.cltree import BinaryCLT
    X1 = np.zeros((3, 1), dtype=np.float32)
    Xn1 = np.full((3, 1), np.nan, dtype=np.float32)
    X = np.zeros((3, nv), dtype=np.float32)
    Xn = np.full((3, nv), np.nan, dtype=np.float32)
    r = copy.deepcopy(root)
    try:
        if name == 'em-narrow-data':
            expectation_maximization(r, X1, num_iter=1, batch_perc=1.0, verbose=False)
        elif name == 'mpe-narrow-data':
            inference.mpe(r, Xn1)
        elif name == 'sample-narrow-data':
            sampling.sample(r, Xn1)
        elif name == 'likelihood-narrow-data':
            inference.likelihood(r, X1)
        elif name == 'marginalize-empty':
            structure.marginalize(r, [], copy=True)
        elif name == 'marginalize-all':
            structure.marginalize(r, list(r.scope) + [max(r.scope) + 3], copy=True)
        elif name == 'em-ok':
            expectation_maximization(r, X, num_iter=1, batch_perc=1.0, verbose=False)
        elif name == 'mpe-ok':
            inference.mpe(r, Xn)
        elif name == 'sample-ok':
            sampling.sample(r, Xn)
        elif name == 'prune-ok':
            structure.prune(r, copy=True)
        elif name == 'marginalize-ok':
            structure.marginalize(r, [r.scope[0]], copy=True)
        elif name == 'moment-bad-order':
            moments.moment(r, order=-1)
        elif name == 'mpe-no-nan-3d':
            inference.mpe(r, np.zeros((2, nv, 2), dtype=np.float32))
        elif name == 'clt-marginalize-foreign':
            # a circuit with a Chow-Liu leaf: marginalize converts it inside a check-disabled region; the leaf is broken on purpose
            clt = BinaryCLT(list(range(2)), root=0)
            clt.fit(np.array([[0, 1], [1, 0], [1, 1], [0, 0]], dtype=np.float32), [[0, 1], [0, 1]], alpha=0.1)
            clt.params = None
            p = Product(children=[clt] + [Bernoulli(v, 0.5) for v in range(2, 3)])
            assign_ids(p)
            structure.marginalize(p, [0], copy=True)
    except Exception as ex:
        return type(ex).__name__
    return 'returned'


def check_history(ctx, root, nv, rs, n_prov):
    names = [PROVOCATIONS[i] for i in rs.permutation(len(PROVOCATIONS))[:n_prov]]
    done = []
    for pn in names:
        out = provoke(pn, root, nv)
        done.append([pn, out])
        ctx.count(f'history:{pn}:{"raised" if out != "returned" else "returned"}')
        # after this prefix of the history: an invalid circuit must still be rejected by the validator and by every gate
        for cname, bad in corruptions(rs, root):
            if spec_verdict(bad) == 'accept':
                continue
            iv = impl_verdict(bad)
            if not iv.startswith('reject'):
                ctx.violation('c03-history-verdict', f'after the session history {done} validation says {iv} for a circuit that is '
                              f'{spec_verdict(bad)} by the property ({cname})',
                              replay=dict(kind='c03-history', valid=raw_table(root), nv=nv, history=[d[0] for d in done], table=raw_table(bad), gate=None))
                return False
            for g in GATES:
                try:
                    gate_call(g, copy.deepcopy(bad), nv + 8)
                except ValueError:
                    continue
                except Exception:
                    continue   # gate errors without a history are the business of check_gates
                ctx.violation(f'c03-history-gate:{g}', f'after the session history {done}, {g} returned a result for an invalid circuit ({cname})',
                              replay=dict(kind='c03-history', valid=raw_table(root), nv=nv, history=[d[0] for d in done], table=raw_table(bad), gate=g))
                return False
            break   # one corruption per prefix keeps the stream fast; the corruption kind rotates with rs
    return True


def thread_schedule_check(ctx, quick):
    """validation in one thread while ANOTHER thread is inside a check-disabled region (the library enters such regions itself in the
    top-down pass, in every EM iteration and when marginalize converts Chow-Liu leaves): the flags are per thread of control. The
    schedule is forced with events: thread A enters the region and waits; the main thread validates invalid circuits; A leaves."""
    import threading
    from deeprob.context import ContextState
    for k in range(3 if quick else 30):
        rs = np.random.RandomState(np_seed(ctx.sub_rng('threads', k)))
        nv = int(rs.randint(2, 5))
        root = S.rand_spn(rs, list(range(nv)), depth=int(rs.randint(1, 4)), kinds=('bern',), share=0.4)
        if not root.children:
            continue
        assign_ids(root)
        bads = [(n_, b) for n_, b in corruptions(rs, root) if spec_verdict(b) != 'accept']
        if not bads:
            continue
        entered, release = threading.Event(), threading.Event()

        def other():
            with ContextState(check_spn=False):
                entered.set()
                release.wait(20)
        t = threading.Thread(target=other, daemon=True)
        t.start()
        entered.wait(20)
        try:
            ctx.count('thread-schedules')
            for cname, bad in bads[:4]:
                iv = impl_verdict(bad)
                if not iv.startswith('reject'):
                    ctx.violation('c03-thread-verdict', f'while another thread is inside ContextState(check_spn=False), validation in this thread says {iv} for a circuit '
                                                        f'that is {spec_verdict(bad)} by the property ({cname})',
                                  replay=dict(kind='c03-threads', table=raw_table(bad), gate=None))
                    return
                for g in ('likelihood', 'mpe', 'prune'):
                    try:
                        gate_call(g, copy.deepcopy(bad), nv + 8)
                    except Exception:
                        continue
                    ctx.violation(f'c03-thread-gate:{g}', f'while another thread is inside ContextState(check_spn=False), {g} in this thread returned a result for an '
                                                          f'invalid circuit ({cname})', replay=dict(kind='c03-threads', table=raw_table(bad), gate=g))
                    return
        finally:
            release.set()
            t.join(20)


def run(ctx):
    quick = ctx.tier == 'quick'
    # (i) bounded-exhaustive
    n_exh = 0
    sizes = [1, 2, 3] if quick else [1, 2, 3, 4]
    for n in sizes:
        scopes = SCOPES if n <= 3 else [[0], [1], [0, 1]]
        for t in enumerate_small(n, scopes):
            modes = [('ok', 0)]
            if n_exh % 7 == 0:
                modes += [('shift', 0), ('dup', 0), ('gap', 0), ('ok', -1), ('ok', 1)]
            for id_mode, wd in modes:
                root = build_small(t, id_mode, wd)
                n_exh += 1
                if not compare(ctx, root, f'exh{n}', sample=None if n_exh % 500 else dict(table=raw_table(root), impl=impl_verdict(root))):
                    if ctx.n_new(with_input_only=True) >= 3:
                        return
    # inner node with three leaf children: every scope labelling (catches checks that only look at neighbouring children)
    for kind in ('prod', 'sum'):
        for sc in itertools.product([[0], [1], [2], [0, 1]], repeat=3):
            for top in ([0, 1], [0, 1, 2], [0], [1, 0]):
                kids = [raw('leaf', s_) for s_ in sc]
                root = raw(kind, top, kids, [0.25, 0.25, 0.5] if kind == 'sum' else None)
                for j, o in enumerate([root] + kids):
                    o.id = j
                n_exh += 1
                if not compare(ctx, root, 'three-children'):
                    if ctx.n_new(with_input_only=True) >= 3:
                        return
    ctx.extra['exhaustive_small_nets'] = n_exh
    ctx.extra['exhaustive'] = False
    # (ii) random valid circuits and single corruptions, (iii) gates
    n_rand = 60 if quick else 1500
    for k in range(n_rand):
        rs = np.random.RandomState(np_seed(ctx.sub_rng('rand', k)))
        nv = int(rs.randint(2, 5))
        root = S.rand_spn(rs, list(range(nv)), depth=int(rs.randint(1, 4)), kinds=('bern',), share=0.4)
        if not root.children:
            continue
        assign_ids(root)
        if not compare(ctx, root, 'valid'):
            break
        for name, bad in corruptions(rs, root):
            ctx.count('corruption:' + name)
            ok = compare(ctx, bad, 'corrupt:' + name)
            if ok:
                # the same circuit with inner nodes that are instances of user subclasses of Sum / Product: a sum node is a sum node
                ctx.count('subclass-instances')
                ok = compare(ctx, bad, 'corrupt-subclass:' + name, subclass=True)
            if spec_verdict(bad) != 'accept' and ok and (k % 3 == 0 or not quick):
                check_gates(ctx, bad, name, nv + 8)
            if ctx.n_new(with_input_only=True) >= 3:
                return
    thread_schedule_check(ctx, quick)
    if ctx.n_new(with_input_only=True) >= 3:
        return
    # (iv) histories: validation after earlier (failing and succeeding) calls of the same session
    for k in range(12 if quick else 200):
        rs = np.random.RandomState(np_seed(ctx.sub_rng('hist', k)))
        nv = int(rs.randint(2, 5))
        root = S.rand_spn(rs, list(range(nv)), depth=int(rs.randint(1, 4)), kinds=('bern',), share=0.4)
        if not root.children:
            continue
        assign_ids(root)
        ctx.count('histories')
        if not check_history(ctx, root, nv, rs, 5 if quick else 8):
            return
    # (v) tables with absent ids / absent weights (Python None): `check_spn` as coded vs the rule proved in Props/C03Opt.lean
    if ctx.n_new() == 0:
        from harness.common import run_demo
        run_demo(ctx, 'demo_c03opt.py', [], 'c03-none-ids-weights', 'check_spn on circuits with id None / weights None vs the rule of checkSpnOpt_accept_iff',
                 env_extra=dict(VERIF_SEED=str(20260930 + ctx.seed)))


def replay(rep):
    r = rep['replay']
    root = from_raw_table(r['table'])
    if r['kind'] == 'c03-threads':
        import threading
        from deeprob.context import ContextState
        entered, release = threading.Event(), threading.Event()

        def other():
            with ContextState(check_spn=False):
                entered.set()
                release.wait(20)
        t = threading.Thread(target=other, daemon=True)
        t.start()
        entered.wait(20)
        try:
            if r['gate'] is None:
                iv, sv = impl_verdict(root), spec_verdict(root)
                print('implementation (other thread inside a check-disabled region):', iv, ' property:', sv)
                return iv == sv
            try:
                gate_call(r['gate'], root, 12)
            except Exception as ex:
                print('gate', r['gate'], 'raised', type(ex).__name__)
                return True
            print('gate', r['gate'], 'returned a result')
            return False
        finally:
            release.set()
            t.join(20)
    if r['kind'] == 'c03-history':
        valid = from_raw_table(r['valid'])
        for pn in r['history']:
            print('history step', pn, '->', provoke(pn, valid, r['nv']))
        if r['gate'] is None:
            iv, sv = impl_verdict(root), spec_verdict(root)
            print('implementation:', iv, ' property:', sv)
            return iv == sv
        r = dict(r, kind='c03-gate', ncols=r['nv'] + 8)
    if r['kind'] == 'c03-gate':
        try:
            gate_call(r['gate'], root, r['ncols'])
        except ValueError:
            return True
        except Exception as ex:
            print('gate', r['gate'], 'raised', type(ex).__name__, ex)
            return False
        print('gate', r['gate'], 'returned a result')
        return False
    if r.get('subclass'):
        root = subclassed(root)
    iv, sv = impl_verdict(root), spec_verdict(root)
    print('implementation:', iv, ' property:', sv)
    return iv == sv
