"""C17 — DGC-SPNs are smooth, decomposable and normalised for every accepted configuration (2^pooling | side)."""
import json, math
import numpy as np
import torch
from harness.common import np_seed, Infra, parse_q
from harness.demos import demo_tensor as T

from deeprob.spn.models.dgcspn import DgcSpn

torch.set_num_threads(1)


def leaf_gradient_check(model, C, D, classes, rs):
    """every induced sub-circuit uses each pixel exactly once: for each class output y and pixel (c,r,col),
    sum over the base batch channels of d y / d (leaf log-density) = 1"""
    import copy
    model = copy.deepcopy(model).double()      # the identity is exact; in float32 log-densities of magnitude 1e5 (narrow leaves) lose 1e-3
    x = torch.tensor(rs.randn(1, C, D, D)).double()
    z = model.base_layer(x).detach().requires_grad_(True)
    y = z
    for layer in model.layers:
        y = layer(y)
    out = model.root_layer(y)
    worst = 0.0
    for k in range(out.shape[1]):
        g, = torch.autograd.grad(out[0, k], z, retain_graph=True)
        tot = g[0].reshape(-1, C, D, D).sum(dim=0) if g[0].dim() == 4 else g[0].sum(dim=0)
        dev = float((tot - 1.0).abs().max().detach())
        worst = dev if (dev != dev or dev > worst) else worst          # NaN propagates
    return worst


def randomize(model):
    """arbitrary ("trained") parameter values; the leaf scales stay positive (a negative scale makes every density NaN, which the
    layer silently treats as a missing input)"""
    for prm in model.parameters():
        prm.data.normal_()
    sc = model.base_layer.scale
    sc.data = 0.3 + 1.5 * torch.rand_like(sc.data)
    return model


def single_entry_marginals(ctx, model, C, D, classes, rs, rep):
    """with a single observed entry (channel c of pixel (i,j)) the class output is, by smoothness and decomposability, the mixture
    sum_b pi_b(i,j) N(x; loc[b,c,i,j], scale[b,c,i,j]) of that pixel's leaves, where pi_b(i,j) = d out / d leaf-log-density at the
    all-missing input. Checked in float64 at ordinary values and far in the tails (log-densities of -1000 must stay -1000)."""
    import copy
    m = copy.deepcopy(model).double()
    nanx = torch.full((1, C, D, D), float('nan'), dtype=torch.float64)
    z = m.base_layer(nanx).detach().requires_grad_(True)
    y = z
    for layer in m.layers:
        y = layer(y)
    out = m.root_layer(y)
    loc, scale = m.base_layer.loc.detach(), m.base_layer.scale.detach()
    for k in range(out.shape[1]):
        g, = torch.autograd.grad(out[0, k], z, retain_graph=True)
        pi = g[0].detach()                               # (n_batch, D, D)
        for _ in range(3):
            c, i, j = int(rs.randint(C)), int(rs.randint(D)), int(rs.randint(D))
            for xv in (float(rs.randn()), 6.5, float(rs.choice([25.0, -30.0, 40.0]))):
                X = nanx.clone()
                X[0, c, i, j] = xv
                with torch.no_grad():
                    got = float(m(X)[0, k])
                terms = []
                for b in range(pi.shape[0]):
                    if float(pi[b, i, j]) <= 0:
                        continue
                    mu, sg = float(loc[b, c, i, j]), float(scale[b, c, i, j])
                    terms.append(math.log(float(pi[b, i, j])) - 0.5 * ((xv - mu) / sg) ** 2 - math.log(sg) - 0.5 * math.log(2 * math.pi))
                mx = max(terms)
                ref = mx + math.log(sum(math.exp(t - mx) for t in terms))
                ctx.count('single-entry-marginals')
                if not (abs(got - ref) <= 1e-5 + 1e-6 * abs(ref)):
                    ctx.violation('c17-single-entry-marginal', f'with only channel {c} of pixel ({i},{j}) observed at {xv!r}, class {k} has log-density {got!r}, but the mixture of '
                                                               f'that pixel\'s leaves with the weights the network induces gives {ref!r}', replay=dict(rep, entry=[c, i, j], value=xv))
                    return False
    return True


def impl_oracle(ctx, C, D, p, dw, classes, rs, rep):
    """the property on the implementation for one configuration; True = holds"""
    torch.manual_seed(int(rs.randint(10 ** 6)))
    try:
        model = DgcSpn((C, D, D), out_classes=classes, n_batch=2, sum_channels=2, depthwise=(list(dw) if isinstance(dw, list) else dw), n_pooling=p)
    except Exception:
        return True
    model.eval()
    randomize(model)
    try:
        with torch.no_grad():
            z = model(torch.full((1, C, D, D), float('nan')))
        if bool((z.abs() > 1e-4).any()):
            ctx.violation('c17-all-missing', f'fully missing input has log-probability {z.tolist()}', replay=rep)
            return False
        worst = leaf_gradient_check(model, C, D, classes, rs)
        if worst > 1e-3:
            ctx.violation('c17-pixel-usage', f'some pixel is not used exactly once by the induced sub-circuits: sum of leaf gradients deviates from 1 by {worst:.4f} (side {D}, pooling {p})', replay=rep)
            return False
    except Exception as ex:
        ctx.violation(f'c17-raises:{type(ex).__name__}', f'accepted configuration raised {type(ex).__name__}: {str(ex)[:200]}', replay=rep)
        return False
    return True


def dropout_history(ctx, quick):
    """models configured with probabilistic dropout (training-time regularisation), put in evaluation mode, queried, asked for an
    MPE completion, queried again: in evaluation mode the network is the circuit — a query between two others must not change what
    the network computes, and a fully missing input keeps log-probability 0"""
    for k in range(3 if quick else 20):
        rs = np.random.RandomState(np_seed(ctx.sub_rng('dropout', k)))
        D = int(rs.choice([2, 4, 6])); p = int(rs.randint(0, 2)); dw = bool(rs.rand() < 0.5); C = int(rs.randint(1, 3)); classes = int(rs.randint(1, 3))
        rep = dict(kind='c17-dropout', C=C, D=D, n_pooling=p, depthwise=dw, classes=classes, k=k, seed=ctx.seed)
        torch.manual_seed(int(rs.randint(10 ** 6)))
        try:
            model = DgcSpn((C, D, D), out_classes=classes, n_batch=2, sum_channels=2, depthwise=dw, n_pooling=p,
                           in_dropout=float(rs.choice([0.2, 0.5])), sum_dropout=float(rs.choice([0.2, 0.5])))
        except Exception:
            ctx.count('constructor-rejects')
            continue
        ctx.count('dropout-histories')
        ctx.case('dropout-history', nontrivial_key=('dropout', k), sample=rep)
        randomize(model)
        model.eval()
        x = torch.tensor(rs.randn(4, C, D, D)).float()
        q = x.clone()
        q[torch.tensor(rs.rand(4, C, D, D) < 0.4)] = float('nan')
        try:
            with torch.no_grad():
                a0, z0 = model(x).clone(), model(torch.full((1, C, D, D), float('nan'))).clone()
            model.mpe(q)
            with torch.no_grad():
                a1, z1 = model(x), model(torch.full((1, C, D, D), float('nan')))
        except Exception as ex:
            ctx.violation(f'c17-raises:{type(ex).__name__}', f'accepted configuration raised {type(ex).__name__}: {str(ex)[:200]} [dropout history]', replay=rep)
            continue
        if model.training or not bool(torch.equal(torch.nan_to_num(a0, nan=7e7), torch.nan_to_num(a1, nan=7e7))) or bool((z1.abs() > 1e-4).any()) \
                or bool(torch.isnan(a1).any()):
            ctx.violation('c17-eval-mode-history', f'model with dropout configured, in evaluation mode: after an mpe() call the same complete inputs get '
                          f'{a1.reshape(-1)[:3].tolist()} instead of {a0.reshape(-1)[:3].tolist()}, a fully missing input gets {z1.reshape(-1).tolist()} '
                          f'(training flag is {model.training})', replay=rep)


def run(ctx):
    quick = ctx.tier == 'quick'
    cfgs = []
    for D in range(2, 13):
        depth = int(np.ceil(np.log2(D)))
        for p in range(0, depth + 1):
            if D % (2 ** p) != 0:
                continue
            for dw in (True, False, [True, False]):
                cfgs.append((D, p, dw))
    all_cfgs = list(cfgs)
    rs0 = np.random.RandomState(np_seed(ctx.sub_rng('pick')))
    if quick:
        idx = rs0.permutation(len(cfgs))[:24]
        cfgs = [cfgs[i] for i in sorted(idx)]
    model_mismatch = False
    # many channels: the library's defaults (n_batch = sum_channels = 8, i.e. 8^4 = 4096 channels after a non-depth-wise product layer)
    # and beyond them (9^4 = 6561, 10^4), where chunked / streaming code paths would switch on
    wide = [(4, 1, False, (9, 2)), (4, 0, [False, True], (2, 9)), (2, 1, False, (8, 8))]
    if not quick:
        wide += [(4, 2, False, (10, 3)), (6, 1, False, (9, 9)), (4, 1, [False, False], (3, 10)), (3, 0, False, (9, 4))]
    for cfg in [w for w in wide] + [c + (None,) for c in cfgs]:
        (D, p, dw, wd) = cfg
        rs = np.random.RandomState(np_seed(ctx.sub_rng('cfg', D, p, str(dw), str(wd))))
        C = int(rs.randint(1, 4)) if D <= 8 else 1
        classes = int(rs.randint(1, 4))
        nb, sc = int(rs.randint(1, 4)), int(rs.randint(1, 4))         # leaf batch size and sum channels, 1 included
        if wd is not None:
            (nb, sc), C = wd, 1
            ctx.count('many-channel-configurations')
        pseed = int(rs.randint(10 ** 6))
        rep = dict(kind='c17', C=C, D=D, n_pooling=p, depthwise=dw, classes=classes, n_batch=nb, sum_channels=sc, pseed=pseed)
        ctx.case('config', nontrivial_key=json.dumps(rep), sample=rep)
        ctx.count(f'n_batch={nb},sum_channels={sc}')
        ctx.count(f'pooling={p}')
        ctx.count('side-power-of-two' if D & (D - 1) == 0 else 'side-not-power-of-two')
        # (1) the property on the implementation
        torch.manual_seed(pseed)
        try:
            model = DgcSpn((C, D, D), out_classes=classes, n_batch=nb, sum_channels=sc, depthwise=(list(dw) if isinstance(dw, list) else dw), n_pooling=p)
        except Exception as ex:
            ctx.count('constructor-rejects')
            continue
        model.eval()
        randomize(model)
        try:
            with torch.no_grad():
                z = model(torch.full((1, C, D, D), float('nan')))
            if bool((z.abs() > 1e-4).any()):
                ctx.violation('c17-all-missing', f'fully missing input has log-probability {z.tolist()}', replay=rep)
                continue
            worst = leaf_gradient_check(model, C, D, classes, rs)
            ctx.count('leaf-usage-checks')
            if not (worst <= 1e-3):
                ctx.violation('c17-pixel-usage', f'some pixel is not used exactly once by the induced sub-circuits: sum of leaf gradients deviates from 1 by {worst:.4f}', replay=rep)
                continue
            if not single_entry_marginals(ctx, model, C, D, classes, rs, rep):
                continue
            with torch.no_grad():
                x = torch.tensor(rs.randn(3, C, D, D)).float()
                miss = torch.tensor(rs.rand(3, C, D, D) < 0.4)
                q = x.clone()
                q[miss] = float('nan')
            comp = model.mpe(q)
            if tuple(comp.shape) != tuple(q.shape) or bool(torch.isnan(comp).any()) or not bool((comp[~miss] == x[~miss]).all()):
                ctx.violation('c17-mpe-contract', 'mpe changed an observed pixel, left a NaN or changed the shape', replay=rep)
                continue
        except Exception as ex:
            ctx.violation(f'c17-raises:{type(ex).__name__}', f'accepted configuration raised {type(ex).__name__}: {str(ex)[:200]}', replay=rep)
            continue
        # (2) layer table and cell scopes vs the model (exact)
        if ctx.driver_ok:
            req, expect, forward_ok, scopes_ok, allmiss, full_cover = T.dgc_case(C, D, p, dw)
            got = ctx.get_driver().ask(req)
            ctx.count('layer-tables-vs-model')
            if T.strip_mode(got) != expect:
                ctx.violation('c17-layers-vs-model', f'layer schedule / cell scopes differ from the model\n impl : {expect[:300]}\n model: {T.strip_mode(got)[:300]}',
                              replay=rep, found_input=False)
                model_mismatch = True
                continue
            if not (forward_ok and scopes_ok and full_cover):
                ctx.violation('c17-scopes', f'empirical cell scopes: forward_ok={forward_ok} product-form={scopes_ok} final cells cover all pixels={full_cover}', replay=rep)
                continue
            # (3) forward values of the unrolled circuit vs torch
            all_dw = (dw is True)
            if (all_dw and D <= 6 and C <= 2) or (not all_dw and C == 1 and D <= (3 if quick else 4)):
                # (the unrolled tree circuit duplicates shared cells: non-depth-wise layers blow up beyond these sizes)
                for nan_frac in (0.0, 0.4):
                    op, out = T.dgc_eval_case(C, D, p, dw, classes, int(rs.randint(10 ** 6)), nan_frac)
                    vals = [float(parse_q(t)) for t in ctx.get_driver().ask(op).split()]
                    ctx.count('forward-values-vs-model')
                    if any(abs(g - e) > 1e-4 * max(abs(e), 1e-300) + 1e-12 for g, e in zip(vals, out)):
                        ctx.violation('c17-forward-vs-model', f'forward value {out} vs unrolled circuit {vals}', replay=rep, found_input=False)
                        break
        if ctx.n_new(with_input_only=True) >= 3:
            break
    if ctx.n_new(with_input_only=True) == 0:
        dropout_history(ctx, quick)
    if model_mismatch and not any(v['found_input'] for v in ctx.violations):
        # failing-input search: the property's own statement on the implementation, over every configuration (not only this run's sample)
        for (D, p, dw) in all_cfgs:
            rs = np.random.RandomState(np_seed(ctx.sub_rng('search', D, p, str(dw))))
            ctx.count('search-configurations')
            if not impl_oracle(ctx, 1, D, p, dw, 1, rs, dict(kind='c17', C=1, D=D, n_pooling=p, depthwise=dw, classes=1)):
                break


def replay(rep):
    r = rep['replay']
    torch.manual_seed(r.get('pseed', 0))
    model = DgcSpn((r['C'], r['D'], r['D']), out_classes=r['classes'], n_batch=r.get('n_batch', 2), sum_channels=r.get('sum_channels', 2),
                   depthwise=r['depthwise'], n_pooling=r['n_pooling'])
    model.eval()
    randomize(model)
    with torch.no_grad():
        z = model(torch.full((1, r['C'], r['D'], r['D']), float('nan')))
    print('all-missing log-probability', z.tolist())
    return bool((z.abs() < 1e-4).all())
