"""Shared helpers for C09 / C10: circuit generator exercising prune's cases, canonical tables, comparisons."""
import itertools
from fractions import Fraction
import numpy as np
from harness.spn import export_net, rand_clt
from deeprob.spn.structure.node import Sum, Product, assign_ids
from deeprob.spn.structure.leaf import Bernoulli, Categorical

TOL = 1e-6


def rand_leaf(rs, v, card):
    if card[v] == 2 and rs.rand() < 0.6:
        return Bernoulli(int(v), float(rs.uniform(0.05, 0.95)))
    p = rs.dirichlet(np.ones(card[v]))
    return Categorical(int(v), list(range(card[v])), p.tolist())


def rand_weights(rs, k):
    w = rs.dirichlet(np.ones(k)).astype(np.float32)
    w = w / w.sum(dtype=np.float32)
    return w.astype(np.float32)


def gen(rs, scope, depth, pool, card, share, clt=False):
    """random valid circuit over `scope`: DAG sharing, chains of single-child nodes, nested same-kind nodes,
    sums whose (merged) children coincide"""
    key = tuple(sorted(scope))
    if pool.get(key) and rs.rand() < share:
        return pool[key][rs.randint(len(pool[key]))]
    u = rs.rand()
    if len(scope) == 1 and (depth <= 0 or u < 0.35):
        node = rand_leaf(rs, scope[0], card)
    elif clt and len(scope) >= 2 and all(card[v] == 2 for v in scope) and u > 0.85:
        node = rand_clt(rs, [int(v) for v in rs.permutation(scope)])
    elif depth <= 0:
        node = Product(children=[rand_leaf(rs, v, card) for v in scope])
    elif u < 0.12:
        ch = gen(rs, scope, depth - 1, pool, card, share, clt)
        if rs.rand() < 0.5:
            node = Sum(scope=[int(v) for v in rs.permutation(scope)], children=[ch], weights=np.array([1.0], dtype=np.float32))
        else:
            node = Product(scope=[int(v) for v in rs.permutation(scope)], children=[ch])
    elif len(scope) == 1 or u < 0.6:
        k = rs.randint(2, 5)
        ch = []
        for _ in range(k):
            r = rs.rand()
            if ch and r < 0.2:
                ch.append(ch[rs.randint(len(ch))])          # the same object twice
            elif ch and r < 0.35:
                tgt = ch[rs.randint(len(ch))]
                ch.append(Sum(scope=list(tgt.scope), children=[tgt], weights=np.array([1.0], dtype=np.float32)))
            else:
                ch.append(gen(rs, [int(v) for v in rs.permutation(scope)], depth - 1, pool, card, share, clt))
        node = Sum(scope=[int(v) for v in scope], children=ch, weights=rand_weights(rs, k))
    else:
        k = rs.randint(2, min(len(scope), 4) + 1)
        perm = [int(v) for v in rs.permutation(scope)]
        cuts = sorted(rs.choice(np.arange(1, len(scope)), k - 1, replace=False).tolist())
        parts = [perm[a:b] for a, b in zip([0] + cuts, cuts + [len(scope)])]
        ch = [gen(rs, p, depth - 1, pool, card, share, clt) for p in parts]
        node = Product(scope=[int(v) for v in rs.permutation(scope)], children=ch)
    pool.setdefault(key, []).append(node)
    return node


def special_cases():
    out = []
    l = Bernoulli(0, 0.3)
    s1 = Sum(scope=[0], children=[l], weights=np.array([1.0], dtype=np.float32))
    s2 = Sum(scope=[0], children=[l], weights=np.array([1.0], dtype=np.float32))
    out.append(('witness-F7', Sum(scope=[0], children=[s1, s2], weights=np.array([0.5, 0.5], dtype=np.float32))))
    l = Bernoulli(0, 0.3)
    out.append(('same-child-twice', Sum(scope=[0], children=[l, l], weights=np.array([0.25, 0.75], dtype=np.float32))))
    a, b = Bernoulli(0, 0.3), Bernoulli(0, 0.6)
    inner = Sum(scope=[0], children=[a, b], weights=np.array([0.5, 0.5], dtype=np.float32))
    out.append(('merge-through-nested', Sum(scope=[0], children=[inner, a, inner], weights=np.array([0.25, 0.25, 0.5], dtype=np.float32))))
    x, y, z = Bernoulli(0, 0.3), Bernoulli(1, 0.6), Categorical(2, [0, 1, 2], [0.2, 0.3, 0.5])
    p1 = Product(children=[x, y])
    p2 = Product(children=[Product(children=[p1]), Product(children=[z])])
    out.append(('nested-products', p2))
    c = Bernoulli(0, 0.5)
    for i in range(5):
        c = Sum(scope=[0], children=[c], weights=np.array([1.0], dtype=np.float32)) if i % 2 else Product(scope=[0], children=[c])
    out.append(('chain', c))
    out += rare_cases()
    return out


def rare_cases():
    """mixtures with a RARE component: merged weights far below 1e-8 and weights within 1e-5 of one (what `np.isclose` calls "zero"
    and "one"), next to components that are deterministic (Bernoulli p in {0, 1}) — on the inputs only the rare component supports,
    the value of the circuit is the rare mass, not zero"""
    out = []
    f32 = lambda *w: np.array(w, dtype=np.float32)
    mk = lambda a, b: Product(children=[Bernoulli(0, float(a)), Bernoulli(1, float(b))])
    # nested sums whose merged weight is 1e-4 * 2e-5 = 2e-9
    inner = Sum(children=[mk(1.0, 0.0), mk(0.0, 0.0)], weights=f32(1.0 - 2e-5, 2e-5))
    out.append(('rare-nested', Sum(children=[mk(1.0, 1.0), inner], weights=f32(1.0 - 1e-4, 1e-4))))
    # the same with double-precision weights 1e-5 * 1e-5
    inner = Sum(children=[mk(1.0, 0.0), mk(0.0, 0.0)], weights=np.array([1.0 - 1e-5, 1e-5]))
    out.append(('rare-nested-float64-weights', Sum(children=[mk(1.0, 1.0), inner], weights=np.array([1.0 - 1e-5, 1e-5]))))
    # a shared node reached through two rare parents
    sh = mk(0.0, 0.0)
    pa = Sum(children=[mk(1.0, 0.0), sh], weights=f32(1.0 - 3e-5, 3e-5))
    pb = Sum(children=[mk(0.0, 1.0), sh], weights=f32(1.0 - 2e-5, 2e-5))
    out.append(('rare-shared', Sum(children=[mk(1.0, 1.0), pa, pb], weights=f32(1.0 - 2e-4, 1e-4, 1e-4))))
    # one weight within 1e-5 of one, the rest of the mass on a component that alone supports some inputs
    out.append(('near-one-weight', Sum(children=[mk(1.0, 1.0), mk(0.0, 0.3)], weights=f32(1.0 - 4e-6, 4e-6))))
    out.append(('near-one-weight-nested', Product(children=[Sum(children=[Bernoulli(0, 1.0), Bernoulli(0, 0.0)], weights=f32(1.0 - 4e-6, 4e-6)),
                                                            Sum(children=[Bernoulli(1, 0.25), Bernoulli(1, 0.5)], weights=f32(0.5, 0.5))])))
    return out


def canon(root, origin=None):
    table, order, index, acyclic = export_net(root)
    items = []
    for e, n in zip(table, order):
        kind = e['kind'] if e['kind'] in ('sum', 'prod') else 'leaf'
        items.append(dict(kind=kind, id=e['id'], scope=e['scope'], ch=e.get('ch', []),
                          w=[Fraction(*map(int, s.split('/'))) for s in e.get('w', [])] if kind == 'sum' else [],
                          orig=(origin.get(id(n), -1) if origin is not None else None)))
    return items


def parse_table(s):
    items = []
    for it in s.split(';'):
        kind, nid, scope, ch, ws, orig = it.split(' ')
        lst = lambda x: [] if x == '-' else x.split(',')
        items.append(dict(kind=kind, id=int(nid), scope=[int(v) for v in lst(scope)], ch=[int(v) for v in lst(ch)],
                          w=[Fraction(*map(int, q.split('/'))) for q in lst(ws)], orig=int(orig)))
    return items


def same(py, ln, with_orig=True):
    if len(py) != len(ln):
        return f'node count {len(py)} vs {len(ln)}'
    for k, (a, b) in enumerate(zip(py, ln)):
        for f in ('kind', 'id', 'scope', 'ch'):
            if a[f] != b[f]:
                return f'node {k} field {f}: {a[f]} vs {b[f]}'
        if with_orig and a['orig'] is not None and a['orig'] != b['orig']:
            return f"node {k} identity: {a['orig']} vs {b['orig']}"
        if len(a['w']) != len(b['w']):
            return f'node {k} weight count'
        for x, y in zip(a['w'], b['w']):
            if abs(float(x) - float(y)) > TOL:
                return f'node {k} weight {float(x)} vs {float(y)}'
    return None


def normal_form_violation(root):
    table, order, _, _ = export_net(root)
    for e in table:
        if e['kind'] in ('sum', 'prod'):
            if len(e['ch']) < 2:
                return f"{e['kind']} node #{e['id']} has {len(e['ch'])} child"
            for c in e['ch']:
                if table[c]['kind'] == e['kind']:
                    return f"{e['kind']} node #{e['id']} has a {e['kind']} child #{table[c]['id']}"
    return None


def query_rows(rs, scope, dom, ncols, cap=64):
    """complete and partially missing rows over the scope"""
    sizes = [dom[v] for v in scope]
    total = int(np.prod([s + 1 for s in sizes]))
    rows = []
    if total <= cap:
        combos = itertools.product(*[list(range(s)) + [None] for s in sizes])
    else:
        combos = [tuple((None if rs.rand() < 0.3 else int(rs.randint(s))) for s in sizes) for _ in range(cap)]
    for c in combos:
        x = np.full(ncols, np.nan, dtype=np.float32)
        for v, val in zip(scope, c):
            if val is not None:
                x[v] = val
        rows.append(x)
    return np.array(rows, dtype=np.float32)
