"""C05 — learned mixture weights are the training-row proportions of their children; leaves see exactly their slice."""
import json, random, hashlib
from collections import Counter
import numpy as np
from harness.common import np_seed, Infra
from harness.demos import demo_learn as L

import deeprob.spn.learning.learnspn as LS
import deeprob.spn.learning.wrappers as W
from deeprob.spn.structure.node import Sum, Product


def routed_ok(node, rows):
    """every leaf was fitted on exactly the rows / columns routed to it: a product hands all its rows to every child, the rows of
    a sum's children partition the sum's rows (None = unknown rows, compared by count)"""
    if isinstance(node, L.RecLeaf):
        if node.rec_rows is None or rows is None:
            return node.rec_n == (len(rows) if rows is not None else node.rec_n)
        return sorted(node.rec_rows) == sorted(rows)
    if isinstance(node, Product):
        cols = [v for c in node.children for v in c.scope]
        if sorted(cols) != sorted(node.scope):
            return False
        return all(routed_ok(c, rows) for c in node.children)
    if isinstance(node, Sum):
        sub = [rows_of(c) for c in node.children]
        if any(s is None for s in sub) or rows is None:
            return sum(L.n_rows_of(c) for c in node.children) == (len(rows) if rows is not None else L.n_rows_of(node))
        flat = [r for s in sub for r in s]
        return sorted(flat) == sorted(rows) and all(routed_ok(c, s) for c, s in zip(node.children, sub))
    return False


def rows_of(node):
    if isinstance(node, L.RecLeaf):
        return node.rec_rows
    if isinstance(node, Product):
        for c in node.children:
            r = rows_of(c)
            if r is not None:
                return r
        return None
    if isinstance(node, Sum):
        out = []
        for c in node.children:
            r = rows_of(c)
            if r is None:
                return None
            out += r
        return out
    return None


def first_bad_sum(node):
    if isinstance(node, Sum):
        n = L.n_rows_of(node)
        for i, (w, c) in enumerate(zip(node.weights, node.children)):
            if np.float32(L.n_rows_of(c) / n) != np.float32(w):
                return f'sum over {list(node.scope)}: child {i} received {L.n_rows_of(c)} of {n} rows but carries weight {float(w):.6f}'
    for c in getattr(node, 'children', []) or []:
        b = first_bad_sum(c)
        if b:
            return b
    return None


def run(ctx):
    quick = ctx.tier == 'quick'
    front = L.is_front(LS)
    ctx.extra['requeue_discipline_in_source'] = 'appendleft' if front else 'append'
    scen = L.gen_scenarios(150 if quick else 1500, ctx.seed * 7919 + 13)
    for sc in scen:
        data, s, min_rows, min_cols = L.build(sc)
        n_rows, n_cols = data.shape
        rep = dict(kind='c05', scenario=dict(sc, pat=[list(p) for p in sc['pat']] if 'pat' in sc else None))
        LS.np = L.NpProxy(s.log)
        try:
            try:
                root = LS.learn_spn(data, [L.RecLeaf] * n_cols, [(0, 1)] * n_cols, learn_leaf=s.learn_leaf, split_rows=s.split_rows,
                                    split_cols=s.split_cols, min_rows_slice=min_rows, min_cols_slice=min_cols, random_state=0, verbose=False)
            finally:
                LS.np = np
        except Exception as ex:
            ctx.violation('c05-learner-raises', f'learn_spn raised {type(ex).__name__}: {ex} under scripted splitters', replay=rep)
            continue
        txt = L.render_real(root)
        single = sum(1 for e in s.log if ('rows' in e and len(set(e['rows'])) == 1) or ('cols' in e and len(set(e['cols'])) == 1))
        ctx.case(sc['kind'], nontrivial_key=hashlib.sha256(json.dumps(s.log).encode()).hexdigest()[:16] if 'S{' in txt else None,
                 sample=dict(kind=sc['kind'], family=sc['fam'], rows=n_rows, cols=n_cols, consultations=len(s.log), deferred=single, result=txt[:160]))
        ctx.count('scripts:' + sc['kind'])
        ctx.count('sum-nodes', txt.count('S{'))
        ctx.count('deferred-tasks', single)
        # the property on the implementation's result
        bad = first_bad_sum(root)
        if bad:
            ctx.violation('c05-weights-not-proportions', bad + f' [{sc["kind"]} script, {single} deferred task(s)]', replay=rep)
        elif not routed_ok(root, list(range(n_rows))):
            ctx.violation('c05-routing', 'a leaf was not fitted on exactly the rows / columns routed to it', replay=rep)
        # correspondence with the queue machine (same script, discipline as extracted from the source)
        if ctx.driver_ok:
            try:
                lean = ctx.get_driver().ask(dict(op='learn', n_rows=n_rows, n_cols=n_cols, min_rows_slice=min_rows, min_cols_slice=min_cols,
                                                 front=front, script=s.log))
            except Infra as ex:
                # the machine asked its oracle a different question than the implementation did: the consultation order differs
                lean = 'script-mismatch: ' + str(ex)[:160]
            if L.blur_unknown(lean, txt) != txt:
                ctx.violation('c05-machine-disagrees', f'learn_spn result differs from the queue machine\n impl : {txt[:300]}\n model: {lean[:300]}',
                              replay=rep, found_input=False)
        if ctx.n_new(with_input_only=True) >= 3:
            return
    # classifier wrapper: root weights = class frequencies, children in np.unique order
    rng0 = random.Random(ctx.seed + 17)
    for k in range(20 if quick else 200):
        rng = random.Random(rng0.randrange(10 ** 9))
        n_rows, n_feat, kc = rng.randint(4, 40), rng.randint(1, 4), rng.randint(2, 4)
        n_cols = n_feat + 1
        cls = [rng.randrange(kc) * 3 - 2 for _ in range(n_rows)]
        data = L.make_data(n_rows, n_cols, [], True)
        for r in range(n_rows):
            data[r, n_cols - 1] = 1000.0 * (n_cols - 1) + 500.0 + (cls[r] + 2)
        if k % 2 == 1 and bool(np.all(data == np.round(data))):
            # the caller's training matrix in an integer dtype (label-encoded tables): class labels are then integers, and the
            # order in which library helpers return distinct labels must not decide which prior a class branch gets
            data = data.astype(np.int64 if k % 4 == 1 else np.int32)
            ctx.count('classifier-data-in-integer-dtype')
        s = L.Scenario(rng, n_rows, n_cols, True, fail_p=rng.choice([0.0, 0.3]))
        min_rows, min_cols = rng.choice([1, 2, 3, 6]), rng.choice([1, 2, 3])
        bounds = []
        orig = W.learn_spn

        trained_on = []

        def wrapped(*a, **kw):
            bounds.append(len(s.log))
            trained_on.append(sorted(int(round(float(v) - (1000.0 * (n_cols - 1) + 500.0))) - 2 for v in np.asarray(a[0])[:, n_cols - 1]))
            return LS.learn_spn(*a, **kw)
        W.learn_spn = wrapped
        LS.np = L.NpProxy(s.log)
        try:
            root = W.learn_classifier(data, [L.RecLeaf] * n_cols, [(0, 1)] * n_cols, class_idx=-1, verbose=False, learn_leaf=s.learn_leaf,
                                      split_rows=s.split_rows, split_cols=s.split_cols, min_rows_slice=min_rows, min_cols_slice=min_cols, random_state=0)
        except Exception as ex:
            ctx.count('classifier-did-not-return')
            continue
        finally:
            W.learn_spn = orig
            LS.np = np
        bounds.append(len(s.log))
        ctx.case('classifier', nontrivial_key=('clf', k), sample=dict(rows=n_rows, classes=sorted(set(cls))))
        ctx.count('classifiers')
        rep = dict(kind='c05-classifier', classes=cls)
        uniq = sorted(set(cls))
        freq = [cls.count(u) / n_rows for u in uniq]
        if not isinstance(root, Sum) or len(root.children) != len(uniq) or any(np.float32(f) != np.float32(w) for f, w in zip(freq, root.weights)):
            ctx.violation('c05-classifier-weights', f'classifier root weights {[float(w) for w in getattr(root, "weights", [])]} are not the class frequencies {freq}', replay=rep)
            continue
        # the property itself: the weight of child i is the fraction of the training rows routed to child i's sub-model — whatever
        # the order in which the wrapper visits the classes
        bad = None
        if len(trained_on) != len(root.children):
            bad = f'{len(trained_on)} branches were learned for {len(root.children)} children'
        else:
            for i, (rows_i, w) in enumerate(zip(trained_on, root.weights)):
                if len(set(rows_i)) != 1:
                    bad = f'branch {i} was trained on rows of the classes {sorted(set(rows_i))}'
                elif len(rows_i) != cls.count(rows_i[0]) or np.float32(len(rows_i) / n_rows) != np.float32(w):
                    bad = (f'child {i} was trained on {len(rows_i)} rows of class {rows_i[0]} (frequency {cls.count(rows_i[0])}/{n_rows}) '
                           f'but carries weight {float(w)}')
                if bad:
                    break
        if bad:
            ctx.violation('c05-classifier-branch-prior', f'classifier ({data.dtype} training matrix, classes {uniq}): {bad}', replay=rep)
            continue
        if ctx.driver_ok:
            scripts = [s.log[a:b] for a, b in zip(bounds, bounds[1:])]
            try:
                lean = ctx.get_driver().ask(dict(op='classifier', classes=[int(c) for c in cls], n_cols=n_cols, min_rows_slice=min_rows,
                                                 min_cols_slice=min_cols, front=front, scripts=scripts))
            except Infra as ex:
                if 'bad-op' not in str(ex):
                    raise
                lean = 'script-mismatch: ' + str(ex)[:160]
            good = lean.startswith('S{')
            if good:
                tops = L.split_top(lean)
                good = len(tops) == len(root.children)
            if good:
                for (w, sub), rw, rc in zip(tops, root.weights, root.children):
                    a, b = w.split('/')
                    if np.float32(int(a) / int(b)) != np.float32(rw):
                        good = False
                    lean_leaves = sorted((tuple(int(x) for x in r.split()), tuple(int(x) for x in sc_.split())) for r, sc_ in L.LEAF_RE.findall(sub))
                    real_leaves = L.leaves_of(rc, [])
                    if Counter((sc_, len(r)) for r, sc_ in lean_leaves) != Counter((sc_, (x[1] if x and x[0] == '?' else len(x))) for x, sc_ in real_leaves):
                        good = False
            if not good:
                ctx.violation('c05-classifier-machine-disagrees', f'classifier result differs from the model: {lean[:300]}', replay=rep, found_input=False)


_run_core = run


def run(ctx):
    _run_core(ctx)
    if ctx.n_new() == 0 and ctx.driver_ok:
        from harness.common import run_demo
        run_demo(ctx, 'demo_learnterm.py', ['--n', 150 if ctx.tier == 'quick' else 2000, '--seed', ctx.seed], 'c05-loop-vs-queue-machine',
                 'the real learn_spn loop against the Lean queue machine (halts within the proved bound B, iteration count = runCount, same structure)', env_extra=None)
        if ctx.n_new() == 0:
            run_demo(ctx, 'demo_tr3.py', [1 + ctx.seed], 'c05-code-vs-generated-vs-model',
                     'split_rows_clusters / learn_spn task records vs generated definitions vs the queue machine', env_extra=dict(DEMO_SECTIONS='b'))
        if ctx.n_new() == 0:
            run_demo(ctx, 'demo_tr4.py', [1 + ctx.seed], 'c05-code-vs-generated-vs-model-4',
                     'operation-selection cascade of learn_spn vs generated definition vs selectOp', env_extra=dict(DEMO_SECTIONS='a'))


def replay(rep):
    if rep['replay'].get('kind') == 'demo':
        from harness.common import replay_demo
        return replay_demo(rep['replay'])
    r = rep['replay']
    if r['kind'] != 'c05':
        print('classifier case: re-run the check')
        return True
    sc = dict(r['scenario'])
    if sc.get('pat') is not None:
        sc['pat'] = [tuple(p) for p in sc['pat']]
    else:
        sc.pop('pat', None)
    data, s, min_rows, min_cols = L.build(sc)
    n_rows, n_cols = data.shape
    root = LS.learn_spn(data, [L.RecLeaf] * n_cols, [(0, 1)] * n_cols, learn_leaf=s.learn_leaf, split_rows=s.split_rows, split_cols=s.split_cols,
                        min_rows_slice=min_rows, min_cols_slice=min_cols, random_state=0, verbose=False)
    bad = first_bad_sum(root)
    print(L.render_real(root)[:400])
    print('first sum whose weights are not the proportions:', bad)
    return bad is None
