"""Session histories: a model that went through earlier library calls (queries, EM, save/load, prune, copies) is still a
model, and every property quantified over "all circuits" holds for it. The generators of the checks build fresh objects;
this module puts a random, fully recorded (hence replayable) history in front of the query of a check.

    root2, steps = apply_history(rs, root, ncols, n_steps)      # steps is JSON-serialisable
    root2 = replay_history(root_from_table, steps)              # same calls, same arguments

A step that the library refuses (raises) is recorded with its outcome and leaves the object as the library left it —
that is part of the history, too. Steps never touch the structure in a way that would change the scope."""
import copy, io, os, pickle, tempfile
import numpy as np

from deeprob.spn.structure.node import Sum, Product, assign_ids
from deeprob.spn.structure.cltree import BinaryCLT
from deeprob.spn.structure.leaf import Bernoulli, Categorical, Gaussian
from deeprob.spn.algorithms import inference, sampling, structure
from deeprob.spn.learning.em import expectation_maximization

KINDS = ['query', 'em', 'em-random-init', 'em-step-direct', 'saveload', 'prune-inplace', 'prune-copy', 'deepcopy', 'pickle', 'reassign-weights']


def _nodes(root):
    seen, out, st = set(), [], [root]
    while st:
        n = st.pop()
        if id(n) in seen:
            continue
        seen.add(id(n))
        out.append(n)
        st.extend(getattr(n, 'children', []) or [])
    return out


def em_capable(root):
    return all(isinstance(n, (Sum, Product, Bernoulli, Categorical, Gaussian, BinaryCLT)) for n in _nodes(root))


def _in_support_data(rs, root, ncols, n):
    """rows drawn from the model itself (so they have positive likelihood under every history); falls back to per-leaf values"""
    X = np.full((n, ncols), np.nan, dtype=np.float32)
    try:
        np.random.seed(int(rs.randint(2 ** 31 - 1)))
        Y = sampling.sample(root, X.copy())
        if not np.isnan(Y[:, root.scope]).any():
            Y = np.array(Y, dtype=np.float32)
            Y[np.isnan(Y)] = 0
            return Y
    except Exception:
        pass
    X[:] = 0
    for nd in _nodes(root):
        if isinstance(nd, Categorical):
            X[:, nd.scope[0]] = rs.choice(nd.categories, size=n)
        elif isinstance(nd, (Bernoulli, BinaryCLT)):
            for v in nd.scope:
                X[:, v] = rs.randint(2, size=n)
        elif isinstance(nd, Gaussian):
            X[:, nd.scope[0]] = rs.normal(float(nd.mean), float(nd.stddev), size=n)
    return X


def make_step(rs, root, ncols, kind):
    """choose the arguments of one step (recorded explicitly); 'query:mpe' etc. fix the kind of query"""
    if kind.startswith('query'):
        q = kind.split(':')[1] if ':' in kind else str(rs.choice(['mpe', 'sample', 'log_likelihood', 'likelihood']))
        miss = [[bool(rs.rand() < 0.5) for _ in range(ncols)] for _ in range(3)]
        return dict(op='query', q=q, miss=miss, seed=int(rs.randint(10 ** 6)))
    if kind in ('em', 'em-random-init'):
        data = _in_support_data(rs, root, ncols, int(rs.choice([8, 20, 40])))
        return dict(op='em', data=data.tolist(), num_iter=int(rs.randint(1, 4)), batch_perc=float(rs.choice([0.5, 0.9])),
                    step_size=float(rs.choice([0.3, 0.5, 0.9])), random_init=(kind == 'em-random-init'), seed=int(rs.randint(10 ** 6)))
    if kind == 'em-step-direct':
        data = _in_support_data(rs, root, ncols, 12)
        return dict(op='em-step-direct', data=data.tolist(), stats=[float(s) for s in rs.rand(12) + 0.05], step_size=float(rs.choice([0.3, 0.9])),
                    which=int(rs.randint(10 ** 6)))
    if kind == 'reassign-weights':
        return dict(op='reassign-weights', which=int(rs.randint(10 ** 6)), seed=int(rs.randint(10 ** 6)))
    return dict(op=kind)


def do_step(root, st, ncols=None):
    """run one recorded step; returns (root, outcome)"""
    op = st['op']
    try:
        if op == 'query':
            n = len(st['miss'][0])
            X = np.zeros((len(st['miss']), n), dtype=np.float32)
            data = _in_support_data(np.random.RandomState(st['seed']), root, n, len(st['miss']))
            X[:] = data
            if st['q'] in ('mpe', 'sample'):
                X[np.array(st['miss'])] = np.nan
                X[0, :] = np.nan
                np.random.seed(st['seed'])
                (inference.mpe if st['q'] == 'mpe' else sampling.sample)(root, X)
            elif st['q'] == 'log_likelihood':
                inference.log_likelihood(root, X)
            else:
                inference.likelihood(root, X)
        elif op == 'em':
            expectation_maximization(root, np.array(st['data'], dtype=np.float32), num_iter=st['num_iter'], batch_perc=st['batch_perc'],
                                     step_size=st['step_size'], random_init=st['random_init'], random_state=st['seed'], verbose=False)
        elif op == 'em-step-direct':
            cands = [n for n in _nodes(root) if isinstance(n, (Bernoulli, Categorical, Gaussian, BinaryCLT, Sum))]
            n = cands[st['which'] % len(cands)]
            data = np.array(st['data'], dtype=np.float32)
            stats = np.array(st['stats'], dtype=np.float32)
            if isinstance(n, Sum):
                k = len(n.children)
                S_ = np.abs(np.sin(np.arange(k * len(stats)).reshape(k, -1) + 1.0)).astype(np.float32) + 0.05
                S_ = S_ / S_.sum(axis=0, keepdims=True)
                n.em_step(S_, float(st['step_size']))
            else:
                col = data[:, n.scope]
                if isinstance(n, Categorical):
                    # the circuit-level sample may carry a value of a sibling leaf with other categories: keep the leaf's own support
                    cats = [int(c) for c in n.categories]
                    col = np.array([[v if int(v) in cats else cats[int(abs(v)) % len(cats)]] for v in col[:, 0]], dtype=np.float32)
                n.em_step(stats, col, float(st['step_size']))
        elif op == 'saveload':
            from deeprob.spn.structure.io import save_spn_json, load_spn_json
            fd, path = tempfile.mkstemp(suffix='.json', dir='/dev/shm' if os.path.isdir('/dev/shm') else None)
            os.close(fd)
            try:
                save_spn_json(root, path)
                root = load_spn_json(path)
            finally:
                os.unlink(path)
        elif op == 'prune-inplace':
            root = structure.prune(root, copy=False)
            assign_ids(root) if getattr(root, 'children', None) else None
        elif op == 'prune-copy':
            root = structure.prune(root, copy=True)
        elif op == 'deepcopy':
            root = copy.deepcopy(root)
        elif op == 'pickle':
            root = pickle.loads(pickle.dumps(root))
        elif op == 'reassign-weights':
            sums = [n for n in _nodes(root) if isinstance(n, Sum)]
            if sums:
                s = sums[st['which'] % len(sums)]
                w = np.random.RandomState(st['seed']).dirichlet(np.ones(len(s.children))).astype(np.float32)
                w = w / w.sum()
                s.weights = w.astype(np.float32)
        else:
            return root, 'unknown-step'
    except Exception as ex:
        return root, 'raised:' + type(ex).__name__
    return root, 'ok'


def apply_history(rs, root, ncols, n_steps, kinds=None, count=None, first=None):
    """`first`: kinds the first step is drawn from (e.g. ['query:mpe'] so that a cache a later step may leave stale is filled)"""
    kinds = list(kinds or KINDS)
    if not em_capable(root):
        kinds = [k for k in kinds if not k.startswith('em')]
    else:
        kinds = kinds + [k for k in kinds if k.startswith('em') or k == 'query']     # EM and earlier queries twice as likely
    steps = []
    for i_ in range(n_steps):
        pool = list(first) if (first and i_ == 0) else kinds
        kind = pool[rs.randint(len(pool))]
        if kind == 'saveload' and any(len({id(c) for c in n.children}) != len(n.children) for n in _nodes(root) if getattr(n, 'children', None)):
            kind = 'deepcopy'   # a node listing one child object twice cannot be saved (known finding F15 of C13): not part of these histories
        st = make_step(rs, root, ncols, kind)
        before = copy.deepcopy(root)
        root, out = do_step(root, st)
        if out != 'ok':
            root = before      # a refused call is not part of these histories (what a refusal may leave behind is C03's stream)
        st['outcome'] = out
        steps.append(st)
        if count:
            count(f'history:{st["op"]}{"(random-init)" if st.get("random_init") else ""}:{out.split(":")[0]}')
    if not isinstance(root, BinaryCLT) and getattr(root, 'children', None):
        pass
    return root, steps


def replay_history(root, steps):
    for st in steps:
        before = copy.deepcopy(root)
        root, out = do_step(root, st)
        if out != 'ok':
            root = before
        print('  history step', {k: v for k, v in st.items() if k not in ('data', 'stats', 'miss')}, '->', out)
    return root


def brief(steps):
    return [st['op'] + ('(random-init)' if st.get('random_init') else '') + ('' if st['outcome'] == 'ok' else '!' + st['outcome']) for st in steps]
