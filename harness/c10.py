"""C10 — structural marginalisation equals marginal inference; guards; original untouched with copy."""
import json, hashlib, itertools
from copy import deepcopy
import numpy as np
from harness.common import np_seed, Infra, parse_q, close_log, qlog
from harness import spn as S
from harness import histories as Hist
from harness import rewrite as R
from harness.build import build_from_table, table_with_py

from deeprob.spn.structure.node import Sum, Product, assign_ids
from deeprob.spn.structure.cltree import BinaryCLT
from deeprob.spn.structure.leaf import Bernoulli
from deeprob.spn.algorithms.structure import marginalize
from deeprob.spn.algorithms.inference import log_likelihood
from deeprob.spn.utils.validity import check_spn


def has_clt(order):
    return any(isinstance(n, BinaryCLT) for n in order)


def oracle(root, keep, res, rs, before, after):
    if before != after:
        return 'c10-original-modified', 'marginalize(copy=True) modified the original circuit'
    if sorted(int(v) for v in res.scope) != sorted(keep):
        return 'c10-scope', f'result scope {sorted(res.scope)} is not the kept set {sorted(keep)}'
    if isinstance(res, (Sum, Product)):
        try:
            check_spn(res, labeled=True, smooth=True, decomposable=True)
        except ValueError as ex:
            return 'c10-invalid-result', f'marginalised circuit fails validation: {ex}'
    order = S.children_first(root)[0]
    dom = S.domain_of(order)
    ncols = len(dom)
    sizes = [dom[v] for v in keep]
    import math as _m
    total = _m.prod(int(t) for t in sizes)
    combos = list(itertools.product(*[range(s) for s in sizes])) if total <= 128 else \
        [tuple(int(rs.randint(s)) for s in sizes) for _ in range(128)]
    X = np.full((len(combos), ncols), np.nan, dtype=np.float32)
    for r, c in enumerate(combos):
        for v, val in zip(keep, c):
            X[r, v] = val
    a = np.asarray(log_likelihood(root, X)).reshape(-1)
    if isinstance(res, (Sum, Product)):
        b = np.asarray(log_likelihood(res, X)).reshape(-1)
    else:
        res.id = 0
        b = np.asarray(log_likelihood(res, X)).reshape(-1)
    d = np.abs(a - b)
    if np.any(d > 5e-4 + 2e-5 * np.abs(a)):
        r = int(np.argmax(d))
        return 'c10-value', f'marginalised circuit gives {float(b[r])} but the original with the rest missing gives {float(a[r])} at {X[r].tolist()}'
    return None


def check_guards(ctx, root, rep):
    scope = sorted(int(v) for v in root.scope)
    for k, why in (([], 'empty'), ([scope[0], scope[0]], 'duplicates'), ([scope[0], max(scope) + 1], 'out-of-scope')):
        ctx.count('guard:' + why)
        before = S.export_net(root)[0]
        try:
            marginalize(root, list(k), copy=True)
        except ValueError:
            if S.export_net(root)[0] != before:
                ctx.violation('c10-guard-modified', f'rejected call ({why}) modified the circuit', replay=dict(rep, keep=k))
            continue
        except Exception as ex:
            ctx.violation('c10-guard:' + why, f'kept set {k} ({why}) not rejected cleanly: {type(ex).__name__}: {ex}', replay=dict(rep, keep=k))
            return
        ctx.violation('c10-guard:' + why, f'kept set {k} ({why}) was accepted', replay=dict(rep, keep=k))
        return


def one_case(ctx, name, root, rs, n_keeps, rep_extra=None, history=None, keeps=None):
    if isinstance(root, (Sum, Product)):
        assign_ids(root)
    table, order, index, _ = S.export_net(root)
    scope = sorted(int(v) for v in root.scope)
    key = hashlib.sha256(json.dumps(table, sort_keys=True).encode()).hexdigest()[:16]
    clt = has_clt(order)
    rep0 = dict(kind='c10', table=table_with_py(table, order), **(dict(history=history) if history else {})) if rep_extra is None else dict(kind='c10-learned', **rep_extra)
    subsets = [list(c) for r in range(1, len(scope) + 1) for c in itertools.combinations(scope, r)]
    if keeps is not None:
        subsets = [list(kp) for kp in keeps]
    elif len(subsets) > n_keeps:
        subsets = [subsets[i] for i in rs.permutation(len(subsets))[:n_keeps]]
    ctx.count('with-clt-leaves' if clt else 'table-leaves')
    first = True
    for keep0 in subsets:
        keep = [int(v) for v in rs.permutation(keep0)]
        ctx.case(name, nontrivial_key=(key, tuple(sorted(keep))) if len(table) > 1 and len(keep) < len(scope) else None,
                 sample=dict(name=name, nodes=len(table), kinds=S.describe(order), keep=keep, scope=scope) if first else None)
        first = False
        rep = dict(rep0, keep=keep)
        before = S.export_net(root)[0]
        try:
            res = marginalize(root, list(keep), copy=True)
        except Exception as ex:
            ctx.violation(f'c10-raises:{type(ex).__name__}', f'marginalize raised {type(ex).__name__}: {ex} for kept set {keep} [{name}]', replay=rep)
            return
        after = S.export_net(root)[0]
        o = oracle(root, keep, res, rs, before, after)
        if o:
            ctx.violation(o[0], o[1] + f' [{name}, keep={keep}]', replay=rep)
            return
        if not ctx.driver_ok or rep_extra is not None:
            continue
        drv = ctx.get_driver()
        dom = S.domain_of(order)
        drv.ask(dict(op='net', nodes=table, root=len(table) - 1, dom=dom))
        if not clt:
            r2 = deepcopy(root)
            order2 = S.export_net(r2)[1]
            origin = {id(n): i for i, n in enumerate(order2)}
            res2 = marginalize(r2, list(keep), copy=False)
            py = R.canon(res2, origin)
            ans = drv.ask(dict(op='marginalize', keep=keep))
            why = R.same(py, R.parse_table(ans)) if ' ' in ans else f'model answered {ans}'
            if why:
                ctx.violation('c10-model-disagrees', f'implementation result differs from the model: {why} (the result satisfies the property) [{name}, keep={keep}]',
                              replay=rep, found_input=False)
                return
        else:
            # value correspondence against the exact semantics of the ORIGINAL with the rest missing
            sizes = [dom[v] for v in keep]
            for _ in range(6):
                row = [None] * len(dom)
                for v, s in zip(keep, sizes):
                    row[v] = int(rs.randint(s))
                m = [parse_q(t) for t in drv.ask(dict(op='eval', row=row)).split()][len(table) - 1]
                x = np.array([[np.nan if t is None else t for t in row]], dtype=np.float32)
                if not isinstance(res, (Sum, Product)):
                    res.id = 0
                ll = float(np.asarray(log_likelihood(res, x)).reshape(-1)[0])
                if not close_log(ll, m):
                    ctx.violation('c10-value-vs-model', f'marginalised circuit gives {ll}, exact marginal of the original is {qlog(m)} at {row} [{name}, keep={keep}]',
                                  replay=rep)
                    return
    if isinstance(root, (Sum, Product)):
        check_guards(ctx, root, rep0)


def learned_cases(ctx, n):
    """circuits produced by the library's own learners (incl. XPC with structured decomposability and CLT leaves)"""
    from deeprob.spn.learning.xpc import learn_xpc
    from deeprob.spn.learning.wrappers import learn_estimator
    k = 0
    while k < n:
        rs = np.random.RandomState(np_seed(ctx.sub_rng('learned', k)))
        k += 1
        nv = int(rs.randint(4, 8))
        nr = int(rs.choice([60, 120, 250]))
        z = rs.randint(0, 2, size=(nr, 2))
        data = np.stack([np.where(rs.rand(nr) < 0.2, 1 - z[:, j % 2], z[:, j % 2]) for j in range(nv)], axis=1).astype(np.float32)
        cfg = dict(k=k, nv=nv, nr=nr)
        if k % 2 == 0:
            cfg.update(learner='xpc', det=bool(rs.rand() < 0.3), sd=True, min_part_inst=int(rs.choice([10, 20])), conj_len=int(rs.choice([1, 2])),
                       arity=2, use_clt=True, random_seed=int(rs.randint(1000)))
            try:
                root, _ = learn_xpc(data, det=cfg['det'], sd=True, min_part_inst=cfg['min_part_inst'], conj_len=cfg['conj_len'],
                                    arity=2, use_clt=True, random_seed=cfg['random_seed'])
            except (AssertionError, AttributeError, ValueError, IndexError) as ex:
                ctx.count('learner-did-not-return')
                continue
        else:
            cfg.update(learner='learnspn-binary-clt', seed=int(rs.randint(1000)))
            try:
                root = learn_estimator(data, [Bernoulli] * nv, [[0, 1]] * nv, learn_leaf='binary-clt', split_rows='kmeans', split_cols='gvs',
                                       min_rows_slice=40, min_cols_slice=2, random_state=cfg['seed'], verbose=False,
                                       learn_leaf_kwargs=dict(to_pc=False))
            except Exception:
                ctx.count('learner-did-not-return')
                continue
        cfg['data'] = data.astype(int).tolist()
        yield f"learned:{cfg['learner']}", root, rs, cfg


def clt_subtree_cases(ctx):
    """Chow-Liu leaves whose scope is not `0..n-1` in order (labelled as XPC / hand-built / loaded leaves are: any ids, any order) and
    kept sets that drop WHOLE SUB-TREES of the leaf (root kept) — the one case in which the marginal of a tree is again a tree, next
    to kept sets that cut through the tree"""
    quick = ctx.tier == 'quick'
    for k in range(14 if quick else 200):
        rs = np.random.RandomState(np_seed(ctx.sub_rng('cltsub', k)))
        n = int(rs.randint(3, 7))
        pool = [int(v) for v in rs.permutation(n + 2 if k % 2 else 13)]
        sc = pool[:n]
        extra = pool[n]
        leaves = [S.rand_clt(rs, list(sc)) for _ in range(1 if k % 3 == 0 else 2)]
        if k % 4 == 3 and len(leaves) == 2:
            # the same dependency tree, other tables (root rows equal, as every fitted / valid leaf has them)
            t0 = [int(t) for t in leaves[0].tree]
            r0 = t0.index(-1)
            pr = rs.uniform(0.05, 0.95, (n, 2))
            pr[r0, 1] = pr[r0, 0]
            leaves[1] = BinaryCLT(list(sc), root=int(sc[r0]), tree=t0, params=np.log(np.stack([1 - pr, pr], axis=2)).tolist())
        if len(leaves) == 1:
            inner = leaves[0]
        else:
            w = rs.dirichlet(np.ones(len(leaves))).astype(np.float32)
            inner = Sum(children=leaves, weights=(w / w.sum()).astype(np.float32))
        root = assign_ids(Product(children=[inner, Bernoulli(extra, float(rs.uniform(0.2, 0.8)))]))
        keeps = []
        for lf in leaves[:2]:
            pred = [int(t) for t in lf.tree]
            dropped = set()
            for _ in range(int(rs.randint(1, 3))):
                cand = [i for i in range(n) if pred[i] != -1 and i not in dropped]
                if not cand:
                    break
                top = cand[int(rs.randint(len(cand)))]
                dropped.add(top)
                grew = True
                while grew:                              # with everything below it
                    grew = False
                    for i in range(n):
                        if i not in dropped and pred[i] in dropped:
                            dropped.add(i); grew = True
            kept = [sc[i] for i in range(n) if i not in dropped]
            keeps.append(kept + ([extra] if rs.rand() < 0.5 else []))
        keeps.append([int(v) for v in rs.permutation(sc)[:int(rs.randint(1, n))]])
        ctx.count('clt-leaves-with-whole-subtrees-dropped')
        one_case(ctx, f'cltsub{k}', root, rs, 0, keeps=keeps)
        if ctx.n_new(with_input_only=True) >= 3:
            return


def wide_clt_cases(ctx):
    """a Chow-Liu leaf over 130..200 variables: the evidence below a marginalised variable has log-probability around -100, far below
    what single precision can hold in the linear domain. Structural marginalisation and marginal inference must still agree (and
    agree with an independent log-domain recursion)."""
    from harness import clt as CL
    quick = ctx.tier == 'quick'
    for k in range(3 if quick else 30):
        rs = np.random.RandomState(np_seed(ctx.sub_rng('wide', k)))
        n = int(rs.choice([130, 160, 200]))
        clt, pred = CL.make_wide_clt(rs, n)
        root = assign_ids(Product(children=[clt, Bernoulli(n, float(rs.uniform(0.2, 0.8)))]))
        drop = sorted({pred.index(-1), int(rs.randint(n))} | ({int(rs.randint(n))} if k % 2 else set()))
        keep = [v for v in range(n + 1) if v not in drop]
        ctx.case('wide-clt-leaf', nontrivial_key=('wide', k), sample=dict(name='wide-clt-leaf', variables=n, dropped=drop))
        ctx.count('wide-clt-leaf-circuits')
        lp = np.asarray(clt.params, dtype=np.float64)
        rep = dict(kind='c10-wide', pred=pred, params=lp.tolist(), keep=keep, extra_p=float(root.children[1].p))
        try:
            res = marginalize(root, list(keep), copy=True)
        except Exception as ex:
            ctx.violation(f'c10-raises:{type(ex).__name__}', f'marginalize raised {type(ex).__name__}: {ex} on a circuit with a {n}-variable Chow-Liu leaf', replay=rep)
            return
        X = np.full((5, n + 1), np.nan, dtype=np.float32)
        for r in range(5):
            for v in keep:
                X[r, v] = rs.randint(2)
        a = np.asarray(log_likelihood(root, X), dtype=np.float64).reshape(-1)
        b = np.asarray(log_likelihood(res, X), dtype=np.float64).reshape(-1)
        for r in range(5):
            row = [None if np.isnan(t) else int(t) for t in X[r, :n]]
            ref = CL.ref_clt_logvalue(pred, lp, row) + (0.0 if np.isnan(X[r, n]) else float(np.log(root.children[1].p if X[r, n] == 1 else 1 - root.children[1].p)))
            tol = 2e-2 + 2e-4 * abs(ref)
            ctx.count('wide-rows')
            if abs(a[r] - b[r]) > tol or abs(a[r] - ref) > tol or abs(b[r] - ref) > tol:
                ctx.violation('c10-value:wide', f'{n}-variable Chow-Liu leaf, kept all but {drop}: marginalised circuit gives {float(b[r])}, the original with the rest '
                                                f'missing gives {float(a[r])}, the log of the sum over completions is {ref}', replay=dict(rep, row=X[r].tolist()))
                return


def run(ctx):
    quick = ctx.tier == 'quick'
    n = 70 if quick else 1500
    k = 0
    done = 0
    while done < n:
        rs = np.random.RandomState(np_seed(ctx.sub_rng('net', k)))
        k += 1
        nv = int(rs.randint(2, 6))
        use_clt = (k % 3 == 0)
        card = {v: (2 if use_clt else int(rs.randint(2, 4))) for v in range(nv)}
        root = R.gen(rs, list(range(nv)), int(rs.randint(2, 5)), {}, card, share=float(rs.choice([0.0, 0.3, 0.6])), clt=use_clt)
        if not isinstance(root, (Sum, Product)):
            continue
        done += 1
        hist_extra = None
        if k % 2 == 0 and Hist.em_capable(root) and not any(len({id(c) for c in n.children}) != len(n.children) for n in S.children_first(root)[0] if getattr(n, 'children', None)):
            # the circuit went through earlier calls of the session (queries, EM with and without re-initialisation, re-weighting, save/load)
            assign_ids(root)
            t0, o0, _, _ = S.export_net(root)
            root, steps = Hist.apply_history(rs, root, nv, int(rs.randint(1, 4)), count=ctx.count,
                                             kinds=['query', 'em', 'em-random-init', 'em-random-init', 'em-step-direct', 'reassign-weights', 'saveload', 'pickle'])
            if not isinstance(root, (Sum, Product)):
                continue
            ctx.count('circuits-marginalised-after-a-history')
            hist_extra = dict(table0=table_with_py(t0, o0), steps=steps)
        one_case(ctx, f'rand{k}' + (f' after {Hist.brief(hist_extra["steps"])}' if hist_extra else ''), root, rs, 4 if quick else 12, history=hist_extra)
        if ctx.n_new(with_input_only=True) >= 3:
            return
    # mixtures with a rare component (merged weights far below 1e-8, weights within 1e-5 of one) next to deterministic components
    for name, root in R.rare_cases():
        ctx.count('rare-component-circuits')
        one_case(ctx, name, root, np.random.RandomState(np_seed(ctx.sub_rng('rare', name))), 3)
        if ctx.n_new(with_input_only=True) >= 3:
            return
    clt_subtree_cases(ctx)
    if ctx.n_new(with_input_only=True) >= 3:
        return
    if ctx.n_new(with_input_only=True) == 0:
        wide_clt_cases(ctx)
    for name, root, rs, cfg in learned_cases(ctx, 8 if quick else 120):
        ctx.count(name)
        one_case(ctx, name, root, rs, 3 if quick else 8, rep_extra=cfg)
        if ctx.n_new(with_input_only=True) >= 3:
            return


_run_core = run


def run(ctx):
    _run_core(ctx)
    if ctx.n_new() == 0 and ctx.driver_ok:
        from harness.common import run_demo
        if ctx.n_new() == 0:
            run_demo(ctx, 'demo_tr4.py', [1 + ctx.seed], 'c10-code-vs-generated-vs-model-4',
                     'first pass of marginalize (before prune) vs generated step vs model', env_extra=dict(DEMO_SECTIONS='c'))


def replay(rep):
    if rep['replay'].get('kind') == 'c10-wide':
        from harness import clt as CL
        r = rep['replay']
        n = len(r['pred'])
        clt = BinaryCLT(list(range(n)), root=r['pred'].index(-1), tree=r['pred'], params=r['params'])
        root = assign_ids(Product(children=[clt, Bernoulli(n, r['extra_p'])]))
        res = marginalize(root, list(r['keep']), copy=True)
        x = np.array([[np.nan if (t is None or t != t) else t for t in r['row']]], dtype=np.float32)
        a = float(np.asarray(log_likelihood(root, x)).reshape(-1)[0]); b = float(np.asarray(log_likelihood(res, x)).reshape(-1)[0])
        ref = CL.ref_clt_logvalue(r['pred'], np.array(r['params']), [None if np.isnan(t) else int(t) for t in x[0, :n]]) + \
            (0.0 if np.isnan(x[0, n]) else float(np.log(r['extra_p'] if x[0, n] == 1 else 1 - r['extra_p'])))
        print('original with NaN', a, 'marginalised', b, 'reference', ref)
        tol = 2e-2 + 2e-4 * abs(ref)
        return abs(a - b) <= tol and abs(a - ref) <= tol
    if rep['replay'].get('kind') == 'demo':
        from harness.common import replay_demo
        return replay_demo(rep['replay'])
    r = rep['replay']
    if r['kind'] == 'c10-learned':
        data = np.array(r['data'], dtype=np.float32)
        if r['learner'] == 'xpc':
            from deeprob.spn.learning.xpc import learn_xpc
            root, _ = learn_xpc(data, det=r['det'], sd=True, min_part_inst=r['min_part_inst'], conj_len=r['conj_len'], arity=2,
                                use_clt=True, random_seed=r['random_seed'])
        else:
            from deeprob.spn.learning.wrappers import learn_estimator
            root = learn_estimator(data, [Bernoulli] * r['nv'], [[0, 1]] * r['nv'], learn_leaf='binary-clt', split_rows='kmeans',
                                   split_cols='gvs', min_rows_slice=40, min_cols_slice=2, random_state=r['seed'], verbose=False,
                                   learn_leaf_kwargs=dict(to_pc=False))
    else:
        root, _ = build_from_table(r['table'])
        if r.get('history'):
            root, _ = build_from_table(r['history']['table0'])
            root = Hist.replay_history(root, r['history']['steps'])
            assign_ids(root)
    before = S.export_net(root)[0]
    try:
        res = marginalize(root, list(r['keep']), copy=True)
    except ValueError as ex:
        print('rejected:', ex)
        return len(r['keep']) == 0 or len(set(r['keep'])) != len(r['keep']) or not set(r['keep']) <= set(root.scope)
    except Exception as ex:
        print('raised', type(ex).__name__, ex)
        return False
    o = oracle(root, sorted(r['keep']), res, np.random.RandomState(0), before, S.export_net(root)[0])
    print('oracle:', o)
    return o is None
