"""C06 — MPE completes only missing entries; exact on Chow-Liu trees; descent completion on circuits."""
import itertools, json, hashlib, math
import numpy as np
from harness.common import np_seed, Infra, parse_q, qlog, fstr
from harness import spn as S
from harness import clt as C
from harness import histories as Hist
from harness.build import build_from_table, table_with_py
from harness.c01 import FAMILIES, cont_value

from deeprob.spn.structure.node import Sum, Product, assign_ids
from deeprob.spn.structure.leaf import Bernoulli, Categorical, Gaussian, Uniform, Isotonic
from deeprob.spn.structure.cltree import BinaryCLT
from deeprob.spn.algorithms.inference import mpe, log_likelihood


def random_evidence(rs, scope, order, dom, ncols, n_rows):
    cont = {}
    for n in order:
        if S.is_continuous(n):
            cont.setdefault(n.scope[0], []).append(n)
    X = np.full((n_rows, ncols), np.nan, dtype=np.float32)
    for r in range(n_rows):
        p_obs = rs.choice([0.0, 0.3, 0.6, 1.0])
        for v in scope:
            if rs.rand() < p_obs:
                X[r, v] = cont_value(rs, cont[v]) if v in cont else rs.randint(dom[v])
                if v in cont and isinstance(cont[v][0], Gaussian) and rs.rand() < 0.15:
                    X[r, v] = float(cont[v][0].mean) + float(rs.choice([-1, 1])) * float(rs.choice([20, 45])) * float(cont[v][0].stddev)   # far outlier
    # columns outside the scope: arbitrary observed values and NaNs that must stay as they are
    for v in range(ncols):
        if v not in scope:
            X[:, v] = np.where(rs.rand(n_rows) < 0.5, np.nan, 7.0)
    return X


def in_domain(order, v, val):
    """val is a value of variable v's domain (the union of the supports declared by the leaves over v)"""
    seen = False
    for n in order:
        if v in n.scope:
            seen = True
            if isinstance(n, Bernoulli) or isinstance(n, BinaryCLT):
                if val in (0.0, 1.0):
                    return True
            elif isinstance(n, Categorical):
                if val in [float(c) for c in n.categories]:
                    return True
            elif math.isfinite(val):
                return True
    return not seen


def basic_contract(X, Y, scope, order):
    """returns message or None: observed unchanged, missing in scope filled with domain values, outside scope untouched"""
    obs = ~np.isnan(X)
    if not np.array_equal(X[obs], Y[obs]):
        return 'an observed entry was changed'
    for r in range(len(X)):
        for v in range(X.shape[1]):
            if np.isnan(X[r, v]):
                if v in scope:
                    if np.isnan(Y[r, v]):
                        return f'missing entry of variable {v} left unfilled'
                    if not in_domain(order, v, float(Y[r, v])):
                        return f'variable {v} filled with {float(Y[r, v])}, not a value of its domain'
                elif not np.isnan(Y[r, v]):
                    return f'entry of variable {v} outside the circuit scope was written'
    return None


def leaf_mode(n, xrow):
    """the mode each leaf family fills in (the property: 'filling leaves with their modes')"""
    if isinstance(n, Bernoulli):
        return {n.scope[0]: 0.0 if float(n.p) < 0.5 else 1.0}
    if isinstance(n, Categorical):
        return {n.scope[0]: float(n.categories[int(np.argmax(n.probabilities))])}
    if isinstance(n, Gaussian):
        return {n.scope[0]: float(np.float32(n.mean))}
    if isinstance(n, Uniform):
        return {n.scope[0]: float(np.float32(n.start))}
    if isinstance(n, Isotonic):
        i = int(np.argmax(n.densities))
        return {n.scope[0]: float(np.float32((n.breaks[i] + n.breaks[i + 1]) / 2.0))}
    if isinstance(n, BinaryCLT):
        sub = np.array([[xrow[v] for v in n.scope]], dtype=np.float32)
        out = n.mpe(sub)[0]
        return {v: float(out[j]) for j, v in enumerate(n.scope)}
    raise Infra('leaf_mode')


def descent_oracle(root, x, lls_row):
    """the completion the property describes, computed independently of eval_top_down: at each sum node follow the child with the
    largest weighted evidence log-likelihood (float64 on the implementation's own node values), products visit all children,
    leaves fill their modes. Returns (completion dict, smallest arg-max margin met)."""
    out, margin = {}, math.inf
    stack, seen = [root], set()
    while stack:
        n = stack.pop()
        if id(n) in seen:
            continue
        seen.add(id(n))
        if isinstance(n, Sum):
            sc = np.array([float(lls_row[c.id]) for c in n.children], dtype=np.float64) + np.log(np.asarray(n.weights, dtype=np.float64))
            b = int(np.argmax(sc))
            if len(sc) > 1:
                srt = np.sort(sc)[::-1]
                margin = min(margin, float(srt[0] - srt[1]))
            stack.append(n.children[b])
        elif isinstance(n, Product):
            stack.extend(n.children)
        else:
            for v, val in leaf_mode(n, x).items():
                if np.isnan(x[v]):
                    out[v] = val
    return out, margin


def check_inplace(ctx, root, X, rep):
    X0 = X.copy()
    Y = mpe(root, X, inplace=False)
    if not np.array_equal(np.isnan(X), np.isnan(X0)) or not np.array_equal(X[~np.isnan(X)], X0[~np.isnan(X0)]):
        ctx.violation('c06-caller-array-modified', 'mpe(inplace=False) modified the caller array', replay=rep)
        return None
    # the same contract with worker threads (the documented n_jobs argument): same completion, caller array untouched
    for nj in (2, -1):
        Yp = mpe(root, X, inplace=False, n_jobs=nj)
        ctx.count('mpe-calls-with-worker-threads')
        if not np.array_equal(np.isnan(X), np.isnan(X0)) or not np.array_equal(X[~np.isnan(X)], X0[~np.isnan(X0)]) or Yp is X:
            ctx.violation('c06-caller-array-modified:n_jobs', f'mpe(inplace=False, n_jobs={nj}) modified the caller array (or returned it)', replay=dict(rep, n_jobs=nj))
            return None
        if not np.array_equal(np.nan_to_num(Yp, nan=-9.5), np.nan_to_num(Y, nan=-9.5)):
            ctx.violation('c06-n_jobs-differs', f'mpe(n_jobs={nj}) returns another completion than the sequential pass', replay=dict(rep, n_jobs=nj))
            return None
    Z = X.copy()
    W = mpe(root, Z, inplace=True)
    if W is not Z and not np.shares_memory(W, Z):
        ctx.count('inplace-returns-other-object')
    if not np.array_equal(np.nan_to_num(Z, nan=-9.5), np.nan_to_num(Y, nan=-9.5)):
        ctx.violation('c06-inplace-differs', 'mpe(inplace=True) left a different array than mpe(inplace=False) returns', replay=rep)
        return None
    return Y


def double_precision_evidence_kept(ctx, root, X, scope, order, rep, fn=None, name='mpe'):
    """the caller's evidence may be double precision: observed entries that are not single-precision numbers must come back bit for
    bit, in the returned array and (in place) in the caller's own array"""
    cont_cols = sorted({n.scope[0] for n in order if S.is_continuous(n)})
    if not cont_cols:
        return True
    fn = fn or mpe
    X64 = X.astype(np.float64)
    for v in cont_cols:
        X64[:, v] = X64[:, v] * (1.0 + 3e-10) + 1e-10          # not representable in float32 any more
    obs = ~np.isnan(X64)
    for inplace in (False, True):
        Z = X64.copy()
        try:
            np.random.seed(0)
            W = fn(root, Z, inplace=inplace)
        except Exception as ex:
            ctx.violation(f'c06-{name}-raises-float64', f'{name} raised {type(ex).__name__}: {ex} on double-precision evidence', replay=dict(rep, dtype='float64'))
            return False
        ctx.count(f'float64-evidence-{name}-calls')
        W = np.asarray(W)
        bad = obs & ~(W == X64)
        if bad.any():
            r, c = np.argwhere(bad)[0]
            ctx.violation(f'c06-observed-entry-changed:{name}-float64', f'{name}(inplace={inplace}) on double-precision evidence returned {W[r, c]!r} for the observed entry '
                                                                        f'{X64[r, c]!r} (row {int(r)}, variable {int(c)})',
                          replay=dict(rep, dtype='float64', rows=np.where(np.isnan(X64), None, X64).tolist()))
            return False
        if inplace and (obs & ~(Z == X64)).any():
            ctx.violation(f'c06-observed-entry-changed:{name}-float64-inplace', f'{name}(inplace=True) overwrote an observed double-precision entry of the caller array',
                          replay=dict(rep, dtype='float64', rows=np.where(np.isnan(X64), None, X64).tolist()))
            return False
    return True


def replay_float64(r, fn):
    root, order = build_from_table(r['table'])
    X64 = np.array([[np.nan if t is None else t for t in row] for row in r['rows']], dtype=np.float64)
    obs = ~np.isnan(X64)
    ok = True
    for inplace in (False, True):
        Z = X64.copy()
        np.random.seed(0)
        W = np.asarray(fn(root, Z, inplace=inplace))
        bad = obs & ~(W == X64)
        if bad.any() or (inplace and (obs & ~(Z == X64)).any()):
            rr, c = np.argwhere(bad)[0] if bad.any() else (0, 0)
            print(f'inplace={inplace}: observed entry {X64[rr, c]!r} came back as {W[rr, c]!r}')
            ok = False
    return ok


def circuit_case(ctx, k, cat_only):
    rs = np.random.RandomState(np_seed(ctx.sub_rng('net', k, cat_only)))
    ncols = int(rs.randint(2, 7))
    nv = int(rs.randint(1, min(ncols, 5) + 1))
    scope = sorted(int(v) for v in rs.choice(ncols, nv, replace=False))
    kinds = (('bern', 'cat'), ('bern', 'catl'), ('catl',))[k % 3] if cat_only else FAMILIES[rs.randint(len(FAMILIES))]
    root = S.rand_spn(rs, scope, depth=int(rs.randint(1, 5)), kinds=kinds, share=float(rs.choice([0.0, 0.3, 0.6])),
                      clt=(not cat_only and rs.rand() < 0.6))
    if not getattr(root, 'children', None):
        return
    assign_ids(root)
    hist = None
    if k % 3 == 2 and not any(len({id(c) for c in n.children}) != len(n.children) for n in S.children_first(root)[0] if getattr(n, 'children', None)):
        # the circuit went through earlier calls of the session: MPE / sampling queries (which may fill caches), then re-assigned
        # weights, prune, EM updates, save/load — the completion must follow the circuit as it is NOW
        t0, o0, _, _ = S.export_net(root)
        root, steps = Hist.apply_history(rs, root, ncols, int(rs.randint(2, 4)), count=ctx.count,
                                         kinds=['reassign-weights', 'reassign-weights', 'prune-inplace', 'prune-copy', 'em', 'em-step-direct', 'saveload', 'pickle', 'query:mpe'],
                                         first=['query:mpe', 'query:mpe', 'query:sample'])
        if not getattr(root, 'children', None):
            return
        assign_ids(root)
        scope = sorted(int(v) for v in root.scope)
        hist = dict(table0=table_with_py(t0, o0), steps=steps)
        ctx.count('circuits-completed-after-a-history')
    table, order, index, _ = S.export_net(root)
    dom = S.domain_of(order)
    X = random_evidence(rs, scope, order, dom, ncols, 12 if ctx.tier == 'quick' else 40)
    key = hashlib.sha256(json.dumps(table, sort_keys=True).encode()).hexdigest()[:16]
    ctx.case('circuit', nontrivial_key=key, sample=dict(nodes=len(table), kinds=S.describe(order), scope=scope,
                                                        a_row=[None if np.isnan(t) else float(t) for t in X[0]]))
    ctx.count('cat-leaf-circuits' if cat_only else 'mixed-leaf-circuits')
    rep = dict(kind='c06', table=table_with_py(table, order), rows=np.where(np.isnan(X), None, X).tolist(), **(dict(history=hist) if hist else {}))
    try:
        Y = check_inplace(ctx, root, X, rep)
    except Exception as ex:
        ctx.violation('c06-mpe-raises', f'mpe raised {type(ex).__name__}: {ex}', replay=rep)
        return
    if Y is None:
        return
    msg = basic_contract(X, Y, scope, order)
    if msg:
        ctx.violation('c06-contract', 'mpe: ' + msg, replay=rep)
        return
    if not double_precision_evidence_kept(ctx, root, X, scope, order, rep):
        return
    ll_e = np.asarray(log_likelihood(root, X)).reshape(-1)
    ll_y = np.asarray(log_likelihood(root, Y)).reshape(-1)
    bad = (ll_e > -1e30) & ~(ll_y > -1e30)
    for r in np.nonzero(bad)[0]:
        r = int(r)
        # known finding F17: Uniform.mpe fills the left support edge `start`; stored in a float32 row it can round below the edge
        edge = [n for n in order if isinstance(n, Uniform) and np.isnan(X[r, n.scope[0]])
                and float(Y[r, n.scope[0]]) == float(np.float32(n.start)) and float(np.float32(n.start)) < float(n.start)]
        if edge:
            Y2 = Y[r:r + 1].astype(np.float64).copy()
            for n in edge:
                Y2[0, n.scope[0]] = float(n.start)
            if float(np.asarray(log_likelihood(root, Y2)).reshape(-1)[0]) > -1e30:
                ctx.count('known:uniform-edge-float32')
                ctx.violation('c06-zero-probability:uniform-edge-float32',
                              f'Uniform leaf mode start={float(edge[0].start)!r} rounds to {float(np.float32(edge[0].start))!r} in a float32 row: completion has zero density',
                              replay=dict(rep, rows=[np.where(np.isnan(X[r]), None, X[r]).tolist()]))
                continue
        ctx.violation('c06-zero-probability', f'evidence has positive probability but the completion has none (row {X[r].tolist()})',
                      replay=dict(rep, rows=[np.where(np.isnan(X[r]), None, X[r]).tolist()]))
        return
    # the descent completion, by an oracle written independently of the top-down pass (every leaf family, CLT leaves included)
    _, lls_all = log_likelihood(root, X, return_results=True)
    for r in range(len(X)):
        if not (ll_e[r] > -1e30):
            continue
        want, margin = descent_oracle(root, X[r], lls_all[:, r])
        if margin <= 1e-3:
            ctx.count('oracle-rows-near-tie-excluded')
            continue
        ctx.count('rows-vs-descent-oracle')
        for v, val in want.items():
            if abs(float(Y[r, v]) - val) > 1e-6 * (1 + abs(val)):
                ctx.violation('c06-descent-oracle', f'variable {v} completed with {float(Y[r, v])!r}; following the largest weighted evidence likelihood at every sum node '
                                                    f'and filling leaf modes gives {val!r} (evidence {X[r].tolist()}, smallest margin {margin:.3g})',
                              replay=dict(rep, rows=[np.where(np.isnan(X[r]), None, X[r]).tolist()]))
                return
    if not cat_only or not ctx.driver_ok:
        return
    drv = ctx.get_driver()
    drv.ask(dict(op='net', nodes=table, root=index[id(root)], dom=dom))
    bern = [i for i, n in enumerate(order) if isinstance(n, Bernoulli)]
    nvars = len(dom)
    for r in range(len(X)):
        row, _ = S.row_payload(order, X[r], nvars)
        ans = drv.ask(dict(op='mpe', row=row, bern=bern, tree=(r % 4 == 0)))
        if ans in ('mpe-mismatch',):
            raise Infra('model: net-level MPE differs from the tree-level descent (theorem mpeNet_refines contradicted)')
        vals, margin = ans.split(' | ')
        margin = math.inf if margin == 'inf' else float(parse_q(margin))
        ctx.count('rows')
        if margin <= 1e-4:
            ctx.count('rows_near_tie_excluded')
            continue
        mrow = [None if t == 'nan' else int(t) for t in vals.split()]
        irow = [None if (v >= X.shape[1] or np.isnan(Y[r, v])) else int(Y[r, v]) for v in range(nvars)]
        mrow_s = [mrow[v] if v in scope else None for v in range(nvars)]
        irow_s = [irow[v] if v in scope else None for v in range(nvars)]
        if mrow_s != irow_s:
            ctx.violation('c06-descent', f'completion {irow_s} differs from the arg-max descent completion {mrow_s} for evidence {row} (smallest arg-max margin {margin})',
                          replay=dict(rep, rows=[np.where(np.isnan(X[r]), None, X[r]).tolist()]))
            return


def clt_case(ctx, rs, scope, pred, tag):
    clt = C.make_clt(rs, scope, pred)
    n = len(scope)
    ncols = max(scope) + 1
    pats = list(itertools.product([0, 1, None], repeat=n)) if n <= 4 else [tuple(rs.choice([0, 1, None]) for _ in range(n)) for _ in range(40)]
    X = np.full((len(pats), n), np.nan, dtype=np.float32)
    for r, p in enumerate(pats):
        for j, val in enumerate(p):
            if val is not None:
                X[r, j] = val
    rep = dict(kind='c06-clt', scope=[int(v) for v in scope], pred=list(pred), params=np.asarray(clt.params, dtype=np.float64).tolist(),
               rows=np.where(np.isnan(X), None, X).tolist())
    ctx.case(tag, nontrivial_key=('clt', tuple(pred), tuple(scope)) if n >= 2 else None, sample=dict(scope=list(map(int, scope)), pred=list(pred)))
    ctx.count('clt-trees')
    X0 = X.copy()
    try:
        Y = clt.mpe(X)
    except Exception as ex:
        ctx.violation('c06-clt-mpe-raises', f'BinaryCLT.mpe raised {type(ex).__name__}: {ex}', replay=rep)
        return
    if not np.array_equal(np.nan_to_num(X, nan=-9.5), np.nan_to_num(X0, nan=-9.5)):
        ctx.violation('c06-caller-array-modified', 'BinaryCLT.mpe modified the caller array', replay=rep)
        return
    obs = ~np.isnan(X)
    if not np.array_equal(X[obs], Y[obs]) or np.any(np.isnan(Y)) or not np.all(np.isin(Y, [0.0, 1.0])):
        ctx.violation('c06-clt-contract', 'BinaryCLT.mpe changed an observed entry or left / wrote a non-binary value', replay=rep)
        return
    # the same tree used as a LEAF of a circuit (top-down pass of the circuit algorithms): the columns of its scope, in the order
    # the scope lists them, must receive the tree's own completion
    from deeprob.spn.structure.node import Product as _Product, assign_ids as _assign_ids
    from deeprob.spn.algorithms.inference import mpe as _circuit_mpe
    import copy as _copy
    wrap = _assign_ids(_Product(children=[_copy.deepcopy(clt), Bernoulli(ncols, 0.3)]))
    XF = np.full((len(X), ncols + 1), np.nan, dtype=np.float32)
    XF[:, [int(v) for v in scope]] = X
    try:
        ZF = np.asarray(_circuit_mpe(wrap, XF))
    except Exception as ex:
        ctx.violation('c06-clt-leaf-raises', f'mpe of a circuit with this Chow-Liu leaf raised {type(ex).__name__}: {ex}', replay=rep)
        return
    ctx.count('clt-as-circuit-leaf-rows', len(X))
    Z = ZF[:, [int(v) for v in scope]]
    if not np.array_equal(Z, Y):
        r = int(np.argmax(np.any(Z != Y, axis=1)))
        ctx.violation('c06-clt-leaf-columns', f'circuit-level mpe with the Chow-Liu tree over scope {list(map(int, scope))} as a leaf completes evidence '
                                              f'{X[r].tolist()} (scope order) to {Z[r].tolist()}, the tree itself to {Y[r].tolist()}', replay=dict(rep, as_leaf=True))
        return
    # exactness: the completion attains the maximum joint probability among all completions (implementation's own likelihood)
    ll_y = np.asarray(clt.log_likelihood(Y)).reshape(-1)
    for r in range(len(X)):
        miss = [j for j in range(n) if np.isnan(X[r, j])]
        if len(miss) > 10:
            continue
        comps = np.repeat(X[r][None, :], 2 ** len(miss), axis=0)
        for c, bits in enumerate(itertools.product([0, 1], repeat=len(miss))):
            for j, b in zip(miss, bits):
                comps[c, j] = b
        best = float(np.max(np.asarray(clt.log_likelihood(comps)).reshape(-1)))
        ctx.count('clt-rows-brute-forced')
        if float(ll_y[r]) < best - (1e-4 + 1e-5 * abs(best)):
            ctx.violation('c06-clt-not-max', f'CLT completion has log-probability {float(ll_y[r])} but a completion with {best} exists (evidence {X[r].tolist()})',
                          replay=dict(rep, rows=[np.where(np.isnan(X[r]), None, X[r]).tolist()]))
            return
    if not ctx.driver_ok:
        return
    drv = ctx.get_driver()
    pay = C.clt_payload(clt)
    for r in range(0, len(X), max(1, len(X) // 30)):
        row = [None] * ncols
        for j, v in enumerate(scope):
            if not np.isnan(X[r, j]):
                row[v] = int(X[r, j])
        vals, best, mx = drv.ask(dict(op='clt_mpe', row=row, **pay)).split(' | ')
        if parse_q(best) != parse_q(mx):
            raise Infra('model: decoded value differs from the max-product value (theorem decode_attains_max contradicted)')
        crow = list(row)
        for j, v in enumerate(scope):
            crow[v] = int(Y[r, j])
        vi = parse_q(drv.ask(dict(op='clt_value', row=crow, **pay)))
        m = parse_q(mx)
        ctx.count('clt-rows-vs-model')
        if float(vi) < float(m) * (1 - 1e-4) - 1e-12:
            ctx.violation('c06-clt-not-max-model', f'CLT completion {crow} has exact probability {float(vi)} but the maximum over completions is {float(m)}',
                          replay=dict(rep, rows=[np.where(np.isnan(X[r]), None, X[r]).tolist()]))
            return


def layout_case(ctx, k):
    """the caller's evidence array in another MEMORY LAYOUT than a fresh C-contiguous one — Fortran order (`data.T`, what a
    DataFrame hands over), a strided view of a larger array, a column block: the completion is the same, with `inplace=False` in
    the returned array and with `inplace=True` in the caller's array itself"""
    rs = np.random.RandomState(np_seed(ctx.sub_rng('layout', k)))
    nv = int(rs.randint(2, 5))
    root = S.rand_spn(rs, list(range(nv)), depth=int(rs.randint(1, 4)), kinds=('bern', 'cat', 'gauss'), share=0.3, clt=(k % 3 == 0))
    if not getattr(root, 'children', None):
        return
    assign_ids(root)
    order = S.export_net(root)[1]
    dom = S.domain_of(order)
    n = 9
    X = np.zeros((n, nv), dtype=np.float64)
    for v in range(nv):
        X[:, v] = rs.randint(max(dom[v], 1), size=n) if dom[v] > 0 else rs.randn(n)
    X[rs.rand(n, nv) < 0.5] = np.nan
    ref = np.asarray(mpe(root, np.ascontiguousarray(X.copy())))
    ctx.count('memory-layout-cases')
    ctx.case('layout', nontrivial_key=('layout', k), sample=dict(nodes=len(order)))
    rep = dict(kind='c06-layout', k=k, seed=ctx.seed)

    def layouts():
        yield 'Fortran order', np.asfortranarray(X.copy())
        big = np.full((2 * n, nv + 3), 7.5)
        big[::2, :nv] = X
        yield 'strided view big[::2, :d]', big[::2, :nv]
        wide = np.full((n, nv + 2), 7.5)
        wide[:, :nv] = X
        yield 'column block wide[:, :d]', wide[:, :nv]
        yield 'transposed storage', np.ascontiguousarray(X.T.copy()).T
    for name, A in layouts():
        for inplace in (False, True):
            B = A if inplace else A.copy(order='K')
            try:
                Y = mpe(root, B, inplace=inplace)
            except Exception as ex:
                ctx.violation(f'c06-layout-raises:{type(ex).__name__}', f'mpe(inplace={inplace}) raised {type(ex).__name__}: {str(ex)[:160]} on evidence in {name}', replay=rep)
                return
            got = np.asarray(B if inplace else Y)
            same = np.array_equal(np.nan_to_num(got, nan=-9.25), np.nan_to_num(ref, nan=-9.25))
            if not same or np.any(np.isnan(got)):
                r = int(np.argmax(np.any(np.nan_to_num(got, nan=-9.25) != np.nan_to_num(ref, nan=-9.25), axis=1)))
                ctx.violation('c06-memory-layout', f'mpe(inplace={inplace}) on evidence stored in {name}: row {X[r].tolist()} is completed as {got[r].tolist()}, '
                              f'the same evidence in a C-contiguous array as {ref[r].tolist()}', replay=rep)
                return


def zero_weight_case(ctx, k, report=None):
    """a mixture with a component of weight EXACTLY zero and evidence that this dead component explains far better than every live
    one (a Gaussian observation ~15 sigma from the live means, or ~110 observed near-deterministic binary variables): the dead
    component has probability 0 given any evidence; the completion is the one of the best LIVE component"""
    rs = np.random.RandomState(np_seed(ctx.sub_rng('zero-weight', k)))
    if k % 2 == 0:
        live = [Product(children=[Gaussian(0, float(rs.uniform(-0.5, 0.5)), 1.0), Bernoulli(1, float(rs.uniform(0.05, 0.3)))]) for _ in range(2)]
        dead = Product(children=[Gaussian(0, 15.0, 1.0), Bernoulli(1, 0.95)])
        ev, target, want = [15.0, None], 1, 0.0
    else:
        nb = 111
        live = [Product(children=[Bernoulli(v, float(rs.uniform(0.3, 0.4))) for v in range(nb - 1)] + [Bernoulli(nb - 1, float(rs.uniform(0.05, 0.3)))]) for _ in range(2)]
        dead = Product(children=[Bernoulli(v, 1.0) for v in range(nb - 1)] + [Bernoulli(nb - 1, 0.95)])
        ev, target, want = [1.0] * (nb - 1) + [None], nb - 1, 0.0
    pos = int(rs.randint(0, 3))
    ch = live[:pos] + [dead] + live[pos:]
    wl = rs.dirichlet(np.ones(2)) * 0.8 + 0.1
    w = list(wl[:pos]) + [0.0] + list(wl[pos:])
    root = assign_ids(Sum(children=ch, weights=np.array(w, dtype=np.float32)))
    X = np.array([[np.nan if t is None else t for t in ev]] * 3, dtype=np.float32)
    ctx.count('zero-weight-mixtures')
    ctx.case('zero-weight', nontrivial_key=('zero-weight', k), sample=dict(kind='gaussian' if k % 2 == 0 else 'binary', dead_child_position=pos))
    rep = dict(kind='c06-zero-weight', k=k, seed=ctx.seed)
    for nj in (0, 2):
        try:
            Y = np.asarray(mpe(root, X.copy(), n_jobs=nj))
        except Exception as ex:
            ctx.violation(f'c06-raises:{type(ex).__name__}', f'mpe raised {type(ex).__name__}: {str(ex)[:160]} on a mixture with a zero-weight component', replay=rep)
            return
        if not np.all(Y[:, target] == want) or np.any(np.isnan(Y)):
            ctx.violation('c06-zero-weight', f'mixture with a component of weight exactly 0 that explains the evidence best: mpe(n_jobs={nj}) completes x{target} with '
                          f'{Y[:, target].tolist()} — the completion of the dead component (probability 0 given any evidence); every live component completes it with {want}',
                          replay=rep)
            return


def run(ctx):
    quick = ctx.tier == 'quick'
    for k in range(80 if quick else 2000):
        circuit_case(ctx, k, True)
        if ctx.n_new(with_input_only=True) >= 3:
            return
    for k in range(50 if quick else 1000):
        circuit_case(ctx, k, False)
        if ctx.n_new(with_input_only=True) >= 3:
            return
    for k in range(6 if quick else 60):
        layout_case(ctx, k)
        if ctx.n_new(with_input_only=True) >= 3:
            return
    for k in range(4 if quick else 40):
        zero_weight_case(ctx, k)
        if ctx.n_new(with_input_only=True) >= 3:
            return
    kk = 0
    for n in range(1, (4 if quick else 5) + 1):
        for pred in C.all_pred_vectors(n):
            rs = np.random.RandomState(np_seed(ctx.sub_rng('clt', n, kk)))
            kk += 1
            if quick and n == 4 and kk % 2:
                continue
            ncols = n + int(rs.randint(0, 3))
            scope = [int(v) for v in rs.choice(ncols, n, replace=False)]
            clt_case(ctx, rs, scope, pred, f'clt{n}')
            if ctx.n_new(with_input_only=True) >= 3:
                return
    for j in range(15 if quick else 300):
        rs = np.random.RandomState(np_seed(ctx.sub_rng('cltrand', j)))
        n = int(rs.randint(5, 10))
        clt0 = S.rand_clt(rs, list(range(n)))
        scope = [int(v) for v in rs.choice(n + 3, n, replace=False)]
        clt_case(ctx, rs, scope, [int(t) for t in clt0.tree], 'cltrand')
        if ctx.n_new(with_input_only=True) >= 3:
            return


_run_core = run


def run(ctx):
    _run_core(ctx)
    if ctx.n_new() == 0 and ctx.driver_ok:
        from harness.common import run_demo
        if ctx.n_new() == 0:
            run_demo(ctx, 'demo_tr4.py', [1 + ctx.seed], 'c06-code-vs-generated-vs-model-4',
                     'BinaryCLT log_likelihood / mpe / message_passing / bfs order vs generated definitions vs model', env_extra=dict(DEMO_SECTIONS='b'))
        if ctx.n_new() == 0:
            run_demo(ctx, 'demo_tr5clt.py', [1 + ctx.seed], 'c06-clt-loops-generated',
                     'BinaryCLT.message_passing / mpe: implementation = the LOOPS generated from the source = fourth-wave definitions = model',
                     env_extra=dict(TR5_MAXN='4' if ctx.tier == 'quick' else '5'))
        if ctx.n_new() == 0:
            run_demo(ctx, 'demo_leaves.py', [20260929 + ctx.seed], 'c06-leaf-families-vs-model',
                     'leaf modes (Bernoulli / Categorical / Uniform / Isotonic / Gaussian: the filled value maximises the density) against the exact leaf theory')


def replay(rep):
    if rep['replay'].get('kind') == 'demo':
        from harness.common import replay_demo
        return replay_demo(rep['replay'])
    r = rep['replay']
    if r['kind'] == 'c06-layout':
        from harness.common import Ctx
        c2 = Ctx('C06', 'quick', r['seed'])
        c2.driver_ok = False
        layout_case(c2, r['k'])
        for v in c2.violations:
            print('  ', v['what'][:300])
        return not c2.violations
    if r['kind'] == 'c06-zero-weight':
        from harness.common import Ctx
        c2 = Ctx('C06', 'quick', r['seed'])
        c2.driver_ok = False
        zero_weight_case(c2, r['k'])
        for v in c2.violations:
            print('  ', v['what'][:300])
        return not c2.violations
    if r['kind'] == 'c06-clt':
        clt = BinaryCLT(r['scope'], root=r['scope'][r['pred'].index(-1)], tree=r['pred'], params=np.array(r['params'], dtype=np.float32))
        X = np.array([[np.nan if t is None else t for t in row] for row in r['rows']], dtype=np.float32)
        Y = clt.mpe(X)
        ok = True
        for i in range(len(X)):
            miss = [j for j in range(X.shape[1]) if np.isnan(X[i, j])]
            comps = np.repeat(X[i][None, :], 2 ** len(miss), axis=0)
            for c, bits in enumerate(itertools.product([0, 1], repeat=len(miss))):
                for j, b in zip(miss, bits):
                    comps[c, j] = b
            best = float(np.max(clt.log_likelihood(comps)))
            got = float(clt.log_likelihood(Y[i:i + 1])[0, 0])
            print('evidence', r['rows'][i], 'completion', Y[i].tolist(), 'll', got, 'best', best)
            ok = ok and got >= best - 1e-4
        return ok
    if r.get('dtype') == 'float64':
        return replay_float64(r, mpe)
    root, order = build_from_table(r['table'])
    if r.get('history'):
        root, _ = build_from_table(r['history']['table0'])
        root = Hist.replay_history(root, r['history']['steps'])
        assign_ids(root)
        order = S.export_net(root)[1]
    X = np.array([[np.nan if t is None else t for t in row] for row in r['rows']], dtype=np.float32)
    Y = mpe(root, X)
    msg = basic_contract(X, Y, list(root.scope), order)
    print('contract:', msg, 'completion', Y.tolist())
    ok = msg is None
    # the descent oracle (independent of the top-down pass) on the replayed rows
    _, lls_all = log_likelihood(root, X, return_results=True)
    for i in range(len(X)):
        want, margin = descent_oracle(root, X[i], lls_all[:, i])
        if margin > 1e-3:
            for v, val in want.items():
                if abs(float(Y[i, v]) - val) > 1e-6 * (1 + abs(val)):
                    print(f'row {r["rows"][i]}: variable {v} completed with {float(Y[i, v])}, the descent gives {val}')
                    ok = False
    return ok
