"""C12 — Chow-Liu tree -> circuit conversion is exact, smooth, decomposable, structured-decomposable, deterministic."""
import itertools, math, json
import numpy as np
from harness.common import parse_q, close_log, qlog, Infra, np_seed, fstr, frac
from harness import spn as S
from harness import clt as C
from harness.build import table_with_py

from deeprob.spn.structure.cltree import BinaryCLT
from deeprob.spn.structure.node import Sum, Product
from deeprob.spn.utils.validity import check_spn
from deeprob.spn.algorithms.inference import log_likelihood, likelihood


def laminar(scopes):
    ss = [set(s) for s in scopes]
    for a in ss:
        for b in ss:
            i = len(a & b)
            if i != 0 and i != min(len(a), len(b)):
                return False
    return True


def deterministic_on(pc, X):
    """on complete rows at most one child of every sum node has non-zero likelihood"""
    _, ls = likelihood(pc, X, return_results=True)
    for n in S.bfs_order(pc):
        if isinstance(n, Sum):
            nz = np.stack([ls[c.id] > 0 for c in n.children], axis=1).sum(axis=1)
            if np.any(nz > 1):
                return False
    return True


def history_ok(ctx, rs, clt, scope, X, rep):
    from deeprob.spn.algorithms.structure import marginalize
    n = len(scope)
    which = int(rs.randint(4))
    P0 = np.array(clt.params, copy=True)
    try:
        pc1 = clt.to_pc()
        if which == 0:
            keep = [int(v) for v in rs.choice(scope, max(1, n // 2), replace=False)]
            marginalize(pc1, keep, copy=False)
            what = f'to_pc, marginalize(that circuit, {keep}, copy=False), to_pc'
        elif which == 1:
            clt.em_init(np.random.RandomState(int(rs.randint(10 ** 6))))
            what = 'to_pc, em_init, to_pc'
        elif which == 2:
            other = C.make_clt(rs, scope, [int(t) for t in clt.tree])
            clt.params = np.array(other.params, copy=True)
            what = 'to_pc, parameters re-assigned, to_pc'
        else:
            data = rs.randint(2, size=(20, n)).astype(np.float32)
            clt.em_step(rs.rand(20).astype(np.float32) + 0.1, data, 0.6)
            what = 'to_pc, em_step, to_pc'
        pc2 = clt.to_pc()
    except Exception as ex:
        ctx.count('history-did-not-run:' + type(ex).__name__)
        clt.params = P0
        return True
    ctx.count('histories:' + what.split(',')[1].strip().split('(')[0])
    rep2 = dict(rep, history=what, params_now=np.asarray(clt.params, dtype=np.float64).tolist())
    ok = True
    if sorted(int(v) for v in pc2.scope) != sorted(int(v) for v in scope):
        ctx.violation('c12-history-scope', f'after [{what}] the conversion has scope {sorted(pc2.scope)} instead of {sorted(scope)}', replay=rep2)
        ok = False
    else:
        try:
            a = np.asarray(log_likelihood(pc2, X)).reshape(-1)
            b = np.asarray(clt.log_likelihood(X[:, clt.scope])).reshape(-1)
            d = np.abs(a - b)
            if np.any(d > 5e-4 + 2e-5 * np.abs(b)):
                r = int(np.argmax(d))
                ctx.violation('c12-history-value', f'after [{what}] circuit value {float(a[r])!r} != tree value {float(b[r])!r} on query '
                                                   f'{[None if np.isnan(t) else float(t) for t in X[r]]}', replay=rep2)
                ok = False
        except Exception as ex:
            ctx.violation('c12-history-raises', f'after [{what}] evaluating the new conversion raised {type(ex).__name__}: {ex}', replay=rep2)
            ok = False
    return ok


def one_case(ctx, rs, scope, pred, tag):
    before = len(ctx.violations)
    ctx._c12_last = None
    _one_case_core(ctx, rs, scope, pred, tag)
    if len(ctx.violations) == before and ctx._c12_last is not None and len(scope) >= 2:
        clt, X, rep = ctx._c12_last
        history_ok(ctx, rs, clt, scope, X, rep)      # last: it changes the tree object


def _one_case_core(ctx, rs, scope, pred, tag):
    if tag.endswith('-fitted'):
        clt = C.make_fitted_clt(rs, scope, pred)         # tree given at construction, parameters learned by fit()
        ctx.count('trees-constructed-then-fitted')
    else:
        clt = C.make_clt(rs, scope, pred)
    n = len(scope)
    ncols = max(scope) + 1
    rep = dict(kind='c12', scope=[int(v) for v in scope], pred=list(pred), params=np.asarray(clt.params, dtype=np.float64).tolist())
    ctx.case(tag, nontrivial_key=(tuple(pred), tuple(scope)) if n >= 2 else None,
             sample=dict(scope=list(map(int, scope)), pred=list(pred)))
    ctx.count(f'vars={n}')
    try:
        pc = clt.to_pc()
    except Exception as ex:
        ctx.violation('c12-to_pc-raises', f'to_pc raised {type(ex).__name__}: {ex}', replay=rep)
        return
    # ---- validity verdicts of the implementation on its own result (smooth, decomposable, structured)
    try:
        check_spn(pc, labeled=True, smooth=True, decomposable=True, structured_decomposable=True)
    except ValueError as ex:
        ctx.violation('c12-invalid-result', f'to_pc result fails validation: {ex}', replay=rep)
        return
    prod_scopes = [list(x.scope) for x in S.bfs_order(pc) if isinstance(x, Product)]
    if not laminar(prod_scopes) or not laminar(clt.get_scopes() + prod_scopes):
        ctx.violation('c12-not-structured', 'product scopes of the conversion are not pairwise nested or disjoint', replay=rep)
        return
    # ---- values on every complete and marginal query: circuit vs tree (implementation on both sides: the property itself)
    pats = list(itertools.product([0, 1, None], repeat=n)) if n <= 5 else \
        [tuple(rs.choice([0, 1, None]) for _ in range(n)) for _ in range(200)]
    X = np.full((len(pats), ncols), np.nan, dtype=np.float32)
    for r, p in enumerate(pats):
        for v, val in zip(scope, p):
            if val is not None:
                X[r, v] = val
    ll_pc = np.asarray(log_likelihood(pc, X)).reshape(-1)
    ll_clt = np.asarray(clt.log_likelihood(X[:, clt.scope])).reshape(-1)
    ctx.count('queries', len(pats))
    d = np.abs(ll_pc - ll_clt)
    if np.any(d > 5e-4 + 2e-5 * np.abs(ll_clt)):
        r = int(np.argmax(d))
        rep2 = dict(rep, row=[None if np.isnan(t) else float(t) for t in X[r]])
        ctx.violation('c12-value', f'circuit value {float(ll_pc[r])!r} != tree value {float(ll_clt[r])!r} on query {rep2["row"]}', replay=rep2)
        return
    comp = X[~np.isnan(X[:, scope]).any(axis=1)]
    if len(comp) and not deterministic_on(pc, comp):
        ctx.violation('c12-not-deterministic', 'a sum node of the conversion has two non-zero children on a complete row', replay=rep)
        return
    # ---- histories on the same tree object: converted before, then changed (its circuit marginalised in place, parameters
    # re-initialised / re-assigned / updated by an EM step), then converted again: the new circuit must be the tree as it is NOW
    ctx._c12_last = (clt, X, rep)
    # ---- model: canonical structure (exact) and values
    if not ctx.driver_ok:
        return
    drv = ctx.get_driver()
    pay = C.clt_payload(clt, float32_factors=True)
    t_model = drv.ask(dict(op='clt_pc', **pay))
    t_impl = C.circ_text(pc)
    if t_model != t_impl:
        ctx.violation('c12-structure-vs-model', f'to_pc structure differs from the model\n impl : {t_impl[:300]}\n model: {t_model[:300]}',
                      replay=rep, found_input=False)
        return
    sc_model = drv.ask(dict(op='clt_scopes', **pay))
    sc_impl = str([[int(v) for v in s] for s in clt.get_scopes()])
    if sc_model != sc_impl:
        ctx.violation('c12-scopes-vs-model', f'get_scopes {sc_impl} differs from the model {sc_model}', replay=rep, found_input=False)
        return
    # the loops EXTRACTED from the current source (Gen.S5toPcStep / Gen.S5getScopesStep, tools/listprog.py) run by the driver:
    # implementation = generated = model (Oblig/Struct5ToPc.lean and Props/E2EToPc.lean are statements about these definitions)
    t_gen = drv.ask(dict(op='s5_topc', **pay))
    ctx.count('generated_loop_runs')
    if t_gen != t_impl:
        ctx.violation('c12-structure-vs-generated', f'to_pc structure differs from the loop extracted from the source\n impl     : {t_impl[:300]}\n generated: {t_gen[:300]}',
                      replay=rep, found_input=False)
        return
    sc_gen = drv.ask(dict(op='s5_scopes', **pay))
    if sc_gen != sc_impl:
        ctx.violation('c12-scopes-vs-generated', f'get_scopes {sc_impl} differs from the loop extracted from the source {sc_gen}', replay=rep, found_input=False)
        return
    # model value of the tree on a sample of queries vs implementation (ties C12 to the exact semantics)
    pay64 = C.clt_payload(clt)
    for r in range(0, len(pats), max(1, len(pats) // 40)):
        row = [None] * ncols
        for v, val in zip(scope, pats[r]):
            row[v] = val
        m = parse_q(drv.ask(dict(op='clt_value', row=row, **pay64)))
        if not close_log(ll_pc[r], m):
            rep2 = dict(rep, row=row)
            ctx.violation('c12-value-vs-model', f'circuit value {float(ll_pc[r])!r} vs exact tree semantics {qlog(m)!r} on {row}', replay=rep2)
            return


def deterministic_cpt_case(ctx, k):
    """trees whose tables contain probabilities of exactly 0 and 1 (a variable that copies or negates its parent: log-parameters of
    -inf, as fitted with alpha = 0 on duplicated columns): tree and circuit against the joint table built from the tables, on every
    complete and marginal query — a query of probability zero is answered with log 0 (floored or not), never with NaN, and a
    query of positive probability with its logarithm"""
    rs = np.random.RandomState(np_seed(ctx.sub_rng('det', k)))
    preds_small = [p for n_ in range(2, 5) for p in C.all_pred_vectors(n_)]
    pred = list(preds_small[int(rs.randint(len(preds_small)))])
    scope = [int(v) for v in rs.choice(len(pred) + 2, len(pred), replace=False)]
    n = len(scope)
    clt = C.make_clt(rs, scope, pred)
    P = np.exp(np.asarray(clt.params, dtype=np.float64))
    root = pred.index(-1)
    det = [j for j in range(n) if j != root and rs.rand() < 0.6] or [j for j in range(n) if j != root][:1]
    for j in det:
        P[j] = np.array([[1.0, 0.0], [0.0, 1.0]]) if rs.rand() < 0.5 else np.array([[0.0, 1.0], [1.0, 0.0]])
    with np.errstate(divide='ignore'):
        clt.params = np.log(P).astype(np.float32)
    ncols = max(scope) + 1
    rep = dict(kind='c12-det', k=k, seed=ctx.seed, scope=[int(v) for v in scope], pred=list(pred))
    ctx.count('trees-with-deterministic-tables')
    ctx.case('deterministic-cpt', nontrivial_key=('det', k), sample=dict(scope=list(map(int, scope)), pred=list(pred), deterministic=det))
    joint = {}
    for bits in itertools.product([0, 1], repeat=n):
        pr = 1.0
        for i in range(n):
            pr *= P[i, 0, bits[i]] if pred[i] < 0 else P[i, bits[pred[i]], bits[i]]
        joint[bits] = pr
    pats = list(itertools.product([0, 1, None], repeat=n))
    X = np.full((len(pats), ncols), np.nan, dtype=np.float32)
    ref = np.zeros(len(pats))
    for r, pt in enumerate(pats):
        for v, val in zip(scope, pt):
            if val is not None:
                X[r, v] = val
        ref[r] = sum(q for b, q in joint.items() if all(pt[i] is None or pt[i] == b[i] for i in range(n)))
    try:
        pc = clt.to_pc()
        ll_pc = np.asarray(log_likelihood(pc, X), dtype=np.float64).reshape(-1)
        ll_clt = np.asarray(clt.log_likelihood(X[:, clt.scope]), dtype=np.float64).reshape(-1)
    except Exception as ex:
        ctx.violation(f'c12-det-raises:{type(ex).__name__}', f'conversion / evaluation raised {type(ex).__name__}: {str(ex)[:160]} on a tree with deterministic tables', replay=rep)
        return
    for r in range(len(pats)):
        for what, v in (('tree', ll_clt[r]), ('circuit', ll_pc[r])):
            okv = (v <= -1e30) if ref[r] <= 0 else (not np.isnan(v) and abs(v - math.log(ref[r])) <= 5e-4 + 2e-5 * abs(math.log(ref[r])))
            if np.isnan(v) or not okv:
                ctx.violation('c12-det-value', f'tree with deterministic tables (variables {det} copy / negate their parent): the {what} answers {float(v)!r} on query '
                              f'{list(pats[r])}, whose probability by the joint table is {ref[r]!r}', replay=rep)
                return


def run(ctx):
    quick = ctx.tier == 'quick'
    nmax_exh = 4 if quick else 6
    k = 0
    for n in range(1, nmax_exh + 1):
        for pred in C.all_pred_vectors(n):
            rs = np.random.RandomState(np_seed(ctx.sub_rng('exh', n, k)))
            k += 1
            ncols = n + int(rs.randint(0, 4))
            scope = [int(v) for v in rs.choice(ncols, n, replace=False)]     # permuted, non-contiguous labels
            one_case(ctx, rs, scope, pred, f'exh{n}' + ('-fitted' if (k % 4 == 1 and n >= 2) else ''))
            if ctx.n_new(with_input_only=True) >= 3:
                return
    ctx.extra['exhaustive_tree_shapes_up_to'] = nmax_exh
    for j in range(20 if quick else 300):
        deterministic_cpt_case(ctx, j)
        if ctx.n_new(with_input_only=True) >= 3:
            return
    for j in range(40 if quick else 600):
        rs = np.random.RandomState(np_seed(ctx.sub_rng('rand', j)))
        n = int(rs.randint(5, 9 if quick else 11))
        clt0 = S.rand_clt(rs, list(range(n)))
        ncols = n + int(rs.randint(0, 5))
        scope = [int(v) for v in rs.choice(ncols, n, replace=False)]
        one_case(ctx, rs, scope, [int(t) for t in clt0.tree], 'rand')
        if ctx.n_new(with_input_only=True) >= 3:
            return


_run_core = run


def run(ctx):
    _run_core(ctx)
    if ctx.n_new() == 0 and ctx.driver_ok:
        from harness.common import run_demo
        if ctx.n_new() == 0:
            run_demo(ctx, 'demo_graphio.py', [1 + ctx.seed], 'c12-bfs-order-vs-model',
                     'compute_bfs_ordering / message passing of explicitly given trees against the model')
        if ctx.n_new() == 0:
            run_demo(ctx, 'demo_tr4.py', [1 + ctx.seed], 'c12-code-vs-generated-vs-model-4',
                     'BinaryCLT log_likelihood / mpe / message_passing / bfs order vs generated definitions vs model', env_extra=dict(DEMO_SECTIONS='b'))


def replay(rep):
    if rep['replay'].get('kind') == 'demo':
        from harness.common import replay_demo
        return replay_demo(rep['replay'])
    r = rep['replay']
    if r.get('kind') == 'c12-det':
        from harness.common import Ctx
        c2 = Ctx('C12', 'quick', r['seed'])
        c2.driver_ok = False
        deterministic_cpt_case(c2, r['k'])
        for v in c2.violations:
            print('  ', v['what'][:300])
        return not c2.violations
    clt = BinaryCLT(r['scope'], root=r['scope'][r['pred'].index(-1)], tree=r['pred'], params=np.array(r['params'], dtype=np.float32))
    try:
        pc = clt.to_pc()
        check_spn(pc, labeled=True, smooth=True, decomposable=True, structured_decomposable=True)
    except Exception as ex:
        print('to_pc / validation:', type(ex).__name__, ex)
        return False
    if 'row' in r:
        x = np.array([[np.nan if t is None else t for t in r['row']]], dtype=np.float32)
        a = float(np.asarray(log_likelihood(pc, x)).reshape(-1)[0])
        b = float(np.asarray(clt.log_likelihood(x[:, clt.scope])).reshape(-1)[0])
        print('circuit', a, 'tree', b)
        return abs(a - b) <= 5e-4 + 2e-5 * abs(b)
    return True
