"""C04 — every structure learner returns a valid, normalised circuit over all features (laminar product scopes with sd)."""
import json, hashlib, itertools, math, random
import numpy as np
from harness.common import np_seed, Infra, parse_q, fstr, frac
from harness import spn as S
from harness.build import table_with_py
from harness.c03 import spec_verdict
from harness.demos import demo_learn as L
from harness.demos import demo_xpc as XD

import deeprob.spn.learning.learnspn as LS
from deeprob.spn.structure.node import Sum, Product, assign_ids
from deeprob.spn.structure.leaf import Bernoulli, Categorical, Gaussian, Uniform, Isotonic
from deeprob.spn.structure.cltree import BinaryCLT
from deeprob.spn.learning.learnspn import learn_spn
from deeprob.spn.learning.wrappers import learn_estimator, learn_classifier
from deeprob.spn.learning.xpc import learn_xpc, learn_expc
from deeprob.spn.algorithms.inference import log_likelihood
from deeprob.spn.utils.validity import check_spn

ROWS = ['kmeans', 'kmeans_mb', 'gmm', 'rdc', 'random', 'wald', 'dbscan']
COLS = ['rdc', 'gvs', 'rgvs', 'wrgvs', 'ebvs', 'ebvs_ae', 'gbvs', 'gbvs_ag', 'random']


def laminar(scopes):
    ss = [set(s) for s in scopes]
    for a, b in itertools.combinations(ss, 2):
        i = len(a & b)
        if i != 0 and i != min(len(a), len(b)):
            return (sorted(a), sorted(b))
    return None


def validate(ctx, root, n_cols, rep, what, sd=False, discrete=True):
    """the property on the returned object; returns False after recording a violation"""
    order = S.bfs_order(root)
    if sorted(int(v) for v in root.scope) != list(range(n_cols)):
        ctx.violation('c04-root-scope', f'{what}: root scope {sorted(root.scope)} is not the set of the {n_cols} training columns', replay=rep)
        return False
    if getattr(root, 'children', None):
        sv = spec_verdict(root)
        if sv != 'accept':
            ctx.violation('c04-invalid', f'{what}: returned circuit is {sv}', replay=rep)
            return False
        try:
            check_spn(root, labeled=True, smooth=True, decomposable=True)
        except ValueError as ex:
            ctx.violation('c04-invalid', f'{what}: returned circuit fails validation: {ex}', replay=rep)
            return False
    for n in order:
        if isinstance(n, Sum):
            w = np.asarray(n.weights, dtype=np.float64)
            if np.any(w <= 0) or abs(w.sum() - 1.0) > 1e-5:
                ctx.violation('c04-weights', f'{what}: sum node #{n.id} has weights {w.tolist()} (not positive / not summing to one)', replay=rep)
                return False
        elif isinstance(n, Bernoulli):
            if not (0.0 <= float(n.p) <= 1.0):
                ctx.violation('c04-leaf', f'{what}: Bernoulli p={n.p}', replay=rep)
                return False
        elif isinstance(n, Categorical):
            p = np.asarray(n.probabilities, dtype=np.float64)
            if np.any(p < 0) or abs(p.sum() - 1) > 1e-5:
                ctx.violation('c04-leaf', f'{what}: Categorical probabilities {p.tolist()}', replay=rep)
                return False
        elif isinstance(n, BinaryCLT):
            t = np.exp(np.asarray(n.params, dtype=np.float64))
            if np.any(np.abs(t.sum(axis=2) - 1) > 1e-5):
                ctx.violation('c04-leaf', f'{what}: CLT leaf rows sum to {t.sum(axis=2).tolist()}', replay=rep)
                return False
        elif isinstance(n, Gaussian):
            if not (float(n.stddev) > 0 and math.isfinite(float(n.mean))):
                ctx.violation('c04-leaf', f'{what}: Gaussian mean={n.mean} stddev={n.stddev}', replay=rep)
                return False
        elif isinstance(n, Uniform):
            if not (float(n.width) > 0):
                ctx.violation('c04-leaf:uniform-width-0', f'{what}: Uniform leaf has width {n.width} (density undefined)', replay=rep)
                return False
        elif isinstance(n, Isotonic):
            d = np.asarray(n.densities, dtype=np.float64)
            b = np.asarray(n.breaks, dtype=np.float64)
            if np.any(d < 0) or np.any(np.diff(b) <= 0) or not np.all(np.isfinite(d)):
                ctx.violation('c04-leaf', f'{what}: Isotonic densities {d.tolist()} breaks {b.tolist()}', replay=rep)
                return False
    # normalised: fully missing row has log-likelihood 0; exact total mass through the model; exhaustive sum on small binary domains
    if not getattr(root, 'children', None):
        root.id = 0
    z = float(np.asarray(log_likelihood(root, np.full((1, n_cols), np.nan, dtype=np.float32))).reshape(-1)[0])
    if abs(z) > 1e-4:
        ctx.violation('c04-mass', f'{what}: fully missing row has log-likelihood {z}', replay=rep)
        return False
    if discrete and n_cols <= 10 and all(isinstance(n, (Sum, Product, Bernoulli, BinaryCLT)) for n in order):
        rows = np.array(list(itertools.product([0, 1], repeat=n_cols)), dtype=np.float32)
        tot = float(np.sum(np.exp(np.asarray(log_likelihood(root, rows), dtype=np.float64))))
        ctx.count('exhaustive-mass-checks')
        if abs(tot - 1.0) > 1e-4:
            ctx.violation('c04-mass', f'{what}: likelihoods over all binary rows sum to {tot}', replay=rep)
            return False
    if ctx.driver_ok and getattr(root, 'children', None) and len(order) <= 600:
        table, ordr, index, _ = S.export_net(root)
        dom = S.domain_of(ordr)
        drv = ctx.get_driver()
        ans = drv.ask(dict(op='net', nodes=table, root=index[id(root)], dom=dom))
        if drv.ask(dict(op='check')) != 'accept':
            ctx.violation('c04-model-rejects', f'{what}: the model validator rejects the returned circuit', replay=rep, found_input=False)
            return False
        m = [parse_q(t) for t in drv.ask(dict(op='eval', row=[None] * len(dom), dens={})).split()][index[id(root)]]
        ctx.count('exact-mass-through-model')
        if abs(float(m) - 1.0) > 1e-5:
            ctx.violation('c04-mass-model', f'{what}: exact total mass of the returned circuit is {float(m)}', replay=rep)
            return False
    if sd:
        scopes = [list(n.scope) for n in order if isinstance(n, Product)]
        for n in order:
            if isinstance(n, BinaryCLT):
                scopes += [list(s) for s in n.get_scopes()]
        bad = laminar(scopes)
        if bad:
            ctx.violation('c04-not-structured', f'{what}: product scopes {bad[0]} and {bad[1]} are neither nested nor disjoint', replay=rep)
            return False
        ctx.count('structured-decomposability-checks')
    return True


def binary_data(rs, nr, nv, fam):
    z = rs.randint(0, 2, size=(nr, 2))
    X = np.stack([np.where(rs.rand(nr) < 0.2, 1 - z[:, j % 2], z[:, j % 2]) for j in range(nv)], axis=1)
    if fam == 'constant' and nv >= 2:
        X[:, rs.randint(nv)] = rs.randint(2)
    if fam == 'duplicated' and nv >= 2:
        X[:, nv - 1] = X[:, 0]
    if fam == 'near-constant' and nv >= 2:
        X[:, 1] = 0
        X[0, 1] = 1
    return X.astype(np.float32)


_CTX = [None]


def _hang(name, a, k):
    ctx = _CTX[0]
    if ctx is None:
        return
    data = a[0] if a and hasattr(a[0], 'shape') else None
    cfg = {kk: (vv if isinstance(vv, (int, float, str, bool, type(None))) else getattr(vv, '__name__', str(type(vv)))) for kk, vv in k.items()}
    ctx.count('learner-calls-that-did-not-return-in-time')
    # C04 speaks about learners that return; a learner that does not halt contradicts the proved termination of the queue machine
    # (C05Term.learn_terminates): reported as a broken correspondence, the search for a returned invalid circuit goes on
    ctx.violation('c04-learner-does-not-halt', f'{name}({cfg}) did not return within the time limit on a {getattr(data, "shape", None)} data set, although the '
                                                f'Lean queue machine halts within B = 5*rows*cols - 3 iterations for every splitter behaviour (learn_terminates)',
                  replay=dict(kind='c04-hang', learner=name, cfg=cfg, data=(data.tolist() if data is not None and data.size <= 4000 else None)), found_input=False)


def run(ctx):
    _CTX[0] = ctx
    g = globals()
    from harness.common import limited
    for nm in ('learn_spn', 'learn_estimator', 'learn_classifier', 'learn_expc'):
        if nm in g and not getattr(g[nm], '_limited', False):
            g[nm] = limited(g[nm], 40 if ctx.tier == 'quick' else 120, _hang)
            g[nm]._limited = True
    if not getattr(LS.learn_spn, '_limited', False):
        LS.learn_spn = limited(LS.learn_spn, 40 if ctx.tier == 'quick' else 120, _hang)
        LS.learn_spn._limited = True
    if not getattr(XD.X.learn_xpc, '_limited', False):
        XD.X.learn_xpc = limited(XD.X.learn_xpc, 60 if ctx.tier == 'quick' else 180, _hang)
        XD.X.learn_xpc._limited = True

    quick = ctx.tier == 'quick'
    # (i) LearnSPN under scripted splitters (every oracle behaviour incl. degenerate ones): structure valid whatever the splitters answer
    scen = L.gen_scenarios(60 if quick else 600, ctx.seed * 31 + 5)
    front = L.is_front(LS)
    for sc in scen[:: (2 if quick else 1)]:
        data, s, min_rows, min_cols = L.build(sc)
        n_rows, n_cols = data.shape
        # one distinct leaf class and domain per column: every leaf must be fitted with the family / domain of its own columns
        classes = [type(f'RecLeaf{c}', (L.RecLeaf,), {}) for c in range(n_cols)]
        doms = [(c, c + 1) for c in range(n_cols)]
        wrong = []
        inner_leaf = s.learn_leaf

        def learn_leaf(d, dists, dms, scope, **kw):
            if list(dists) != [classes[v] for v in scope] or list(dms) != [doms[v] for v in scope]:
                wrong.append((list(scope), [getattr(x, '__name__', str(x)) for x in dists], list(dms)))
            return inner_leaf(d, dists, dms, scope, **kw)
        rep = dict(kind='c04-scripted', scenario=dict(sc, pat=[list(p) for p in sc['pat']] if 'pat' in sc else None))
        LS.np = L.NpProxy(s.log)
        try:
            try:
                root = LS.learn_spn(data, classes, doms, learn_leaf=learn_leaf, split_rows=s.split_rows,
                                    split_cols=s.split_cols, min_rows_slice=min_rows, min_cols_slice=min_cols, random_state=0, verbose=False)
            finally:
                LS.np = np
        except Exception as ex:
            # the splitters answer legitimately (one label per row / column): the queue machine returns on every such script
            # (learn_final_valid), so an exception here means the code no longer follows the machine
            ctx.count('scripted-learner-raised')
            ctx.violation('c04-scripted-learner-raises', f'learn_spn raised {type(ex).__name__}: {str(ex)[:160]} under scripted splitters although the '
                                                         f'queue machine returns a circuit for every such script', replay=rep, found_input=False)
            if ctx.n_new(with_input_only=True) >= 3:
                return
            continue
        ctx.case('scripted', nontrivial_key=hashlib.sha256(json.dumps(s.log).encode()).hexdigest()[:16], sample=dict(kind='scripted', rows=n_rows, cols=n_cols))
        ctx.count('scripted-learnspn')
        if wrong:
            ctx.violation('c04-leaf-family', f'scripted LearnSPN: a leaf over columns {wrong[0][0]} was fitted with distributions {wrong[0][1]} / domains {wrong[0][2]} '
                                             f'of other columns', replay=rep)
        elif sorted(int(v) for v in root.scope) != list(range(n_cols)):
            ctx.violation('c04-root-scope', f'scripted LearnSPN: root scope {sorted(root.scope)}', replay=rep)
        elif getattr(root, 'children', None) and spec_verdict(root) != 'accept':
            ctx.violation('c04-invalid', f'scripted LearnSPN: returned circuit is {spec_verdict(root)}', replay=rep)
        else:
            for n in S.bfs_order(root):
                if isinstance(n, Sum) and (np.any(np.asarray(n.weights) <= 0) or abs(float(np.sum(n.weights)) - 1) > 1e-5):
                    ctx.violation('c04-weights', f'scripted LearnSPN: weights {np.asarray(n.weights).tolist()}', replay=rep)
                    break
            else:
                if ctx.driver_ok:
                    try:
                        lean = ctx.get_driver().ask(dict(op='learn', n_rows=n_rows, n_cols=n_cols, min_rows_slice=min_rows, min_cols_slice=min_cols,
                                                         front=front, script=s.log))
                    except Infra as ex:
                        lean = 'script-mismatch: ' + str(ex)[:160]
                    txt = L.render_real(root)
                    if L.blur_unknown(lean, txt) != txt:
                        ctx.violation('c04-machine-disagrees', f'learn_spn result differs from the queue machine\n impl : {txt[:300]}\n model: {lean[:300]}',
                                      replay=rep, found_input=False)
        if ctx.n_new(with_input_only=True) >= 3:
            return
    # (ii) built-in row splitter x column splitter x leaf learner
    combos = [(r, c) for r in ROWS for c in COLS]
    rs0 = np.random.RandomState(np_seed(ctx.sub_rng('grid')))
    if quick:
        combos = [combos[i] for i in rs0.permutation(len(combos))[:16]]
    fams = ['plain', 'constant', 'duplicated', 'near-constant']
    for gi, (rsplit, csplit) in enumerate(combos):
        for leaf in (['mle', 'binary-clt'] if not quick else [['mle', 'binary-clt'][gi % 2]]):
            rs = np.random.RandomState(np_seed(ctx.sub_rng('grid', rsplit, csplit, leaf)))
            nv = int(rs.randint(2, 7)); nr = int(rs.choice([5, 30, 120, 300]))
            fam = fams[gi % 4]
            X = binary_data(rs, nr, nv, fam)
            kw = dict(learn_leaf=leaf, split_rows=rsplit, split_cols=csplit, min_rows_slice=int(rs.choice([8, 40])), min_cols_slice=2,
                      random_state=int(rs.randint(1000)), verbose=False)
            if leaf == 'binary-clt':
                kw['learn_leaf_kwargs'] = dict(to_pc=bool(rs.rand() < 0.5))
            rep = dict(kind='c04', learner='learn_estimator', data=X.astype(int).tolist(), kwargs={k: v for k, v in kw.items()})
            try:
                root = learn_estimator(X, [Bernoulli] * nv, [[0, 1]] * nv, **kw)
            except Exception as ex:
                ctx.count(f'learner-did-not-return')
                continue
            ctx.case(f'{rsplit}/{csplit}/{leaf}', nontrivial_key=(rsplit, csplit, leaf, fam, nr, nv), sample=dict(rows=rsplit, cols=csplit, leaf=leaf, data=fam, shape=[nr, nv]))
            ctx.count('grid:' + leaf)
            validate(ctx, root, nv, rep, f'learn_estimator({rsplit},{csplit},{leaf}) on {fam} data {nr}x{nv}')
            if ctx.n_new(with_input_only=True) >= 3:
                return
    # (ii-b) user-supplied splitters whose cluster labels are not 0..k-1 (any labelling is a legitimate clustering), real leaf learners
    for k in range(12 if quick else 120):
        rs = np.random.RandomState(np_seed(ctx.sub_rng('labels', k)))
        nv = int(rs.randint(2, 6)); nr = int(rs.choice([30, 80, 200]))
        X = binary_data(rs, nr, nv, fams[k % 4])
        label_sets = [[1], [1, 3], [-1, 2], [5, 0, 9], [2, 2, 7]][k % 5]

        def rows_fn(data, dists, doms, random_state, **kw):
            lab = np.array([label_sets[i % len(label_sets)] for i in range(len(data))])
            rs.shuffle(lab)
            return lab

        def cols_fn(data, dists, doms, random_state, **kw):
            m = data.shape[1]
            return np.array([label_sets[(i * 7) % len(label_sets)] for i in range(m)])
        rep = dict(kind='c04', learner='learn_spn-custom-labels', data=X.astype(int).tolist(), labels=label_sets)
        try:
            root = learn_spn(X, [Bernoulli] * nv, [[0, 1]] * nv, learn_leaf='mle', split_rows=rows_fn, split_cols=cols_fn, min_rows_slice=int(rs.choice([10, 25])),
                             min_cols_slice=2, random_state=int(rs.randint(1000)), verbose=False)
        except Exception as ex:
            ctx.violation('c04-custom-labels-raise', f'learn_spn raised {type(ex).__name__}: {str(ex)[:160]} with splitters that label clusters {label_sets} '
                                                     f'(any labelling is a legitimate clustering)', replay=rep, found_input=False)
            continue
        ctx.case('custom-labels', nontrivial_key=('labels', k), sample=dict(labels=label_sets, shape=[nr, nv]))
        ctx.count('custom-label-splitters')
        validate(ctx, root, nv, rep, f'learn_spn with cluster labels {label_sets}')
        if ctx.n_new(with_input_only=True) >= 3:
            return
    # (iii) continuous / categorical / mixed leaves incl. a constant column
    for k in range(24 if quick else 160):
        rs = np.random.RandomState(np_seed(ctx.sub_rng('cont', k)))
        nr, nv = int(rs.choice([20, 80, 200, 7, 33, 171])), 3
        dist = [Gaussian, Uniform, Isotonic, Categorical][k % 4]
        if dist is Categorical:
            X = rs.randint(0, 3, size=(nr, nv)).astype(np.float32)
            dom = [[0, 1, 2]] * nv
        else:
            X = (rs.randn(nr, nv) * 2).astype(np.float32)
            if (k // 4) % 2 == 0:
                # a sensor stuck at one reading: the reading itself is arbitrary (not a dyadic number), as is the number of rows
                X[:, 1] = [1.25, 0.1, 37.2, 0.7, 98.6, -273.15, 1013.25, 1e-3][(k // 8) % 8]
            if (k // 2) % 2 == 1:
                X = X.astype(np.float64)
            dom = [(float(X[:, j].min()), float(X[:, j].max())) for j in range(nv)]
        rep = dict(kind='c04', learner='learn_estimator-' + dist.__name__, data=X.tolist(), constant_column=((k // 4) % 2 == 0))
        try:
            root = learn_estimator(X, [dist] * nv, dom, learn_leaf='mle' if dist is not Isotonic else 'isotonic', split_rows='kmeans', split_cols='rdc',
                                   min_rows_slice=30, random_state=int(rs.randint(1000)), verbose=False)
        except Exception as ex:
            ctx.count('learner-did-not-return')
            continue
        ctx.case('cont:' + dist.__name__, nontrivial_key=('cont', k), sample=dict(dist=dist.__name__, shape=[nr, nv], constant_column=((k // 4) % 2 == 0)))
        ctx.count('leaf-family:' + dist.__name__)
        validate(ctx, root, nv, rep, f'learn_estimator({dist.__name__}) {"with a constant column" if (k // 4) % 2 == 0 else ""}', discrete=False)
        if ctx.n_new(with_input_only=True) >= 3:
            return
    # (iii-a) a reading that never changes (stuck sensor, unit column, padded feature): decimal values in double precision, any row count —
    # the leaf fitted on such a column is a degenerate but normalised distribution
    for k in range(40 if quick else 400):
        rs = np.random.RandomState(np_seed(ctx.sub_rng('stuck', k)))
        nr = int(rs.randint(3, 220))
        v = float(np.round(rs.choice([0.1, 0.7, 37.2, 98.6, -273.15, 1e-3, rs.uniform(-300, 1100)]), int(rs.randint(1, 4))))
        X = np.round(rs.randn(nr, 3) * 2, 2)
        X[:, int(rs.randint(3))] = v
        if k % 5 == 4:
            X[: nr // 2, :] = X[0, :]                  # and many duplicated rows
        dist = [Gaussian, Uniform][k % 7 == 6]
        dom = [(float(X[:, j].min()) - 1.0, float(X[:, j].max()) + 1.0) for j in range(3)]
        rep = dict(kind='c04', learner='learn_estimator-' + dist.__name__, data=X.tolist(), constant_column=True, float64=True)
        try:
            root = learn_estimator(X, [dist] * 3, dom, learn_leaf='mle', split_rows='kmeans', split_cols='rdc',
                                   min_rows_slice=int(rs.choice([30, 1000])), random_state=int(rs.randint(1000)), verbose=False)
        except Exception as ex:
            ctx.count('learner-did-not-return')
            continue
        ctx.case('stuck:' + dist.__name__, nontrivial_key=('stuck', k), sample=dict(dist=dist.__name__, shape=[nr, 3], value=v))
        ctx.count('constant-decimal-column-cases')
        validate(ctx, root, 3, rep, f'learn_estimator({dist.__name__}) on float64 data with a column stuck at {v} ({nr} rows)', discrete=False)
        if ctx.n_new(with_input_only=True) >= 3:
            return
    # (iii-b) mixed leaf families / domains per column with columns that are constant inside clusters (REM_FEATURES below a column split)
    for k in range(10 if quick else 100):
        rs = np.random.RandomState(np_seed(ctx.sub_rng('mixed', k)))
        nr = int(rs.choice([60, 150, 300]))
        z = rs.randint(0, 2, size=nr)
        cols, dists, doms = [], [], []
        for j in range(int(rs.randint(4, 8))):
            t = j % 3
            if t == 0:
                c = np.where(rs.rand(nr) < 0.15, 1 - z, z).astype(np.float32); dists.append(Bernoulli); doms.append([0, 1])
            elif t == 1:
                c = rs.randint(0, 3, size=nr).astype(np.float32)
                c[z == 1] = 2.0                         # constant inside one cluster only
                dists.append(Categorical); doms.append([0, 1, 2])
            else:
                c = (rs.randn(nr) + 3 * z).astype(np.float32); dists.append(Gaussian); doms.append((float(c.min()), float(c.max())))
            cols.append(c)
        perm = rs.permutation(len(cols))
        X = np.stack([cols[i] for i in perm], axis=1)
        dists = [dists[i] for i in perm]; doms = [doms[i] for i in perm]
        rep = dict(kind='c04', learner='learn_spn-mixed', data=X.tolist(), dists=[d.__name__ for d in dists])
        try:
            root = learn_spn(X, dists, doms, learn_leaf='mle', split_rows='kmeans', split_cols=str(rs.choice(['rdc', 'random'])), min_rows_slice=int(rs.choice([20, 50])),
                             min_cols_slice=2, random_state=int(rs.randint(1000)), verbose=False)
        except Exception as ex:
            ctx.count('learner-did-not-return:' + type(ex).__name__)
            continue
        ctx.case('mixed', nontrivial_key=('mixed', k), sample=dict(dists=[d.__name__ for d in dists], shape=list(X.shape)))
        ctx.count('mixed-family-data')
        bad = None
        for n in S.bfs_order(root):
            if not getattr(n, 'children', None) and len(n.scope) == 1 and not isinstance(n, (Sum, Product)):
                want = dists[n.scope[0]]
                if type(n) is not want:
                    bad = f'leaf over column {n.scope[0]} is a {type(n).__name__}, the requested family is {want.__name__}'
                elif isinstance(n, Categorical) and [int(c) for c in n.categories] != [int(c) for c in doms[n.scope[0]]]:
                    bad = f'Categorical leaf over column {n.scope[0]} has categories {list(n.categories)}, its domain is {doms[n.scope[0]]}'
        if bad:
            ctx.violation('c04-leaf-family', 'learn_spn on mixed data: ' + bad, replay=rep)
        else:
            validate(ctx, root, X.shape[1], rep, 'learn_spn on mixed Bernoulli/Categorical/Gaussian data', discrete=False)
        if ctx.n_new(with_input_only=True) >= 3:
            return
    # (iv) classifier wrapper
    for k in range(4 if quick else 40):
        rs = np.random.RandomState(np_seed(ctx.sub_rng('clf', k)))
        nv = int(rs.randint(2, 5)); nr = int(rs.choice([40, 120])); kc = int(rs.randint(2, 4))
        X = binary_data(rs, nr, nv, 'plain')
        y = rs.randint(kc, size=nr).astype(np.float32)
        y[:kc] = np.arange(kc)
        D = np.hstack([X, y[:, None]])
        dists = [Bernoulli] * nv + [Bernoulli if kc == 2 else Categorical]
        try:
            root = learn_classifier(D, dists, learn_leaf='mle', split_rows='kmeans', split_cols='gvs', min_rows_slice=30, random_state=int(rs.randint(1000)), verbose=False)
        except Exception:
            ctx.count('learner-did-not-return')
            continue
        ctx.case('classifier', nontrivial_key=('clf', k), sample=dict(classes=kc, shape=[nr, nv + 1]))
        ctx.count('classifier')
        validate(ctx, root, nv + 1, dict(kind='c04', learner='learn_classifier', data=D.tolist()), 'learn_classifier', discrete=False)
    # (iv-a2) row splits into THREE clusters (and random / density-based ones) on chain-dependent columns, where column splits fail and
    # row splits nest to different depths: sums whose sum children have different numbers of children reach the final pruning step
    for k in range(10 if quick else 120):
        rs = np.random.RandomState(np_seed(ctx.sub_rng('threeway', k)))
        nv = int(rs.randint(4, 8)); nr = int(rs.choice([200, 400]))
        X = np.zeros((nr, nv), dtype=np.float32)
        X[:, 0] = rs.rand(nr) < 0.5
        for j in range(1, nv):
            X[:, j] = np.where(rs.rand(nr) < 0.85, X[:, j - 1], 1 - X[:, j - 1])
        if k % 3 == 0:
            X[:, nv - 1] = X[:, 1]
        rsplit = ['kmeans', 'gmm', 'random', 'kmeans_mb', 'dbscan'][k % 5]
        kw = dict(learn_leaf='mle', split_rows=rsplit, split_cols=str(rs.choice(['gvs', 'rdc'])), min_rows_slice=int(rs.choice([10, 25])), min_cols_slice=2,
                  random_state=int(rs.randint(1000)), verbose=False)
        if rsplit in ('kmeans', 'gmm', 'kmeans_mb'):
            kw['split_rows_kwargs'] = dict(n=3)
        clf = (k % 2 == 1)
        rep = dict(kind='c04', learner='learn_classifier' if clf else 'learn_estimator', data=X.astype(int).tolist(), kwargs=dict(kw))
        try:
            if clf:
                root = learn_classifier(X, [Bernoulli] * nv, [[0, 1]] * nv, **kw)
            else:
                root = learn_estimator(X, [Bernoulli] * nv, [[0, 1]] * nv, **kw)
        except Exception:
            ctx.count('learner-did-not-return')
            continue
        fan = sorted({len(c.children) for n in S.bfs_order(root) if isinstance(n, Sum) for c in n.children if isinstance(c, Sum)})
        ctx.case('threeway', nontrivial_key=('threeway', k), sample=dict(rows=rsplit, shape=[nr, nv], classifier=clf))
        ctx.count('three-way-row-splits-on-chain-data')
        validate(ctx, root, nv, rep, f"{'learn_classifier' if clf else 'learn_estimator'}({rsplit}, n=3) on chain-dependent data {nr}x{nv}")
        if ctx.n_new(with_input_only=True) >= 3:
            return
    # (iv-b) degenerate shapes: a single training row, all rows identical (every column constant at the root task)
    for k in range(8 if quick else 60):
        rs = np.random.RandomState(np_seed(ctx.sub_rng('degenerate', k)))
        nv = int(rs.randint(1, 5)); nr = int(rs.choice([1, 1, 5, 40]))
        X = np.repeat(rs.randint(2, size=(1, nv)), nr, axis=0).astype(np.float32)
        leaf = str(rs.choice(['mle', 'isotonic', 'binary-clt'])) if nv >= 2 else 'mle'
        rep = dict(kind='c04', learner='learn_estimator', data=X.astype(int).tolist(), cfg=dict(learn_leaf=leaf, shape=[nr, nv], family='all-rows-identical'))
        try:
            root = learn_estimator(X, [Bernoulli] * nv, [[0, 1]] * nv, learn_leaf=leaf, split_rows='kmeans', split_cols='gvs', min_rows_slice=int(rs.choice([2, 30])),
                                   random_state=int(rs.randint(1000)), verbose=False)
        except Exception as ex:
            ctx.count('learner-did-not-return:' + type(ex).__name__)
            continue
        ctx.case('degenerate', nontrivial_key=('degenerate', k), sample=rep['cfg'])
        ctx.count('all-rows-identical-data')
        validate(ctx, root, nv, rep, f'learn_estimator({leaf}) on {nr} identical row(s) x {nv} columns')
        if ctx.n_new(with_input_only=True) >= 3:
            return
    # (v) XPC and ensemble-XPC; the last `n_corner` cases sit in the corner "one conjunction covers every column" (sd, Chow-Liu leaves):
    # the leaves' own trees are drawn from an unseeded generator there, so several cases are needed to see a given outcome
    n_x = 40 if quick else 600
    n_corner = 16 if quick else 120
    # ... and the last `n_dep` cases ask for structured decomposability WITHOUT Chow-Liu leaves on few rows of functionally dependent
    # columns (copies, negations, conjunctions): partitions in which a not-yet-conditioned variable is constant while it varies in a
    # sibling partition — the conjunction variables must still depend on the depth only
    n_dep = 14 if quick else 150
    for k in range(n_x + n_corner + n_dep):
        rs = np.random.RandomState(np_seed(ctx.sub_rng('xpc', k)))
        corner = n_x <= k < n_x + n_corner
        dep = k >= n_x + n_corner
        nv = int(rs.choice([3, 4, 5])) if corner else int(rs.choice([6, 7, 8])) if dep else int(rs.choice([2, 3, 4, 5, 8, 10]))
        nr = int(rs.choice([30, 50, 80])) if dep else int(rs.choice([60, 150, 300]))
        if dep:
            B = (rs.rand(nr, 3) < rs.uniform(0.3, 0.7, size=3))
            cols = [B[:, 0], B[:, 1], B[:, 2]]
            while len(cols) < nv:
                a, b = cols[int(rs.randint(len(cols)))], cols[int(rs.randint(len(cols)))]
                cols.append([a, ~a, a & b, a | b, a ^ b][int(rs.randint(5))])
            X = np.stack([cols[i] for i in rs.permutation(nv)], axis=1).astype(np.float32)
            ctx.count('xpc-sd-without-clt-on-dependent-columns')
        else:
            X = binary_data(rs, nr, nv, fams[k % 4])
        det = bool(rs.rand() < 0.4) and not dep; sd = bool(corner or dep or rs.rand() < 0.6); use_clt = bool(corner or det or rs.rand() < 0.7) and not dep
        cfg = dict(det=det, sd=sd, min_part_inst=(int(rs.choice([3, 5])) if dep else int(rs.choice([5, 10, 30]))), conj_len=(nv if (corner or (k % 4 == 1 and nv <= 5)) else int(rs.choice([1, 2, 3]))), arity=int(rs.choice([2, 3, 4])),
                   use_clt=use_clt, random_seed=int(rs.randint(1000)))
        ens = (k % 3 == 2) and not corner
        if dep and ens:
            pass
        rep = dict(kind='c04', learner='learn_expc' if ens else 'learn_xpc', data=X.astype(int).tolist(), cfg=cfg)
        utils = None
        rec = XD.Recorder()
        try:
            with rec:
                if ens:
                    sd_level = int(rs.randint(0, 3))
                    cfg2 = dict(cfg)
                    cfg2.pop('sd')
                    root, _ = learn_expc(X, ensemble_dim=int(rs.randint(2, 4)), sd_level=sd_level, **cfg2)
                    sd_eff = (sd_level == 2)
                    rep['sd_level'] = sd_level
                else:
                    root, utils = XD.X.learn_xpc(X, **cfg)
                    sd_eff = sd
        except Exception as ex:           # a learner that raises has not returned (C04 is a statement about returned circuits)
            ctx.count('learner-did-not-return:' + type(ex).__name__)
            continue
        ctx.case('xpc', nontrivial_key=('xpc', k), sample=dict(cfg, ensemble=ens, shape=[nr, nv]))
        ctx.count('expc' if ens else 'xpc')
        if not validate(ctx, root, nv, rep, ('learn_expc' if ens else 'learn_xpc') + f'({cfg})', sd=sd_eff):
            continue
        if ens and rep.get('sd_level') == 1 and isinstance(root, Sum):
            # "a non-SD ensemble of SD PCs": structured decomposability was requested for every component of the mixture
            comp_bad = None
            for ci, comp in enumerate(root.children):
                nodes_c = S.bfs_order(comp)
                scopes = [list(n.scope) for n in nodes_c if isinstance(n, Product)]
                for n in nodes_c:
                    if isinstance(n, BinaryCLT):
                        scopes += [list(s_) for s_ in n.get_scopes()]
                b = laminar(scopes)
                if b:
                    comp_bad = (ci, b)
                    break
            ctx.count('ensemble-components-checked-for-structured-decomposability')
            if comp_bad:
                ctx.violation('c04-not-structured:component', f'learn_expc({cfg}, sd_level=1): component {comp_bad[0]} has product scopes {comp_bad[1][0]} and '
                                                              f'{comp_bad[1][1]} that are neither nested nor disjoint', replay=rep)
                continue
        # correspondence with the Lean model of build_xpc: the partition tree the learner produced (oracle) is replayed
        if utils is not None and ctx.driver_ok:
            drv = ctx.get_driver()
            pj = XD.export_part(utils['part_root'], rec, X)
            ans = drv.ask(dict(op='xpc', use_clt=use_clt, det=det, part=pj))
            verdict, text = ans.split(' ', 1)
            ctx.count('xpc-trees-replayed-in-the-model')
            if verdict != 'partinv=true':
                ctx.violation('c04-xpc-partinv', f'learn_xpc({cfg}): the partition tree violates the partition invariant (model verdict {verdict})', replay=rep, found_input=False)
                continue
            diff = XD.compare(XD.parse_text(text), root)
            if diff:
                ctx.violation('c04-xpc-vs-model', f'learn_xpc({cfg}): returned circuit differs from buildXpc of its own partition tree: {diff}', replay=rep, found_input=False)
                continue
            # the loop EXTRACTED from the current source (Gen.S5buildXpcStep, tools/listprog.py) run by the driver on the Partition objects of
            # the same tree: implementation = generated = model (Oblig/Struct5Xpc.lean and Props/E2EXpc.lean are statements about that definition)
            tag, emp, gtext = drv.ask(dict(op='s5_xpc', use_clt=use_clt, det=det, part=pj)).split(' ', 2)
            ctx.count('xpc-generated-loop-runs')
            if tag != 'welltagged=true' or emp != 'stackempty=true':
                ctx.violation('c04-xpc-generated-loop', f'learn_xpc({cfg}): the loop extracted from build_xpc, run on the exported partition tree: {tag} {emp} '
                                                        '(hypotheses / conclusion of e2e_build_xpc_loop)', replay=rep, found_input=False)
                continue
            if gtext != text:
                ctx.violation('c04-xpc-generated-vs-model', f'learn_xpc({cfg}): the loop extracted from build_xpc differs from buildXpc on the partition tree\n'
                                                            f' generated: {gtext[:300]}\n model    : {text[:300]}', replay=rep, found_input=False)
                continue
            diff = XD.compare(XD.parse_text(gtext), root)
            if diff:
                ctx.violation('c04-xpc-vs-generated', f'learn_xpc({cfg}): returned circuit differs from the loop extracted from build_xpc: {diff}', replay=rep, found_input=False)
                continue
            if sd_eff:
                a2 = drv.ask(dict(op='xpc_scopes', use_clt=use_clt, det=det, part=pj))
                if not a2.startswith('laminar=true'):
                    ctx.violation('c04-xpc-model-not-laminar', f'learn_xpc({cfg}): model says the scope family is not laminar', replay=rep, found_input=False)
        if ctx.n_new(with_input_only=True) >= 3:
            return


_run_core = run


def run(ctx):
    _run_core(ctx)
    if ctx.n_new() == 0 and ctx.driver_ok:
        from harness.common import run_demo
        if ctx.n_new() == 0:
            run_demo(ctx, 'demo_tr4.py', [1 + ctx.seed], 'c04-code-vs-generated-vs-model-4',
                     'operation-selection cascade of learn_spn vs generated definition vs selectOp', env_extra=dict(DEMO_SECTIONS='a'))


def replay(rep):
    if rep['replay'].get('kind') == 'demo':
        from harness.common import replay_demo
        return replay_demo(rep['replay'])
    print('C04 replays re-run the learner: use VERIF_SEED and the recorded configuration', {k: v for k, v in rep['replay'].items() if k != 'data'})
    return True
