"""C01 — complete-evidence inference is the circuit's semantics, normalised, likelihood = exp(log-likelihood)."""
import itertools, math, json, hashlib
import numpy as np
from harness.common import frac, fstr, parse_q, close_log, close_lin, qlog, Infra, np_seed
from harness.common import sexp
from harness import spn as S
from harness import histories as Hist
from harness.build import build_from_table, table_with_py

from deeprob.spn.structure.node import assign_ids
from deeprob.spn.structure.leaf import Isotonic, Uniform, Gaussian, Bernoulli, Categorical
from deeprob.spn.structure.cltree import BinaryCLT
from deeprob.spn.algorithms.inference import likelihood, log_likelihood
from deeprob.spn.utils.validity import check_spn

FAMILIES = [('bern',), ('bern', 'cat'), ('bern', 'gauss'), ('cat', 'iso', 'unif'), ('bern', 'cat', 'gauss', 'unif', 'iso'), ('catl',), ('bern', 'catl', 'gauss')]


def iso_floor():
    """the out-of-support constant the *model side* uses: the one `Isotonic.likelihood` reports, as extracted by the
    translator (Generated/Consts.lean); falls back to 2^-23 if the fragment is gone"""
    try:
        import re, os
        from harness.common import LEAN
        s = open(os.path.join(LEAN, 'DeeprobModel', 'Generated', 'Consts.lean')).read()
        m = re.search(r'def isoOodLik : Rat := \(\((\d+) : Rat\) / (\d+)\)', s)
        return int(m.group(1)) / int(m.group(2))
    except Exception:
        return 2.0 ** -23


def gen_case(ctx, k):
    rs = np.random.RandomState(np_seed(ctx.sub_rng('net', k)))
    ncols = int(rs.randint(1, 7))
    nv = int(rs.randint(1, min(ncols, 5) + 1))
    scope = sorted(int(v) for v in rs.choice(ncols, nv, replace=False))
    kinds = FAMILIES[rs.randint(len(FAMILIES))]
    root = S.rand_spn(rs, scope, depth=int(rs.randint(0, 5)), kinds=kinds, share=float(rs.choice([0.0, 0.3, 0.6])),
                      clt=bool(rs.rand() < 0.5))
    if isinstance(root, BinaryCLT) or not getattr(root, 'children', None):
        root.id = 0
    else:
        assign_ids(root)
    return root, ncols, rs


def complete_rows(order, scope, ncols, rs, cap, floor):
    """complete assignments: all if the discrete domain is small, else random; continuous: in / edge / out of support"""
    dom = S.domain_of(order)
    cont = {}
    for n in order:
        if S.is_continuous(n):
            cont.setdefault(n.scope[0], []).append(n)
    disc = [v for v in scope if v not in cont]
    sizes = [dom[v] for v in disc]
    total = int(np.prod(sizes)) if sizes else 1
    if total <= cap:
        combos = list(itertools.product(*[range(s) for s in sizes]))
        exhaustive = True
    else:
        combos = [tuple(int(rs.randint(s)) for s in sizes) for _ in range(cap)]
        exhaustive = False
    rows = []
    for c in combos:
        x = np.zeros(ncols, dtype=np.float32)
        for v, val in zip(disc, c):
            x[v] = val
        for v, leaves in cont.items():
            x[v] = cont_value(rs, leaves)
        rows.append(x)
    return np.array(rows, dtype=np.float32), exhaustive and not cont


def cont_value(rs, leaves):
    n = leaves[rs.randint(len(leaves))]
    r = rs.rand()
    if isinstance(n, Gaussian):
        return float(n.mean + n.stddev * rs.randn() * (1 if r < 0.8 else 6))
    if isinstance(n, Uniform):
        a, w = float(n.start), float(n.width)
        if r < 0.6:
            return float(np.float32(a + w * rs.uniform(0.05, 0.95)))
        if r < 0.8:
            return float(np.float32(a - rs.uniform(0.1, 2)))
        return float(np.float32(a + w + rs.uniform(0.1, 2)))
    if isinstance(n, Isotonic):
        b = [float(t) for t in n.breaks]
        if r < 0.6:
            i = rs.randint(len(b) - 1)
            return float(np.float32(b[i] + (b[i + 1] - b[i]) * rs.uniform(0.1, 0.9)))
        if r < 0.7:
            return float(np.float32(b[0]))       # exactly on the lower edge
        if r < 0.8:
            return float(np.float32(b[-1]))      # exactly on the upper edge
        if r < 0.9:
            return float(np.float32(b[0] - rs.uniform(0.1, 3)))
        return float(np.float32(b[-1] + rs.uniform(0.1, 3)))
    raise Infra('cont_value')


def near_edge(order, x):
    """a continuous observation within float32 resolution of a support edge / histogram break: density discontinuous there"""
    for n in order:
        if isinstance(n, Uniform):
            v = float(x[n.scope[0]])
            for t in (float(n.start), float(n.start) + float(n.width)):
                if abs(v - t) <= 1e-5 * max(1.0, abs(t)):
                    return True
        if isinstance(n, Isotonic):
            v = float(x[n.scope[0]])
            for t in n.breaks[1:-1]:
                if abs(v - float(t)) <= 1e-5 * max(1.0, abs(float(t))):
                    return True
    return False


def check_net(ctx, root, ncols, rs, cap, tag, hist=None):
    """returns number of rows compared; records violations. `hist` = dict(table0, steps): the recorded session history that
    produced `root` from the circuit of table0 (goes into every replay: a stale cache is not visible in a parameter table)"""
    floor = iso_floor()
    table, order, index, acyclic = S.export_net(root)
    H = dict(history=hist) if hist else {}
    dom = S.domain_of(order)
    X, exhaustive = complete_rows(order, list(root.scope), ncols, rs, cap, floor)
    try:
        ll_root, lls = log_likelihood(root, X, return_results=True)
        l_root, ls = likelihood(root, X, return_results=True)
    except Exception as ex:
        ctx.violation('c01-inference-raises', f'inference raised {type(ex).__name__}: {ex} on a valid circuit',
                      replay=dict(kind='c01', table=table_with_py(table, order), ncols=ncols, rows=X.tolist(), **H))
        return 0
    drv = ctx.get_driver() if ctx.driver_ok else None
    nontriv = any(e['kind'] in ('sum', 'prod') for e in table)
    key = hashlib.sha256(json.dumps(table, sort_keys=True).encode()).hexdigest()[:16]
    ctx.case(tag, nontrivial_key=key if nontriv else None,
             sample=dict(nodes=len(table), kinds=S.describe(order), scope=list(root.scope), ncols=ncols, rows=len(X),
                         first_row=X[0].tolist()))
    for k_, c in S.describe(order).items():
        ctx.count('node:' + k_, c)
    ctx.count('nets')
    if drv:
        ans = drv.ask(dict(op='net', nodes=table, root=index[id(root)], dom=dom))
        if 'wellOrdered=true' not in ans or 'covers=true' not in ans:
            raise Infra(f'exported table not well-formed: {ans}')
        chk = drv.ask(dict(op='check'))
        if chk != 'accept':
            ctx.violation('c01-model-rejects-valid', f'model validation says {chk} for a circuit the generator built as valid',
                          replay=dict(kind='c01', table=table_with_py(table, order), ncols=ncols, rows=[], **H), found_input=False)
            return 0
    nvars = len(dom)
    bad = None
    for r, x in enumerate(X):
        ctx.count('rows')
        # implementation self-consistency: likelihood = exp(log-likelihood), every node
        for i, n in enumerate(order):
            li, lli = float(ls[n.id][r]), float(lls[n.id][r])
            e = sexp(lli) if lli > -700 else 0.0
            if not (abs(li - e) <= 1e-6 + 2e-4 * max(abs(li), abs(e))):
                bad = bad or dict(fp='c01-lik-vs-exp-loglik:' + type(n).__name__,
                                  what=f'{type(n).__name__} node: likelihood={li!r} but exp(log_likelihood)={e!r} at x={x.tolist()}',
                                  row=x.tolist(), node=i)
        if drv is None:
            continue
        try:
            row, dens = S.row_payload(order, x, nvars, floor)
        except S.ExtremeDensity:
            ctx.count('rows_with_log_density_below_-20000_not_compared')   # e.g. a Gaussian whose sigma EM clamped to 1e-5
            continue
        vals = [parse_q(t) for t in drv.ask(dict(op='eval', row=row, dens=dens)).split()]
        skip = near_edge(order, x)
        if skip:
            ctx.count('rows_near_density_discontinuity_excluded')
            continue
        for i, n in enumerate(order):
            if not close_log(lls[n.id][r], vals[i]):
                bad = bad or dict(fp='c01-loglik-vs-semantics:' + type(n).__name__,
                                  what=f'log_likelihood of {type(n).__name__} node #{n.id} = {float(lls[n.id][r])!r}, circuit semantics = log {float(vals[i])!r} = {qlog(vals[i])!r} at x={x.tolist()}',
                                  row=x.tolist(), node=i)
            if not close_lin(ls[n.id][r], vals[i]):
                bad = bad or dict(fp='c01-lik-vs-semantics:' + type(n).__name__,
                                  what=f'likelihood of {type(n).__name__} node #{n.id} = {float(ls[n.id][r])!r}, circuit semantics = {float(vals[i])!r} at x={x.tolist()}',
                                  row=x.tolist(), node=i)
        if bad:
            break
    # total mass: model value with nothing observed (= Σ over the whole domain by Circ.marg) and the implementation's own sum
    if drv is not None and not bad:
        vals = [parse_q(t) for t in drv.ask(dict(op='eval', row=[None] * nvars, dens={})).split()]
        m = vals[index[id(root)]]
        if abs(float(m) - 1.0) > 1e-5:
            bad = dict(fp='c01-mass', what=f'model total mass {float(m)} != 1 for generated valid circuit', row=None, node=None)
        if exhaustive:
            tot = float(np.sum(np.exp(ll_root.astype(np.float64))))
            ctx.count('exhaustive_mass_checks')
            if abs(tot - 1.0) > 1e-4:
                bad = dict(fp='c01-impl-mass', what=f'exp(log_likelihood) sums to {tot} over the whole discrete domain', row=None, node=None)
    if bad:
        if hist:
            bad['what'] += f' [after the session history {Hist.brief(hist["steps"])}]'
        ctx.violation(bad['fp'], bad['what'],
                      replay=dict(kind='c01', table=table_with_py(table, order), ncols=ncols,
                                  rows=[bad['row']] if bad['row'] is not None else X.tolist(), node=bad['node'], **H))
    return len(X)


def fitted_case(rs, k):
    from deeprob.spn.structure.node import Sum, Product
    from deeprob.spn.structure.leaf import Categorical as _Cat
    comps = []
    nv = int(rs.randint(1, 4))
    for c in range(2):
        leaves = []
        for v in range(nv):
            dom = [int(t) for t in rs.permutation(int(rs.randint(2, 6)))]
            if k % 3 == 0:
                dom = [int(t) for t in rs.choice(12, len(dom), replace=False)]      # gaps, too
            lf = _Cat(v)
            data = rs.choice(dom, size=(int(rs.choice([20, 60])), 1), p=rs.dirichlet(np.ones(len(dom)))).astype(np.float32)
            lf.fit(data, dom, alpha=float(rs.choice([0.1, 1.0])))
            leaves.append(lf)
        comps.append(Product(children=leaves) if nv > 1 else leaves[0])
    root = assign_ids(Sum(children=comps, weights=np.array([0.4, 0.6], dtype=np.float32)))
    doms = [[int(t) for t in l.categories] for l in S.bfs_order(root) if isinstance(l, _Cat)]
    rows = [[float(rs.choice(doms[v])) for v in range(nv)] for _ in range(10)]
    rows.append([float(max(max(d) for d in doms) + 3)] * nv)          # outside every support
    return root, np.array(rows, dtype=np.float32), doms


def fitted_check(root, X, doms, report):
    a = np.asarray(log_likelihood(root, X), dtype=np.float64).reshape(-1)
    la = np.asarray(likelihood(root, X), dtype=np.float64).reshape(-1)
    for r in range(len(X)):
        ref = S.ref_value(root, X[r].astype(np.float64))
        if abs(sexp(a[r]) - ref) > 1e-6 + 2e-4 * ref or abs(la[r] - ref) > 1e-6 + 2e-4 * ref:
            report(f'circuit of Categorical leaves fitted on the domains {doms}: log_likelihood {a[r]!r} / likelihood {la[r]!r} but the circuit '
                   f'over its fitted parameters has value {ref!r} at {X[r].tolist()}')
            return False
    return True


def fitted_leaf_stream(ctx):
    """leaves obtained through `fit` (not through the constructor) on a domain that is NOT listed in increasing order — the fitted
    object keeps the caller's order (order of first appearance, a reversed range, ...): every query is about the fitted parameters"""
    quick = ctx.tier == 'quick'
    for k in range(10 if quick else 120):
        sub = ctx.sub_rng('fitted', k)
        rs = np.random.RandomState(np_seed(sub))
        root, X, doms = fitted_case(rs, k)
        ctx.count('circuits-with-leaves-fitted-on-unsorted-domains')
        ctx.case('fitted-leaves', nontrivial_key=('fitted', k), sample=dict(domains=doms))
        rep = dict(kind='c01-fitted', k=k, np_seed=np_seed(ctx.sub_rng('fitted', k)), rows=X.tolist(), table=[])
        try:
            fitted_check(root, X, doms, lambda m: ctx.violation('c01-fitted-value', m, replay=rep))
        except Exception as ex:
            ctx.violation(f'c01-fitted-raises:{type(ex).__name__}', f'log_likelihood raised {type(ex).__name__}: {str(ex)[:160]} on a circuit of fitted Categorical leaves', replay=rep)
        if ctx.n_new(with_input_only=True) >= 3:
            return


def inferred_scope_stream(ctx):
    """inner nodes built WITHOUT an explicit scope (it is inferred from the children) over multivariate leaves whose scope list is not
    in increasing order: building a parent must not change its children, and the value is the one of the children as they were given"""
    from deeprob.spn.structure.node import Sum, Product
    quick = ctx.tier == 'quick'
    for k in range(10 if quick else 100):
        inferred_case(ctx, k)
        if ctx.n_new(with_input_only=True) >= 3:
            return


def inferred_case(ctx, k):
    from deeprob.spn.structure.node import Sum, Product
    if True:
        rs = np.random.RandomState(np_seed(ctx.sub_rng('inferred', k)))
        n = int(rs.randint(2, 5))
        sc = [int(v) for v in rs.permutation(n + 2)[:n]]
        while sc == sorted(sc):
            sc = [int(v) for v in rs.permutation(n + 2)[:n]]
        leaves = [S.rand_clt(rs, list(sc)) for _ in range(int(rs.randint(2, 4)))]
        given = [(list(l.scope), [int(t) for t in l.tree], np.array(l.params, dtype=np.float64)) for l in leaves]
        w = rs.dirichlet(np.ones(len(leaves))).astype(np.float32)
        if k % 2 == 0:
            root = Sum(children=leaves, weights=(w / w.sum()).astype(np.float32))
        else:
            extra = [v for v in range(n + 3) if v not in sc][:1]
            root = Product(children=[Sum(children=leaves, weights=(w / w.sum()).astype(np.float32)), S.rand_leaf(rs, extra[0], ('bern',))])
        assign_ids(root)
        ctx.count('inner-nodes-with-inferred-scope-over-unsorted-clt-leaves')
        ctx.case('inferred-scope', nontrivial_key=('inferred', k), sample=dict(leaf_scope=sc, leaves=len(leaves)))
        rep = dict(kind='c01-inferred', k=k, seed=ctx.seed, table=[], rows=[])
        for l, (gs, gt, gp) in zip(leaves, given):
            if list(l.scope) != gs or [int(t) for t in l.tree] != gt or not np.array_equal(np.array(l.params, dtype=np.float64), gp):
                ctx.violation('c01-child-changed-by-parent', f'building an inner node over a Chow-Liu leaf changed the leaf: its scope was {gs}, it is {list(l.scope)} now '
                              f'(tree / tables unchanged: {[int(t) for t in l.tree] == gt}) — the leaf reads other columns than before', replay=rep)
                break
        else:
            ncols = max(int(v) for v in root.scope) + 1
            X = rs.randint(0, 2, size=(8, ncols)).astype(np.float32)
            a = np.asarray(log_likelihood(root, X), dtype=np.float64).reshape(-1)
            for r in range(len(X)):
                ref = S.ref_value(root, X[r].astype(np.float64))
                if abs(sexp(a[r]) - ref) > 1e-6 + 2e-4 * ref:
                    ctx.violation('c01-inferred-value', f'log_likelihood {a[r]!r} but the circuit over its parameters has value {ref!r} at {X[r].tolist()}', replay=rep)
                    break


def subclass_stream(ctx):
    """circuits whose inner nodes are instances of USER SUBCLASSES of Sum / Product (own EM step, own bookkeeping): a sum node is a
    sum node for every query — the value is the circuit's semantics over its parameters (`S.ref_value`), equal to what the same
    circuit built from the base classes returns"""
    from harness.c03 import subclassed
    from deeprob.spn.algorithms.inference import mpe as _mpe
    quick = ctx.tier == 'quick'
    for k in range(12 if quick else 150):
        rs = np.random.RandomState(np_seed(ctx.sub_rng('subclass', k)))
        nv = int(rs.randint(2, 5))
        root = S.rand_spn(rs, list(range(nv)), depth=int(rs.randint(1, 4)), kinds=('bern', 'cat'), share=0.4, clt=(k % 3 == 0))
        if not getattr(root, 'children', None):
            continue
        assign_ids(root)
        sub = subclassed(root)
        table, order, _, _ = S.export_net(root)
        dom = S.domain_of(order)
        X = np.stack([rs.randint(max(d, 1), size=8) for d in dom], axis=1).astype(np.float32)
        X[4:][rs.rand(4, X.shape[1]) < 0.4] = np.nan
        ctx.count('user-subclass-circuits')
        ctx.case('subclass', nontrivial_key=('subclass', k), sample=dict(nodes=len(table)))
        rep = dict(kind='c01-subclass', table=table_with_py(table, order), rows=np.where(np.isnan(X), None, X).tolist())
        try:
            a = np.asarray(log_likelihood(sub, X), dtype=np.float64).reshape(-1)
            la = np.asarray(likelihood(sub, X), dtype=np.float64).reshape(-1)
        except Exception as ex:
            ctx.violation(f'c01-subclass-raises:{type(ex).__name__}', f'log_likelihood raised {type(ex).__name__}: {str(ex)[:160]} on a valid circuit whose inner nodes are '
                          f'instances of user subclasses of Sum / Product', replay=rep)
            continue
        for r in range(len(X)):
            ref = S.ref_value(root, X[r].astype(np.float64))
            if abs(sexp(a[r]) - ref) > 1e-6 + 2e-4 * ref or abs(la[r] - ref) > 1e-6 + 2e-4 * ref:
                ctx.violation('c01-subclass-value', f'circuit with user-subclass inner nodes: log_likelihood {a[r]!r} / likelihood {la[r]!r} but the circuit over its '
                              f'parameters has value {ref!r} at {[None if np.isnan(t) else float(t) for t in X[r]]}', replay=rep)
                break
        if ctx.n_new(with_input_only=True) >= 3:
            return


def special_streams(ctx):
    """(a) double-precision inputs that are not single-precision numbers, placed where the density is sensitive to the last bits
    (closed support edges of Uniform leaves, one ulp beside a histogram break, narrow Gaussians far from the origin): the query is
    about the GIVEN point; (b) peaked densities: products of many narrow leaves whose log-density is far above 0 (and far below):
    the log-domain query must not pass through the linear domain. Reference: log-domain recursion over the parameters."""
    from deeprob.spn.structure.node import Sum, Product
    floor = iso_floor()
    quick = ctx.tier == 'quick'
    for k in range(60 if quick else 600):
        rs = np.random.RandomState(np_seed(ctx.sub_rng('special', k)))
        mode = k % 3
        if mode < 2:
            # (a) sensitive double-precision points
            a, w = float(rs.choice([0.7, 0.1, -3.3, 12.6])), float(rs.choice([0.2, 0.3, 1.7]))
            mu, sd = float(rs.choice([1000.0, -250.0, 3.0])), float(rs.choice([1e-4, 1e-3, 0.5]))
            br = np.cumsum([0.0] + [float(t) for t in rs.choice([0.1, 0.25, 0.7], size=3)]) + float(rs.choice([0.0, 0.3]))
            d = rs.rand(3) + 0.1
            leaves0 = [Uniform(0, start=a, width=w), Uniform(0, start=a - 0.5 * w, width=2 * w)]
            leaves1 = [Gaussian(1, mu, sd), Gaussian(1, mu + 2 * sd, sd)]
            leaves2 = [Isotonic(2, densities=(d / d.sum()).tolist(), breaks=br.tolist()), Uniform(2, start=float(br[0]), width=float(br[-1] - br[0]))]
            w0 = rs.dirichlet(np.ones(2)).astype(np.float32)
            comps = [Product(children=[leaves0[i], leaves1[j], leaves2[l]]) for i, j, l in [(0, 0, 0), (1, 1, 1), (0, 1, 0)]]
            w3 = rs.dirichlet(np.ones(3)).astype(np.float32)
            root = assign_ids(Sum(children=comps, weights=(w3 / w3.sum()).astype(np.float32)))
            b32 = [float(t) for t in np.asarray(leaves2[0].breaks, dtype=np.float64)]
            # (the upper edge a + w is left out: SciPy standardises (x - a) / w, which rounds to 1 + 2^-52 for some a, w — a point of
            # discontinuity of the density, measure zero; the lower edge standardises to exactly 0)
            xs0 = [a, np.nextafter(a, -np.inf), a + 0.1 * w, a + 0.9 * w, a + 1.4 * w, a + 1.6 * w]
            xs1 = [mu + 0.5 * sd, mu - 1.25 * sd, mu + 2 * sd]
            xs2 = [np.nextafter(b32[1], -np.inf), b32[1], np.nextafter(b32[2], -np.inf), 0.5 * (b32[0] + b32[1])]
            X = np.array([[xs0[rs.randint(len(xs0))], xs1[rs.randint(len(xs1))], xs2[rs.randint(len(xs2))]] for _ in range(8)], dtype=np.float64)
            tag, what = 'float64-sensitive-points', 'double-precision input'
        else:
            # (b) peaked / far-tail circuits
            nvar = int(rs.randint(9, 14))
            sd = float(rs.choice([1e-5, 1e-4]))
            mus = rs.uniform(-2, 2, size=(2, nvar))
            comps = [Product(children=[Gaussian(v, float(mus[c, v]), sd) for v in range(nvar)]) for c in range(2)]
            if rs.rand() < 0.5:
                mus[1] = mus[0] + sd * rs.uniform(-1, 1, size=nvar)        # a nearby component: every child value of the sum is large
                comps[1] = Product(children=[Gaussian(v, float(mus[1, v]), sd) for v in range(nvar)])
            root = assign_ids(Sum(children=comps, weights=np.array([0.4, 0.6], dtype=np.float32)))
            X = np.array([mus[0] + sd * rs.uniform(-1, 1, size=nvar) for _ in range(3)] + [mus[0] + 40 * sd], dtype=np.float64)
            if rs.rand() < 0.5:
                X = X[:3]           # a batch without any far row
            tag, what = 'peaked-densities', 'peaked circuit'
        table, order, _, _ = S.export_net(root)
        ctx.case(tag, nontrivial_key=(tag, k), sample=dict(stream=tag, nodes=len(table), rows=len(X)) if k < 3 else None)
        ctx.count(tag)
        rep = dict(kind='c01-special', table=table_with_py(table, order), rows=X.tolist(), dtype='float64')
        try:
            ll = np.asarray(log_likelihood(root, X), dtype=np.float64).reshape(-1)
        except Exception as ex:
            ctx.violation('c01-inference-raises', f'log_likelihood raised {type(ex).__name__}: {ex} on a {what}', replay=rep)
            return
        for r in range(len(X)):
            ref = S.ref_logvalue(root, X[r], floor)
            ctx.count('special-rows')
            if ref < -1e30:
                ok = ll[r] < -1e30
            else:
                ok = abs(ll[r] - ref) <= 2e-3 + 2e-5 * abs(ref)
            if not ok:
                ctx.violation('c01-loglik-vs-semantics:' + tag, f'log_likelihood {float(ll[r])!r} but the circuit over its parameters has log-value {ref!r} at the '
                                                                f'{what} x={X[r].tolist()}', replay=dict(rep, rows=[X[r].tolist()]))
                return


CORPUS = [
    # F1 witness: histogram leaf, input outside the fitted range
    dict(kind='iso-ood', densities=[0.5, 0.5], breaks=[0.0, 1.0, 2.0], xs=[5.0, -1.0, 0.5, 1.5]),
]


def run_corpus(ctx):
    for c in CORPUS:
        if c['kind'] == 'iso-ood':
            leaf = Isotonic(0, densities=c['densities'], breaks=c['breaks'])
            leaf.id = 0
            X = np.array([[x] for x in c['xs']], dtype=np.float32)
            l = likelihood(leaf, X)
            ll = log_likelihood(leaf, X)
            ctx.case('corpus:iso-ood', nontrivial_key='corpus-iso-ood', sample=dict(corpus='iso-ood', xs=c['xs']))
            for x, a, b in zip(c['xs'], l, ll):
                if abs(float(a) - sexp(float(b))) > 1e-6 + 2e-4 * float(a):
                    table, order, _, _ = S.export_net(leaf)
                    ctx.violation('c01-lik-vs-exp-loglik:Isotonic',
                                  f'Isotonic leaf: likelihood={float(a)!r} but exp(log_likelihood)={sexp(float(b))!r} at x={x}',
                                  replay=dict(kind='c01', table=table_with_py(table, order), ncols=1, rows=[[x]], node=0))
                    break


def run(ctx):
    n_nets = 400 if ctx.tier == 'quick' else 6000
    cap = 48 if ctx.tier == 'quick' else 512
    run_corpus(ctx)
    for k in range(n_nets):
        root, ncols, rs = gen_case(ctx, k)
        hist = None
        if k % 3 == 1:
            # a circuit whose leaves all support EM (one category set per variable, Chow-Liu leaves allowed), for the history stream
            nv = int(rs.randint(2, 5))
            ncols = nv + int(rs.randint(0, 2))
            scope = sorted(int(v) for v in rs.choice(ncols, nv, replace=False))
            root = S.rand_spn(rs, scope, depth=int(rs.randint(1, 4)), kinds=[('bern',), ('bern', 'cat'), ('bern', 'gauss'), ('bern', 'catl', 'gauss')][(k // 3) % 4],
                              share=float(rs.choice([0.0, 0.4])), clt=True, same_categories={}, no_repeat=True)
            if getattr(root, 'children', None):
                assign_ids(root)
            else:
                root.id = 0
        if k % 3 == 1 and getattr(root, 'children', None):
            # the same query after a recorded session history (earlier queries, EM, save/load, prune, copies): still a circuit
            table0, order0, _, _ = S.export_net(root)
            t0 = table_with_py(table0, order0)
            root, steps = Hist.apply_history(rs, root, ncols, int(rs.randint(1, 4)), count=ctx.count)
            if getattr(root, 'children', None):
                assign_ids(root)
            else:
                root.id = 0
            hist = dict(table0=t0, steps=steps)
            ctx.count('circuits-queried-after-a-history')
        check_net(ctx, root, ncols, rs, cap, f'net{k}', hist)
        if ctx.n_new(with_input_only=True) >= 3:
            break
    if ctx.n_new(with_input_only=True) == 0:
        special_streams(ctx)
    if ctx.n_new(with_input_only=True) == 0:
        subclass_stream(ctx)
    if ctx.n_new(with_input_only=True) == 0:
        fitted_leaf_stream(ctx)
    if ctx.n_new(with_input_only=True) == 0:
        inferred_scope_stream(ctx)
    ctx.notes.append('total mass is not enumerated by the model: it is evalNet with nothing observed, equal to the enumerated '
                     'sum by Circ.marg / C01_normalised; the implementation side is enumerated when the discrete domain is small')


_run_core = run


def run(ctx):
    _run_core(ctx)
    if ctx.n_new() == 0 and ctx.driver_ok:
        from harness.common import run_demo
        run_demo(ctx, 'demo_tr3.py', [1 + ctx.seed], 'c01-code-vs-generated-vs-model',
                 'inference / leaf likelihood code vs generated definitions vs model', env_extra=dict(DEMO_SECTIONS='a'))
        if ctx.n_new() == 0:
            run_demo(ctx, 'demo_tr5eval.py', [1 + ctx.seed], 'c01-eval-loops-generated',
                     'eval_bottom_up / eval_top_down / moment: implementation = the LOOPS generated from the source = model')
        if ctx.n_new() == 0:
            run_demo(ctx, 'demo_leaves.py', [20260929 + ctx.seed], 'c01-leaf-families-vs-model',
                     'leaf densities (incl. the Gaussian leaf as SciPy evaluates it: GaussTheory) against the exact leaf theory')


def replay(rep):
    if rep['replay'].get('kind') == 'demo':
        from harness.common import replay_demo
        return replay_demo(rep['replay'])
    r = rep['replay']
    if r.get('kind') == 'c01-inferred':
        from harness.common import Ctx
        c2 = Ctx('C01', 'quick', r['seed'])
        c2.driver_ok = False
        inferred_case(c2, r['k'])
        for v in c2.violations:
            print('  ', v['what'][:300])
        return not c2.violations
    if r.get('kind') == 'c01-fitted':
        root, X, doms = fitted_case(np.random.RandomState(r['np_seed']), r['k'])
        return fitted_check(root, X, doms, print)
    root, order = build_from_table(r['table'])
    X = np.array(r['rows'], dtype=np.float64 if r.get('dtype') == 'float64' else np.float32)
    if X.size == 0:
        return True
    if r.get('kind') == 'c01-subclass':
        from harness.c03 import subclassed
        sub = subclassed(root)
        ll = np.asarray(log_likelihood(sub, X), dtype=np.float64).reshape(-1)
        oks = True
        for rr in range(len(X)):
            ref = S.ref_value(root, X[rr].astype(np.float64))
            print(f'row {X[rr].tolist()}: log_likelihood {float(ll[rr])} (value {sexp(ll[rr])}), circuit over its parameters {ref}')
            oks = oks and abs(sexp(ll[rr]) - ref) <= 1e-6 + 2e-4 * ref
        return bool(oks)
    if r.get('kind') == 'c01-special':
        ll = np.asarray(log_likelihood(root, X), dtype=np.float64).reshape(-1)
        okk = True
        for rr in range(len(X)):
            ref = S.ref_logvalue(root, X[rr], iso_floor())
            print(f'row {X[rr].tolist()}: log_likelihood {float(ll[rr])}, log-value over the parameters {ref}')
            okk = okk and ((ll[rr] < -1e30) if ref < -1e30 else abs(ll[rr] - ref) <= 2e-3 + 2e-5 * abs(ref))
        return bool(okk)
    if r.get('history'):
        root, _ = build_from_table(r['history']['table0'])
        root = Hist.replay_history(root, r['history']['steps'])
        if getattr(root, 'children', None):
            assign_ids(root)
        else:
            root.id = 0
        order = S.export_net(root)[1]
        # the parameter-based reference (plain recursion over the objects' parameters) against the library's answer
        ll = np.asarray(log_likelihood(root, X)).reshape(-1)
        okh = True
        for rr in range(len(X)):
            ref = S.ref_value(root, X[rr].astype(np.float64))
            if abs(sexp(float(ll[rr])) - ref) > 1e-6 + 2e-4 * ref:
                print(f'row {X[rr].tolist()}: exp(log_likelihood) = {sexp(float(ll[rr]))} but the circuit over its own parameters has value {ref}')
                okh = False
        if not okh:
            return False
    ll, lls = log_likelihood(root, X, return_results=True)
    l, ls = likelihood(root, X, return_results=True)
    ok = True
    for i, n in enumerate(order):
        for rr in range(len(X)):
            a, b = float(ls[n.id][rr]), float(lls[n.id][rr])
            e = sexp(b) if b > -700 else 0.0
            if abs(a - e) > 1e-6 + 2e-4 * max(abs(a), abs(e)):
                print(f'node {i} ({type(n).__name__}) row {X[rr].tolist()}: likelihood {a} vs exp(log_likelihood) {e}')
                ok = False
    return ok
