"""C13 — JSON save/load round trip preserves structure and parameters (8 decimals + float32 storage)."""
import io, os, json, hashlib, math, tempfile, copy
from fractions import Fraction
import numpy as np
from harness.common import np_seed, Infra, parse_q, fstr, frac, RUN
from harness import spn as S
from harness.build import table_with_py
from harness.c01 import FAMILIES, cont_value, near_edge

from deeprob.spn.structure.node import Sum, Product, assign_ids, topological_order
from deeprob.spn.structure.leaf import Bernoulli, Categorical, Gaussian, Uniform, Isotonic
from deeprob.spn.structure.cltree import BinaryCLT
from deeprob.spn.structure.io import save_spn_json, load_spn_json, save_binary_clt_json, load_binary_clt_json
from deeprob.spn.algorithms.inference import log_likelihood

PTOL = 0.5e-8 + 1e-9     # half a unit of the 8th decimal (+ slack for the float64 -> decimal -> float path)


def f32(x):
    return float(np.float32(x))


def params_of(n):
    if isinstance(n, Sum):
        return [float(w) for w in n.weights]
    if isinstance(n, Bernoulli):
        return [float(n.p)]
    if isinstance(n, Categorical):
        return [float(p) for p in n.probabilities] + [float(c) for c in n.categories]
    if isinstance(n, Gaussian):
        return [float(n.mean), float(n.stddev)]
    if isinstance(n, Uniform):
        return [float(n.start), float(n.width)]
    if isinstance(n, Isotonic):
        return [float(d) for d in n.densities] + [float(b) for b in n.breaks]
    if isinstance(n, BinaryCLT):
        return [float(t) for t in n.tree] + [float(v) for v in np.asarray(n.params).reshape(-1)] + [float(n.root)]
    return []


def compare_models(a, b):
    """same kinds, scopes, child order (walked in parallel from the roots), parameters within the format's accuracy"""
    seen = {}
    stack = [(a, b)]
    while stack:
        x, y = stack.pop()
        if id(x) in seen:
            if seen[id(x)] is not y:
                return 'sharing differs: one node of the original corresponds to two nodes of the loaded model'
            continue
        seen[id(x)] = y
        if y is None:
            return f'{type(x).__name__} node #{x.id}: missing in the loaded model (a None child)'
        if type(x).__name__ != type(y).__name__:
            return f'node kind {type(x).__name__} became {type(y).__name__}'
        if [int(v) for v in x.scope] != [int(v) for v in y.scope]:
            return f'scope {list(x.scope)} became {list(y.scope)}'
        if len(x.children) != len(y.children):
            return f'{type(x).__name__} #{x.id}: {len(x.children)} children became {len(y.children)}'
        px, py = params_of(x), params_of(y)
        if len(px) != len(py):
            return f'{type(x).__name__} #{x.id}: parameter count changed'
        for u, v in zip(px, py):
            # single-precision storage applies to what the loader keeps in float32 arrays (weights, tables, histograms); the scalar
            # parameters of Gaussian / Uniform leaves are Python floats on both sides: the 8-decimal rounding is all there is
            single = 0.0 if isinstance(x, (Gaussian, Uniform)) else 2.0 ** -23 * max(abs(u), 1e-30)
            tol = PTOL + single + (1e-6 * abs(u) if isinstance(x, BinaryCLT) else 0)
            if u == v:          # covers -inf == -inf
                continue
            if math.isinf(u) or math.isinf(v):
                return f'{type(x).__name__} #{x.id}: parameter {u!r} became {v!r}'      # a probability of exactly 0 must stay exactly 0
            if not abs(u - v) <= tol:
                return f'{type(x).__name__} #{x.id}: parameter {u!r} became {v!r}'
        for cx, cy in zip(x.children, y.children):
            stack.append((cx, cy))
    return None


def save_load(root, via_path, tag):
    if isinstance(root, BinaryCLT) and not hasattr(root, '_as_spn'):
        saver, loader = save_binary_clt_json, load_binary_clt_json
    else:
        saver, loader = save_spn_json, load_spn_json
    if via_path:
        os.makedirs(RUN, exist_ok=True)
        path = os.path.join(RUN, f'c13_{os.getpid()}_{tag}.json')
        try:
            saver(root, path)
            txt = open(path).read()
            loaded = loader(path)
        finally:
            try:
                os.remove(path)
            except OSError:
                pass
    else:
        buf = io.StringIO()
        saver(root, buf)
        txt = buf.getvalue()
        loaded = loader(io.StringIO(txt))
    return txt, loaded


def eval_ll(root, X):
    if isinstance(root, BinaryCLT):
        return np.asarray(root.log_likelihood(X[:, root.scope])).reshape(-1)
    if not getattr(root, 'children', None):
        root.id = 0
    return np.asarray(log_likelihood(root, X)).reshape(-1)


def rows_for(root, order, rs, n=24):
    dom = S.domain_of(order)
    ncols = len(dom)
    cont = {}
    for nd in order:
        if S.is_continuous(nd):
            cont.setdefault(nd.scope[0], []).append(nd)
    X = np.zeros((n, ncols), dtype=np.float32)
    for r in range(n):
        for v in range(ncols):
            if v in cont:
                X[r, v] = cont_value(rs, cont[v])
            elif dom[v] > 0:
                X[r, v] = rs.randint(dom[v])
    keep = [r for r in range(n) if not near_support_edge(order, X[r])]
    return X[keep] if keep else X[:0]


def near_support_edge(order, x):
    for nd in order:
        if isinstance(nd, Uniform):
            v = float(x[nd.scope[0]])
            for t in (float(nd.start), float(nd.start) + float(nd.width)):
                if abs(v - t) <= 1e-6 * max(1.0, abs(t)) + 1e-6:
                    return True
        if isinstance(nd, Isotonic):
            v = float(x[nd.scope[0]])
            for t in nd.breaks:
                if abs(v - float(t)) <= 1e-6 * max(1.0, abs(float(t))) + 1e-6:
                    return True
    return False


def has_repeated_child(root):
    return any(len({id(c) for c in n.children}) != len(n.children) for n in S.bfs_order(root) if getattr(n, 'children', None))


def round_trip(ctx, name, root, rs, rep, known_repeated=False):
    order = S.children_first(root)[0]
    known_repeated = known_repeated or has_repeated_child(root)
    if known_repeated:
        ctx.count('models-with-a-repeated-child')
    ctx.count('model:' + name.split(':')[0])
    try:
        txt1, g1 = save_load(root, via_path=bool(rs.rand() < 0.3), tag='a')
    except Exception as ex:
        ctx.violation(f'c13-roundtrip-raises:{type(ex).__name__}', f'save/load raised {type(ex).__name__}: {ex} [{name}]', replay=rep)
        return
    why = compare_models(root, g1)
    if why:
        fp = 'c13-repeated-child' if known_repeated else 'c13-structure'
        ctx.violation(fp, f'loaded model differs: {why} [{name}]', replay=rep)
        return
    X = rows_for(root, order, rs)
    if len(X):
        a, b = eval_ll(root, X), eval_ll(g1, X)
        ok = np.abs(a - b) <= 1e-3 + 1e-4 * np.abs(a)
        big = (a < -1e29) & (b < -1e29)
        if not np.all(ok | big):
            r = int(np.argmin(ok | big))
            ctx.violation('c13-loglik', f'log-likelihood {float(a[r])} before vs {float(b[r])} after the round trip at {X[r].tolist()} [{name}]', replay=rep)
            return
    # generations: the loaded model is a fixed point from the first reload on
    try:
        txt2, g2 = save_load(g1, False, 'b')
        txt3, g3 = save_load(g2, False, 'c')
    except Exception as ex:
        ctx.violation(f'c13-roundtrip-raises:{type(ex).__name__}', f'second generation save/load raised {type(ex).__name__}: {ex} [{name}]', replay=rep)
        return
    for u, v, lab in ((g1, g2, '1->2'), (g2, g3, '2->3')):
        why = compare_models(u, v)
        if why:
            ctx.violation('c13-generations', f'generation {lab}: {why} [{name}]', replay=rep)
            return
    if txt2 != txt3:
        ctx.violation('c13-generations', f'the file text still changes between the second and third save [{name}]', replay=rep)
        return
    return txt1


def model_document_check(ctx, root, txt, rep):
    """the numbers in the document are exactly the model's round8 of the parameters (Bernoulli / Categorical / Gaussian / Sum)"""
    doc = json.loads(txt)
    nodes = topological_order(root)
    if any(not isinstance(n, (Sum, Product, Bernoulli, Categorical, Gaussian)) for n in nodes):
        return
    out = []
    for n in nodes:
        d = dict(id=int(n.id), cls=type(n).__name__, scope=[int(v) for v in n.scope], ch=[int(c.id) for c in n.children])
        if isinstance(n, Sum):
            d['weights'] = [fstr(frac(w)) for w in n.weights]
        elif isinstance(n, Bernoulli):
            d['params'] = [fstr(frac(n.p))]
        elif isinstance(n, Gaussian):
            d['params'] = [fstr(frac(n.mean)), fstr(frac(n.stddev))]
        elif isinstance(n, Categorical):
            d['params'] = [fstr(frac(p)) for p in n.probabilities]
        out.append(d)
    ans = ctx.get_driver().ask(dict(op='jsonrt', nodes=out))
    if ans == 'none':
        ctx.violation('c13-model-decode-none', 'model decode(encode m) = none for a model without repeated children', replay=rep, found_input=False)
        return
    model = {}
    for t in ans.split('|'):
        i, cls, scope, ch, w, p = t.split(':')
        model[int(i)] = (cls, [int(s) for s in scope.split()], [int(c) for c in ch.split()], [parse_q(x) for x in w.split()], [parse_q(x) for x in p.split()])
    for attr in doc['nodes']:
        cls, scope, ch, w, p = model[attr['id']]
        ctx.count('document-nodes-vs-model')
        ok = cls == attr['class'] and scope == attr['scope']
        if cls == 'Sum':
            ok = ok and [float(x) for x in w] == attr['weights']
        elif cls == 'Bernoulli':
            ok = ok and [float(x) for x in p] == [attr['params']['p']]
        elif cls == 'Gaussian':
            ok = ok and [float(x) for x in p] == [attr['params']['mean'], attr['params']['stddev']]
        elif cls == 'Categorical':
            ok = ok and [float(x) for x in p] == attr['params']['probabilities']
        if not ok:
            ctx.violation('c13-document-vs-model', f'document node {attr} differs from the model encoding {model[attr["id"]]}', replay=rep, found_input=False)
            return


def learned_models(ctx, k, rs):
    """models produced by the library's learners, incl. degenerate fits"""
    from deeprob.spn.learning.wrappers import learn_estimator, learn_classifier
    from deeprob.spn.learning.xpc import learn_xpc, learn_expc
    kind = k % 7
    nr = int(rs.choice([60, 120]))
    if kind in (0, 1, 2):
        dist = [Gaussian, Uniform, Isotonic][kind]
        nv = 3
        data = rs.randn(nr, nv).astype(np.float32) * 2
        if kind == 0:
            data[:, 1] = 1.25                      # constant column: sigma clamped to 1e-5
        elif kind == 2:
            data[:, 1] = np.round(data[:, 1])      # few distinct values: narrow histogram
        dom = [(float(data[:, j].min()), float(data[:, j].max())) for j in range(nv)]
        root = learn_estimator(data, [dist] * nv, dom, learn_leaf='mle', split_rows='kmeans', split_cols='rdc', min_rows_slice=30,
                               random_state=int(rs.randint(1000)), verbose=False)
        return f'learnspn-{dist.__name__}', root, dict(learner='learnspn', dist=dist.__name__)
    z = rs.randint(0, 2, size=(nr, 2))
    nv = int(rs.randint(4, 7))
    data = np.stack([np.where(rs.rand(nr) < 0.2, 1 - z[:, j % 2], z[:, j % 2]) for j in range(nv)], axis=1).astype(np.float32)
    if kind == 3:
        root, _ = learn_xpc(data, det=True, sd=False, min_part_inst=int(rs.choice([10, 20])), conj_len=2, arity=2, use_clt=True, random_seed=int(rs.randint(1000)))
        return 'xpc-det', root, dict(learner='xpc-det')
    if kind == 4:
        root, _ = learn_xpc(data, det=False, sd=True, min_part_inst=int(rs.choice([10, 20])), conj_len=2, arity=2, use_clt=True, random_seed=int(rs.randint(1000)))
        return 'xpc-sd', root, dict(learner='xpc-sd')
    if kind == 5:
        y = rs.randint(3, size=nr).astype(np.float32)
        y[:3] = [0, 1, 2]
        root = learn_classifier(np.hstack([data, y[:, None]]), [Bernoulli] * nv + [Categorical], learn_leaf='mle', split_rows='kmeans', split_cols='gvs',
                                min_rows_slice=30, random_state=int(rs.randint(1000)), verbose=False)
        return 'classifier', root, dict(learner='classifier')
    clt = BinaryCLT(list(range(nv)))
    clt.fit(data, [[0, 1]] * nv, alpha=0.1, random_state=int(rs.randint(1000)))
    return 'clt-fit', clt, dict(learner='clt-fit')


def run(ctx):
    quick = ctx.tier == 'quick'
    # hand-built circuits over every leaf family (Python-int scopes), incl. CLT leaves and sharing
    for k in range(60 if quick else 1500):
        rs = np.random.RandomState(np_seed(ctx.sub_rng('net', k)))
        nv = int(rs.randint(1, 5))
        kinds = FAMILIES[k % len(FAMILIES)]
        # sharing without listing one child object twice under the same node (that is the known finding F15; one in ten keeps it)
        root = S.rand_spn(rs, list(range(nv)), depth=int(rs.randint(0, 5)), kinds=kinds, share=float(rs.choice([0.0, 0.4, 0.8])), clt=(k % 3 == 0),
                          no_repeat=bool(k % 10))
        if isinstance(root, BinaryCLT):
            root._as_spn = True
        if getattr(root, 'children', None):
            assign_ids(root)
        else:
            root.id = 0
        table, order, _, _ = S.export_net(root)
        key = hashlib.sha256(json.dumps(table, sort_keys=True).encode()).hexdigest()[:16]
        ctx.case('hand-built', nontrivial_key=key if len(table) > 1 else None, sample=dict(nodes=len(table), kinds=S.describe(order)))
        rep = dict(kind='c13', table=table_with_py(table, order))
        txt = round_trip(ctx, 'hand-built', root, rs, rep)
        if txt and ctx.driver_ok and getattr(root, 'children', None):
            model_document_check(ctx, root, txt, rep)
        if ctx.n_new(with_input_only=True) >= 3:
            return
    # double-precision leaf parameters of large magnitude (unstandardised measurements): the format promises 8 DECIMALS, not 8 or 9
    # significant digits
    for k in range(6 if quick else 60):
        rs = np.random.RandomState(np_seed(ctx.sub_rng('large-params', k)))
        mag = 10.0 ** int(rs.randint(1, 7))
        comps = []
        for _ in range(int(rs.randint(2, 4))):
            g = Gaussian(0, float(rs.uniform(-1, 1) * mag + rs.rand() * 1e-3), float(rs.uniform(0.05, 3.0) + rs.rand() * 1e-6))
            u = Uniform(1, float(rs.uniform(-1, 1) * mag + rs.rand() * 1e-3), float(rs.uniform(0.5, 2.0) * mag * 0.01 + rs.rand() * 1e-6))
            comps.append(Product(children=[g, u]))
        w = rs.dirichlet(np.ones(len(comps))).astype(np.float32)
        root = assign_ids(Sum(children=comps, weights=(w / w.sum()).astype(np.float32)))
        ctx.count('large-double-precision-parameters')
        ctx.case('large-params', nontrivial_key=('large-params', k), sample=dict(magnitude=mag))
        rep = dict(kind='c13-large', k=k, seed=ctx.seed)
        cur = root
        for gen in range(2):
            try:
                txt, loaded = save_load(cur, via_path=bool(gen % 2), tag=f'large{k}_{gen}')
            except Exception as ex:
                ctx.violation(f'c13-raises:{type(ex).__name__}', f'save/load raised {type(ex).__name__}: {str(ex)[:200]} [large parameters]', replay=rep)
                break
            d = compare_models(root, loaded)
            if d:
                ctx.violation('c13-large-params', f'loaded model differs: {d} [double-precision parameters of magnitude {mag:g}, generation {gen + 1}]', replay=rep)
                break
            cur = loaded
        if ctx.n_new(with_input_only=True) >= 3:
            return
    # leaves FITTED (not constructed) with a domain that is not listed in increasing order: the fitted object keeps the caller's
    # order, the loader goes through the constructor
    from deeprob.spn.structure.leaf import Categorical as _Cat
    for k in range(6 if quick else 60):
        rs = np.random.RandomState(np_seed(ctx.sub_rng('fitted-leaves', k)))
        leaves = []
        for v in range(int(rs.randint(1, 4))):
            dom = [int(t) for t in rs.permutation(int(rs.randint(2, 6)))]
            lf = _Cat(v)
            data = rs.choice(dom, size=(int(rs.choice([20, 60])), 1), p=rs.dirichlet(np.ones(len(dom)))).astype(np.float32)
            lf.fit(data, dom, alpha=float(rs.choice([0.1, 1.0])))
            leaves.append(lf)
        comps = [Product(children=list(leaves)) if len(leaves) > 1 else leaves[0]]
        root = Sum(children=comps + [copy.deepcopy(comps[0])], weights=[0.4, 0.6])
        assign_ids(root)
        table, order, _, _ = S.export_net(root)
        ctx.case('fitted-leaves', nontrivial_key=('fitted-leaves', k), sample=dict(kind='fitted categorical leaves', domains=[[int(c) for c in l.categories] for l in leaves]))
        ctx.count('circuits-with-leaves-fitted-on-unsorted-domains')
        round_trip(ctx, 'fitted-leaves', root, rs, dict(kind='c13', table=table_with_py(table, order)))
        if ctx.n_new(with_input_only=True) >= 3:
            return
    # a Chow-Liu tree saved on its own
    for k in range(12 if quick else 150):
        rs = np.random.RandomState(np_seed(ctx.sub_rng('clt', k)))
        n = int(rs.randint(1, 7))
        clt = S.rand_clt(rs, [int(v) for v in rs.choice(n + 3, n, replace=False)])
        if k % 3 == 1 and n >= 2:
            # deterministic table rows (probability exactly 0 / 1, i.e. -inf log-parameters), as fitted with alpha = 0 on duplicated columns
            prm = np.array(clt.params, dtype=np.float64)
            j = int(rs.choice([i for i in range(n) if i != clt.root]))
            with np.errstate(divide='ignore'):
                prm[j, 0] = np.log([1.0, 0.0])
            clt.params = prm.astype(np.float32)
            ctx.count('clt-with-deterministic-row')
        ctx.case('clt', nontrivial_key=('clt', k), sample=dict(scope=list(clt.scope), tree=[int(t) for t in clt.tree]))
        round_trip(ctx, 'clt', clt, rs, dict(kind='c13-clt', scope=list(clt.scope), tree=[int(t) for t in clt.tree], params=np.asarray(clt.params).tolist(),
                                             root=int(clt.scope[clt.root])))
        if ctx.n_new(with_input_only=True) >= 3:
            return
    # models returned by the learners
    for k in range(14 if quick else 200):
        rs = np.random.RandomState(np_seed(ctx.sub_rng('learned', k)))
        try:
            name, root, cfg = learned_models(ctx, k, rs)
        except Exception as ex:
            ctx.count('learner-did-not-return')
            continue
        ctx.case('learned:' + name, nontrivial_key=('learned', k), sample=dict(cfg, k=k))
        round_trip(ctx, 'learned:' + name, root, rs, dict(kind='c13-learned', k=k, seed=ctx.seed, **cfg))
        if ctx.n_new(with_input_only=True) >= 3:
            return
    # known finding F15: the same child object listed twice under one node
    b = Bernoulli(0, 0.3)
    rr = assign_ids(Sum(children=[b, b], weights=[0.5, 0.5]))
    table, order, _, _ = S.export_net(rr)
    ctx.case('repeated-child', nontrivial_key='repeated-child', sample=dict(note='Sum with the same child object twice'))
    round_trip(ctx, 'repeated-child', rr, np.random.RandomState(0), dict(kind='c13', table=table_with_py(table, order)), known_repeated=True)


_run_core = run


def run(ctx):
    _run_core(ctx)
    if ctx.n_new() == 0 and ctx.driver_ok:
        from harness.common import run_demo
        run_demo(ctx, 'demo_io32.py', [20260929 + ctx.seed], 'c13-float-generations',
                 'save/load generations against the binary32/binary64 model (document numbers and stored values, exact)', env_extra=dict(DEMO_N='40' if ctx.tier == 'quick' else '300', DEMO_Q='4000' if ctx.tier == 'quick' else '24000'))
        if ctx.n_new() == 0:
            run_demo(ctx, 'demo_tr3.py', [1 + ctx.seed], 'c13-code-vs-generated-vs-model',
                     'spn_to_digraph / digraph_to_spn vs generated definitions vs Io model', env_extra=dict(DEMO_SECTIONS='f'))
        if ctx.n_new() == 0:
            run_demo(ctx, 'demo_graphio.py', [1 + ctx.seed], 'c13-clt-json-vs-model',
                     'binary_clt_to_digraph / digraph_to_binary_clt against the document model (3 generations, exact)')


def replay(rep):
    if rep['replay'].get('kind') == 'demo':
        from harness.common import replay_demo
        return replay_demo(rep['replay'])
    from harness.build import build_from_table
    r = rep['replay']
    if r['kind'] == 'c13':
        root, _ = build_from_table(r['table'])
    elif r['kind'] == 'c13-clt':
        root = BinaryCLT(r['scope'], root=r['root'], tree=r['tree'], params=np.array(r['params'], dtype=np.float32))
    else:
        from harness.common import Ctx
        ctx = Ctx('C13', 'quick', r['seed'])
        rs = np.random.RandomState(np_seed(ctx.sub_rng('learned', r['k'])))
        _, root, _ = learned_models(ctx, r['k'], rs)
    try:
        _, g = save_load(root, False, 'r')
    except Exception as ex:
        print('save/load raised', type(ex).__name__, ex)
        return False
    why = compare_models(root, g)
    print('compare:', why)
    return why is None
