"""Per-property registration: Lean modules to build, theorems to audit, translator fragments, harness module."""

PROPS = {
    'C01': dict(
        module='c01',
        modules=['DeeprobModel.Props.C01', 'DeeprobModel.Oblig.C01', 'DeeprobModel.Props.Clt'],
        theorems=['Deeprob.C01_semantics', 'Deeprob.C01_normalised', 'Deeprob.Circ.marg', 'Deeprob.Circ.normalised',
                  'Deeprob.evalNet_refines', 'Deeprob.valid_toTree', 'Deeprob.Clt.value_leafOK', 'Deeprob.Clt.up_normalised',
                  'Deeprob.Clt.joint_eq_up',
                  'Deeprob.Oblig.iso_ood_consistent', 'Deeprob.Oblig.iso_ood_pos', 'Deeprob.Oblig.floor_inactive'],
        fragments=['isoOodLik', 'isoOodLogLikArg', 'llFloor'],
        rule='random valid circuits (trees and DAGs, arity 1-5, every leaf family incl. CLT leaves, permuted and '
             'non-contiguous scopes) x complete rows (all assignments of small discrete domains, continuous values inside / '
             'on the edge of / outside the support); a case is non-trivial when the circuit has an inner node; distinct = '
             'distinct exported node table',
    ),
    'C02': dict(
        module='c02',
        modules=['DeeprobModel.Props.C02', 'DeeprobModel.Props.Clt'],
        theorems=['Deeprob.C02_marginal', 'Deeprob.C02_all_missing', 'Deeprob.Circ.marg', 'Deeprob.sumOver_set_eq',
                  'Deeprob.evalNet_refines', 'Deeprob.valid_toTree', 'Deeprob.Clt.up_marg', 'Deeprob.Clt.value_leafOK',
                  'Deeprob.Clt.value_marg', 'Deeprob.Clt.joint_eq_up', 'Deeprob.Clt.root_rows_needed'],
        fragments=[],
        rule='random valid circuits and Chow-Liu trees x per-row missing patterns mixed in one batch (all subsets of missing '
             'variables for small scopes); non-trivial = at least one missing and one observed variable in the batch and an '
             'inner node; distinct = distinct (node table, pattern set)',
    ),
    'C03': dict(
        module='c03',
        modules=['DeeprobModel.Props.C03'],
        theorems=['Deeprob.checkSpn_accept_iff', 'Deeprob.checkSpn_flags_accept_iff', 'Deeprob.checkSpn_reject_first',
                  'Deeprob.isLabeled_iff_perm', 'Deeprob.decompSpec_iff_flatten_nodup', 'Deeprob.checkSpn_sound',
                  'Deeprob.unionOnly_unsound', 'Deeprob.collect_reach', 'Deeprob.collect_nodup'],
        fragments=[],
        rule='bounded-exhaustive: every children-first node table with <= 3 (quick) / 4 (thorough) nodes over leaf/sum/product '
             'kinds x every child subset x scope labellings over two variables (+ id shift/clash/gap and weight-count '
             'corruptions on a subsample); random valid circuits x nine single structural corruptions; every entry point called '
             'on invalid circuits; non-trivial = more than one node; distinct = distinct node table',
    ),    'C12': dict(
        module='c12',
        modules=['DeeprobModel.Props.Clt'],
        theorems=['Deeprob.Clt.pc_eval', 'Deeprob.Clt.pc_valid', 'Deeprob.Clt.toPc_eval', 'Deeprob.Clt.pc_structured',
                  'Deeprob.Clt.get_scopes_spec', 'Deeprob.Clt.pc_deterministic', 'Deeprob.Clt.up_marg', 'Deeprob.Clt.root_rows_needed'],
        fragments=[],
        rule='every predecessor vector (rooted spanning tree) over <= 4 (quick) / 6 (thorough) variables, each with random tables '
             'and permuted non-contiguous scope labels, plus random larger trees; every complete and marginal query (3^n) for '
             'n <= 5; non-trivial = at least two variables; distinct = distinct (tree, labelling)',
    ),    'C11': dict(
        module='c11',
        modules=['DeeprobModel.Props.C11'],
        theorems=['Deeprob.C11.counts_incl_excl', 'Deeprob.C11.priors_sum_one', 'Deeprob.C11.joints_marginal',
                  'Deeprob.C11.cpt_is_smoothed_conditional', 'Deeprob.C11.cpt_root_is_smoothed_prior', 'Deeprob.C11.cpt_rows_sum_one',
                  'Deeprob.C11.cpt_pos', 'Deeprob.C11.isRootedSpanningTree_sound', 'Deeprob.C11.cycleOK_sound',
                  'Deeprob.C11.cycleOK_max', 'Deeprob.C11.cycleOK_max_simpleGraph', 'Deeprob.C11.mstBrute_sound',
                  'Deeprob.C11.fit_tree_maximal', 'Deeprob.C11.clt_normalised', 'Deeprob.C11.fit_normalised'],
        fragments=[],
        rule='binary data sets of eight families (random, constant columns, duplicated / negated columns, fewer rows than '
             'variables, chain-dependent, sparse, identical rows) x 1-7 variables x 1-40 rows x four smoothing constants x '
             'explicit and random roots x identity and shuffled scope labels; non-trivial = at least two variables; distinct = '
             'distinct (data, alpha, scope, root request)',
    ),    'C09': dict(
        module='c09',
        modules=['DeeprobModel.Props.C09', 'DeeprobModel.Props.C09Net'],
        theorems=['Deeprob.Circ.prune_preserves_eval', 'Deeprob.Circ.prune_preserves_eval_valid', 'Deeprob.Circ.prune_valid',
                  'Deeprob.Circ.prune_scope', 'Deeprob.Circ.prune_normalised', 'Deeprob.Circ.prune_normal_form',
                  'Deeprob.Circ.prune_fix_tree', 'Deeprob.Circ.prune_idem', 'Deeprob.pruneNetWith_eval', 'Deeprob.pruneNet_eval',
                  'Deeprob.prune_keeps_sharing', 'Deeprob.old_prune_single_child'],
        fragments=[],
        rule='hand-made witnesses (coinciding merged children, same child twice, nested same-kind nodes, single-child chains) and '
             'random valid circuits with sharing, chains and nested same-kind nodes over Bernoulli / Categorical leaves; '
             'non-trivial = more than one node; distinct = distinct node table',
    ),    'C10': dict(
        module='c10',
        modules=['DeeprobModel.Props.C10', 'DeeprobModel.Props.C10Net', 'DeeprobModel.Props.Clt'],
        theorems=['Deeprob.marginalize_guards', 'Deeprob.Circ.marginalize_eval', 'Deeprob.Circ.marginalize_eval_restrict',
                  'Deeprob.Circ.marginalize_is_marginal', 'Deeprob.Circ.marginalize_scope', 'Deeprob.Circ.marginalize_scope_eq',
                  'Deeprob.Circ.marginalize_valid', 'Deeprob.Circ.marginalize_none_iff', 'Deeprob.Circ.marginalize_accepts',
                  'Deeprob.marginalizeNetWith_eval', 'Deeprob.marginalizeNet_eval', 'Deeprob.Clt.toPc_eval', 'Deeprob.Clt.pc_valid'],
        fragments=[],
        rule='random valid circuits (sharing, chains, nested same-kind nodes; Bernoulli / Categorical leaves; one third with '
             'Chow-Liu-tree leaves) x kept subsets of the root scope (all for small scopes) x all assignments of the kept variables; '
             'circuits returned by learn_xpc (structured decomposable, CLT leaves) and LearnSPN with binary-clt leaves; the three '
             'argument guards; non-trivial = inner node and a proper kept subset; distinct = distinct (node table, kept set)',
    ),    'C06': dict(
        module='c06',
        modules=['DeeprobModel.Props.C06', 'DeeprobModel.Props.C06Net', 'DeeprobModel.Props.Clt', 'DeeprobModel.Props.Topo'],
        theorems=['Deeprob.C06.mpe_keeps_observed', 'Deeprob.C06.mpe_in_domain', 'Deeprob.C06.mpe_fills_scope',
                  'Deeprob.C06.mpe_outside_scope_unchanged', 'Deeprob.C06.mpe_completes', 'Deeprob.C06.topdown_one_leaf_per_var',
                  'Deeprob.C06.mpe_positive', 'Deeprob.C06.mpeNet_keeps_observed', 'Deeprob.C06.mpeNetOrd_refines', 'Deeprob.C06.mpeNet_refines',
                  'Deeprob.Clt.decode_keeps_observed', 'Deeprob.Clt.decode_fills_all', 'Deeprob.Clt.decode_attains_max',
                  'Deeprob.Clt.mpe_attains_max', 'Deeprob.Clt.up_max_eq_maxOver', 'Deeprob.Topo.kahn_topological',
                  'Deeprob.Topo.kahn_perm_collect', 'Deeprob.Topo.mpeNet_kahn_refines'],
        fragments=[],
        rule='random valid DAG circuits over Bernoulli / Categorical leaves (exact comparison of completions with the model on '
             'rows whose smallest arg-max margin exceeds 1e-4), circuits over every leaf family incl. CLT leaves (contract, '
             'in-place semantics, positivity), and Chow-Liu trees of every shape with <= 4 (quick) / 5 (thorough) variables plus '
             'random larger ones x all evidence patterns (brute-force maximality and model max-product value); '
             'non-trivial = inner node / >= 2 tree variables; distinct = distinct node table / (tree, labelling)',
    ),    'C07': dict(
        module='c07',
        modules=['DeeprobModel.Props.C07', 'DeeprobModel.Props.Clt', 'DeeprobModel.Oblig.C07'],
        theorems=['Deeprob.C07.sample_keeps_observed', 'Deeprob.C07.sample_fills_scope', 'Deeprob.C07.sample_outside_scope_unchanged',
                  'Deeprob.C07.sample_completes', 'Deeprob.C07.branchPmf_sums_to_one', 'Deeprob.C07.topDownPmf_exact',
                  'Deeprob.C07.topDownPmf_eq_cond', 'Deeprob.C07.topDownPmf_sums_to_one', 'Deeprob.C07.topDownPmf_joint',
                  'Deeprob.C07.cat_leaf_exact', 'Deeprob.Clt.samplePmf_exact', 'Deeprob.Clt.samplePmf_exact_value',
                  'Deeprob.Clt.samplePmf_exact_pos', 'Deeprob.Clt.old_clt_sampler_wrong', 'Deeprob.Clt.old_clt_sampler_wrong_child',
                  'Deeprob.Oblig.sum_sample_noise_is_standard_gumbel_r'],
        fragments=['sumSampleNoise'],
        rule='(a) distribution test at the API: (circuit or Chow-Liu tree, evidence) cases with <= 256 outcomes, N draws each, decided '
             'by Hoeffding + union bound at family-wise level 1e-9 against the exact conditional pmf computed by the model in Q '
             '(continuous variables: DKW band against the exact conditional cdf); (b) intercepted Bernoulli parameters of the CLT '
             'sampler compared with the model local conditionals to 1e-5; non-trivial = every case (all have a sum node or >= 2 '
             'tree variables); distinct = distinct (model, evidence)',
        level_note='Trusted in addition: the Gumbel-max identity linking the extracted noise law (standard right-skewed Gumbel) to the '
                   'categorical branch law; SciPy rvs implement the laws they name; the finite-sample decision has family-wise error '
                   '< 1e-9 per run. Lean kernel, Mathlib, translator, harness, driver as for the other checks.',
    ),    'C15': dict(
        module='c15',
        modules=['DeeprobModel.Props.C15'],
        theorems=['Deeprob.Flows.masks_strictly_autoregressive', 'Deeprob.Flows.masks_strictly_autoregressive_sequential',
                  'Deeprob.Flows.masks_strictly_autoregressive_random', 'Deeprob.Flows.made_output_depends_only_on_smaller_degree',
                  'Deeprob.Flows.dependency_strictly_lower_triangular', 'Deeprob.Flows.maf_forward_backward', 'Deeprob.Flows.maf_backward_forward',
                  'Deeprob.Flows.maf_ldj_antisymm', 'Deeprob.Flows.masks_complementary', 'Deeprob.Flows.coupling_inverse', 'Deeprob.Flows.coupling_inverse_channelwise',
                  'Deeprob.Flows.coupling_ldj', 'Deeprob.Flows.coupling_ldj_antisymm', 'Deeprob.Flows.det_triangular_by_degree', 'Deeprob.Flows.maf_ldj_is_logdet',
                  'Deeprob.Flows.coupling_ldj_is_logdet', 'Deeprob.Flows.compose_logdet', 'Deeprob.Flows.squeeze_unsqueeze', 'Deeprob.Flows.unsqueeze_squeeze',
                  'Deeprob.Flows.squeeze_bijective', 'Deeprob.Flows.permMatrix_is_permutation', 'Deeprob.Flows.convT_inverts_conv', 'Deeprob.Flows.multiscale_inverse',
                  'Deeprob.Flows.bn_inverse', 'Deeprob.Flows.bn_ldj_antisymm', 'Deeprob.Flows.logit_inverse', 'Deeprob.Flows.logit_ldj_antisymm',
                  'Deeprob.Flows.compose_inverse', 'Deeprob.Flows.compose_ldj', 'Deeprob.Flows.flow_log_prob'],
        fragments=[],
        rule='exact: MADE degrees / masks / inverse orderings / dependency matrices (sequential and random orderings), squeeze and '
             'unsqueeze index maps, coupling masks, permutation matrices vs the model; numeric (float64, 1e-6): round trips both ways, '
             'forward/backward log-det antisymmetry, autograd Jacobian slogdet vs reported log-det, log_prob vs change of variables '
             'for coupling / autoregressive layers and MAF, RealNVP1d, RealNVP2d (resnet, densenet; batch-norm, affine / additive, '
             'logit) with parameters and running statistics randomised after construction; non-trivial = every configuration; '
             'distinct = distinct configuration',
        level_note='Trusted in addition: derivatives of element-wise functions (the Jacobian theorems are stated for any matrix with the '
                   'proved sparsity pattern and diagonal), PyTorch autograd as the numeric oracle. Lean kernel, Mathlib, harness, driver '
                   'as for the other checks.',
    ),    'C19': dict(
        module='c19',
        modules=['DeeprobModel.Props.C19', 'DeeprobModel.Oblig.C19'],
        theorems=['Deeprob.C19.moment_exact', 'Deeprob.C19.momentNet_exact', 'Deeprob.C19.moment_exact_abstract', 'Deeprob.C19.moment_zero',
                  'Deeprob.C19.moment_negative', 'Deeprob.C19.bernoulli_moment', 'Deeprob.Oblig.C19.variance_is_central2',
                  'Deeprob.Oblig.C19.skewness_is_central3', 'Deeprob.Oblig.C19.skewness_sigma', 'Deeprob.Oblig.C19.kurtosis_is_excess',
                  'Deeprob.Oblig.C19.moment_guard'],
        fragments=['moments.variance', 'moments.skewness', 'moments.kurtosis', 'moments.skewness.parts', 'moments.moment.guard'],
        rule='valid circuits (trees and DAGs) with root scope {0..n-1} in any order over Bernoulli / Categorical / Gaussian / '
             'Uniform / Isotonic leaves; orders 0-4 and a negative order; raw moments against the exact model value (closed-form leaf '
             'moments), derived statistics against the textbook formulas evaluated on the implementation\'s own raw moments with a '
             'condition-number-scaled float32 tolerance (variables with variance < 1e-3 skipped); non-trivial = inner node; '
             'distinct = distinct node table',
    ),    'C20': dict(
        module='c20',
        modules=['DeeprobModel.Props.C20'],
        theorems=['Deeprob.C20.posterior_rows_normalised', 'Deeprob.C20.posterior_def', 'Deeprob.C20.softmax_is_posterior',
                  'Deeprob.C20.predict_is_argmax', 'Deeprob.C20.predict_is_argmax_log', 'Deeprob.C20.old_predict_proba_wrong'],
        fragments=[],
        rule='classifiers fitted on data with 2-5 classes (binary and Gaussian features) queried with 1, K, K+3 and more rows (30% '
             'missing features): shape, row sums, every entry against the exact posterior computed by the model from the class '
             'sub-circuit values, predict against the arg-max (margin rule), sampling with given labels / requested counts; density '
             'estimators: log-probabilities, MPE and (conditional) samples against the wrapped circuit; non-trivial = every fitted '
             'model; distinct = distinct learned circuit',
    ),    'C13': dict(
        module='c13',
        modules=['DeeprobModel.Props.C13', 'DeeprobModel.Oblig.C13'],
        theorems=['Deeprob.C13.round8_err', 'Deeprob.C13.round8_idem', 'Deeprob.C13.decode_encode', 'Deeprob.C13.decode_encode_id',
                  'Deeprob.C13.gen_idempotent_partial', 'Deeprob.C13.repeated_child_loses_edge',
                  'Deeprob.Oblig.C13.fit_loadable_gaussian', 'Deeprob.Oblig.C13.em_loadable_gaussian', 'Deeprob.Oblig.C13.fit_loadable_bernoulli',
                  'Deeprob.Oblig.C13.weights_loadable', 'Deeprob.Oblig.C13.probabilities_loadable', 'Deeprob.Oblig.C13.densities_loadable',
                  'Deeprob.Oblig.C13.round8_is_generated'],
        fragments=['Gaussian.__init__', 'Gaussian.fit.clamp', 'Gaussian.em_step.clamp', 'Bernoulli.__init__', 'Bernoulli.fit', 'Categorical.fit', 'Sum.__init__', 'Categorical.__init__', 'Isotonic.__init__', 'jsonDigits'],
        rule='hand-built circuits over every leaf family (incl. CLT leaves, sharing), Chow-Liu trees saved alone, circuits returned '
             'by LearnSPN (Gaussian with a constant column, Uniform, Isotonic), XPC (deterministic; structured decomposable), the '
             'classifier wrapper and CLT fitting; path and file-object targets; three generations; document numbers compared with the '
             'model encoding exactly; inputs within 1e-6 of a histogram break / support edge excluded from the log-likelihood '
             'comparison; non-trivial = more than one node; distinct = distinct node table / learner configuration',
    ),    'C14': dict(
        module='c14',
        modules=['DeeprobModel.Props.C14', 'DeeprobModel.Props.C14Net', 'DeeprobModel.Oblig.C14'],
        theorems=['Deeprob.C14.em_prefix_inv', 'Deeprob.C14.backward_is_derivative', 'Deeprob.C14.backward_is_derivative_valid',
                  'Deeprob.C14.root_affine_in_node', 'Deeprob.C14.backward_is_reverse_mode', 'Deeprob.C14.resp_is_posterior',
                  'Deeprob.C14.resp_is_mass_through_node', 'Deeprob.C14.resp_root_sums_to_one', 'Deeprob.C14.backward_tree_agrees',
                  'Deeprob.C14.decomposability_needed', 'Deeprob.C14.resp_sum_one', 'Deeprob.Oblig.C14.sum_em_simplex', 'Deeprob.Oblig.C14.bernoulli_em_range',
                  'Deeprob.Oblig.C14.categorical_em_simplex', 'Deeprob.Oblig.C14.gaussian_em_sigma_pos', 'Deeprob.Oblig.C14.clt_em_cell_in_unit_pa1',
                  'Deeprob.Oblig.C14.clt_em_cell_in_unit_pa0', 'Deeprob.Oblig.C14.clt_em_rows_normalised', 'Deeprob.Oblig.C14.clt_em_table_ok',
                  'Deeprob.Oblig.C14.sum_is_convex_update', 'Deeprob.Oblig.C14.bernoulli_is_convex_update', 'Deeprob.Oblig.C14.categorical_is_convex_update',
                  'Deeprob.Oblig.C14.gaussian_mean_is_convex_update', 'Deeprob.Oblig.C14.gaussian_std_is_convex_update',
                  'Deeprob.Oblig.C14.clt_is_convex_update', 'Deeprob.Oblig.C14.em_guard'],
        fragments=['Sum.em_step', 'Bernoulli.em_step', 'Categorical.em_step', 'Gaussian.em_step.mean', 'Gaussian.em_step.stddev', 'BinaryCLT.em_step', 'em.guards'],
        rule='random valid DAG circuits over Bernoulli / Categorical / Gaussian / Chow-Liu-tree leaves, random data (one in seven with a '
             'constant column), step sizes and batch fractions in (0,1), random and given initialisation; single iterations repeated '
             '4 (quick) / 8 (thorough) times with a RandomState that reveals the sampled batch; after every iteration: structure, '
             'validity, simplex / domain / normalisation invariants, and every parameter against the model step (generated formulas '
             'at Q on the exact responsibilities of that batch); non-trivial = every circuit (all have a sum node); distinct = '
             'distinct node table',
        level_note='backward_is_derivative is proved for DAGs with sharing (decomposable tables); the log-domain implementation of the backward '
                   'pass (float32, division by child values) is tied to the division-free model through the per-parameter comparison of every EM '
                   'step. Trusted as for the other checks.',
    ),    'C18': dict(
        module='c18',
        modules=['DeeprobModel.Props.C18', 'DeeprobModel.Props.Clt'],
        theorems=['Deeprob.C18.cnet_eval', 'Deeprob.C18.cnet_normalised', 'Deeprob.C18.cnetWellFormed_sound', 'Deeprob.C18.cnetWellFormed_weights',
                  'Deeprob.Clt.value_leafOK', 'Deeprob.Clt.up_normalised'],
        fragments=[],
        rule='binary data sets of five families (random, clustered, constant column, identical rows, sparse) x 2-8 variables x 4-150 '
             'rows x the three learners (entropy-based fit, BDeu, BIC) with varying thresholds / equivalent sample sizes / candidate '
             'cut counts; every binary row (2^n, enumerated): implementation value vs the independent routing semantics, vs the exact '
             'model OR-tree value, total mass; structure validator; non-trivial = every learned network; distinct = distinct (data, learner, '
             'arguments)',
    ),    'C16': dict(
        module='c16',
        modules=['DeeprobModel.Props.C16'],
        theorems=['Deeprob.RatSpn.regions_partition', 'Deeprob.RatSpn.leaf_regions_partition', 'Deeprob.RatSpn.leaf_sizes', 'Deeprob.RatSpn.pad_count',
                  'Deeprob.RatSpn.unpad_each_var_once_idx', 'Deeprob.RatSpn.unpad_each_var_once', 'Deeprob.RatSpn.unpad_scatter', 'Deeprob.RatSpn.unpad_in_domain',
                  'Deeprob.RatSpn.old_unpad_keeps_pads', 'Deeprob.RatSpn.mpe_keeps_observed', 'Deeprob.RatSpn.topdown_reaches_one_repetition',
                  'Deeprob.RatSpn.unroll_valid', 'Deeprob.RatSpn.ratspn_marg', 'Deeprob.RatSpn.ratspn_normalised', 'Deeprob.RatSpn.pad_dummies_neutral'],
        fragments=[],
        rule='architectures (features 2-12, every admissible depth, repetitions 1-3, random batch / sum sizes, 1-3 classes, random '
             'parameters): on the implementation the exhaustive total mass over 2^n inputs (n <= 9), NaN-marginals against explicit sums, '
             'all-missing = 0, MPE / sample shape, domain and evidence, sample law (Hoeffding, level 1e-9) on padded architectures; against '
             'the model: region layers, padding / mask buffers, unpad gather (exact), forward values of the unrolled circuit (exact '
             'rationals, 1e-4); non-trivial = every architecture; distinct = distinct (features, depth, repetitions, seed)',
        level_note='The clause "samples follow the model distribution" is decided by the finite-sample test only (no theorem: the top-down '
                   'index propagation is proved to reach one repetition in buffer order, not to induce the exact law). Trusted as elsewhere.',
    ),
    'C17': dict(
        module='c17',
        modules=['DeeprobModel.Props.C17'],
        theorems=['Deeprob.DgcSpn.dgc_size', 'Deeprob.DgcSpn.dgc_scope_1d', 'Deeprob.DgcSpn.dgc_scope_1d_nopool', 'Deeprob.DgcSpn.dgc_pool_scope',
                  'Deeprob.DgcSpn.dgc_product_disjoint', 'Deeprob.DgcSpn.dgc_final_full', 'Deeprob.DgcSpn.dgc_sum_same_scope', 'Deeprob.DgcSpn.dgc_valid',
                  'Deeprob.DgcSpn.dgc_marg', 'Deeprob.DgcSpn.dgc_normalised', 'Deeprob.DgcSpn.dgc_mpe_keeps_observed'],
        fragments=[],
        rule='configurations (sides 2-12 incl. non powers of two, every pooling count dividing the side, three depth-wise settings, 1-3 '
             'channels and classes, random parameters): all-missing = 0, each pixel used exactly once by the induced sub-circuits (leaf '
             'gradients sum to 1), MPE keeps observed pixels; against the model: per-layer schedule and the scope of every cell (exact; '
             'empirical scopes found by perturbing one pixel), forward values of the unrolled circuit; non-trivial = every configuration; '
             'distinct = distinct configuration',
    ),    'C05': dict(
        module='c05',
        modules=['DeeprobModel.Props.C05', 'DeeprobModel.Oblig.C05'],
        theorems=['Deeprob.Learn.learn_weights_follow_children', 'Deeprob.Learn.learn_final_proportions', 'Deeprob.Learn.learn_leaf_rows',
                  'Deeprob.Learn.fifo_requeue_breaks', 'Deeprob.Learn.classifier_root_weights', 'Deeprob.Learn.learn_inv',
                  'Deeprob.Oblig.C05.requeue_is_front'],
        fragments=['learnspn.requeue'],
        rule='the real learn_spn driven through its public split_rows / split_cols / learn_leaf callables by PRNG-scripted answers on '
             'self-describing data (entry (r,c) = 1000c + r; near-constant and constant stretches to reach REM_FEATURES / SPLIT_NAIVE): '
             'every fail/succeed pattern of the next column split x row split for 2-3 siblings, 2^4 column patterns for 4 siblings, random '
             'scripts; the same script replayed in the Lean queue machine with the re-queue discipline extracted from the source; '
             'classifier wrapper vs class frequencies; non-trivial = result has a sum node; distinct = distinct consultation script',
    ),    'C04': dict(
        module='c04',
        modules=['DeeprobModel.Props.C04', 'DeeprobModel.Props.C04Xpc', 'DeeprobModel.Props.C03', 'DeeprobModel.Props.Clt'],
        theorems=['Deeprob.Learn.learn_inv', 'Deeprob.Learn.learn_inv_step', 'Deeprob.Learn.learn_final_valid', 'Deeprob.checkSpn_accept_iff',
                  'Deeprob.checkSpn_sound', 'Deeprob.Clt.pc_structured', 'Deeprob.Clt.get_scopes_spec',
                  'Deeprob.buildXpc_valid', 'Deeprob.buildXpc_scope', 'Deeprob.buildXpc_normW', 'Deeprob.buildXpc_normalised',
                  'Deeprob.expc_valid', 'Deeprob.xpc_sd_laminar', 'Deeprob.expc_sd_laminar'],
        fragments=['learnspn.requeue'],
        rule='(i) LearnSPN under scripted splitters (every oracle behaviour); (ii) built-in row splitters x column splitters x leaf '
             'learners (mle, binary-clt with and without conversion) on binary data with constant / duplicated / near-constant columns '
             'and few rows; (iii) Gaussian / Uniform / Isotonic / Categorical leaves incl. a constant column; (iv) the classifier wrapper; '
             '(v) XPC and ensemble-XPC over det x sd x conjunction length x arity x minimum instances x CLT leaves x seeds. Every returned '
             'circuit: validator (independent spec + model checkSpn), root scope, positive normalised weights, leaf domains, exact total '
             'mass through the model, exhaustive mass on small binary domains, laminar product scopes when sd is requested; learner '
             'exceptions are not returns and are only counted; non-trivial = every returned circuit; distinct = distinct configuration',
        level_note='The queue machine theorems (learn_inv, learn_final_valid) cover LearnSPN for every splitter behaviour; build_xpc is '
                   'modelled (buildXpc_valid, xpc_sd_laminar: for every partition tree satisfying PartInv / the sd discipline) with the random '
                   'partitioning as an oracle whose actual output is exported and checked (partInvB, sdInvB) on every run. Trusted as elsewhere.',
    ),    'C08': dict(
        module='c08',
        modules=['DeeprobModel.Props.C08', 'DeeprobModel.Props.C08WellOrdered', 'DeeprobModel.Props.C06', 'DeeprobModel.Props.Topo'],
        theorems=['Deeprob.Sched.topdown_atomic_schedule_indep', 'Deeprob.Sched.orInto_idem', 'Deeprob.Sched.layers_partition',
                  'Deeprob.Sched.layers_edge_lt', 'Deeprob.Sched.bottomup_schedule_indep', 'Deeprob.Sched.bottomup_schedule_indep_perm',
                  'Deeprob.Sched.nonatomic_lost_update', 'Deeprob.Sched.disciplinedB_iff', 'Deeprob.Sched.disciplined_imp_indep',
                  'Deeprob.C06.topdown_one_leaf_per_var', 'Deeprob.Topo.layers_some', 'Deeprob.Topo.layers_flatten_topological',
                  'Deeprob.Topo.mpeNet_layers_refines'],
        fragments=[],
        rule='circuits with k parents of one layer sharing a child (k = 2, 4, 5, 16), random DAGs with sharing; for n_jobs in {2, 4, -1}: '
             'likelihood / log_likelihood / mpe equal to the sequential result, sample complete and evidence-preserving; recorded '
             'accesses (hook) of the bottom-up and top-down parallel passes: barrier between layers, lock discipline decided by the '
             'verified checker disciplinedB (theorem disciplined_imp_indep then covers every interleaving), layered order vs the model; '
             'on a discipline violation the real code is stressed (16 parents, 2e6 rows, 16 threads) for a lost update; non-trivial = '
             'circuit with a shared child; distinct = distinct node table',
        level_note='The theorem quantifies over all interleavings of the MODELLED atomic actions. That the recorded accesses are all the '
                   'accesses, that an OR-update under the lock is atomic w.r.t. other lock holders, and that joblib returns only after all '
                   'tasks of a layer finished are runtime facts observed through the hook (guard DEEPROB_KIT_VERIF=1), not proved.',
    ),
}

NOT_CLAIMED = {}
HOOK_COMMITS = ['d76eef1', 'eb1fdbf']


# ----------------------------------------------------------------------------- structural obligations (tie 1 for hand-written models)
def _add(prop, module, ns, thms, frags):
    R = PROPS[prop]
    if module not in R['modules']:
        R['modules'].append(module)
    R['theorems'] += [f'{ns}.{t}' for t in thms if f'{ns}.{t}' not in R['theorems']]
    R['fragments'] = list(R.get('fragments', [])) + [f for f in frags if f not in R.get('fragments', [])]


_O = 'DeeprobModel.Oblig.'
_N = 'Deeprob.Oblig.'
_VAL = ['isLabeled_as_coded', 'isSmooth_as_coded', 'isDecomposable_as_coded', 'checkSpn_order']
_VALF = ['validity.is_labeled', 'validity.is_smooth', 'validity.is_decomposable', 'validity.check_spn']
_add('C03', _O + 'StructValidity', _N + 'StructValidity', _VAL, _VALF)
_add('C04', _O + 'StructValidity', _N + 'StructValidity', _VAL, _VALF)
_add('C08', _O + 'StructSched', _N + 'StructSched', ['topdown_stores_shape', 'topdown_mask_updates_locked_or', 'topdown_selectors', 'topdown_leaf_store',
                                                      'topdown_lock_shared', 'bottomup_writes_own_row'], ['evaluation.eval_top_down', 'evaluation.eval_bottom_up'])
_add('C16', _O + 'StructRatSpn', _N + 'StructRatSpn', ['splitRegion_as_coded', 'nextRegions_as_coded', 'padOf_as_coded', 'dimOf_as_coded', 'unpad_as_coded', 'unpad_negates'],
     ['region.random_layers', 'ratspn.pad', 'ratspn.unpad_samples'])
_add('C09', _O + 'StructRewrite', _N + 'StructRewrite', ['single_as_coded', 'merged_single_as_coded', 'pruneNet_is_repaired', 'pruneStep_uses_collapse'], ['structure.prune'])
_add('C10', _O + 'StructRewrite', _N + 'StructRewrite', ['margGuard_as_coded', 'pruneNet_is_repaired'], ['structure.marginalize.guards', 'structure.prune'])
_add('C10', _O + 'StructClt', _N + 'StructClt', ['to_pc_as_coded', 'toPc_row'], ['cltree.to_pc'])
_add('C06', _O + 'StructTopDown', _N + 'StructTopDown', ['sum_mpe_as_coded', 'mpeBr_is_argmax_of_products', 'bernIdx_as_coded', 'catMode_as_coded', 'catMode_uses_argmax'],
     ['inference.sum_mpe.selector', 'inference.sum_mpe.score', 'Bernoulli.mpe', 'Categorical.mpe'])
_add('C06', _O + 'StructClt', _N + 'StructClt', ['message_passing_as_coded', 'upMax_is_up_with_max'], ['cltree.message_passing'])
_add('C02', _O + 'StructClt', _N + 'StructClt', ['message_passing_as_coded', 'up_missing_is_sum'], ['cltree.message_passing'])
_add('C07', _O + 'StructClt', _N + 'StructClt', ['sample_as_coded', 'localCond_one', 'message_passing_as_coded'], ['cltree.sample', 'cltree.sample.formula', 'cltree.message_passing'])
_add('C12', _O + 'StructClt', _N + 'StructClt', ['to_pc_as_coded', 'toPc_row'], ['cltree.to_pc'])
_add('C11', _O + 'StructCltFit', _N + 'StructCltFit', ['prior_as_coded', 'cell_as_coded', 'joint_offdiag_as_coded', 'joint_diag_as_coded', 'guard_as_coded'],
     ['statistics.estimate_priors_joints'])
_add('C15', _O + 'StructFlows', _N + 'StructFlows', ['maskLE_as_coded', 'maskLT_as_coded', 'buildMasks_as_coded', 'hiddenDegreesSeq_as_coded', 'inputDegreesSeq_as_coded',
                                                      'squeezeSrc_as_coded', 'unsqueezeSrc_as_coded', 'orderingBit_as_coded', 'permIndex_as_coded', 'permWeight_is_indexed'],
     ['autoregressive.build_masks', 'autoregressive.build_degrees_sequential', 'flows.utils.squeeze_depth2d', 'flows.utils.unsqueeze_depth2d', 'realnvp.build_permutation_matrix'])
_add('C17', _O + 'StructDgcSpn', _N + 'StructDgcSpn', ['cfgAt_as_coded', 'levels_as_coded', 'keff_as_coded', 'pads_as_coded', 'outSize_as_coded', 'outChannels_as_coded'],
     ['dgcspn.schedule', 'dgcspn.SpatialProductLayer'])

# wave 3: LearnSPN termination / total correctness, cutset-network learners, float32 generations
_add('C05', 'DeeprobModel.Props.C05Term', 'Deeprob.LearnTerm', ['step_proper_decreases', 'learn_terminates', 'learn_terminates_script', 'learn_total', 'learn_total_stream'], [])
_add('C04', 'DeeprobModel.Props.C05Term', 'Deeprob.LearnTerm', ['learn_terminates', 'learn_total'], [])
_add('C18', 'DeeprobModel.Props.C18Learn', 'Deeprob.CnetLearn',
     ['learned_tree_good', 'learn_loop_terminates', 'learned_weights', 'fit_empty_branch', 'score_learners_no_empty_branch', 'leaf_rows_are_path_filter',
      'leaf_rows_partition', 'learned_cnet_wellFormed', 'learned_cnet_normalised', 'learned_cnet_batch', 'learned_eval_is_path_product',
      'learned_cnet_wellFormedB', 'learn_nosplit_is_single_clt', 'learn_nosplit_value', 'old_fit_nosplit_loses_tree', 'score_learners_ncand_one_raises'], [])
_add('C13', 'DeeprobModel.Props.C13Gen', 'Deeprob.Io32',
     ['f32_idem', 'f32_mono', 'f32_nearest', 'f32_nearest_repr', 'f32_repr', 'f32_fixed', 'f32_rel_err', 'f64_idem', 'f64_nearest', 'around64_is_save_on_f32',
      'docs_stable_from_gen2', 'docs_stable_from_gen2_f64', 'docs_stable_from_gen1_of_f32', 'gen1_may_differ', 'reload_is_fixed_point', 'gen_stable',
      'genDocs_stable', 'chain_bounded'], [])
_add('C16', 'DeeprobModel.Props.C16Sample', 'Deeprob.RatSample',
     ['ratspn_pass_is_topdown', 'ratspn_sample_exact', 'ratspn_sample_eq_cond', 'ratspn_sample_sums_to_one', 'ratspn_sample_law', 'ratspn_sample_law_normalised',
      'ratspn_sample_rowlaw', 'ratspn_sample_law_anyclass', 'ratspn_sample_contract', 'ratspn_mpe_is_descent', 'ratspn_mpe_contract', 'mpe_descent_not_maximal'], [])

# translator wave 3 (structural fragments of inference, learners, cnet evaluation, moments, facade, io, EM responsibilities)
_S3 = 'Deeprob.Struct3'
_INF = ['sum_likelihood_as_coded', 'product_likelihood_as_coded', 'node_likelihood_as_coded', 'eval_sum_as_coded', 'eval_prod_as_coded', 'evalNode_inner_as_coded',
        'evalForward_children_as_coded', 'sum_log_likelihood_as_coded', 'product_log_likelihood_as_coded', 'node_log_likelihood_as_coded', 'node_log_likelihood_sum',
        'node_log_likelihood_prod', 'bernoulli_likelihood_as_coded', 'categorical_likelihood_as_coded', 'bernoulli_log_likelihood_as_coded', 'categorical_log_likelihood_as_coded']
_INFF = ['node.Sum.likelihood', 'node.Product.likelihood', 'node.Sum.log_likelihood', 'node.Product.log_likelihood', 'inference.node_likelihood',
         'inference.node_log_likelihood', 'evaluation.eval_forward', 'leaf.Bernoulli.likelihood', 'leaf.Bernoulli.log_likelihood', 'leaf.Categorical.likelihood',
         'leaf.Categorical.log_likelihood']
for _p in ('C01', 'C02'):
    _add(_p, _O + 'Struct3Inference', _S3, _INF, _INFF)
_LRN = ['unique_eq_uniqSorted', 'rowsWhere_eq_pick', 'slicesOf_as_coded', 'weightsOf_as_coded', 'colScopes_as_coded', 'task_defaults_as_coded', 'learn_loop_as_coded',
        'requeue_side_as_coded', 'single_as_coded', 'step_splitRows_as_coded', 'step_splitCols_as_coded', 'step_remFeatures_as_coded']
_LRNF = ['rows.split_rows_clusters', 'cols.split_cols_clusters', 'learnspn.Task', 'learnspn.loop', 'learnspn.SPLIT_ROWS', 'learnspn.SPLIT_COLS', 'learnspn.CREATE_LEAF',
         'learnspn.SPLIT_NAIVE', 'learnspn.REM_FEATURES']
for _p in ('C05', 'C04'):
    _add(_p, _O + 'Struct3Learn', _S3, _LRN, _LRNF)
_add('C18', _O + 'Struct3Cnet', _S3, ['cnetRun_or_as_coded', 'cnetRun_leaf_as_coded', 'cnetBatch_init_as_coded', 'cols_aligned'], ['cnet.log_likelihood'])
_add('C19', _O + 'Struct3Moments', _S3, ['leaf_moment_as_coded', 'moment_inner_as_coded', 'momNode_as_coded', 'momentApi_as_coded'], ['moments.moment', 'moments.leaf_moment'])
_add('C20', _O + 'Struct3Posterior', _S3, ['predict_log_proba_as_coded', 'predict_proba_as_coded', 'predict_as_coded'],
     ['sklearn.predict_log_proba', 'sklearn.predict_proba', 'sklearn.predict'])
_add('C13', _O + 'Struct3Io', _S3, ['encodeNode_as_coded', 'nodeEdges_as_coded', 'place_as_coded', 'decode_roles_as_coded'], ['io.spn_to_digraph', 'io.digraph_to_spn'])
_add('C14', _O + 'Struct3Em', _S3, ['resp_entry_as_coded', 'respSum_as_coded', 'respLeaf_as_coded'], ['em.responsibilities'])
for _p in ('C01', 'C02', 'C19'):
    PROPS[_p]['modules'].append(_O + 'Struct3GenRat') if _O + 'Struct3GenRat' not in PROPS[_p]['modules'] else None

# wave 4: leaf families (histogram / uniform / discrete: densities, cdf, inverse transform, moments as integrals), visiting order
# of message passing and the JSON form of Chow-Liu trees
_LT = ['isoPdf_nonneg', 'isoPpf_cdf', 'isoPpf_cdf_inv', 'isoCdf_closed_form', 'isoCdf_monotone', 'inverse_transform_sandwich', 'inverse_transform_law',
       'iso_integral_one', 'isoCdf_is_integral', 'isoMoment_is_integral', 'inverse_transform_measure', 'iso_rat_is_integral',
       'height_proportional_sampling_is_wrong', 'mass_moment_is_wrong', 'uniform_is_one_bin', 'uniform_integral_one', 'uniform_moment', 'uniform_width_zero',
       'uniform_inverse_transform', 'bernoulli_sum_one', 'bernoulli_is_categorical', 'categorical_sum_one', 'categorical_moment_is_expectation',
       'index_moment_is_wrong', 'categorical_mode_is_argmax_category', 'bernoulli_mode_maximal', 'categorical_leaf_ok', 'categorical_leaf_moment_exact',
       'equal_widths_readings_agree', 'edge_modes_as_coded']
_add('C19', 'DeeprobModel.Props.LeafTheory', 'Deeprob.LeafTheory', ['isoMoment_is_integral', 'iso_rat_is_integral', 'uniform_moment', 'categorical_moment_is_expectation',
     'index_moment_is_wrong', 'mass_moment_is_wrong', 'categorical_leaf_moment_exact', 'bernoulli_is_categorical'], [])
_add('C07', 'DeeprobModel.Props.LeafTheory', 'Deeprob.LeafTheory', ['isoPpf_cdf', 'isoPpf_cdf_inv', 'inverse_transform_law', 'inverse_transform_sandwich',
     'inverse_transform_measure', 'isoCdf_is_integral', 'height_proportional_sampling_is_wrong', 'uniform_inverse_transform'], [])
_add('C01', 'DeeprobModel.Props.LeafTheory', 'Deeprob.LeafTheory', ['isoPdf_nonneg', 'iso_integral_one', 'uniform_integral_one', 'uniform_width_zero', 'bernoulli_sum_one',
     'categorical_sum_one', 'categorical_leaf_ok', 'equal_widths_readings_agree', 'edge_modes_as_coded'], [])
_add('C06', 'DeeprobModel.Props.LeafTheory', 'Deeprob.LeafTheory', ['categorical_mode_is_argmax_category', 'bernoulli_mode_maximal', 'edge_modes_as_coded'], [])
# round 5 (translator wave 5): the explicit-stack loops of to_pc / get_scopes extracted as step functions (tools/listprog.py), the
# generic post-order machine and the closed end-to-end chain for to_pc
_S5 = 'Deeprob.Oblig.Struct5'
for _p in ('C12', 'C10', 'C04'):
    _add(_p, _O + 'Struct5ToPc', _S5, ['toPcStep_as_coded', 'toPcLoop_as_coded', 'fold_toPc', 'getScopesStep_as_coded', 'getScopesLoop_as_coded',
                                       'fold_getScopes'], ['cltree.to_pc.loop', 'cltree.get_scopes.loop'])
    _add(_p, 'DeeprobModel.Props.E2EToPc', 'Deeprob.E2EToPc', ['e2e_to_pc_loop', 'e2e_to_pc', 'e2e_get_scopes'], [])
    _add(_p, 'DeeprobModel.Lemmas.PostOrderLemmas', 'Deeprob.PostOrder', ['walk_subtree', 'run_eq_fold', 'distinct_ids_needed'], [])
# round 5: completeness of the modelled is_arborescence (the bound of the component search loses nothing; every document graph is GraphOK)
_add('C13', 'DeeprobModel.Props.C13Arb', 'Deeprob.GraphIo', ['isArborescence_complete', 'isArborescence_iff', 'graphOfDoc_ok', 'cltDecode_tree_test_iff'], [])
# round 5: validation of tables with absent ids / absent weights (Python None), as coded
_add('C03', 'DeeprobModel.Props.C03Opt', 'Deeprob', ['checkSpnOpt_accept_iff', 'checkSpnOpt_accept_iff_valid', 'checkSpnOpt_flags_accept_iff', 'checkSpnOpt_eq',
     'checkSpnOpt_typeError_iff', 'checkSpnOpt_reject_first', 'checkSpnOpt_eq_of_present', 'checkSpnOpt_ofNet', 'checkSpnOpt_accept_weights'], [])
# round 5 (translator wave 5, part 2): the explicit-stack loop of build_xpc extracted (children pushed reversed), its own machine and chain
_add('C04', _O + 'Struct5Xpc', 'Deeprob.Oblig.Struct5X', ['buildXpcStep_as_coded', 'buildXpcLoop_as_coded', 'ids_number', 'fold_buildXpc', 'flatten_as_coded'], ['xpc.build_xpc.loop'])
_add('C04', 'DeeprobModel.Props.E2EXpc', 'Deeprob.E2EXpc', ['e2e_build_xpc_loop', 'e2e_build_xpc', 'wellTagged_of_partInv', 'wellTagged_needed'], [])
_add('C04', 'DeeprobModel.Lemmas.PostOrderRLemmas', 'Deeprob.PostOrder', ['walk_subtreeR', 'runR_eq_foldR', 'distinct_ids_neededR'], [])
# round 5: the backward pass of EM as coded in float32 (floored log-values, absorbed finite parts): wrong grads entries never reach a statistic
_add('C14', 'DeeprobModel.Props.C14Backward', 'Deeprob.C14B', ['coded_grads_rel', 'backward_coded_eq_derivative_of_pos', 'backward_coded_is_derivative_of_pos',
     'resp_coded_exact', 'resp_coded_exact_valid', 'leaf_stat_coded_exact', 'sum_stat_coded_exact', 'sum_stat_coded_exact_of_weight', 'forwardC_eq_codedLls',
     'backwardC_forwardC', 'stat_fin_as_coded', 'coded_grad_wrong_witness', 'raw_stat_zero_weight_witness'], [])
# round 5: the per-node rules of eval_backward extracted (association (g + lls[node]) - lls[c] preserved) and tied to the coded-pass model
_add('C14', _O + 'Struct5Grad', 'Deeprob.Oblig.Struct5G', ['gradSum_as_coded', 'gradProd_as_coded', 'gradLeaf_as_coded', 'sendDownC_as_coded', 'gradAccum_as_coded',
     'gradNode_as_coded', 'gradRoot_as_coded', 'gradRoot_denotes', 'backwardC_as_coded', 'noParent_last'], ['gradient.eval_backward.rules'])
_add('C14', 'DeeprobModel.Props.E2EGrad', 'Deeprob.E2EGrad', ['genGrads_eq', 'genBackward_forwardC', 'e2e_coded_grads_rel', 'e2e_backward_coded', 'e2e_leaf_stat_coded',
     'e2e_backward_coded_valid'], [])
# round 5: the calculus facts behind the flow log-determinants, over the reals (Mathlib): slopes of every element-wise map, Jacobians
# of element-wise / triangular maps, reported log-det = log |det fderiv| for every modelled layer
_add('C15', 'DeeprobModel.Props.C15Calculus', 'Deeprob.Flows.Calc', ['realExpLog_fields', 'logit_backward_hasDerivAt', 'logit_backward_slope_pos', 'sigmoid_hasDerivAt',
     'logit_forward_hasDerivAt', 'logit_slopes_reciprocal', 'affine_forward_hasDerivAt', 'affine_backward_hasDerivAt', 'bn_backward_hasDerivAt', 'bn_forward_hasDerivAt',
     'dequantize_reported_is_not_log_slope', 'elementwise_hasFDerivAt', 'elementwise_det', 'elementwise_logabsdet', 'triangular_fderiv_det', 'triangular_logabsdet',
     'logit_backward_ldj_is_logabsdet', 'logit_forward_ldj_is_logabsdet', 'bn1d_backward_ldj_is_logabsdet', 'bn1d_forward_ldj_is_logabsdet', 'bn2d_backward_ldj_is_logabsdet',
     'bn2d_forward_ldj_is_logabsdet', 'coupling_backward_ldj_is_logabsdet', 'coupling_forward_ldj_is_logabsdet', 'coupling_additive_ldj_is_logabsdet',
     'maf_backward_ldj_is_logabsdet', 'maf_forward_ldj_is_logabsdet', 'mafLoop_differentiable', 'permutation_ldj_is_logabsdet', 'compose_ldj_is_logabsdet'], [])
# round 5: the probabilistic facts behind the sampling checks: Hoeffding + union bound in exactly the harness's form, and the Gumbel-max
# identity for any number of children (first-maximum tie-breaking as coded), which discharges `hGumbelMax_trusted` over the reals
_SF = ['hoeffding_two_sided', 'two_exp_hoeffdingEps', 'hoeffding_harness_single', 'union_bound', 'hoeffding_family', 'hoeffding_empirical_frequencies',
       'hoeffdingEps_harness_value', 'integral_gumbelKernel', 'gumbel_isProbabilityMeasure', 'gumbel_Iic', 'gumbel_win_core', 'gumbel_argmax_first', 'gumbel_max',
       'gumbel_argmax_ae_unique', 'gumbel_max_categorical', 'gumbel_max_law', 'gumbel_max_indep', 'gumbelMaxIdentity_real', 'e2e_sum_sample_branch_real',
       'e2e_sum_sample_exact_real', 'expLog_rat_empty']
for _p in ('C07', 'C16'):
    _add(_p, 'DeeprobModel.Props.SamplingFacts', 'Deeprob.SamplingFacts', _SF, [])
# round 5 (translator wave 5, part 3): the loops of topological_order / topological_order_layered / bfs / dfs_post_order (node.py)
_S5T = ['topoInit_as_coded', 'layeredInit_as_coded', 'topoStep_as_coded', 'topoRun_sim', 'kahnLoop_eq_run', 'topoRun_counts', 'layeredStep_as_coded', 'genLayers_eq',
        'bfsStep_as_coded', 'bfsRun_inv', 'dfsStep_as_coded']
_E5T = ['e2e_topo_eq', 'e2e_topo', 'e2e_topo_queue_empty', 'e2e_topo_sound', 'e2e_topo_mpe', 'e2e_layers_eq', 'e2e_layers', 'e2e_bfs']
_F5T = ['node.topological_order.loop', 'node.topological_order_layered.loop', 'node.bfs.loop', 'node.dfs_post_order.loop']
for _p in ('C08', 'C06', 'C09'):
    _add(_p, _O + 'Struct5Topo', 'Deeprob.Oblig.Struct5T', _S5T, _F5T)
    _add(_p, 'DeeprobModel.Props.E2ETopo', 'Deeprob.E2ETopo', _E5T, [])
# round 5: real-valued witnesses (there is no `ExpLog Rat` instance — SamplingFacts.expLog_rat_empty — so examples quantified over one were vacuous)
_RW = 'Deeprob.RealWitnesses'
_add('C01', 'DeeprobModel.Props.RealWitnesses', _RW, ['e2e_log_likelihood_real', 'genTable_real_eq_cast', 'real_log_floor'], [])
_add('C07', 'DeeprobModel.Props.RealWitnesses', _RW, ['sumSampleEntry_real', 'branchPmf_real', 'sample_as_coded_real'], [])
_add('C06', 'DeeprobModel.Props.RealWitnesses', _RW, ['sum_mpe_as_coded_real'], [])
_add('C11', 'DeeprobModel.Props.RealWitnesses', _RW, ['fit_tree_maximal_real', 'mutualInfo_as_coded_real'], [])
_add('C14', 'DeeprobModel.Props.RealWitnesses', _RW, ['gaussian_em_sigma_pos_real', 'gradRoot_denotes_real'], [])
_add('C19', 'DeeprobModel.Props.RealWitnesses', _RW, ['skewness_sigma_real'], [])
# round 5 (translator wave 5, part 4): the loops AROUND the bodies extracted earlier — eval_bottom_up / eval_top_down (serial paths), moment,
# BinaryCLT.message_passing / mpe (sample: fragment only), skeletons of the prune / marginalize passes
_S5E = ['fill_set_eq_append', 'upTask_as_coded', 'upLoop_as_coded', 'genTable_as_coded', 'llTable_as_coded', 'moGenTable_as_coded', 'evalUp_as_coded', 'evalUp_raises',
        'moment_as_coded', 'downTask_as_coded', 'downLoop_as_coded', 'evalDown_as_coded', 'evalDown_raises']
_F5E = ['evaluation.eval_bottom_up.loop', 'evaluation.eval_top_down.loop', 'moments.moment.loop']
_add('C01', _O + 'Struct5Eval', 'Deeprob.Struct5E', _S5E, _F5E)
_add('C01', 'DeeprobModel.Props.E2EEval', 'Deeprob.E2EEval', ['e2e_eval_forward_loop', 'e2e_eval_bottom_up', 'e2e_eval_forward_normalised_loop', 'e2e_log_likelihood_loop'], [])
_add('C02', _O + 'Struct5Eval', 'Deeprob.Struct5E', _S5E[:8], _F5E[:1])
_add('C02', 'DeeprobModel.Props.E2EEval', 'Deeprob.E2EEval', ['e2e_eval_forward_marginal_loop', 'e2e_eval_forward_all_missing_loop'], [])
_add('C19', _O + 'Struct5Eval', 'Deeprob.Struct5E', ['moGenTable_as_coded', 'moment_as_coded'], [_F5E[0], _F5E[2]])
_add('C19', 'DeeprobModel.Props.E2EEval', 'Deeprob.E2EEval', ['e2e_moment_loop'], [])
for _p in ('C06', 'C07'):
    _add(_p, _O + 'Struct5Eval', 'Deeprob.Struct5E', ['downTask_as_coded', 'downLoop_as_coded', 'evalDown_as_coded', 'evalDown_raises'], [_F5E[1]])
    _add(_p, 'DeeprobModel.Props.E2EEval', 'Deeprob.E2EEval', ['e2e_eval_top_down', 'e2e_eval_top_down_keeps_observed'], [])
_S5C = ['msg_step_local', 'msg_loop_as_coded', 'msg_value_as_coded', 'mpe_loop_as_coded', 'mpe_composed_as_coded']
_add('C02', _O + 'Struct5Clt', 'Deeprob.Oblig.Struct5Clt', _S5C[:3], ['cltree.message_passing.loop'])
_add('C02', 'DeeprobModel.Props.E2ECltLoop', 'Deeprob.E2ECltLoop', ['loopMp_messages', 'loopMp_value', 'e2e_message_passing_marginal_loop'], [])
_add('C06', _O + 'Struct5Clt', 'Deeprob.Oblig.Struct5Clt', _S5C, ['cltree.message_passing.loop', 'cltree.mpe.loop'])
_add('C06', 'DeeprobModel.Props.E2ECltLoop', 'Deeprob.E2ECltLoop', ['loopMpe_eq', 'e2e_message_passing_max_loop', 'e2e_mpe_is_argmax_loop'], [])
_add('C07', _O + 'Struct5Clt', 'Deeprob.Oblig.Struct5Clt', [], ['cltree.sample.loop'])
_add('C07', _O + 'Struct5CltSample', 'Deeprob.Oblig.Struct5CltSample', ['sample_loop_as_coded'], ['cltree.sample.loop', 'cltree.message_passing.loop'])
_add('C07', 'DeeprobModel.Props.E2ECltSample', 'Deeprob.E2ECltSample', ['loopSampleLaw_as_coded', 'draw_is_localCond', 'fold_steps', 'samplePmf_as_product', 'mar_slots',
                                                                       'e2e_sample_loop_law_of_defined', 'e2e_sample_loop_law'], [])
_add('C10', _O + 'Struct5Rewrite', 'Deeprob.Oblig.Struct5Rewrite', ['margPassLoop_shape_partial', 'margPassLoop_not_dag'], ['structure.marginalize.loop'])
_add('C10', 'DeeprobModel.Props.E2ERewriteLoop', 'Deeprob.E2ERewriteLoop', ['mgLoopMarginalize_eq', 'e2e_marginalize_loop_partial'], [])
_add('C09', _O + 'Struct5Rewrite', 'Deeprob.Oblig.Struct5Rewrite', [], ['structure.prune.loop'])
_add('C09', _O + 'Struct5Prune', 'Deeprob.Oblig.Struct5Prune', ['pruneStepGen_eq', 'prunePassGen_eq', 'prunePassLoop_shape_partial', 'prunePassLoop_not_dag'], ['structure.prune.loop'])
_add('C09', 'DeeprobModel.Props.E2EPruneLoop', 'Deeprob.E2EPruneLoop', ['loopPrunePass_eq', 'pgLoopPrune_eq', 'pgPrune_ok', 'e2e_prune_loop_partial'], [])
# round 5: the Gaussian leaf (density as SciPy evaluates it, normalisation, mode, raw moments of every order as integrals)
_GT = 'Deeprob.GaussTheory'
_add('C01', 'DeeprobModel.Props.GaussTheory', _GT, ['gauss_exp_logpdf', 'gauss_integral_one', 'gaussPdf_pos'], [])
_add('C02', 'DeeprobModel.Props.GaussTheory', _GT, ['gauss_integral_one'], [])
_add('C06', 'DeeprobModel.Props.GaussTheory', _GT, ['gauss_mode', 'gauss_mode_strict'], [])
_add('C19', 'DeeprobModel.Props.GaussTheory', _GT, ['gauss_moment_is_integral', 'gauss_moment_integrable', 'gauss_moment_closed',
     'sigma_for_variance_is_wrong'], [])
_CO = ['wellFormedPred_iff_build', 'bfsOrder_perm', 'bfsOrder_eq_model', 'bfsOrder_parent_before_child', 'bfsOrder_levels', 'arrayPass_order_indep', 'codeValue_marg',
       'arrayPass_max_slots', 'bad_order_drops_message']
for _p in ('C02', 'C06', 'C12'):
    _add(_p, 'DeeprobModel.Props.CltOrder', 'Deeprob.GraphIo', _CO if _p != 'C12' else ['bfsOrder_perm', 'bfsOrder_parent_before_child', 'bfsOrder_levels', 'arrayPass_order_indep', 'bad_order_drops_message'], [])
_add('C13', 'DeeprobModel.Props.C13Clt', 'Deeprob.GraphIo', ['cltEncode_form', 'cltDecode_encode', 'cltDecode_rejects_non_tree', 'cltDecode_accepts_only_trees',
     'cltLoad32_encode', 'cltDocs_stable_from_gen2', 'cltDocs_stable_from_gen1_of_f32'], [])

# translator wave 4 (operation cascade of learn_spn, CLT likelihood / mpe / message passing / bfs, body of marginalize, MI and CLT
# parameters, cutset-network learner loops, RAT-SPN top-down layers, sum_sample)
_S4 = 'Deeprob.Struct4'
for _p in ('C04', 'C05'):
    _add(_p, _O + 'Struct4Learn', _S4, ['selectOp_as_coded', 'operationKind_as_coded', 'zeroVar_axis_as_coded', 'zeroVarTest_as_coded'],
         ['learnspn.select_op', 'learnspn.zero_var_test'])
_CLT4 = ['graph.compute_bfs_ordering', 'cltree.log_likelihood', 'cltree.mpe', 'cltree.message_passing.body']
for _p in ('C02', 'C06', 'C12'):
    _add(_p, _O + 'Struct4Clt', _S4, ['bfsStep_as_coded', 'bfs_as_coded', 'bfsPop_as_coded', 'logLikelihood_as_coded', 'joint_as_coded', 'mpe_as_coded',
                                      'pickOf_is_chosen', 'mpeStep_observed'], _CLT4)
    _add(_p, _O + 'Struct4CltMsg', _S4, ['messages_as_coded', 'msgStep_mar_is_up', 'msgStep_mpe_is_upMax', 'rootValue_is_up'], [])
_add('C06', _O + 'Struct4CltMpe', _S4, ['mem_decodeList', 'dec_parent', 'mpe_loop_is_dec', 'mpe_loop_is_decode'], [])
_add('C10', _O + 'Struct4Rewrite', _S4, ['margStep_as_coded', 'margStep_leaves_as_coded', 'margPass_as_coded', 'margSteps_as_coded', 'margTree_shape'],
     ['structure.marginalize.body'])
_add('C11', _O + 'Struct4CltFit', _S4, ['miOuters_as_coded', 'miTerm_as_coded', 'mutualInfo_as_coded', 'rawParam_as_coded', 'cpt_as_coded', 'fit_steps_as_coded'],
     ['statistics.compute_mutual_information', 'cltree.compute_clt_parameters', 'cltree.fit'])
_add('C18', _O + 'Struct4Cnet', _S4, ['fitStep_as_coded', 'step_fit_cut_as_coded', 'fit_frame_as_coded', 'bdStep_as_coded', 'bicStep_as_coded', 'step_bd_cut_as_coded',
                                     'step_bic_cut_as_coded', 'candidates_as_coded'],
     ['cnet.fit', 'cnet_bayesian.learn_cnet_bd', 'cnet_bayesian.learn_cnet_bic', 'cnet_bayesian.select_cand_cuts'])
_add('C16', _O + 'Struct4RatSpn', _S4, ['prodSample_as_coded', 'sumMpe_as_coded', 'rootMpe_as_coded', 'rootSample_as_coded', 'sumSample_as_coded', 'unpadSamples_as_coded',
                                       'baseMpe_as_coded', 'modelMpe_as_coded', 'modelSample_as_coded', 'mpeDown_order'],
     ['ratspn.ProductLayer.sample', 'ratspn.SumLayer.mpe', 'ratspn.SumLayer.sample', 'ratspn.RootLayer', 'ratspn.RegionGraphLayer.mpe', 'ratspn.RatSpn.mpe',
      'ratspn.RatSpn.sample'])
_add('C07', _O + 'Struct4Sampling', _S4, ['sumSampleEntry_as_coded', 'branchPmf_as_coded', 'sumSample_frame_as_coded'], ['sampling.sum_sample.entry', 'sampling.sum_sample'])

# wave 5: end-to-end corollaries — the property stated directly about the definitions extracted from the source
_E2C = 'Deeprob.E2EClt'
_add('C02', 'DeeprobModel.Props.E2EClt', _E2C, ['e2e_bfs', 'e2e_message_passing_value', 'e2e_message_passing_marginal', 'e2e_message_passing_marginal_row', 'e2e_complete_evidence'], [])
_add('C06', 'DeeprobModel.Props.E2EClt', _E2C, ['e2e_bfs', 'e2e_message_passing_max', 'e2e_mpe_is_argmax'], [])
_add('C12', 'DeeprobModel.Props.E2EClt', _E2C, ['e2e_bfs', 'e2e_to_pc_partial', 'e2e_message_passing_marginal'], [])
_add('C13', 'DeeprobModel.Props.E2EClt', _E2C, ['e2e_clt_roundtrip_bfs'], [])

_E2 = 'Deeprob.E2E'
for _p in ('C01', 'C02'):
    _add(_p, 'DeeprobModel.Props.E2ECirc', _E2, ['e2e_eval_forward', 'e2e_eval_forward_sum', 'e2e_eval_forward_prod', 'e2e_eval_forward_marginal', 'e2e_eval_forward_all_missing',
                                              'e2e_eval_forward_normalised', 'e2e_log_likelihood_log', 'e2e_log_likelihood', 'e2e_log_likelihood_linear'], [])
_add('C19', 'DeeprobModel.Props.E2ECirc', _E2, ['e2e_moment', 'e2e_moment_abstract', 'e2e_moment_net', 'e2e_moment_table', 'e2e_moment_api', 'e2e_moment_api_zero', 'e2e_moment_variance',
                                              'e2e_moment_skewness', 'e2e_moment_kurtosis', 'e2e_moment_categorical_leaf'], [])
_add('C14', 'DeeprobModel.Props.E2ECirc', _E2, ['e2e_resp_entry', 'e2e_resp_posterior', 'e2e_resp', 'e2e_resp_root', 'e2e_resp_gen'], [])
_add('C10', 'DeeprobModel.Props.E2ECirc', _E2, ['e2e_marginalize', 'e2e_marginalize_rows', 'e2e_marginalize_total', 'e2e_marginalize_shape', 'e2e_marginalize_guard', 'e2e_marginalize_rejects'], [])
_add('C07', 'DeeprobModel.Props.E2ECirc', _E2, ['e2e_sum_sample_branch', 'e2e_sum_sample_branch_frame', 'e2e_sum_sample_branch_exact'], [])
for _p in ('C04', 'C05'):
    _add(_p, 'DeeprobModel.Props.E2ELearn', _E2, ['e2e_step_as_coded', 'e2e_learn_step', 'e2e_learn_terminates', 'e2e_learn_total', 'e2e_learn_final_proportions'], [])
_add('C18', 'DeeprobModel.Props.E2ELearn', _E2, ['e2e_cnet_eval', 'e2e_cnet_normalised', 'e2e_cnet_learn_as_coded', 'e2e_cnet_learn', 'e2e_cnet_learn_eval'], [])
_add('C11', 'DeeprobModel.Props.E2ELearn', _E2, ['e2e_cpt', 'e2e_cpt_root', 'e2e_cpt_rows_sum_one', 'e2e_cpt_pos', 'e2e_cpt_fit_normalised', 'e2e_cpt_tree_maximal'], [])
_add('C13', 'DeeprobModel.Props.E2EMisc', _E2, ['e2e_io_decode', 'e2e_io', 'e2e_io_id', 'e2e_io_gen_stable', 'e2e_io_reload_fixed', 'e2e_io_weights_loadable', 'e2e_io_repeated_child'], [])
_add('C20', 'DeeprobModel.Props.E2EMisc', _E2, ['e2e_predict_proba_normalised', 'e2e_predict_proba_normalised_any', 'e2e_predict_proba_entry', 'e2e_predict_argmax', 'e2e_predict_proba',
                                              'e2e_predict_argmax_log', 'e2e_predict_is_sum_mpe'], [])
_add('C16', 'DeeprobModel.Props.E2EMisc', _E2, ['e2e_rat_topdown_mpe', 'e2e_rat_topdown_sample', 'e2e_rat_topdown_sample_exact', 'e2e_rat_topdown'], [])

# net-level prune / marginalize theorems (wave 2)
PROPS['C09']['modules'] += ['DeeprobModel.Props.C09NetMore', 'DeeprobModel.Props.C09NetKahn']
PROPS['C09']['theorems'] += ['Deeprob.pruneNet_normal_form', 'Deeprob.pruneNet_valid', 'Deeprob.pruneNet_checkSpn', 'Deeprob.pruneNet_fix',
                             'Deeprob.pruneNet_idem', 'Deeprob.prunePass_order_indep', 'Deeprob.pruneNetKahn_eval']
PROPS['C10']['modules'] += ['DeeprobModel.Props.C10NetMore', 'DeeprobModel.Props.C10NetClt']
PROPS['C10']['theorems'] += ['Deeprob.marginalizeNet_shape', 'Deeprob.marginalizeNet_total', 'Deeprob.marginalizeNetClt_eval']
