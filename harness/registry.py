"""Per-property registration: Lean modules to build, theorems to audit, translator fragments, harness module."""

PROPS = {
    'C01': dict(
        module='c01',
        modules=['DeeprobModel.Props.C01', 'DeeprobModel.Oblig.C01'],
        theorems=['Deeprob.C01_semantics', 'Deeprob.C01_normalised', 'Deeprob.Circ.marg', 'Deeprob.Circ.normalised',
                  'Deeprob.evalNet_refines', 'Deeprob.valid_toTree',
                  'Deeprob.Oblig.iso_ood_consistent', 'Deeprob.Oblig.iso_ood_pos', 'Deeprob.Oblig.floor_inactive'],
        fragments=['isoOodLik', 'isoOodLogLikArg', 'llFloor'],
        rule='random valid circuits (trees and DAGs, arity 1-5, every leaf family incl. CLT leaves, permuted and '
             'non-contiguous scopes) x complete rows (all assignments of small discrete domains, continuous values inside / '
             'on the edge of / outside the support); a case is non-trivial when the circuit has an inner node; distinct = '
             'distinct exported node table',
    ),
    'C02': dict(
        module='c02',
        modules=['DeeprobModel.Props.C02'],
        theorems=['Deeprob.C02_marginal', 'Deeprob.C02_all_missing', 'Deeprob.Circ.marg', 'Deeprob.sumOver_set_eq',
                  'Deeprob.evalNet_refines', 'Deeprob.valid_toTree'],
        fragments=[],
        rule='random valid circuits and Chow-Liu trees x per-row missing patterns mixed in one batch (all subsets of missing '
             'variables for small scopes); non-trivial = at least one missing and one observed variable in the batch and an '
             'inner node; distinct = distinct (node table, pattern set)',
    ),
    'C03': dict(
        module='c03',
        modules=['DeeprobModel.Props.C03'],
        theorems=['Deeprob.checkSpn_accept_iff', 'Deeprob.checkSpn_flags_accept_iff', 'Deeprob.checkSpn_reject_first',
                  'Deeprob.isLabeled_iff_perm', 'Deeprob.decompSpec_iff_flatten_nodup', 'Deeprob.checkSpn_sound',
                  'Deeprob.unionOnly_unsound', 'Deeprob.collect_reach', 'Deeprob.collect_nodup'],
        fragments=[],
        rule='bounded-exhaustive: every children-first node table with <= 3 (quick) / 4 (thorough) nodes over leaf/sum/product '
             'kinds x every child subset x scope labellings over two variables (+ id shift/clash/gap and weight-count '
             'corruptions on a subsample); random valid circuits x nine single structural corruptions; every entry point called '
             'on invalid circuits; non-trivial = more than one node; distinct = distinct node table',
    ),    'C12': dict(
        module='c12',
        modules=['DeeprobModel.Props.Clt'],
        theorems=['Deeprob.Clt.pc_eval', 'Deeprob.Clt.pc_valid', 'Deeprob.Clt.toPc_eval', 'Deeprob.Clt.pc_structured',
                  'Deeprob.Clt.get_scopes_spec', 'Deeprob.Clt.pc_deterministic', 'Deeprob.Clt.up_marg', 'Deeprob.Clt.root_rows_needed'],
        fragments=[],
        rule='every predecessor vector (rooted spanning tree) over <= 4 (quick) / 6 (thorough) variables, each with random tables '
             'and permuted non-contiguous scope labels, plus random larger trees; every complete and marginal query (3^n) for '
             'n <= 5; non-trivial = at least two variables; distinct = distinct (tree, labelling)',
    ),    'C11': dict(
        module='c11',
        modules=['DeeprobModel.Props.C11'],
        theorems=['Deeprob.C11.counts_incl_excl', 'Deeprob.C11.priors_sum_one', 'Deeprob.C11.joints_marginal',
                  'Deeprob.C11.cpt_is_smoothed_conditional', 'Deeprob.C11.cpt_root_is_smoothed_prior', 'Deeprob.C11.cpt_rows_sum_one',
                  'Deeprob.C11.cpt_pos', 'Deeprob.C11.isRootedSpanningTree_sound', 'Deeprob.C11.cycleOK_sound',
                  'Deeprob.C11.cycleOK_max', 'Deeprob.C11.cycleOK_max_simpleGraph', 'Deeprob.C11.mstBrute_sound',
                  'Deeprob.C11.fit_tree_maximal', 'Deeprob.C11.clt_normalised', 'Deeprob.C11.fit_normalised'],
        fragments=[],
        rule='binary data sets of eight families (random, constant columns, duplicated / negated columns, fewer rows than '
             'variables, chain-dependent, sparse, identical rows) x 1-7 variables x 1-40 rows x four smoothing constants x '
             'explicit and random roots x identity and shuffled scope labels; non-trivial = at least two variables; distinct = '
             'distinct (data, alpha, scope, root request)',
    ),
}

NOT_CLAIMED = {}
HOOK_COMMITS = []
