"""C15 — normalizing flows are bijections with exact log-determinants (eval mode, arbitrary parameters)."""
import itertools, json, math
import numpy as np
import torch
import torch.nn.functional as F
from harness.common import np_seed, Infra

from deeprob.flows.layers.autoregressive import AutoregressiveLayer
from deeprob.flows.layers.coupling import CouplingLayer1d, CouplingLayer2d
from deeprob.flows.models.realnvp import RealNVP1d, RealNVP2d
from deeprob.flows.models.maf import MAF
from deeprob.flows.utils import squeeze_depth2d, unsqueeze_depth2d
from deeprob.torch.utils import MaskedLinear

TOL = 1e-7


def nats(v):
    return ' '.join(str(int(a)) for a in np.asarray(v).reshape(-1))


def bits(v):
    v = np.asarray(v).reshape(-1)
    return ''.join(str(int(a)) for a in v)


def mat(m):
    return ';'.join(bits(r) for r in np.asarray(m))


def layer_masks(layer, n):
    ms = [m.mask.numpy() for m in layer.network if isinstance(m, MaskedLinear)]
    last = ms[-1]
    if not (last.shape[0] == 2 * n and np.array_equal(last[:n], last[n:])):
        return None
    return ms[:-1] + [last[:n]]


def made_report(layer, n):
    ms = layer_masks(layer, n)
    if ms is None:
        return 'output-mask-not-tiled'
    prod = np.eye(n)
    for m in ms:
        prod = m.astype(np.float64) @ prod
    dep = (prod > 0).astype(int)
    return 'masks {} # inv {} # dep {}'.format('|'.join(mat(m) for m in ms), nats(layer.inv_ordering), mat(dep))


def randomize(module, rs):
    """arbitrary ("trained") parameter values and running statistics, float64, eval mode"""
    g = torch.Generator().manual_seed(int(rs.randint(2 ** 31 - 1)))
    module.double()
    for name, p in module.named_parameters():
        if p.requires_grad:
            p.data = torch.randn(p.shape, generator=g, dtype=torch.float64) * 0.5
    for name, b in module.named_buffers():
        if 'running_mean' in name or name.endswith('running_mean'):
            b.data = torch.randn(b.shape, generator=g, dtype=torch.float64)
        elif 'running_var' in name:
            b.data = torch.rand(b.shape, generator=g, dtype=torch.float64) * 2 + 0.2
    module.eval()
    return module


def numeric_bijection(ctx, name, obj, shape, rs, rep, unit_interval=False):
    """round trips, forward/backward log-det antisymmetry, autograd Jacobian slogdet vs reported log-det"""
    g = torch.Generator().manual_seed(int(rs.randint(2 ** 31 - 1)))
    x = torch.rand((2,) + shape, generator=g, dtype=torch.float64) * 0.9 + 0.05 if unit_interval else \
        torch.randn((2,) + shape, generator=g, dtype=torch.float64)
    with torch.no_grad():
        u, ildj = obj.apply_backward(x)
        xr, ldj = obj.apply_forward(u)
        u2, ildj2 = obj.apply_backward(xr)
    prev = torch.is_grad_enabled()
    torch.set_grad_enabled(True)
    try:
        ug = u.detach().clone().requires_grad_(True)
        xg, ldjg = obj.apply_forward(ug)
    finally:
        torch.set_grad_enabled(prev)
    xg = xg.detach()
    ldjg_t = torch.as_tensor(ldjg).detach().double().reshape(-1) if torch.is_tensor(ldjg) else torch.tensor([float(ldjg)], dtype=torch.float64)
    ldj_t = torch.as_tensor(ldj).detach().double().reshape(-1) if torch.is_tensor(ldj) else torch.tensor([float(ldj)], dtype=torch.float64)
    if not torch.allclose(xg, xr, atol=TOL * (1.0 + float(xr.abs().max())), rtol=1e-7) or \
            float((ldjg_t - ldj_t).abs().max()) > 1e-6 * (1 + float(ldj_t.abs().max())):
        ctx.violation('c15-forward-grad-path:' + name, f'{name}: apply_forward with autograd enabled (the rsample path) differs from apply_forward under no_grad '
                                                       f'(max deviation {float((xg - xr).abs().max()):.3e})', replay=rep)
        return False
    ildj = torch.as_tensor(ildj, dtype=torch.float64).expand(2) if not torch.is_tensor(ildj) or ildj.dim() == 0 else ildj
    ldj = torch.as_tensor(ldj, dtype=torch.float64).expand(2) if not torch.is_tensor(ldj) or ldj.dim() == 0 else ldj
    scale = 1.0 + float(x.abs().max()) + float(u.abs().max())
    if not torch.allclose(xr, x, atol=TOL * scale, rtol=1e-7):
        ctx.violation('c15-roundtrip:' + name, f'{name}: apply_forward(apply_backward(x)) != x (max deviation {float((xr - x).abs().max()):.3e})', replay=rep)
        return False
    if not torch.allclose(u2, u, atol=TOL * scale, rtol=1e-7):
        ctx.violation('c15-roundtrip:' + name, f'{name}: apply_backward(apply_forward(u)) != u', replay=rep)
        return False
    if float((ldj + ildj).abs().max()) > 1e-6 * (1 + float(ildj.abs().max())):
        ctx.violation('c15-ldj-antisymmetry:' + name, f'{name}: forward log-det {ldj.tolist()} is not minus the backward log-det {ildj.tolist()}', replay=rep)
        return False
    # latent first, tails included (|u| up to ~8): data = forward(latent) must invert back to the SAME latent and report the log-det
    # of the map actually applied (a sampler starts from the latent; starting every test from the data never leaves its range)
    ul = torch.randn((2,) + shape, generator=g, dtype=torch.float64) * 2.5
    with torch.no_grad():
        xl, ldjl = obj.apply_forward(ul)
        ul2, ildjl = obj.apply_backward(xl)
    scale_l = 1.0 + float(ul.abs().max())
    if not torch.isfinite(xl).all() or not torch.allclose(ul2, ul, atol=1e-6 * scale_l, rtol=1e-6):
        ctx.violation('c15-roundtrip-latent-first:' + name, f'{name}: apply_backward(apply_forward(u)) != u for a latent u with tail values '
                                                            f'(max deviation {float((ul2 - ul).abs().max()):.3e}, max |u| {float(ul.abs().max()):.2f})', replay=rep)
        return False
    ldjl = torch.as_tensor(ldjl, dtype=torch.float64).expand(2) if not torch.is_tensor(ldjl) or ldjl.dim() == 0 else ldjl
    d = int(np.prod(shape))
    if d <= 64:
        Jf = torch.autograd.functional.jacobian(lambda v: obj.apply_forward(v)[0], ul[0:1]).reshape(d, d).numpy()
        sign, logabs = np.linalg.slogdet(Jf)
        ctx.count('jacobians-latent-first')
        if not math.isfinite(logabs) or abs(logabs - float(ldjl[0])) > 1e-6 * (1 + abs(logabs)):
            ctx.violation('c15-logdet-latent-first:' + name, f'{name}: reported forward log-det {float(ldjl[0])!r} at a latent with tail values, but log|det J| = {logabs!r}', replay=rep)
            return False
    if d <= 64:
        for b in range(1):
            xb = x[b:b + 1]
            J = torch.autograd.functional.jacobian(lambda v: obj.apply_backward(v)[0], xb).reshape(d, d).numpy()
            sign, logabs = np.linalg.slogdet(J)
            ctx.count('jacobians')
            if not math.isfinite(logabs) or abs(logabs - float(ildj[b])) > 1e-6 * (1 + abs(logabs)):
                ctx.violation('c15-logdet:' + name, f'{name}: reported backward log-det {float(ildj[b])!r} but log|det J| = {logabs!r}', replay=rep)
                return False
    return True


def model_logprob(ctx, name, model, shape, rs, rep, unit_interval):
    """log_prob = base log-density of the backward image + total inverse log-det (change of variables)"""
    g = torch.Generator().manual_seed(int(rs.randint(2 ** 31 - 1)))
    x = torch.rand((2,) + shape, generator=g, dtype=torch.float64) * 0.9 + 0.05 if unit_interval else \
        torch.randn((2,) + shape, generator=g, dtype=torch.float64)
    with torch.no_grad():
        lp = model(x)
    d = int(np.prod(shape))

    def whole(v):
        y, _ = model.preprocess(v)
        y, _ = model.apply_backward(y)
        return y
    if d <= 64:
        xb = x[0:1]
        J = torch.autograd.functional.jacobian(whole, xb).reshape(d, d).numpy()
        sign, logabs = np.linalg.slogdet(J)
        with torch.no_grad():
            z = whole(xb)
        if isinstance(getattr(model, 'in_base', None), torch.nn.Module):
            # the base is a module: its density, evaluated on its own in evaluation mode, on the single point z
            import copy as _copy
            ref_base = _copy.deepcopy(model.in_base)
            ref_base.eval()
            with torch.no_grad():
                base = float(ref_base.log_prob(z).reshape(-1)[0])
                lp_alone = float(model(xb).reshape(-1)[0])
            ctx.count('module-base-models')
            if abs(lp_alone - float(lp[0])) > 1e-6 * (1 + abs(lp_alone)):
                ctx.violation('c15-logprob-batch-dependent:' + name, f'{name} in evaluation mode: log_prob of a point is {float(lp[0])!r} inside a batch of {len(x)} and {lp_alone!r} alone',
                              replay=rep)
                return False
        else:
            base = float(torch.distributions.Normal(0.0, 1.0).log_prob(z).sum())
        ctx.count('log_prob_checks')
        if abs((base + logabs) - float(lp[0])) > 1e-6 * (1 + abs(float(lp[0]))):
            ctx.violation('c15-logprob:' + name, f'{name}: log_prob {float(lp[0])!r} but change of variables gives {base + logabs!r}', replay=rep)
            return False
    return True


def ask(ctx, op):
    return ctx.get_driver().ask(op)


def run(ctx):
    quick = ctx.tier == 'quick'
    rs0 = np.random.RandomState(np_seed(ctx.sub_rng('cfg')))
    torch.set_num_threads(1)
    # ------------------------------------------------------------------ exact index arithmetic vs the model
    n_made = 14 if quick else 120
    for k in range(n_made):
        rs = np.random.RandomState(np_seed(ctx.sub_rng('made', k)))
        n = int(rs.randint(2, 10)); depth = int(rs.randint(1, 4)); units = int(rs.randint(1, 17)); rev = bool(rs.rand() < 0.5)
        seq = (k % 2 == 0)
        seed = int(rs.randint(10000))
        rep = dict(kind='c15-made', n=n, depth=depth, units=units, reverse=rev, sequential=seq, seed=seed)
        ctx.case('made', nontrivial_key=json.dumps(rep, sort_keys=True), sample=rep)
        ctx.count('made-sequential' if seq else 'made-random')
        layer = AutoregressiveLayer(n, depth, units, 'tanh', reverse=rev, sequential=seq, random_state=np.random.RandomState(seed))
        if ctx.driver_ok:
            if seq:
                degrees = layer.build_degrees_sequential(depth, units, rev)
                got = ask(ctx, dict(op='made_seq', features=n, hidden=[units] * depth, reverse=rev))
                exp = 'deg {} # {}'.format('|'.join(nats(d) for d in degrees), made_report(layer, n))
            else:
                degrees = layer.build_degrees_random(depth, units, np.random.RandomState(seed))
                got = ask(ctx, dict(op='made_masks', degrees=[[int(a) for a in d] for d in degrees]))
                exp = made_report(layer, n) + ' # admissible true'
            if got != exp:
                # failing-input search: is the layer still autoregressive? (Jacobian must be triangular w.r.t. the ordering)
                ok = numeric_bijection(ctx, 'AutoregressiveLayer', randomize(layer, rs), (n,), rs, rep)
                ctx.violation('c15-made-masks', f'MADE degrees/masks differ from the model\n impl : {exp[:200]}\n model: {got[:200]}', replay=rep,
                              found_input=False) if ok else None
                continue
        numeric_bijection(ctx, 'AutoregressiveLayer', randomize(layer, rs), (n,), rs, rep)
        if ctx.n_new(with_input_only=True) >= 3:
            return
    # squeeze / unsqueeze
    for (c, h, w) in [(1, 2, 2), (1, 2, 4), (2, 4, 2), (3, 4, 4), (1, 6, 8), (2, 2, 6), (2, 8, 8), (5, 2, 2)] + \
            ([] if quick else [(c, h, w) for c in (1, 2, 3, 4) for h in (2, 4, 6, 10) for w in (2, 4, 8, 12)]):
        rep = dict(kind='c15-squeeze', c=c, h=h, w=w)
        ctx.case('squeeze', nontrivial_key=('squeeze', c, h, w), sample=rep)
        x = torch.arange(c * h * w).view(1, c, h, w)
        y = squeeze_depth2d(x)
        z = unsqueeze_depth2d(y)
        if not torch.equal(z, x) or tuple(y.shape) != (1, 4 * c, h // 2, w // 2) or sorted(y.reshape(-1).tolist()) != list(range(c * h * w)):
            ctx.violation('c15-squeeze', f'squeeze/unsqueeze is not a bijection on a {c}x{h}x{w} tensor', replay=rep)
            continue
        if ctx.driver_ok:
            if ask(ctx, dict(op='squeeze', c=c, h=h, w=w)) != nats(y.numpy()) or \
                    ask(ctx, dict(op='unsqueeze', c=4 * c, h=h // 2, w=w // 2)) != nats(unsqueeze_depth2d(torch.arange(c * h * w).view(1, 4 * c, h // 2, w // 2)).numpy()):
                ctx.violation('c15-squeeze-model', f'squeeze index map differs from the model on {c}x{h}x{w}', replay=rep, found_input=False)
    # coupling masks
    for n, rev in itertools.product([1, 2, 3, 6, 9], [False, True]):
        layer = CouplingLayer1d(n, 1, 4, affine=True, reverse=rev)
        rep = dict(kind='c15-coupling1d', n=n, reverse=rev)
        ctx.case('coupling-mask', nontrivial_key=('alt', n, rev), sample=rep)
        if not np.array_equal(layer.inv_mask.numpy(), 1.0 - layer.mask.numpy()):
            ctx.violation('c15-masks-not-complementary', 'coupling masks are not complementary', replay=rep)
        if ctx.driver_ok and ask(ctx, dict(op='coupling_mask', kind='alternating', n=n, reverse=rev)) != bits(layer.mask.numpy()):
            ctx.violation('c15-coupling-mask-model', f'alternating mask differs from the model (n={n}, reverse={rev})', replay=rep, found_input=False)
    for (c, h, w), rev in itertools.product([(1, 2, 2), (2, 2, 4), (3, 4, 2), (1, 3, 5)], [False, True]):
        layer = CouplingLayer2d((c, h, w), 'resnet', 1, 4, affine=True, channelwise=False, reverse=rev)
        rep = dict(kind='c15-coupling2d', c=c, h=h, w=w, reverse=rev)
        ctx.case('coupling-mask', nontrivial_key=('chk', c, h, w, rev), sample=rep)
        m = np.broadcast_to(layer.mask.numpy(), (c, h, w))
        if not np.array_equal(layer.inv_mask.numpy(), 1.0 - layer.mask.numpy()):
            ctx.violation('c15-masks-not-complementary', 'coupling masks are not complementary', replay=rep)
        if ctx.driver_ok and ask(ctx, dict(op='coupling_mask', kind='checkerboard', c=c, h=h, w=w, reverse=rev)) != bits(m):
            ctx.violation('c15-coupling-mask-model', f'checkerboard mask differs from the model ({c}x{h}x{w}, reverse={rev})', replay=rep, found_input=False)
    for c in [1, 2, 3, 4, 6]:
        P = RealNVP2d.build_permutation_matrix(c)
        rep = dict(kind='c15-perm', c=c)
        ctx.case('perm', nontrivial_key=('perm', c), sample=rep)
        if ctx.driver_ok and ask(ctx, dict(op='perm', channels=c)) != bits(P.numpy()):
            ctx.violation('c15-perm-model', f'permutation matrix differs from the model (c={c})', replay=rep, found_input=False)
        x = torch.randn(1, c, 4, 4, dtype=torch.float64)
        y = F.conv2d(x, P.double(), stride=2)
        z = F.conv_transpose2d(y, P.double(), stride=2)
        if not torch.allclose(z, x, atol=1e-12) or sorted(y.reshape(-1).tolist()) != sorted(x.reshape(-1).tolist()):
            ctx.violation('c15-perm', f'strided permutation convolution is not inverted by its transpose (c={c})', replay=rep)
    # ------------------------------------------------------------------ layers and whole models, arbitrary parameters
    n_layers = 20 if quick else 200
    for k in range(n_layers):
        rs = np.random.RandomState(np_seed(ctx.sub_rng('layer', k)))
        kind = k % 3
        if k % 5 == 4:
            # the logit pre-processing step on its own (models apply it outside apply_forward / apply_backward)
            from deeprob.flows.utils import LogitLayer
            alpha = float(rs.choice([0.01, 0.05, 0.2, 1e-6]))
            shape = (int(rs.randint(1, 7)),) if rs.rand() < 0.6 else (1, 2, 2)
            rep = dict(kind='c15-layer', layer='LogitLayer', shape=list(shape), alpha=alpha, k=k)
            ctx.case('layer', nontrivial_key=json.dumps(rep, sort_keys=True), sample=rep)
            ctx.count('layer:LogitLayer')
            numeric_bijection(ctx, 'LogitLayer', randomize(LogitLayer(shape if len(shape) > 1 else shape[0], alpha), rs), shape, rs, rep, unit_interval=True)
            if ctx.n_new(with_input_only=True) >= 3:
                return
            continue
        if kind == 0:
            n = int(rs.randint(1, 10)); affine = bool(rs.rand() < 0.7); rev = bool(rs.rand() < 0.5)
            rep = dict(kind='c15-layer', layer='CouplingLayer1d', n=n, affine=affine, reverse=rev, k=k)
            obj = CouplingLayer1d(n, int(rs.randint(1, 3)), int(rs.randint(1, 9)), affine=affine, reverse=rev)
            shape = (n,)
        else:
            c = int(rs.choice([2, 4])) if kind == 2 else int(rs.randint(1, 4))
            h, w = int(rs.choice([2, 4, 6])), int(rs.choice([2, 4]))
            affine = bool(rs.rand() < 0.7); rev = bool(rs.rand() < 0.5)
            net = str(rs.choice(['resnet', 'densenet']))
            rep = dict(kind='c15-layer', layer='CouplingLayer2d', shape=[c, h, w], channelwise=(kind == 2), network=net, affine=affine, reverse=rev, k=k)
            obj = CouplingLayer2d((c, h, w), net, 1, 4, affine=affine, channelwise=(kind == 2), reverse=rev)
            shape = (c, h, w)
        ctx.case('layer', nontrivial_key=json.dumps(rep, sort_keys=True), sample=rep)
        ctx.count('layer:' + rep['layer'] + (':channelwise' if rep.get('channelwise') else ''))
        numeric_bijection(ctx, rep['layer'], randomize(obj, rs), shape, rs, rep)
        if ctx.n_new(with_input_only=True) >= 3:
            return
    from deeprob.flows.utils import BatchNormLayer1d, BatchNormLayer2d
    for k in range(10 if quick else 80):
        rs = np.random.RandomState(np_seed(ctx.sub_rng('bn', k)))
        if k % 3 == 0:
            n = int(rs.randint(1, 9))
            obj, shape, rep = BatchNormLayer1d(n), (n,), dict(kind='c15-layer', layer='BatchNormLayer1d', n=n, k=k)
        else:
            c, h, w = int(rs.randint(1, 4)), int(rs.choice([1, 2, 3, 4, 6])), int(rs.choice([1, 2, 3, 5, 6]))
            obj, shape, rep = BatchNormLayer2d(c), (c, h, w), dict(kind='c15-layer', layer='BatchNormLayer2d', shape=[c, h, w], k=k)
        ctx.case('layer', nontrivial_key=json.dumps(rep, sort_keys=True), sample=rep)
        ctx.count('layer:' + rep['layer'] + (':non-square' if len(shape) == 3 and shape[1] != shape[2] else ''))
        numeric_bijection(ctx, rep['layer'], randomize(obj, rs), shape, rs, rep)
        if ctx.n_new(with_input_only=True) >= 3:
            return
    n_models = 18 if quick else 200
    for k in range(n_models):
        rs = np.random.RandomState(np_seed(ctx.sub_rng('model', k)))
        kind = k % 3
        logit = float(rs.choice([0.01, 0.05, 0.2])) if rs.rand() < 0.4 else None
        if k % 6 == 5:
            # a flow whose base distribution is itself a flow with batch normalisation (a torch Module with train / eval modes)
            n = int(rs.randint(2, 6))
            cfg = dict(model='RealNVP1d-over-MAF', in_features=n, logit=None, n_flows=int(rs.randint(1, 3)), units=int(rs.randint(2, 9)), seed=int(rs.randint(10000)))
            inner = MAF(n, n_flows=1, depth=1, units=cfg['units'], batch_norm=True, activation='tanh', sequential=True, random_state=np.random.RandomState(cfg['seed']))
            model = RealNVP1d(n, in_base=inner, n_flows=cfg['n_flows'], depth=1, units=cfg['units'], batch_norm=False, affine=True)
            logit = None
            shape = (n,)
        elif kind == 0:
            n = int(rs.randint(2, 9))
            cfg = dict(model='MAF', in_features=n, logit=logit, n_flows=int(rs.randint(1, 4)), depth=int(rs.randint(1, 3)), units=int(rs.randint(1, 17)),
                       batch_norm=bool(rs.rand() < 0.6), sequential=bool(rs.rand() < 0.5), seed=int(rs.randint(10000)))
            model = MAF(n, logit=logit, n_flows=cfg['n_flows'], depth=cfg['depth'], units=cfg['units'], batch_norm=cfg['batch_norm'],
                        activation='tanh', sequential=cfg['sequential'], random_state=np.random.RandomState(cfg['seed']))
            shape = (n,)
        elif kind == 1:
            n = int(rs.randint(2, 9))
            cfg = dict(model='RealNVP1d', in_features=n, logit=logit, n_flows=int(rs.randint(1, 4)), depth=int(rs.randint(1, 3)), units=int(rs.randint(1, 9)),
                       batch_norm=bool(rs.rand() < 0.6), affine=bool(rs.rand() < 0.7))
            model = RealNVP1d(n, logit=logit, n_flows=cfg['n_flows'], depth=cfg['depth'], units=cfg['units'], batch_norm=cfg['batch_norm'], affine=cfg['affine'])
            shape = (n,)
        else:
            c = int(rs.randint(1, 3)); nf = int(rs.randint(1, 3)); side = 4 if nf == 1 else 8
            if nf == 2:
                c = 1
            cfg = dict(model='RealNVP2d', in_features=[c, side, side], logit=logit, network=str(rs.choice(['resnet', 'densenet'])), n_flows=nf,
                       n_blocks=1, channels=4, affine=bool(rs.rand() < 0.7))
            model = RealNVP2d((c, side, side), logit=logit, network=cfg['network'], n_flows=cfg['n_flows'], n_blocks=1, channels=4, affine=cfg['affine'])
            shape = (c, side, side)
        rep = dict(kind='c15-model', k=k, **cfg)
        ctx.case('model', nontrivial_key=json.dumps(rep, sort_keys=True), sample=rep)
        ctx.count('model:' + cfg['model'])
        randomize(model, rs)
        try:
            if numeric_bijection(ctx, cfg['model'], model, shape, rs, rep):
                ok = model_logprob(ctx, cfg['model'], model, shape, rs, rep, unit_interval=(logit is not None))
                if ok and k % 2 == 0:
                    # history on the same object: it has been queried in evaluation mode (with and without autograd); now other
                    # parameters and running statistics are loaded into it (checkpoint restore), then it is queried again
                    g = torch.Generator().manual_seed(int(rs.randint(2 ** 31 - 1)))
                    sd = {}
                    pnames = {n_ for n_, p_ in model.named_parameters() if p_.requires_grad}
                    for key, v in model.state_dict().items():
                        if not torch.is_floating_point(v) or not (key in pnames or 'running_' in key):
                            sd[key] = v          # masks, permutations, orderings: structure, not trained state
                        elif 'running_var' in key:
                            sd[key] = v * (0.5 + torch.rand(v.shape, generator=g, dtype=v.dtype))
                        else:
                            sd[key] = v + 0.3 * torch.randn(v.shape, generator=g, dtype=v.dtype)
                    model.load_state_dict(sd)
                    model.eval()
                    ctx.count('models-queried-again-after-load_state_dict')
                    rep2 = dict(rep, history=['eval-mode queries (no_grad and autograd)', 'load_state_dict(perturbed parameters and running statistics)'])
                    if numeric_bijection(ctx, cfg['model'] + ' (after load_state_dict)', model, shape, rs, rep2):
                        model_logprob(ctx, cfg['model'] + ' (after load_state_dict)', model, shape, rs, rep2, unit_interval=(logit is not None))
        except RuntimeError as ex:
            if 'shape' in str(ex) or 'size' in str(ex):
                ctx.count('configuration-not-runnable')      # image side not divisible by the model's scales: not an accepted configuration
            else:
                ctx.violation(f'c15-raises:{type(ex).__name__}', f'{cfg["model"]} in evaluation mode raised {type(ex).__name__}: {str(ex)[:200]}', replay=rep)
        except Exception as ex:
            ctx.violation(f'c15-raises:{type(ex).__name__}', f'{cfg["model"]} in evaluation mode raised {type(ex).__name__}: {str(ex)[:200]} '
                                                            f'(log_prob of a single point / of a batch)', replay=rep)
        if ctx.n_new(with_input_only=True) >= 3:
            return


def replay(rep):
    print('replay of C15 cases: re-run the check with the same VERIF_SEED (cases are derived from the seed); configuration:', rep['replay'])
    return True
