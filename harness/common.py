"""Shared infrastructure of the deeprob-kit verification checks.

Life-cycle of one check (see DESIGN.md §3): regenerate Generated/*.lean from /repo, build the
property's Lean modules and the model driver, audit axioms, run the differential correspondence
(corpus first), write evidence, exit 0 / 1 (VIOLATION line) / 2 (infrastructure).
"""
import os, sys, json, time, random, subprocess, fcntl, re, shutil, math, hashlib, traceback
from fractions import Fraction

VERIF = os.path.dirname(os.path.dirname(os.path.abspath(__file__)))
REPO = os.environ.get('DEEPROB_REPO', '/repo')
LEAN = os.path.join(VERIF, 'lean')
RUN = os.path.join(VERIF, '.run')
REPLAY = os.path.join(VERIF, 'replay')
EVID = os.path.join(VERIF, 'evidence')
GUARD = 'DEEPROB_KIT_VERIF'
try:
    sys.set_int_max_str_digits(0)
except AttributeError:
    pass
ALLOWED_AXIOMS = {'propext', 'Classical.choice', 'Quot.sound'}

if REPO not in sys.path:
    sys.path.insert(0, REPO)


class Infra(Exception):
    """infrastructure failure: exit 2, never a verdict"""


# ----------------------------------------------------------------------------- exact numbers
def frac(x):
    """exact rational of a Python / NumPy float"""
    return Fraction(float(x))


def sexp(x):
    """exp that never raises: +inf on overflow AND on NaN (so that every comparison of the result with a finite reference, written
    either as `abs(a - b) > tol` or as `abs(a - b) <= tol`, reports a difference), 0.0 far below the double range"""
    x = float(x)
    if x != x or x > 709.0:
        return float('inf')
    if x < -745.0:
        return 0.0
    return math.exp(x)


def fstr(q):
    q = Fraction(q)
    return f"{q.numerator}/{q.denominator}"


def parse_q(s):
    n, d = s.split('/')
    return Fraction(int(n), int(d))


def qlog(q):
    """natural log of a positive Fraction, robust to huge numerators/denominators"""
    if q <= 0:
        return -math.inf
    n, d = q.numerator, q.denominator
    sh = max(n.bit_length(), d.bit_length()) - 1000
    if sh > 0:
        # scale both to avoid float overflow
        return math.log(n >> max(0, n.bit_length() - 1000)) + max(0, n.bit_length() - 1000) * math.log(2) \
            - math.log(d >> max(0, d.bit_length() - 1000)) - max(0, d.bit_length() - 1000) * math.log(2)
    return math.log(n) - math.log(d)


def close_log(ll_impl, q, atol=5e-4, rtol=2e-5):
    """impl log-value vs exact value q (Fraction)"""
    ll_impl = float(ll_impl)
    if q <= 0:
        return ll_impl <= -1e30 or ll_impl == -math.inf
    ref = qlog(q)
    if math.isnan(ll_impl):
        return False
    return abs(ll_impl - ref) <= atol + rtol * abs(ref)


def close_lin(v_impl, q, atol=1e-6, rtol=2e-4):
    v_impl = float(v_impl)
    if math.isnan(v_impl):
        return False
    ref = float(q)
    return abs(v_impl - ref) <= atol + rtol * abs(ref)


# ----------------------------------------------------------------------------- lean build
def _sh(cmd, cwd=None, timeout=3600, env=None):
    p = subprocess.run(cmd, cwd=cwd, stdout=subprocess.PIPE, stderr=subprocess.STDOUT, text=True,
                       timeout=timeout, env=env)
    return p.returncode, p.stdout


class BuildLock:
    def __enter__(self):
        os.makedirs(os.path.join(LEAN, '.lake'), exist_ok=True)
        self.f = open(os.path.join(LEAN, '.lake', 'verif.build.lock'), 'w')
        fcntl.flock(self.f, fcntl.LOCK_EX)
        return self

    def __exit__(self, *a):
        fcntl.flock(self.f, fcntl.LOCK_UN)
        self.f.close()


def write_if_changed(path, text):
    try:
        if open(path).read() == text:
            return False
    except FileNotFoundError:
        pass
    tmp = path + f'.tmp{os.getpid()}'
    with open(tmp, 'w') as f:
        f.write(text)
    os.replace(tmp, path)
    return True


def regenerate():
    """run the translator: Generated/*.lean from the current /repo working tree.
    Returns dict name -> error string for fragments that could not be translated."""
    sys.path.insert(0, os.path.join(VERIF, 'tools'))
    import py2lean
    return py2lean.generate(REPO, os.path.join(LEAN, 'DeeprobModel', 'Generated'), write_if_changed)


def lake_build(targets, timeout=3000):
    rc, out = _sh(['lake', 'build'] + targets, cwd=LEAN, timeout=timeout)
    return rc, out


def failed_modules(out):
    mods = set()
    for m in re.finditer(r'^✖ \[\d+/\d+\] (?:Building|Running) (\S+)', out, re.M):
        mods.add(m.group(1))
    for m in re.finditer(r'^- (\S+)$', out, re.M):
        mods.add(m.group(1))
    for m in re.finditer(r'^error: (\S+?\.lean):', out, re.M):
        mods.add(m.group(1)[:-5].replace('/', '.'))
    return sorted(mods)


FORBIDDEN = re.compile(r'\bsorry\b|\badmit\b|^\s*axiom\s|native_decide|bv_decide|implemented_by|\bunsafe\s|maxHeartbeats 0')


def grep_forbidden():
    hits = []
    for root, _, files in os.walk(os.path.join(LEAN, 'DeeprobModel')):
        for fn in files:
            if not fn.endswith('.lean'):
                continue
            p = os.path.join(root, fn)
            in_block = 0
            for ln, line in enumerate(open(p), 1):
                s = line
                # strip block comments (non-nested approximation good enough: we never write code after -/ on a line)
                if in_block:
                    if '-/' in s:
                        in_block = 0
                        s = s.split('-/', 1)[1]
                    else:
                        continue
                if '/-' in s:
                    before, after = s.split('/-', 1)
                    if '-/' in after:
                        s = before + after.split('-/', 1)[1]
                    else:
                        in_block = 1
                        s = before
                s = s.split('--', 1)[0]
                if FORBIDDEN.search(s):
                    hits.append(f'{os.path.relpath(p, LEAN)}:{ln}: {line.strip()}')
    return hits


def audit_axioms(prop, theorems, imports):
    """#print axioms for every registered theorem; returns (results, problems)"""
    os.makedirs(RUN, exist_ok=True)
    path = os.path.join(RUN, f'Audit_{prop}_{os.getpid()}.lean')
    with open(path, 'w') as f:
        for imp in imports:
            f.write(f'import {imp}\n')
        for t in theorems:
            f.write(f'#print axioms {t}\n')
    try:
        rc, out = _sh(['lake', 'env', 'lean', path], cwd=LEAN, timeout=1800)
    finally:
        try:
            os.remove(path)
        except OSError:
            pass
    results, problems = {}, []
    flat = re.sub(r'\n\s+', ' ', out)
    for t in theorems:
        m = re.search(r"'" + re.escape(t) + r"' (does not depend on any axioms|depends on axioms: \[([^\]]*)\])", flat)
        if not m:
            problems.append(f'{t}: not found in the build ({out.strip()[:300]})')
            continue
        axs = set() if m.group(2) is None else {a.strip() for a in m.group(2).split(',') if a.strip()}
        results[t] = sorted(axs)
        bad = axs - ALLOWED_AXIOMS
        if bad:
            problems.append(f'{t}: depends on non-standard axioms {sorted(bad)}')
    return results, problems


# ----------------------------------------------------------------------------- driver
class Driver:
    def __init__(self):
        exe = os.path.join(LEAN, '.lake', 'build', 'bin', 'driver')
        if not os.path.exists(exe):
            raise Infra('model driver is not built')
        def _die_with_parent():
            try:
                import ctypes, signal
                ctypes.CDLL('libc.so.6').prctl(1, signal.SIGKILL)      # PR_SET_PDEATHSIG
            except Exception:
                pass
        self.p = subprocess.Popen([exe], stdin=subprocess.PIPE, stdout=subprocess.PIPE, text=True, bufsize=1, preexec_fn=_die_with_parent)
        self.lines = 0

    def ask(self, obj):
        self.p.stdin.write(json.dumps(obj) + '\n')
        self.p.stdin.flush()
        ans = self.p.stdout.readline()
        if not ans:
            raise Infra('model driver died')
        self.lines += 1
        ans = ans.rstrip('\n')
        if ans.startswith('bad-op'):
            raise Infra(f'driver: {ans} for {json.dumps(obj)[:400]}')
        return ans

    def close(self):
        try:
            self.p.stdin.close()
            self.p.wait(timeout=10)
        except Exception:
            self.p.kill()


# ----------------------------------------------------------------------------- known findings
def load_findings():
    p = os.path.join(VERIF, 'known_findings.json')
    if not os.path.exists(p):
        return []
    return json.load(open(p))['findings']


# ----------------------------------------------------------------------------- check context
class Violation(Exception):
    pass


class Ctx:
    """one run of one property's check"""

    def __init__(self, prop, tier, seed):
        self.prop, self.tier, self.seed = prop, tier, seed
        self.rng = random.Random((hash_str(prop) << 20) ^ seed)
        self.t0 = time.time()
        self.evaluations = 0
        self.nontrivial = set()
        self.samples = []
        self.hist = {}
        self.violations = []       # dicts: {fingerprint, what, replay(dict) or None, found_input(bool)}
        self.obligations = []      # (name, ok)
        self.notes = []
        self.assumptions = []
        self.extra = {}
        self.driver = None
        self.build_broken = []     # names of theorems / modules / correspondence streams that no longer check

    # counters ---------------------------------------------------------------
    def count(self, key, n=1):
        self.hist[key] = self.hist.get(key, 0) + n

    def case(self, desc, nontrivial_key=None, sample=None):
        self.evaluations += 1
        if nontrivial_key is not None:
            self.nontrivial.add(nontrivial_key if isinstance(nontrivial_key, (str, int, tuple)) else json.dumps(nontrivial_key, sort_keys=True))
        if sample is not None and len(self.samples) < 6:
            self.samples.append(sample)

    def sub_rng(self, *keys):
        return random.Random(hash_str(self.prop + '|' + '|'.join(map(str, keys))) ^ (self.seed * 0x9E3779B1))

    # verdicts ---------------------------------------------------------------
    def violation(self, fingerprint, what, replay=None, found_input=True):
        if not found_input and sum(1 for v in self.violations if not v['found_input']) >= 5:
            return          # enough disagreements recorded; keep looking for a concrete failing input
        self.violations.append(dict(fingerprint=fingerprint, what=what, replay=replay, found_input=found_input))

    def n_new(self, with_input_only=False):
        """violations that are not listed as known findings (used for early exit); with_input_only: count only those that come
        with a concrete failing input, so that the search for one continues after a mere model / implementation disagreement"""
        if not hasattr(self, '_known'):
            self._known = {f['fingerprint'] for f in load_findings() if f['property'] == self.prop and f['status'] == 'known'}
        return sum(1 for v in self.violations if v['fingerprint'] not in self._known and (v['found_input'] or not with_input_only))

    def broken(self, name, detail=''):
        self.build_broken.append(dict(name=name, detail=detail[:4000]))

    def get_driver(self):
        if self.driver is None:
            self.driver = Driver()
        return self.driver


class CallTimeout(Exception):
    """a library call did not return within the limit of the check"""


class time_limit:
    """with time_limit(seconds): ...  raises CallTimeout inside the block (main thread only; SIGALRM)"""

    def __init__(self, seconds):
        self.seconds = seconds

    def __enter__(self):
        import signal

        def _raise(signum, frame):
            raise CallTimeout(f'no return within {self.seconds} s')
        self._old = signal.signal(signal.SIGALRM, _raise)
        signal.setitimer(signal.ITIMER_REAL, self.seconds)
        return self

    def __exit__(self, *a):
        import signal
        signal.setitimer(signal.ITIMER_REAL, 0)
        signal.signal(signal.SIGALRM, self._old)
        return False


def limited(fn, seconds, on_timeout):
    """fn with a wall-clock limit; on_timeout(name, args, kwargs) is called before CallTimeout propagates"""
    import functools

    @functools.wraps(fn)
    def wrapper(*a, **k):
        try:
            with time_limit(seconds):
                return fn(*a, **k)
        except CallTimeout:
            on_timeout(getattr(fn, '__name__', str(fn)), a, k)
            raise
    return wrapper


def run_demo(ctx, name, args, fp, what, env_extra=None, timeout=3000):
    """run a correspondence script of harness/demos as a sub-process (its own interpreter: several of them patch library
    modules) against the freshly built driver. Exit 0 = model and implementation agree on everything it generated (its counts go
    into the evidence); any other exit = disagreement, reported with the script's own description of the failing case."""
    script = os.path.join(VERIF, 'harness', 'demos', name)
    env = dict(os.environ, PYTHONPATH=f'{REPO}:{VERIF}:' + os.environ.get('PYTHONPATH', ''),
               DEEPROB_DRIVER=os.path.join(LEAN, '.lake', 'build', 'bin', 'driver'), **(env_extra or {}))
    cmd = [sys.executable, script] + [str(a) for a in args]
    for attempt in range(3):
        try:
            r = subprocess.run(cmd, cwd=VERIF, env=env, stdout=subprocess.PIPE, stderr=subprocess.STDOUT, text=True, timeout=timeout)
        except subprocess.TimeoutExpired:
            raise Infra(f'{name} timed out')
        out = r.stdout
        if r.returncode != 0 and ('driver is not built' in out or 'driver not built' in out):
            # another check is relinking the driver right now (the executable is replaced under the build lock): not a finding
            with BuildLock():
                pass
            if attempt == 2:
                raise Infra(f'{name}: the driver executable is missing')
            continue
        break
    ctx.count(f'demo:{name}:runs')
    ctx.extra.setdefault('demos', {})[name] = dict(args=[str(a) for a in args], rc=r.returncode, tail=out[-1500:])
    ctx.case(f'demo:{name}', nontrivial_key=f'{name}:{args}', sample=dict(script=name, args=[str(a) for a in args], output_tail=out[-600:]))
    if r.returncode != 0:
        lines = [l for l in out.splitlines() if l.strip()]
        # a script that ends in an uncaught exception did not REPORT a disagreement, it could not digest what the implementation (or the
        # model) did: the correspondence no longer checks, but that is not yet an input on which the property fails
        crashed = any(l.startswith('Traceback (most recent call last)') for l in lines[-40:])
        ctx.violation(fp, f'{what}: ' + ' | '.join(lines[-6:])[:900],
                      replay=dict(kind='demo', script=name, args=[str(a) for a in args], env=env_extra or {}, output_tail=out[-3000:]),
                      **(dict(found_input=False) if crashed else {}))
        return False
    return True


def replay_demo(r):
    script = os.path.join(VERIF, 'harness', 'demos', r['script'])
    env = dict(os.environ, PYTHONPATH=f'{REPO}:{VERIF}:' + os.environ.get('PYTHONPATH', ''),
               DEEPROB_DRIVER=os.path.join(LEAN, '.lake', 'build', 'bin', 'driver'), **r.get('env', {}))
    p = subprocess.run([sys.executable, script] + r['args'], cwd=VERIF, env=env)
    return p.returncode == 0


def hash_str(s):
    return int(hashlib.sha256(s.encode()).hexdigest()[:12], 16)


def np_seed(rng):
    return rng.randrange(2 ** 31 - 1)


# ----------------------------------------------------------------------------- finishing
TRUSTED_BASE = [
    'Lean 4.33 kernel; axioms of every registered theorem limited to propext, Classical.choice, Quot.sound (audited by #print axioms on every run)',
    'Mathlib modules imported by the proof files (checked by the same kernel)',
    'tools/py2lean.py translator (Python AST of whitelisted functions -> Generated/*.lean)',
    'harness exporter / canonicalisation / tolerance table and the Lean driver (Driver/*.lean)',
    'modelled, not verified: IEEE float32/float64 rounding, NumPy/SciPy/PyTorch/scikit-learn/NetworkX/joblib semantics',
]


def finish(ctx, theorems, axioms, checker_cmd, level='proof', rule='', exhaustive=False):
    wall = time.time() - ctx.t0
    findings = load_findings()
    known = {f['fingerprint']: f for f in findings if f['property'] == ctx.prop and f['status'] == 'known'}
    real, known_hit = [], []
    for v in ctx.violations:
        if v['fingerprint'] in known:
            known_hit.append(v)
        else:
            real.append(v)
    # a broken proof / obligation / correspondence with no concrete failing input
    for b in ctx.build_broken:
        real.append(dict(fingerprint='broken:' + b['name'], what=f"no longer checks: {b['name']}",
                         replay=dict(kind='broken-proof-or-correspondence', name=b['name'], detail=b['detail']),
                         found_input=False))
    # prefer concrete failing inputs over "broken" entries
    n_ob = len(ctx.obligations)
    n_ok = sum(1 for _, ok in ctx.obligations if ok)
    os.makedirs(EVID, exist_ok=True)
    cov = dict(
        obligations=max(n_ob, 1) if n_ob else 0, discharged=n_ok,
        checker_cmd=checker_cmd, trusted_base=TRUSTED_BASE + ctx.assumptions,
        evaluations=ctx.evaluations, distinct_nontrivial=len(ctx.nontrivial),
        rule=rule, samples=ctx.samples[:6] if ctx.samples else [{'note': 'no case was generated'}],
        exhaustive=exhaustive, histogram=ctx.hist,
        theorems=[dict(name=t, axioms=axioms.get(t)) for t in theorems],
        obligations_list=[dict(name=n, ok=ok) for n, ok in ctx.obligations],
        model_driver_lines=ctx.driver.lines if ctx.driver else 0,
        notes=ctx.notes, known_findings_hit=[v['what'] for v in known_hit],
    )
    cov.update(ctx.extra)
    ev = dict(property_id=ctx.prop, tier=ctx.tier, seed=ctx.seed, level=level, coverage=cov,
              assumptions=TRUSTED_BASE + ctx.assumptions, wall_s=round(wall, 2), violations=len(real))
    # a --no-build run (debugging: proofs neither rebuilt nor audited) must not overwrite the evidence of a full run
    ev_path = os.path.join(EVID, f'{ctx.prop}.json') if not getattr(ctx, 'no_build', False) else os.path.join('/tmp', f'evidence-no-build-{ctx.prop}.json')
    with open(ev_path, 'w') as f:
        json.dump(ev, f, indent=1, default=str)
    if ctx.driver:
        ctx.driver.close()
    seen = set()
    for v in known_hit:
        if v['fingerprint'] not in seen:
            seen.add(v['fingerprint'])
            print(f"KNOWN-FINDING: property={ctx.prop} {known[v['fingerprint']]['message']}")
    if not real:
        print(f"OK property={ctx.prop} tier={ctx.tier} seed={ctx.seed} evaluations={ctx.evaluations} "
              f"obligations={n_ok}/{n_ob} wall={wall:.1f}s")
        return 0
    os.makedirs(REPLAY, exist_ok=True)
    # report: concrete inputs first
    real.sort(key=lambda v: (not v['found_input']))
    have_input = any(v['found_input'] for v in real)
    shown = 0
    for i, v in enumerate(real):
        if have_input and not v['found_input']:
            continue  # the concrete input explains the broken proof / correspondence
        path = os.path.join(REPLAY, f"{ctx.prop}_{ctx.tier}_{ctx.seed}_{i}.json")
        with open(path, 'w') as f:
            json.dump(dict(property=ctx.prop, tier=ctx.tier, seed=ctx.seed, fingerprint=v['fingerprint'], what=v['what'],
                           found_input=v['found_input'], replay=v['replay'],
                           also_broken=[b['name'] for b in ctx.build_broken]), f, indent=1, default=str)
        tail = '' if v['found_input'] else ' no-failing-input-found'
        print(f"# {v['what']}")
        print(f"VIOLATION property={ctx.prop} replay={path}{tail}")
        shown += 1
        if shown >= 5:
            break
    return 1
