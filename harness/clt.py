"""Shared helpers for Chow-Liu-tree checks (C06, C07, C11, C12)."""
import itertools
import numpy as np
from harness.common import frac, fstr
from deeprob.spn.structure.cltree import BinaryCLT
from deeprob.spn.structure.node import Sum, Product
from deeprob.spn.structure.leaf import Bernoulli


def all_pred_vectors(n):
    """every predecessor vector over n variables that encodes a rooted spanning tree"""
    out = []
    for root in range(n):
        others = [i for i in range(n) if i != root]
        for parents in itertools.product(range(n), repeat=n - 1):
            pred = [-1] * n
            ok = True
            for i, p in zip(others, parents):
                if p == i:
                    ok = False
                    break
                pred[i] = p
            if not ok:
                continue
            # every node must reach the root
            good = True
            for i in range(n):
                j, steps = i, 0
                while pred[j] != -1 and steps <= n:
                    j = pred[j]
                    steps += 1
                if pred[j] != -1:
                    good = False
                    break
            if good:
                out.append(pred)
    return out


def make_clt(rs, scope, pred, root_rows_equal=True):
    n = len(scope)
    probs = rs.uniform(0.03, 0.97, (n, 2))
    params = np.zeros((n, 2, 2))
    params[:, :, 1] = probs
    params[:, :, 0] = 1 - probs
    root = pred.index(-1)
    if root_rows_equal:
        params[root, 1] = params[root, 0]
    return BinaryCLT([int(s) for s in scope], root=int(scope[root]), tree=list(pred), params=np.log(params).tolist())


def clt_payload(clt, float32_factors=False):
    """scope / pred / cpt (exact rationals of the linear-domain tables)"""
    n = len(clt.scope)
    if float32_factors:
        tabs = [np.exp(clt.params[i]) for i in range(n)]          # exactly what to_pc uses as weights
    else:
        tabs = [np.exp(np.asarray(clt.params[i], dtype=np.float64)) for i in range(n)]
    cpt = [[[fstr(frac(tabs[i][l][k])) for k in range(2)] for l in range(2)] for i in range(n)]
    return dict(scope=[int(v) for v in clt.scope], pred=[int(t) for t in clt.tree], cpt=cpt)


def circ_text(n):
    """canonical tree text of a deeprob circuit (sharing unfolded), same format as the driver's circText"""
    sc = '[' + ', '.join(str(int(v)) for v in n.scope) + ']'
    if isinstance(n, Sum):
        return f"S{sc}[" + ','.join(fstr(frac(w)) + ':' + circ_text(c) for w, c in zip(n.weights, n.children)) + ']'
    if isinstance(n, Product):
        return f"P{sc}[" + ','.join(circ_text(c) for c in n.children) + ']'
    if isinstance(n, Bernoulli):
        p = float(n.p)
        return f"L{sc}({fstr(frac(1.0 - p))},{fstr(frac(p))},1/1)"
    raise ValueError(type(n))


def ref_clt_logvalue(pred, logparams, row):
    """log P(evidence) of a binary Chow-Liu tree in float64, by a plain bottom-up recursion in the LOG domain written from the
    definition (row: per node position 0 / 1 / None = missing; logparams[i][l][k] = log P(X_i = k | parent = l), root row 0).
    Independent of the library's message passing and of any batch: the reference for wide trees and peaked tables."""
    import math
    n = len(pred)
    children = [[] for _ in range(n)]
    root = None
    for i, p in enumerate(pred):
        if p == -1:
            root = i
        else:
            children[p].append(i)

    def lse(a, b):
        if a == -math.inf:
            return b
        if b == -math.inf:
            return a
        m = max(a, b)
        return m + math.log(math.exp(a - m) + math.exp(b - m))
    order, stack = [], [root]
    while stack:
        i = stack.pop()
        order.append(i)
        stack.extend(children[i])
    below = [[0.0, 0.0] for _ in range(n)]          # below[i][k] = log P(evidence strictly below i | X_i = k)
    msg = [[0.0, 0.0] for _ in range(n)]            # msg[i][l]   = log P(evidence at and below i | parent = l)
    for i in reversed(order):
        for k in (0, 1):
            below[i][k] = sum(msg[c][k] for c in children[i])
        for l in (0, 1):
            terms = []
            for k in (0, 1):
                if row[i] is None or int(row[i]) == k:
                    terms.append(float(logparams[i][l][k]) + below[i][k])
            msg[i][l] = terms[0] if len(terms) == 1 else lse(terms[0], terms[1])
    return msg[root][0]


def make_wide_clt(rs, n, peaked=False):
    """a tree over n variables (random recursive tree with random labelling), moderately or strongly peaked tables"""
    perm = [int(v) for v in rs.permutation(n)]
    pred = [-1] * n
    for j in range(1, n):
        pred[perm[j]] = perm[int(rs.randint(max(0, j - 3), j))]      # deep: parents among the last few placed nodes
    if peaked:
        probs = np.where(rs.rand(n, 2) < 0.5, rs.uniform(1e-21, 1e-18, (n, 2)), rs.uniform(0.2, 0.8, (n, 2)))
    else:
        probs = rs.uniform(0.1, 0.9, (n, 2))
    params = np.zeros((n, 2, 2))
    params[:, :, 1] = probs
    params[:, :, 0] = 1 - probs
    root = pred.index(-1)
    params[root, 1] = params[root, 0]
    scope = list(range(n))
    return BinaryCLT(scope, root=root, tree=pred, params=np.log(params).tolist()), pred


def make_fitted_clt(rs, scope, pred):
    """the chain the XPC learner uses: a tree GIVEN as a predecessor vector at construction, parameters learned by fit() afterwards
    (structure, root and visiting order must stay the given ones)"""
    n = len(scope)
    root = pred.index(-1)
    clt = BinaryCLT([int(s_) for s_ in scope], root=int(scope[root]), tree=list(pred))
    data = (rs.rand(int(rs.choice([30, 80])), n) < rs.uniform(0.2, 0.8, size=n)).astype(np.float32)
    clt.fit(data, [[0, 1]] * n, alpha=float(rs.choice([0.05, 0.5])), random_state=np.random.RandomState(int(rs.randint(1000))))
    return clt
