"""Export of deeprob-kit circuits to the model's node table, reference leaf densities, generators."""
import math
from fractions import Fraction
import numpy as np
from harness.common import frac, fstr, Infra

from deeprob.spn.structure.node import Node, Sum, Product, assign_ids
from deeprob.spn.structure.leaf import Leaf, Bernoulli, Categorical, Gaussian, Uniform, Isotonic
from deeprob.spn.structure.cltree import BinaryCLT


# ----------------------------------------------------------------------------- object graph
def children_first(root):
    """post-order over object identity; returns (order, acyclic)"""
    order, state = [], {}
    acyclic = True
    stack = [(root, 0)]
    state[id(root)] = 1
    while stack:
        node, i = stack.pop()
        ch = list(getattr(node, 'children', []) or [])
        if i < len(ch):
            stack.append((node, i + 1))
            c = ch[i]
            s = state.get(id(c), 0)
            if s == 0:
                state[id(c)] = 1
                stack.append((c, 0))
            elif s == 1:
                acyclic = False
        else:
            state[id(node)] = 2
            order.append(node)
    return order, acyclic


def bfs_order(root):
    seen, q, out = {id(root)}, [root], []
    while q:
        n = q.pop(0)
        out.append(n)
        for c in getattr(n, 'children', []) or []:
            if id(c) not in seen:
                seen.add(id(c))
                q.append(c)
    return out


def leaf_entry(n):
    if isinstance(n, BinaryCLT):
        cpt = [[[fstr(frac(np.exp(np.float64(n.params[i][l][k])))) for k in range(2)] for l in range(2)]
               for i in range(len(n.scope))]
        return dict(kind='clt', pred=[int(t) for t in n.tree], cpt=cpt)
    if isinstance(n, Bernoulli):
        p = float(n.p)
        return dict(kind='cat', v=int(n.scope[0]), tbl=[fstr(frac(1.0 - p)), fstr(frac(p))])
    if isinstance(n, Categorical):
        cats = [int(c) for c in n.categories]
        if min(cats) < 0:
            raise Infra('negative category')
        tbl = [Fraction(0)] * (max(cats) + 1)
        for c, p in zip(cats, n.probabilities):
            tbl[c] = frac(p)
        return dict(kind='cat', v=int(n.scope[0]), tbl=[fstr(q) for q in tbl])
    if isinstance(n, (Gaussian, Uniform, Isotonic)):
        return dict(kind='ext', v=int(n.scope[0]))
    raise Infra(f'unknown leaf type {type(n).__name__}')


def export_net(root):
    """node table in children-first order (BFS order if the graph has a cycle)"""
    order, acyclic = children_first(root)
    if not acyclic:
        order = bfs_order(root)
    index = {id(n): i for i, n in enumerate(order)}
    table = []
    for n in order:
        nid = n.id if isinstance(n.id, (int, np.integer)) and n.id >= 0 else 0
        e = dict(id=int(nid), scope=[int(v) for v in n.scope])
        if isinstance(n, Sum):
            e.update(kind='sum', ch=[index[id(c)] for c in n.children],
                     w=[fstr(frac(w)) for w in (n.weights if n.weights is not None else [])])
        elif isinstance(n, Product):
            e.update(kind='prod', ch=[index[id(c)] for c in n.children])
        else:
            e.update(leaf_entry(n))
        table.append(e)
    return table, order, index, acyclic


def domain_of(order):
    dom = {}
    for n in order:
        if isinstance(n, Bernoulli):
            dom[n.scope[0]] = max(dom.get(n.scope[0], 0), 2)
        elif isinstance(n, Categorical):
            dom[n.scope[0]] = max(dom.get(n.scope[0], 0), int(max(n.categories)) + 1)
        elif isinstance(n, BinaryCLT):
            for v in n.scope:
                dom[v] = max(dom.get(v, 0), 2)
        elif isinstance(n, Leaf):
            dom.setdefault(n.scope[0], 1)
    m = max(dom) + 1 if dom else 0
    return [dom.get(v, 0) for v in range(m)]


def is_continuous(n):
    return isinstance(n, (Gaussian, Uniform, Isotonic))


# ----------------------------------------------------------------------------- reference densities (independent of SciPy)
def iso_pdf_table(n):
    """(breaks, normalised bin heights) of the density scipy.stats.rv_histogram realises for the leaf's parameters: the numbers
    are heights when the bin widths vary and counts (divided by the widths) when `np.allclose(widths, widths[0])`; always
    renormalised by the total mass (Model/LeafQ.lean `isoHeights`, `histZ`; proved to integrate to one in Props/LeafTheory.lean)"""
    d = [float(x) for x in n.densities]
    b = [float(x) for x in n.breaks]
    w = [b[i + 1] - b[i] for i in range(len(d))]
    if np.allclose(w, w[0]):
        d = [di / wi for di, wi in zip(d, w)]
    z = sum(di * wi for di, wi in zip(d, w))
    return b, [di / z for di in d]


LN2 = math.log(2.0)


class ExtremeDensity(Exception):
    """a log-density so small that its exact rational would have billions of bits"""


def exp_frac(l):
    """exact rational within ~1e-15 relative of exp(l), for any float l (no under/overflow)"""
    if l == -math.inf:
        return Fraction(0)
    if l < -20000.0 or l > 20000.0:
        raise ExtremeDensity(l)
    k = math.floor(l / LN2)
    m = math.exp(l - k * LN2)
    return Fraction(m) * (Fraction(2) ** k)


def ref_logdensity(n, x, floor):
    """log-density the leaf represents at observed x (float); `floor` = out-of-support constant of Isotonic"""
    x = float(x)
    if isinstance(n, Gaussian):
        m, s = float(n.mean), float(n.stddev)
        z = (x - m) / s
        return -0.5 * z * z - math.log(s) - 0.5 * math.log(2.0 * math.pi)
    if isinstance(n, Uniform):
        a, w = float(n.start), float(n.width)
        return -math.log(w) if (a <= x <= a + w) else -math.inf
    if isinstance(n, Isotonic):
        b, pdf = iso_pdf_table(n)
        if x <= b[0] or x >= b[-1]:
            return math.log(floor)
        for i in range(len(pdf)):
            if b[i] <= x < b[i + 1]:
                return math.log(pdf[i]) if pdf[i] > 0 else -math.inf
        return math.log(floor)
    raise Infra('not a continuous leaf')


def ref_density(n, x, floor):
    return exp_frac(ref_logdensity(n, x, floor))


def row_payload(order, x, nvars, floor=2.0 ** -23):
    """model row (list over variable ids; None = missing; continuous observed = 0) + densities of ext leaves"""
    cont = {}
    for i, n in enumerate(order):
        if is_continuous(n):
            cont.setdefault(n.scope[0], []).append((i, n))
    row, dens = [], {}
    for v in range(nvars):
        xv = x[v] if v < len(x) else float('nan')
        if xv is None or (isinstance(xv, float) and math.isnan(xv)) or (hasattr(xv, 'dtype') and np.isnan(xv)):
            row.append(None)
        elif v in cont:
            row.append(0)
            for i, n in cont[v]:
                dens[str(i)] = fstr(ref_density(n, xv, floor))
        else:
            row.append(int(xv))
    return row, dens


def clt_root_rows_differ(n):
    P = np.asarray(n.params, dtype=np.float64)
    return bool(np.max(np.abs(P[n.root, 0] - P[n.root, 1])) > 1e-6)


def ref_value(root, x, floor=2.0 ** -23):
    """float64 value of the circuit at row x (NaN = marginalised), computed from the PARAMETERS of the objects by plain
    recursion (no library inference code, no cached distributions): the replay oracle of history-dependent findings.
    A Chow-Liu leaf is evaluated by enumerating its joint (root row 0, as message passing reads it)."""
    import itertools
    memo = {}

    def clt(n):
        P = np.exp(np.asarray(n.params, dtype=np.float64))
        sc = list(n.scope)
        obs = {i: int(x[v]) for i, v in enumerate(sc) if not np.isnan(x[v])}
        tot = 0.0
        for bits in itertools.product([0, 1], repeat=len(sc)):
            if any(bits[i] != b for i, b in obs.items()):
                continue
            pr = 1.0
            for i in range(len(sc)):
                par = int(n.tree[i])
                pr *= P[i, 0, bits[i]] if par < 0 else P[i, bits[par], bits[i]]
            tot += pr
        return tot

    def go(n):
        if id(n) in memo:
            return memo[id(n)]
        if isinstance(n, Sum):
            r = sum(float(w) * go(c) for w, c in zip(n.weights, n.children))
        elif isinstance(n, Product):
            r = 1.0
            for c in n.children:
                r *= go(c)
        elif isinstance(n, BinaryCLT):
            r = clt(n)
        else:
            xv = x[n.scope[0]]
            if np.isnan(xv):
                r = 1.0
            elif isinstance(n, Bernoulli):
                r = float(n.p) if int(xv) == 1 else 1.0 - float(n.p)
            elif isinstance(n, Categorical):
                cats = [int(c) for c in n.categories]
                r = float(n.probabilities[cats.index(int(xv))]) if int(xv) in cats else 0.0
            else:
                l = ref_logdensity(n, float(xv), floor)
                r = math.exp(l) if l > -700 else 0.0
        memo[id(n)] = r
        return r
    return go(root)


def ref_logvalue(root, x, floor=2.0 ** -23):
    """float64 LOG-value of the circuit at row x (NaN = marginalised) from the parameters of the objects, by plain recursion with
    a max-shifted log-sum-exp: no under- or overflow for peaked densities (log-values of +100) or far outliers (-1e5). Table and
    continuous leaves only (no Chow-Liu leaves)."""
    memo = {}

    def lse(terms):
        terms = [t for t in terms if t > -math.inf]
        if not terms:
            return -math.inf
        m = max(terms)
        return m + math.log(sum(math.exp(t - m) for t in terms))

    def go(n):
        if id(n) in memo:
            return memo[id(n)]
        if isinstance(n, Sum):
            r = lse([(math.log(float(w)) if float(w) > 0 else -math.inf) + go(c) for w, c in zip(n.weights, n.children)])
        elif isinstance(n, Product):
            r = sum(go(c) for c in n.children)
        elif isinstance(n, BinaryCLT):
            raise Infra('ref_logvalue: Chow-Liu leaf')
        else:
            xv = x[n.scope[0]]
            if np.isnan(xv):
                r = 0.0
            elif isinstance(n, Bernoulli):
                p = float(n.p) if int(xv) == 1 else 1.0 - float(n.p)
                r = math.log(p) if p > 0 else -math.inf
            elif isinstance(n, Categorical):
                cats = [int(c) for c in n.categories]
                p = float(n.probabilities[cats.index(int(xv))]) if int(xv) in cats else 0.0
                r = math.log(p) if p > 0 else -math.inf
            else:
                r = ref_logdensity(n, float(xv), floor)
        memo[id(n)] = r
        return r
    return go(root)


# ----------------------------------------------------------------------------- generators
def rand_leaf(rs, v, kinds, ncat=None):
    k = kinds[rs.randint(len(kinds))]
    if k == 'bern':
        return Bernoulli(int(v), float(rs.uniform(0.05, 0.95)))
    if k == 'cat':
        n = rs.randint(2, 5) if ncat is None else ncat
        p = rs.dirichlet(np.ones(n))
        return Categorical(int(v), list(range(n)), p.tolist())
    if k == 'catl':
        # labels are a permuted subset of 0..5 (the table is stored in label-list order, not value order)
        n = rs.randint(2, 5) if ncat is None else ncat
        labels = [int(t) for t in rs.permutation(6)[:n]]
        p = rs.dirichlet(np.ones(n))
        return Categorical(int(v), labels, p.tolist())
    if k == 'gauss':
        return Gaussian(int(v), float(rs.randn()), float(rs.uniform(0.3, 2)))
    if k == 'unif':
        return Uniform(int(v), float(rs.randn()), float(rs.uniform(0.5, 2)))
    if k == 'iso':
        n = rs.randint(1, 4)
        d = rs.dirichlet(np.ones(n))
        b = np.cumsum(np.r_[rs.randn(), rs.uniform(0.3, 1, n)])
        return Isotonic(int(v), d.tolist(), b.tolist())
    raise ValueError(k)


def rand_clt(rs, scope, root_rows_equal=True):
    n = len(scope)
    root = rs.randint(n)
    order = [root] + [int(i) for i in rs.permutation(n) if i != root]
    tree = [-1] * n
    for j, i in enumerate(order[1:], 1):
        tree[i] = order[rs.randint(j)]
    probs = rs.uniform(0.05, 0.95, (n, 2))
    params = np.zeros((n, 2, 2))
    params[:, :, 1] = probs
    params[:, :, 0] = 1 - probs
    if root_rows_equal:
        params[root, 1] = params[root, 0]
    return BinaryCLT([int(s) for s in scope], root=int(scope[root]), tree=tree, params=np.log(params).tolist())


def rand_spn(rs, scope, depth, kinds=('bern',), share=0.3, pool=None, clt=False, var_kind=None, same_categories=None, no_repeat=False):
    """random valid circuit over `scope`; `var_kind` fixes one leaf family per variable so that
    every variable has one domain"""
    if pool is None:
        pool = {}
    if var_kind is None:
        var_kind = {}
    def leaf(v):
        k = var_kind.setdefault(v, kinds[rs.randint(len(kinds))])
        nc = None
        if same_categories is not None:
            nc = same_categories.setdefault(v, int(rs.randint(2, 5)))
        return rand_leaf(rs, v, (k,), nc)
    key = tuple(sorted(scope))
    if pool.get(key) and rs.rand() < share:
        return pool[key][rs.randint(len(pool[key]))]
    all_bern = all(var_kind.setdefault(v, kinds[rs.randint(len(kinds))]) == 'bern' for v in scope)
    if len(scope) == 1 and (depth <= 0 or rs.rand() < 0.6):
        node = leaf(scope[0])
    elif clt and len(scope) >= 2 and all_bern and rs.rand() < 0.3:
        node = rand_clt(rs, [int(v) for v in rs.permutation(scope)])
    elif depth <= 0:
        node = Product(children=[leaf(v) for v in scope]) if len(scope) > 1 else leaf(scope[0])
    elif len(scope) == 1 or rs.rand() < 0.5:
        k = rs.randint(1, 6)
        ch = []
        for _ in range(k):
            c = rand_spn(rs, [int(v) for v in rs.permutation(scope)], depth - 1, kinds, share, pool, clt, var_kind, same_categories, no_repeat)
            if no_repeat and any(c is d for d in ch):
                c = rand_spn(rs, [int(v) for v in rs.permutation(scope)], depth - 1, kinds, 0.0, pool, clt, var_kind, same_categories, no_repeat)
            ch.append(c)
        w = rs.dirichlet(np.ones(k))
        node = Sum(scope=[int(v) for v in scope], children=ch, weights=w.astype(np.float32))
    else:
        k = rs.randint(2, min(len(scope), 4) + 1)
        perm = [int(v) for v in rs.permutation(scope)]
        cuts = sorted(rs.choice(np.arange(1, len(scope)), k - 1, replace=False).tolist())
        parts = [perm[a:b] for a, b in zip([0] + cuts, cuts + [len(scope)])]
        ch = [rand_spn(rs, p, depth - 1, kinds, share, pool, clt, var_kind, same_categories, no_repeat) for p in parts]
        node = Product(scope=[int(v) for v in rs.permutation(scope)], children=ch)
    pool.setdefault(key, []).append(node)
    return node


def describe(order):
    kinds = {}
    for n in order:
        kinds[type(n).__name__] = kinds.get(type(n).__name__, 0) + 1
    return kinds
