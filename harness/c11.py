"""C11 — Chow-Liu fitting: rooted spanning tree of maximal mutual information, exact smoothed CPTs, normalised."""
import math, itertools, json
from fractions import Fraction
import numpy as np
from harness.common import np_seed, fstr, frac, Infra

import deeprob.spn.structure.cltree as cltree
from deeprob.spn.structure.cltree import BinaryCLT

_captured = {}
_orig_mst = cltree.maximum_spanning_tree


def _spy_mst(root, adj_matrix):
    _captured['mi'] = np.array(adj_matrix, copy=True)
    _captured['w'] = np.array(adj_matrix + 1.0, copy=True)     # what is negated and handed to SciPy
    return _orig_mst(root, adj_matrix)


def mi_float64(data, alpha):
    """independent double-precision MI from the exact smoothed estimates (the property's 'smoothed estimates')"""
    X = np.asarray(data, dtype=np.int64)
    n, k = X.shape
    al = Fraction(alpha)
    D = n + 4 * al
    c = X.T @ X
    mi = np.zeros((k, k))
    for i in range(k):
        for j in range(k):
            if i == j:
                continue
            ci, cj, cij = int(c[i, i]), int(c[j, j]), int(c[i, j])
            cells = {(0, 0): n - ci - cj + cij, (0, 1): cj - cij, (1, 0): ci - cij, (1, 1): cij}
            pi = {1: (ci + 2 * al) / D, 0: 1 - (ci + 2 * al) / D}
            pj = {1: (cj + 2 * al) / D, 0: 1 - (cj + 2 * al) / D}
            s = 0.0
            for (a, b), v in cells.items():
                J = (v + al) / D
                s += float(J) * (math.log(float(J)) - math.log(float(pi[a] * pj[b])))
            mi[i, j] = s
    return mi


ALPHAS = [1e-3, 0.01, 0.1, 1.0]


def gen_data(rs, k):
    fam = k % 8
    nv = int(rs.randint(1, 8))
    nr = int(rs.choice([1, 2, 3, 5, 8, 13, 21, 40]))
    X = rs.randint(0, 2, size=(nr, nv))
    name = 'random'
    if fam == 1 and nv >= 2:
        for c in rs.choice(nv, int(rs.randint(1, nv)), replace=False):
            X[:, c] = rs.randint(2)
        name = 'constant-columns'
    elif fam == 2 and nv >= 2:
        src = int(rs.randint(nv))
        for c in rs.choice(nv, int(rs.randint(1, nv)), replace=False):
            X[:, c] = X[:, src] if rs.rand() < 0.7 else 1 - X[:, src]
        name = 'duplicated-columns'
    elif fam == 3:
        nr = int(rs.randint(1, max(2, nv)))
        X = rs.randint(0, 2, size=(nr, nv))
        name = 'fewer-rows-than-variables'
    elif fam == 4 and nv >= 2:
        X[:, 0] = rs.randint(0, 2, size=nr)
        for j in range(1, nv):
            flip = rs.rand(nr) < 0.15
            X[:, j] = np.where(flip, 1 - X[:, j - 1], X[:, j - 1])
        name = 'chain'
    elif fam == 5:
        X = (rs.rand(nr, nv) < 0.1).astype(int)
        name = 'sparse'
    elif fam == 6:
        X = np.tile(rs.randint(0, 2, size=(1, nv)), (nr, 1))
        name = 'identical-rows'
    return X.astype(np.int64), name


def impl_mass(clt, nv):
    if nv > 10:
        return None
    rows = np.array(list(itertools.product([0, 1], repeat=nv)), dtype=np.float32)
    return float(np.sum(np.exp(np.asarray(clt.log_likelihood(rows), dtype=np.float64))))


def one_case(ctx, k):
    rs = np.random.RandomState(np_seed(ctx.sub_rng('data', k)))
    X, fam = gen_data(rs, k)
    nr, nv = X.shape
    alpha = ALPHAS[int(rs.randint(4))]
    scope = list(range(nv)) if rs.rand() < 0.5 else [int(v) for v in rs.permutation(40)[:nv]]
    explicit = rs.rand() < 0.6
    arg = int(rs.randint(nv)) if explicit else int(rs.randint(1000))
    # the storage type of the 0/1 matrix is the caller's business: the same data as int64, float32, float64, bool, (u)int8
    dt = ['int64', 'float32', 'float64', 'bool', 'uint8', 'int8'][k % 6]
    X = X.astype(dt)
    ctx.count('data-dtype:' + dt)
    refits = 3 if k % 3 == 0 else 0
    rep = dict(kind='c11', data=X.astype(int).tolist(), dtype=dt, alpha=alpha, scope=scope, explicit=explicit, arg=arg, refits=refits)
    ctx.case(fam, nontrivial_key=json.dumps([X.astype(int).tolist(), alpha, scope, explicit, arg]) if nv >= 2 else None,
             sample=dict(family=fam, rows=nr, vars=nv, alpha=alpha, scope=scope, root=('explicit' if explicit else 'random', arg)))
    ctx.count('family:' + fam)
    ctx.count(f'vars={nv}')
    cltree.maximum_spanning_tree = _spy_mst
    try:
        try:
            if explicit:
                clt = BinaryCLT(scope, root=scope[arg])
                clt.fit(X, [[0, 1]] * nv, alpha=alpha)
            else:
                clt = BinaryCLT(scope)
                clt.fit(X, [[0, 1]] * nv, alpha=alpha, random_state=arg)
            if refits:
                # the same object fitted again on the same data (other random states): still the Chow-Liu tree of that data,
                # rooted where the object says it is rooted
                ctx.count('objects-fitted-more-than-once')
                for j in range(refits):
                    clt.fit(X, [[0, 1]] * nv, alpha=alpha, random_state=(None if explicit else arg + 7 * (j + 1)))
        except Exception as ex:
            ctx.violation('c11-fit-raises', f'fit raised {type(ex).__name__}: {ex} on {fam} data {nr}x{nv}, alpha={alpha}', replay=rep)
            return
    finally:
        cltree.maximum_spanning_tree = _orig_mst
    bad = []
    if explicit and int(clt.root) != arg:
        bad.append(('c11-root', f'requested root index {arg} but fitted root is {int(clt.root)}'))
    if not (0 <= int(clt.root) < nv) or int(clt.bfs[0]) != int(clt.root) or int(clt.tree[int(clt.root)]) != -1:
        bad.append(('c11-root', f'root {int(clt.root)} / bfs {list(map(int, clt.bfs))} / tree {list(map(int, clt.tree))} inconsistent'))
    params = np.exp(np.asarray(clt.params, dtype=np.float64))
    if np.any(np.abs(params.sum(axis=2) - 1.0) > 1e-5):
        bad.append(('c11-cpt-rows', f'a CPT row sums to {params.sum(axis=2).tolist()}'))
    mass = impl_mass(clt, nv)
    if mass is not None and abs(mass - 1.0) > 1e-4:
        bad.append(('c11-mass', f'likelihoods over all rows sum to {mass}'))
    mi64 = mi_float64(X, alpha)
    mi_impl = _captured.get('mi', np.zeros((nv, nv))) if nv > 1 else np.zeros((nv, nv))
    if nv > 1 and float(np.max(np.abs(mi64 - mi_impl.astype(np.float64)))) > 1e-5:
        bad.append(('c11-mi', 'mutual information matrix deviates from the smoothed-estimate MI by more than 1e-5'))
    if ctx.driver_ok:
        drv = ctx.get_driver()
        op = dict(op='fitcheck', data=X.astype(int).tolist(), alpha=fstr(Fraction(repr(alpha))), pred=[int(t) for t in clt.tree], root=int(clt.root),
                  params=[[[fstr(frac(params[i, l, kk])) for kk in range(2)] for l in range(2)] for i in range(nv)],
                  mi=[[fstr(frac(v)) for v in row] for row in mi64], tol='1/1000000')
        if nv > 1:
            op['w'] = [[fstr(frac(v)) for v in row] for row in _captured['w']]
        kv = dict(t.split('=', 1) for t in drv.ask(op).split())
        f = lambda s: float(Fraction(s))
        if kv['tree'] != 'true' or kv['cltTree'] != 'true' or kv['root'] != 'true':
            bad.append(('c11-not-spanning', f'predecessor vector {op["pred"]} is not a spanning tree rooted at {op["root"]} (model verdict {kv})'))
        if f(kv['cptdev']) > 1e-5:
            bad.append(('c11-cpt', f'CPT deviates from the smoothed empirical conditional by {f(kv["cptdev"])}'))
        if kv['cycleOKtol'] != 'true':
            bad.append(('c11-not-maximal', f'cycle property fails with margin {kv["margin"]}: a heavier spanning tree exists'))
        if kv.get('brute') not in (None, 'skipped', 'none') and f(kv['gap']) > 1e-5:
            bad.append(('c11-not-maximal', f'total MI {f(kv["treeW"])} is below the maximum over all spanning trees {f(kv["brute"])}'))
        if kv.get('brute') not in (None, 'skipped', 'none'):
            ctx.count('brute_force_maximality_instances')
        if nv > 1 and kv.get('cycleOKw') == 'true':
            ctx.count('exact_cycle_property_on_float32_weights')
    for fp, what in bad[:1]:
        ctx.violation(fp, what + f' [{fam} {nr}x{nv} alpha={alpha}]', replay=rep)


def run(ctx):
    n = 200 if ctx.tier == 'quick' else 3000
    for k in range(n):
        one_case(ctx, k)
        if ctx.n_new(with_input_only=True) >= 3:
            break
    ctx.notes.append('maximality is decided per instance by the verified certificate cycleOK (theorem cycleOK_max: any n) on the '
                     'independent float64 MI of the smoothed estimates with tolerance 1e-6, and for n <= 7 additionally by exhaustive '
                     'comparison with all labelled spanning trees inside Lean (mstBrute_sound)')


_run_core = run


def run(ctx):
    _run_core(ctx)
    if ctx.n_new() == 0 and ctx.driver_ok:
        from harness.common import run_demo
        if ctx.n_new() == 0:
            run_demo(ctx, 'demo_tr4.py', [1 + ctx.seed], 'c11-code-vs-generated-vs-model-4',
                     'compute_clt_parameters / mutual information vs generated definitions vs model', env_extra=dict(DEMO_SECTIONS='d'))


def replay(rep):
    if rep['replay'].get('kind') == 'demo':
        from harness.common import replay_demo
        return replay_demo(rep['replay'])
    r = rep['replay']
    X = np.array(r['data']).astype(r.get('dtype', 'int64'))
    nv = X.shape[1]
    try:
        if r['explicit']:
            clt = BinaryCLT(r['scope'], root=r['scope'][r['arg']])
            clt.fit(X, [[0, 1]] * nv, alpha=r['alpha'])
        else:
            clt = BinaryCLT(r['scope'])
            clt.fit(X, [[0, 1]] * nv, alpha=r['alpha'], random_state=r['arg'])
        for j in range(r.get('refits', 0)):
            clt.fit(X, [[0, 1]] * nv, alpha=r['alpha'], random_state=(None if r['explicit'] else r['arg'] + 7 * (j + 1)))
    except Exception as ex:
        print('fit raised', type(ex).__name__, ex)
        return False
    if int(clt.tree[int(clt.root)]) != -1 or int(clt.bfs[0]) != int(clt.root) or (r['explicit'] and int(clt.root) != r['arg']):
        print('root', int(clt.root), 'bfs', list(map(int, clt.bfs)), 'tree', list(map(int, clt.tree)), 'are inconsistent')
        return False
    mi = mi_float64(X, r['alpha'])
    tot = sum(mi[i, int(t)] for i, t in enumerate(clt.tree) if t != -1)
    print('tree', list(map(int, clt.tree)), 'total MI', tot, 'row sums', np.exp(clt.params).sum(axis=2).tolist())
    best = tot
    if nv <= 6:
        from harness.clt import all_pred_vectors
        best = max(sum(mi[i, t] for i, t in enumerate(p) if t != -1) for p in all_pred_vectors(nv))
        print('maximum over all spanning trees', best)
    return best - tot <= 1e-5 and bool(np.all(np.abs(np.exp(clt.params).sum(axis=2) - 1) < 1e-5))
