"""C14 — EM keeps the model valid and applies the exact expected-statistics update."""
import json, hashlib, math, copy
from fractions import Fraction
import numpy as np
from harness.common import np_seed, Infra, parse_q, fstr, frac
from harness import spn as S
from harness.build import table_with_py

from deeprob.spn.structure.node import Sum, Product, assign_ids
from deeprob.spn.structure.leaf import Bernoulli, Categorical, Gaussian
from deeprob.spn.structure.cltree import BinaryCLT
from deeprob.spn.learning.em import expectation_maximization
from deeprob.spn.algorithms.inference import log_likelihood
from deeprob.spn.utils.validity import check_spn


class RevealRS(np.random.RandomState):
    """a RandomState that remembers the batch indices EM samples"""
    def choice(self, a, size=None, replace=True, p=None):
        r = super().choice(a, size=size, replace=replace, p=p)
        if size is not None and replace is False:
            self.last_batch = np.array(r, copy=True)
        return r


def snapshot(order):
    out = []
    for n in order:
        if isinstance(n, Sum):
            out.append(('sum', np.array(n.weights, dtype=np.float64)))
        elif isinstance(n, Bernoulli):
            out.append(('bern', float(n.p)))
        elif isinstance(n, Categorical):
            dense = np.zeros(int(max(n.categories)) + 1)
            dense[np.asarray(n.categories, dtype=int)] = np.array(n.probabilities, dtype=np.float64)
            out.append(('cat', dense))
        elif isinstance(n, Gaussian):
            out.append(('gauss', (float(n.mean), float(n.stddev))))
        elif isinstance(n, BinaryCLT):
            out.append(('clt', np.exp(np.array(n.params, dtype=np.float64))))
        else:
            out.append(('other', None))
    return out


def structure_of(root):
    t = S.export_net(root)[0]
    return [(e['kind'], e['id'], e['scope'], e.get('ch')) for e in t]


def invariants(order, root):
    for n in order:
        if isinstance(n, Sum):
            w = np.asarray(n.weights, dtype=np.float64)
            if np.any(w < 0) or abs(w.sum() - 1) > 1e-5 or not np.all(np.isfinite(w)):
                return f'sum node #{n.id} weights {w.tolist()} left the simplex'
        elif isinstance(n, Bernoulli):
            if not (0.0 <= float(n.p) <= 1.0):
                return f'Bernoulli #{n.id} p={n.p}'
        elif isinstance(n, Categorical):
            p = np.asarray(n.probabilities, dtype=np.float64)
            if np.any(p < 0) or abs(p.sum() - 1) > 1e-5:
                return f'Categorical #{n.id} probabilities {p.tolist()} left the simplex'
        elif isinstance(n, Gaussian):
            if not (float(n.stddev) >= 1e-5 * (1 - 1e-6)) or not math.isfinite(float(n.mean)):
                return f'Gaussian #{n.id} mean={n.mean} stddev={n.stddev}'
        elif isinstance(n, BinaryCLT):
            t = np.exp(np.asarray(n.params, dtype=np.float64))
            if np.any(np.abs(t.sum(axis=2) - 1) > 1e-5) or np.any(t < 0) or not np.all(np.isfinite(t)):
                return f'CLT #{n.id} table rows sum to {t.sum(axis=2).tolist()}'
            if np.any(np.abs(t[n.root, 0] - t[n.root, 1]) > 1e-5):
                return f'CLT #{n.id} root rows differ'
    try:
        check_spn(root, labeled=True, smooth=True, decomposable=True)
    except ValueError as ex:
        return f'circuit no longer valid: {ex}'
    return None


def model_step(ctx, table, order, index, root, batch, eta, before, order_before):
    """exact expected-statistics update of every parameter on the revealed batch, through the model"""
    drv = ctx.get_driver()
    dom = S.domain_of(order)
    nvars = len(dom)
    ri = index[id(root)]
    vals, grads = [], []
    for x in batch:
        row, dens = S.row_payload(order_before, x, nvars)        # leaf densities under the parameters held BEFORE the step
        a, b = drv.ask(dict(op='backward', nodes=table, root=ri, row=row, dens=dens)).split(' | ')
        vals.append([parse_q(t) for t in a.split()])
        grads.append([parse_q(t) for t in b.split()])
    new = {}
    for i, n in enumerate(order):
        kind, old = before[i]
        if kind == 'sum':
            stats = [fstr(frac(float(sum(vals[r][index[id(c)]] * grads[r][i] / vals[r][ri] for r in range(len(batch)))))) for c in n.children]
            ans = drv.ask(dict(op='emstep', kind='sum', old=[fstr(frac(w)) for w in old], eta=fstr(frac(eta)), stats=stats))
            new[i] = np.array([float(parse_q(t)) for t in ans.split()])
        elif kind in ('bern', 'cat', 'gauss', 'clt'):
            st = [vals[r][i] * grads[r][i] / vals[r][ri] for r in range(len(batch))]
            stats = [fstr(frac(float(q))) for q in st]        # exact responsibilities, rounded once to binary64 to keep the rationals small
            if kind == 'bern':
                data = [fstr(frac(batch[r][n.scope[0]])) for r in range(len(batch))]
                ans = drv.ask(dict(op='emstep', kind='bern', old=fstr(frac(old)), eta=fstr(frac(eta)), stats=stats, data=data))
                new[i] = float(parse_q(ans))
            elif kind == 'cat':
                data = [int(batch[r][n.scope[0]]) for r in range(len(batch))]
                ans = drv.ask(dict(op='emstep', kind='cat', old=[fstr(frac(p)) for p in old], eta=fstr(frac(eta)), stats=stats, data=data))
                new[i] = np.array([float(parse_q(t)) for t in ans.split()])
            elif kind == 'gauss':
                data = [fstr(frac(batch[r][n.scope[0]])) for r in range(len(batch))]
                op = dict(op='emstep', kind='gauss', mean=fstr(frac(old[0])), std=fstr(frac(old[1])), eta=fstr(frac(eta)), stats=stats, data=data)
                mean_new, arg = [parse_q(t) for t in drv.ask(op).split()]
                op['sqrt'] = fstr(frac(math.sqrt(max(float(arg), 0.0))))
                out = [float(parse_q(t)) for t in drv.ask(op).split()]
                new[i] = (out[0], out[2])
            else:
                data = [[fstr(frac(batch[r][v])) for v in n.scope] for r in range(len(batch))]
                old_t = [[[fstr(frac(old[a][b][c])) for c in range(2)] for b in range(2)] for a in range(len(n.scope))]
                ans = drv.ask(dict(op='emstep', kind='clt', pred=[int(t) for t in n.tree], old=old_t, eta=fstr(frac(eta)), stats=stats, data=data))
                flat = [float(parse_q(t)) for r_ in ans.split(';') for t in r_.split()]
                new[i] = np.array(flat).reshape(len(n.scope), 2, 2)
    return new


def spec_resp_check(ctx, order, index, root, batch):
    """responsibilities of the children of every sum node sum to one on every row (from the implementation's own values):
    sum_i w_i L_i G_n / Root = P(node reached | x) <= 1 and for the root exactly 1"""
    ll, lls = log_likelihood(root, batch, return_results=True)
    w = np.asarray(root.weights, dtype=np.float64) if isinstance(root, Sum) else None
    if w is not None:
        tot = sum(w[i] * np.exp(lls[c.id].astype(np.float64) - ll.astype(np.float64)) for i, c in enumerate(root.children))
        return float(np.max(np.abs(tot - 1.0)))
    return 0.0


def one_case(ctx, k):
    rs = np.random.RandomState(np_seed(ctx.sub_rng('net', k)))
    nv = int(rs.randint(2, 5))
    fam = [('bern',), ('bern', 'cat'), ('gauss',), ('bern', 'gauss'), ('bern',)][k % 5]
    vk, cats = {}, {}
    root = S.rand_spn(rs, list(range(nv)), depth=int(rs.randint(1, 5)), kinds=fam, share=float(rs.choice([0.0, 0.4, 0.8])), clt=(k % 5 == 4), var_kind=vk, same_categories=cats)
    if not getattr(root, 'children', None):
        return
    if k % 3 == 0:
        # a sub-circuit shared by parents at DIFFERENT depths: root -> X and root -> sum -> sum -> X
        X = root.children[0] if isinstance(root, Sum) else root
        inner = Sum(scope=list(X.scope), children=[X, S.rand_spn(rs, [int(v) for v in X.scope], 1, fam, 0.0, None, False, vk, cats)], weights=np.array([0.3, 0.7], dtype=np.float32))
        mid = Sum(scope=list(X.scope), children=[inner, S.rand_spn(rs, [int(v) for v in X.scope], 1, fam, 0.0, None, False, vk, cats)], weights=np.array([0.6, 0.4], dtype=np.float32))
        if isinstance(root, Sum):
            root = Sum(scope=list(root.scope), children=list(root.children) + [mid] if set(mid.scope) == set(root.scope) else list(root.children),
                       weights=None)
            w = rs.dirichlet(np.ones(len(root.children))).astype(np.float32)
            root.weights = w
        ctx.count('nets-with-a-node-shared-across-depths')
    if k % 4 == 1:
        # Categorical leaves whose categories are a permutation of 0..K-1 (the table is stored in category order, not value order)
        for n in S.bfs_order(root):
            if isinstance(n, Categorical):
                perm = rs.permutation(len(n.categories))
                n.__init__(n.scope[0], categories=[int(c) for c in np.asarray(n.categories)[perm]], probabilities=np.asarray(n.probabilities)[perm].tolist())
                ctx.count('categorical-leaves-with-permuted-categories')
    shared_w = None
    if k % 4 == 2:
        # two sum nodes constructed from ONE weights array (Sum.__init__ keeps a reference to an ndarray): each node's update is its own,
        # and the caller's array is not the library's to overwrite
        sums = [n for n in S.bfs_order(root) if isinstance(n, Sum)]
        pairs = [(a, b) for i_, a in enumerate(sums) for b in sums[i_ + 1:] if len(a.children) == len(b.children)]
        if pairs:
            a, b = pairs[rs.randint(len(pairs))]
            shared_w = rs.dirichlet(np.ones(len(a.children))).astype(np.float32)
            a.weights = shared_w
            b.weights = shared_w
            ctx.count('nets-with-two-sums-built-from-one-weights-array')
    shared_w0 = None if shared_w is None else shared_w.copy()
    assign_ids(root)
    table0, order, index, _ = S.export_net(root)
    dom = S.domain_of(order)
    n_rows = int(rs.choice([20, 40, 80]))
    data = np.zeros((n_rows, nv), dtype=np.float32)
    for v in range(nv):
        cont = [n for n in order if S.is_continuous(n) and n.scope[0] == v]
        data[:, v] = rs.randn(n_rows) * 1.5 if cont else rs.randint(dom[v], size=n_rows)
    if k % 7 == 0:
        data[:, 0] = data[0, 0]                                # a constant column
    eta = float(rs.choice([0.05, 0.3, 0.5, 0.9]))
    perc = float(rs.choice([0.1, 0.25, 0.6, 0.95]))
    random_init = bool(k % 2) and shared_w is None
    seed = int(rs.randint(10000))
    rep = dict(kind='c14', table=table_with_py(table0, order), data=data.tolist(), eta=eta, batch_perc=perc, random_init=random_init, seed=seed,
               shared_weight_array=(None if shared_w is None else [int(n.id) for n in S.bfs_order(root) if isinstance(n, Sum) and n.weights is shared_w]))
    key = hashlib.sha256(json.dumps(table0, sort_keys=True).encode()).hexdigest()[:16]
    ctx.case('net', nontrivial_key=key, sample=dict(nodes=len(table0), kinds=S.describe(order), rows=n_rows, eta=eta, batch_perc=perc, random_init=random_init))
    for kk, c in S.describe(order).items():
        ctx.count('node:' + kk, c)
    struct0 = structure_of(root)
    r = RevealRS(seed)
    n_iter = 4 if ctx.tier == 'quick' else 8
    for it in range(n_iter):
        before = snapshot(order)
        table = S.export_net(root)[0]
        order_before = copy.deepcopy(order)
        try:
            expectation_maximization(root, data, num_iter=1, batch_perc=perc, step_size=eta, random_init=(random_init and it == 0), random_state=r, verbose=False)
        except Exception as ex:
            ctx.violation('c14-em-raises', f'expectation_maximization raised {type(ex).__name__}: {ex} (iteration {it})', replay=dict(rep, iterations=it + 1))
            return
        if structure_of(root) != struct0:
            ctx.violation('c14-structure-changed', f'EM changed the structure of the circuit (iteration {it})', replay=dict(rep, iterations=it + 1))
            return
        why = invariants(order, root)
        if why:
            ctx.violation('c14-invalid-after-em', f'after iteration {it}: {why}', replay=dict(rep, iterations=it + 1))
            return
        ll0 = float(np.asarray(log_likelihood(root, np.full((1, nv), np.nan, dtype=np.float32))).reshape(-1)[0])
        if abs(ll0) > 1e-4:
            ctx.violation('c14-not-normalised', f'after iteration {it} the fully missing row has log-likelihood {ll0}', replay=dict(rep, iterations=it + 1))
            return
        ctx.count('iterations')
        if random_init and it == 0:
            continue        # parameters were re-drawn inside the call: the "before" snapshot is not the starting point
        if not ctx.driver_ok or not hasattr(r, 'last_batch'):
            continue
        batch = data[r.last_batch]
        if len(batch) == 0:
            continue
        try:
            new = model_step(ctx, table, order, index, root, batch, eta, before, order_before)
        except ZeroDivisionError:
            ctx.count('zero-likelihood-batch-skipped')
            continue
        except S.ExtremeDensity:
            ctx.count('batch-with-density-below-exp(-20000)-not-compared-with-the-model')
            continue
        after = snapshot(order)
        for i, n in enumerate(order):
            if i not in new:
                continue
            kind, val = after[i]
            got = np.asarray(val, dtype=np.float64).reshape(-1) if kind != 'gauss' else np.array(val)
            exp = np.asarray(new[i], dtype=np.float64).reshape(-1) if kind != 'gauss' else np.array(new[i])
            ctx.count('parameters-compared', int(got.size))
            tol = 3e-4 + 1e-3 * np.abs(exp)
            if np.any(np.abs(got - exp) > tol):
                j = int(np.argmax(np.abs(got - exp)))
                ctx.violation(f'c14-update:{kind}', f'{type(n).__name__} #{n.id}: parameter {j} after the step is {got[j]!r}; the convex combination of the old value and '
                                                   f'the re-estimate from the exact responsibilities of the batch is {exp[j]!r} (iteration {it}, eta={eta})',
                              replay=dict(rep, iterations=it + 1))
                return


def run(ctx):
    n = 60 if ctx.tier == 'quick' else 800
    for k in range(n):
        one_case(ctx, k)
        if ctx.n_new(with_input_only=True) >= 3:
            break
    # argument guards
    rs = np.random.RandomState(1)
    root = S.rand_spn(rs, [0, 1], 2, ('bern',), 0.0)
    if getattr(root, 'children', None):
        assign_ids(root)
        data = rs.randint(0, 2, size=(10, 2)).astype(np.float32)
        for kw in (dict(num_iter=0), dict(batch_perc=0.0), dict(batch_perc=1.0), dict(step_size=0.0), dict(step_size=1.0)):
            ctx.count('guards')
            try:
                expectation_maximization(root, data, verbose=False, **kw)
                ctx.violation('c14-guard', f'arguments {kw} were accepted', replay=dict(kind='c14-guard', kw=kw))
            except ValueError:
                pass


_run_core = run


def run(ctx):
    _run_core(ctx)
    if ctx.n_new() == 0 and ctx.driver_ok:
        from harness.common import run_demo
        run_demo(ctx, 'demo_tr3.py', [1 + ctx.seed], 'c14-code-vs-generated-vs-model',
                 'EM responsibilities handed to em_step vs generated expression vs backward model', env_extra=dict(DEMO_SECTIONS='g'))
        if ctx.n_new() == 0:
            run_demo(ctx, 'demo_embackward.py', ['--n', 40 if ctx.tier == 'quick' else 300], 'c14-backward-pass-as-coded',
                     'eval_backward / EM statistics on circuits with zero-valued children (Bernoulli p in {0, 1}, zero weights) vs exact '
                     'derivatives and vs the coded pass of Model/EmBackward.lean', env_extra=dict(VERIF_SEED=str(ctx.seed)))


def replay(rep):
    if rep['replay'].get('kind') == 'demo':
        from harness.common import replay_demo
        return replay_demo(rep['replay'])
    from harness.build import build_from_table
    r = rep['replay']
    if r['kind'] != 'c14':
        return True
    root, order = build_from_table(r['table'])
    if r.get('shared_weight_array'):
        shared = [n for n in order if isinstance(n, Sum) and int(n.id) in r['shared_weight_array']]
        if len(shared) >= 2:
            w = np.array(shared[0].weights, dtype=np.float32)
            for n in shared:
                n.weights = w          # one array object, as in the recorded case
    data = np.array(r['data'], dtype=np.float32)
    rr = RevealRS(r['seed'])
    for it in range(r.get('iterations', 1)):
        expectation_maximization(root, data, num_iter=1, batch_perc=r['batch_perc'], step_size=r['eta'], random_init=(r['random_init'] and it == 0),
                                 random_state=rr, verbose=False)
        why = invariants(order, root)
        if why:
            print('iteration', it, why)
            return False
    print('invariants hold after', r.get('iterations', 1), 'iterations (parameter-update comparisons need the model: re-run the check)')
    return True
