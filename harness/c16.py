"""C16 — RAT-SPNs are normalised, marginalise exactly and complete / sample validly."""
import itertools, json, math
import numpy as np
import torch
from harness.common import np_seed, Infra, parse_q
from harness.demos import demo_tensor as T

from deeprob.spn.models.ratspn import BernoulliRatSpn, GaussianRatSpn

torch.set_num_threads(1)


def impl_oracle(ctx, model, n, classes, rs, rep):
    """the property on the implementation itself: normalisation, exact NaN marginals, MPE / sample contract"""
    model.eval()
    with torch.no_grad():
        if n <= 9:
            rows = torch.tensor(list(itertools.product([0.0, 1.0], repeat=n)))
            ll = model(rows).double()                       # (2^n, classes)
            mass = torch.exp(ll).sum(dim=0)
            if bool(((mass - 1.0).abs() > 1e-4).any()):
                ctx.violation('c16-mass', f'class outputs sum to {mass.tolist()} over all 2^{n} inputs', replay=rep)
                return False
            ctx.count('exhaustive-mass-checks')
            # NaN-marked inputs: marginal = explicit sum over the completions
            for _ in range(4):
                miss = rs.rand(n) < 0.5
                x = torch.tensor(rs.randint(0, 2, size=n)).float()
                q = x.clone()
                q[torch.tensor(miss)] = float('nan')
                m = torch.exp(model(q[None, :]).double())[0]
                agree = torch.ones(len(rows), dtype=torch.bool)
                for v in range(n):
                    if not miss[v]:
                        agree &= rows[:, v] == x[v]
                ref = torch.exp(ll[agree]).sum(dim=0)
                ctx.count('marginal-queries')
                if bool(((m - ref).abs() > 1e-5 + 1e-4 * ref).any()):
                    ctx.violation('c16-marginal', f'marginal {m.tolist()} but the sum over completions is {ref.tolist()} for query {q.tolist()}', replay=rep)
                    return False
        z = model(torch.full((1, n), float('nan'))).double()
        if bool((z.abs() > 1e-4).any()):
            ctx.violation('c16-all-missing', f'fully missing input has log-probability {z.tolist()}', replay=rep)
            return False
        xs = torch.tensor(rs.randint(0, 2, size=(6, n))).float()
        miss = torch.tensor(rs.rand(6, n) < 0.4)
        xs[miss] = float('nan')
        try:
            comp = model.mpe(xs)
            smp = model.sample(7)
        except Exception as ex:
            ctx.violation(f'c16-mpe-sample-raises:{type(ex).__name__}', f'mpe / sample raised {type(ex).__name__}: {str(ex)[:200]} (pad={int(model.base_layer.pad)})', replay=rep)
            return False
        ok = tuple(comp.shape) == (6, n) and tuple(smp.shape) == (7, n)
        ok = ok and bool(((comp == 0) | (comp == 1)).all()) and bool(((smp == 0) | (smp == 1)).all())
        ok = ok and bool((comp[~miss] == xs[~miss]).all())
        if not ok:
            ctx.violation('c16-mpe-sample-contract', f'mpe / sample returned rows of the wrong width, out-of-domain values or changed evidence (pad={int(model.base_layer.pad)})', replay=rep)
            return False
    return True


def sample_law(ctx, model, n, rs, rep, n_draws, eps):
    with torch.no_grad():
        rows = torch.tensor(list(itertools.product([0.0, 1.0], repeat=n)))
        p = torch.exp(model(rows).double())[:, 0].numpy()
        torch.manual_seed(int(rs.randint(2 ** 31 - 1)))
        s = model.sample(n_draws).long().numpy()
    codes = np.zeros(n_draws, dtype=np.int64)
    for v in range(n):
        codes = codes * 2 + s[:, v]
    emp = np.bincount(codes, minlength=2 ** n) / n_draws
    dev = float(np.abs(emp - p).max())
    ctx.count('sample-law-cases')
    ctx.extra['worst_sampling_deviation'] = max(ctx.extra.get('worst_sampling_deviation', 0.0), dev)
    if dev > eps:
        ctx.violation('c16-sample-law', f'sampled frequencies deviate from the model distribution by {dev:.4f} (N={n_draws}, bound {eps:.4f})', replay=rep)


def sample_law_labels(ctx, model, n, classes, rs, rep, n_draws):
    """`sample(n, y=labels)` with labels that are neither constant nor sorted: row i must be a draw from the distribution of class
    labels[i] (theorem `ratspn_sample_law_anyclass` is per class; the batch must not mix the classes up)"""
    with torch.no_grad():
        rows = torch.tensor(list(itertools.product([0.0, 1.0], repeat=n)))
        P = torch.exp(model(rows).double()).numpy()            # (2^n, classes)
        y = torch.tensor(rs.randint(0, classes, size=n_draws)).long()
        torch.manual_seed(int(rs.randint(2 ** 31 - 1)))
        s = model.sample(n_draws, y=y).long().numpy()
    codes = np.zeros(n_draws, dtype=np.int64)
    for v in range(n):
        codes = codes * 2 + s[:, v]
    ctx.count('labelled-sample-law-cases')
    for c in range(classes):
        sel = (y.numpy() == c)
        k = int(sel.sum())
        if k < 1000:
            continue
        emp = np.bincount(codes[sel], minlength=2 ** n) / k
        eps = math.sqrt(math.log(2.0 * (2 ** n) * 64 / 1e-9) / (2.0 * k))
        dev = float(np.abs(emp - P[:, c]).max())
        if dev > eps:
            ctx.violation('c16-sample-law-labels', f'sample(n, y=labels) with shuffled labels: the rows labelled {c} deviate from the distribution of class {c} by '
                          f'{dev:.4f} (N={k}, bound {eps:.4f}; features={n})', replay=rep)
            return False
    return True


def wide_arch(ctx, n, d, reps, seed, rs, n_draws):
    """architectures with more than 16 padded features per repetition (the width at which library sorts stop being stable and
    vectorised paths switch kernels): exhaustive enumeration in chunks for the exact single-variable and adjacent-pair marginals,
    then the sample law (Hoeffding, union bound over all statistics) and the MPE / sample contract."""
    rep = dict(kind='c16-wide', features=n, depth=d, repetitions=reps, seed=seed)
    pad = (-n) % (2 ** d)
    ctx.case('wide-arch', nontrivial_key=('wide', n, d, reps, seed), sample=dict(rep, pad=pad))
    ctx.count('wide-architectures')
    model = BernoulliRatSpn(n, out_classes=1, rg_depth=d, rg_repetitions=reps, rg_batch=2, rg_sum=2, random_state=np.random.RandomState(seed))
    torch.manual_seed(seed)
    for p_ in model.parameters():
        p_.data.normal_(0.0, 1.5)
    model.eval()
    m1 = np.zeros(n)
    m2 = np.zeros(n - 1)
    mass = 0.0
    with torch.no_grad():
        chunk = 1 << 15
        for lo in range(0, 1 << n, chunk):
            codes = np.arange(lo, min(lo + chunk, 1 << n), dtype=np.int64)
            bits = ((codes[:, None] >> np.arange(n - 1, -1, -1)[None, :]) & 1).astype(np.float32)
            p = torch.exp(model(torch.from_numpy(bits)).double())[:, 0].numpy()
            mass += float(p.sum())
            m1 += p @ bits
            m2 += p @ (bits[:, :-1] * bits[:, 1:])
        if abs(mass - 1.0) > 1e-4:
            ctx.violation('c16-mass', f'the outputs sum to {mass} over all 2^{n} inputs (wide architecture)', replay=rep)
            return False
        if not impl_oracle(ctx, model, n, 1, rs, rep):
            return False
        torch.manual_seed(int(rs.randint(2 ** 31 - 1)))
        smp = model.sample(n_draws).double().numpy()
    e1 = smp.mean(axis=0)
    e2 = (smp[:, :-1] * smp[:, 1:]).mean(axis=0)
    eps = math.sqrt(math.log(2.0 * (2 * n) * 64 / 1e-9) / (2.0 * n_draws))
    dev1, dev2 = float(np.abs(e1 - m1).max()), float(np.abs(e2 - m2).max())
    ctx.count('wide-sample-law-cases')
    ctx.extra['worst_wide_sampling_deviation'] = max(ctx.extra.get('worst_wide_sampling_deviation', 0.0), dev1, dev2)
    if max(dev1, dev2) > eps:
        v = int(np.abs(e1 - m1).argmax()) if dev1 >= dev2 else int(np.abs(e2 - m2).argmax())
        ctx.violation('c16-sample-law-wide', f'{n} features, depth {d} (pad {pad}): sampled frequency of '
                      + (f'x{v}=1 is {e1[v]:.4f}, the model gives {m1[v]:.4f}' if dev1 >= dev2 else f'x{v}=x{v + 1}=1 is {e2[v]:.4f}, the model gives {m2[v]:.4f}')
                      + f' (N={n_draws}, bound {eps:.4f})', replay=rep)
        return False
    return True


def grid_case(ctx, n, d, reps, seed, classes):
    """parameters on a coarse grid (every logit / weight an integer in -2..2): exact ties between the two values of a leaf (p = 1/2,
    what a zero-initialised or freshly reset Bernoulli layer holds) and between mixture components — the normalisation, marginal and
    MPE / sample contract of the property do not depend on the parameters being in general position"""
    rs = np.random.RandomState(seed)
    rep = dict(kind='c16-grid', features=n, depth=d, repetitions=reps, seed=seed, classes=classes)
    ctx.case('grid', nontrivial_key=('grid', n, d, reps, seed), sample=rep)
    ctx.count('grid-parameter-cases')
    torch.manual_seed(seed)
    model = BernoulliRatSpn(n, out_classes=classes, rg_depth=d, rg_repetitions=reps, rg_batch=2, rg_sum=2, random_state=np.random.RandomState(seed))
    for p_ in model.parameters():
        p_.data.copy_(torch.tensor(rs.randint(-2, 3, size=tuple(p_.shape))).float())
    return impl_oracle(ctx, model, n, classes, rs, rep)


def run(ctx):
    quick = ctx.tier == 'quick'
    cfgs = []
    for n in range(2, 13):
        for d in range(1, int(math.floor(math.log2(n))) + 1):
            for reps in (1, 2, 3):
                cfgs.append((n, d, reps))
    rs0 = np.random.RandomState(np_seed(ctx.sub_rng('pick')))
    if quick:
        idx = rs0.permutation(len(cfgs))[:26]
        cfgs = [cfgs[i] for i in sorted(idx)]
    n_law = 0
    eps = math.sqrt(math.log(2.0 * 4096 / 1e-9) / (2.0 * 200000))
    for (n, d, reps) in cfgs:
        rs = np.random.RandomState(np_seed(ctx.sub_rng('cfg', n, d, reps)))
        seed = int(rs.randint(10 ** 6))
        classes = int(rs.randint(1, 4))
        rep = dict(kind='c16', features=n, depth=d, repetitions=reps, seed=seed, classes=classes)
        pad = (-n) % (2 ** d)
        ctx.case('arch', nontrivial_key=(n, d, reps, seed), sample=dict(rep, pad=pad))
        ctx.count('padded' if pad else 'unpadded')
        # (1) the property on the implementation
        rsx = T.RecState(seed)
        torch.manual_seed(seed)
        model = BernoulliRatSpn(n, out_classes=classes, rg_depth=d, rg_repetitions=reps, rg_batch=int(rs.randint(1, 4)), rg_sum=int(rs.randint(1, 4)),
                                random_state=rsx)
        for p_ in model.parameters():
            p_.data.normal_()
        if not impl_oracle(ctx, model, n, classes, rs, rep):
            if ctx.n_new(with_input_only=True) >= 3:
                return
            continue
        if classes >= 2 and n <= 7 and ctx.extra.get('n_label_law', 0) < (2 if quick else 10):
            ctx.extra['n_label_law'] = ctx.extra.get('n_label_law', 0) + 1
            sample_law_labels(ctx, model, n, classes, rs, rep, 60000)
        if n <= 8 and n_law < (2 if quick else 12) and pad > 0:
            n_law += 1
            m1 = BernoulliRatSpn(n, out_classes=1, rg_depth=d, rg_repetitions=reps, rg_batch=2, rg_sum=2, random_state=np.random.RandomState(seed))
            for p_ in m1.parameters():
                p_.data.normal_()
            m1.eval()
            sample_law(ctx, m1, n, rs, rep, 200000, eps)
        # (2) index arithmetic vs the model: region layers, padding buffers, unpad gather
        if ctx.driver_ok and not ctx.extra.get('buffers_gone'):
            try:
                ops, expect, ok_identity, pinned_raises = T.rat_case(n, d, reps, seed)
            except Exception as ex:
                # the buffers the model mirrors (masks, padding, gather indices) are not there any more: the index correspondence cannot be
                # run; the behavioural streams (mass, marginals, contract, sample law) go on and look for a concrete input
                ctx.extra['buffers_gone'] = f'{type(ex).__name__}: {ex}'
                ctx.violation('c16-buffers-vs-model', f'the index buffers of the region-graph layer cannot be read any more ({type(ex).__name__}: {ex}); '
                                                      f'the correspondence with Model/RatSpn.lean no longer checks', replay=rep, found_input=False)
                continue
            drv = ctx.get_driver()
            for o, e in zip(ops, expect):
                got = drv.ask(o)
                ctx.count('index-lines-vs-model')
                if got != e:
                    ctx.violation('c16-index-vs-model', f'{o["op"]} differs from the model (features={n}, depth={d}, reps={reps})\n impl : {e[:200]}\n model: {got[:200]}',
                                  replay=rep, found_input=False)
                    break
            # (3) forward values of the unrolled circuit (exact rationals) vs the torch forward, incl. NaN patterns
            if n <= 9:
                rows = [[None if rs.rand() < 0.3 else int(rs.randint(0, 2)) for _ in range(n)] for _ in range(3)] + [[None] * n]
                eops, eexp = T.rat_eval_case(n, d, reps, seed, classes, rows)
                for o, e in zip(eops, eexp):
                    got = [float(parse_q(t)) for t in drv.ask(o).split()]
                    ctx.count('forward-values-vs-model')
                    if any(abs(g - x) > 1e-4 * max(abs(x), 1e-300) + 1e-9 for g, x in zip(got, e)):
                        ctx.violation('c16-forward-vs-model', f'forward value {e} vs unrolled circuit {got} on {o["row"]} (features={n}, depth={d})', replay=rep, found_input=False)
                        break
        if ctx.n_new(with_input_only=True) >= 3:
            return
    for k in range(6 if quick else 60):
        rs = np.random.RandomState(np_seed(ctx.sub_rng('grid', k)))
        n = int(rs.randint(2, 9)); d = int(rs.randint(1, int(math.floor(math.log2(n))) + 1))
        grid_case(ctx, n, d, int(rs.randint(1, 3)), int(rs.randint(10 ** 6)), int(rs.randint(1, 3)))
        if ctx.n_new(with_input_only=True) >= 3:
            return
    # wide architectures (> 16 padded features per repetition)
    wide = [(17, 2), (18, 3), (19, 2)] if quick else [(17, 2), (17, 3), (18, 2), (18, 3), (19, 2), (19, 3), (20, 3), (21, 2), (21, 3)]
    for i, (n, d) in enumerate(wide):
        rs = np.random.RandomState(np_seed(ctx.sub_rng('wide', n, d)))
        wide_arch(ctx, n, d, 1 + i % 2, int(rs.randint(10 ** 6)), rs, 60000)
        if ctx.n_new(with_input_only=True) >= 3:
            return
    # history: parameters saved from one model and loaded into a separately built model of the same architecture (different region
    # graph seed) — the normal save / rebuild / load workflow; the restored model must still sample from ITS distribution
    for k in range(3 if quick else 20):
        rs = np.random.RandomState(np_seed(ctx.sub_rng('reload', k)))
        n = int(rs.randint(4, 8)); d = int(rs.randint(1, int(math.floor(math.log2(n))) + 1)); reps = int(rs.randint(1, 3))
        rep = dict(kind='c16-reload', features=n, depth=d, repetitions=reps, k=k)
        ctx.case('reload', nontrivial_key=('reload', n, d, reps, k), sample=rep)
        ctx.count('state-dict-reload-cases')
        a = BernoulliRatSpn(n, out_classes=1, rg_depth=d, rg_repetitions=reps, rg_batch=2, rg_sum=2, random_state=np.random.RandomState(100 + k))
        for p_ in a.parameters():
            p_.data.normal_()
        b = BernoulliRatSpn(n, out_classes=1, rg_depth=d, rg_repetitions=reps, rg_batch=2, rg_sum=2, random_state=np.random.RandomState(900 + k))
        try:
            b.load_state_dict(a.state_dict())
        except Exception as ex:
            ctx.count('state-dict-not-loadable')
            continue
        a.eval(); b.eval()
        with torch.no_grad():
            rows = torch.tensor(list(itertools.product([0.0, 1.0], repeat=n)))
            if not torch.allclose(a(rows), b(rows), atol=1e-5):
                ctx.violation('c16-reload-forward', 'a model restored from a state_dict assigns different log-probabilities than the saved one', replay=rep)
                continue
        if not impl_oracle(ctx, b, n, 1, rs, rep):
            continue
        sample_law(ctx, b, n, rs, rep, 200000, eps)
        if ctx.n_new(with_input_only=True) >= 3:
            return
    # Gaussian leaves: all-missing = 0 and marginal consistency (a variable marked missing vs integrating it out numerically is not
    # available; consistency identity: marginal of a subset does not depend on how the rest is marked)
    for k in range(4 if quick else 30):
        rs = np.random.RandomState(np_seed(ctx.sub_rng('gauss', k)))
        n = int(rs.randint(2, 10)); d = int(rs.randint(1, int(math.floor(math.log2(n))) + 1))
        rep = dict(kind='c16-gauss', features=n, depth=d, k=k)
        ctx.case('gaussian', nontrivial_key=('gauss', k), sample=rep)
        model = GaussianRatSpn(n, rg_depth=d, rg_repetitions=2, rg_batch=2, rg_sum=2, random_state=np.random.RandomState(k))
        model.eval()
        with torch.no_grad():
            z = model(torch.full((2, n), float('nan')))
            if bool((z.abs() > 1e-4).any()):
                ctx.violation('c16-all-missing', f'Gaussian RAT-SPN: fully missing input has log-probability {z.tolist()}', replay=rep)


_run_core = run


def run(ctx):
    _run_core(ctx)
    if ctx.n_new() == 0 and ctx.driver_ok:
        from harness.common import run_demo
        run_demo(ctx, 'demo_ratsample.py', [2026 + ctx.seed], 'c16-topdown-pass-vs-model',
                 'RatSpn.sample / RatSpn.mpe against the Lean model of the layer-wise top-down pass (exact conditional pmf, law of sample, MPE rows)',
                 env_extra=dict(DEMO_STRIDE='6' if ctx.tier == 'quick' else '1'))
        if ctx.n_new() == 0:
            run_demo(ctx, 'demo_tr4.py', [1 + ctx.seed], 'c16-code-vs-generated-vs-model-4',
                     'RAT-SPN top-down layers (product / sum / root mpe, unpad) vs generated definitions vs model', env_extra=dict(DEMO_SECTIONS='f'))


def replay(rep):
    if rep['replay'].get('kind') == 'demo':
        from harness.common import replay_demo
        return replay_demo(rep['replay'])
    r = rep['replay']
    if r['kind'] == 'c16-wide':
        class _C:
            tier = 'quick'; extra = {}
            def __init__(self): self.bad = []
            def case(self, *a, **k): pass
            def count(self, *a, **k): pass
            def violation(self, fp, what, **k): self.bad.append(what); print(what)
        c = _C()
        wide_arch(c, r['features'], r['depth'], r['repetitions'], r['seed'], np.random.RandomState(1), 60000)
        return not c.bad
    if r['kind'] == 'c16-grid':
        class _C:
            tier = 'quick'; extra = {}
            def __init__(self): self.bad = []
            def case(self, *a, **k): pass
            def count(self, *a, **k): pass
            def violation(self, fp, what, **k): self.bad.append(what); print(what)
        c = _C()
        grid_case(c, r['features'], r['depth'], r['repetitions'], r['seed'], r['classes'])
        return not c.bad
    if r['kind'] != 'c16':
        return True
    rs = np.random.RandomState(0)
    model = BernoulliRatSpn(r['features'], out_classes=r['classes'], rg_depth=r['depth'], rg_repetitions=r['repetitions'], rg_batch=2, rg_sum=2,
                            random_state=np.random.RandomState(r['seed']))
    model.eval()
    xs = torch.tensor(rs.randint(0, 2, size=(4, r['features']))).float()
    xs[:, 0] = float('nan')
    try:
        comp = model.mpe(xs)
        smp = model.sample(3)
    except Exception as ex:
        print('mpe / sample raised', type(ex).__name__, str(ex)[:200])
        return False
    print('mpe shape', tuple(comp.shape), 'sample shape', tuple(smp.shape))
    return tuple(comp.shape) == (4, r['features']) and tuple(smp.shape) == (3, r['features'])
