import Lean.Data.Json
import Driver.Proto
import DeeprobModel.Generated.Consts
import DeeprobModel.Generated.FormulasRat
import DeeprobModel.Model.Net
import DeeprobModel.Model.Learn
import DeeprobModel.Model.Cnet
import DeeprobModel.Model.Moments
import DeeprobModel.Model.Io
/-
Driver ops of the third wave of translated fragments (`Gen.S3…` / `GenRat.S3…`): every op evaluates the GENERATED
definition (what the current /repo source says) and, next to it, the hand-written model definition, so that the harness
can compare implementation = generated = model on concrete inputs.  No Mathlib.  Exact rationals as "n/d".

  {"op":"s3_inner","kind":"sum"|"prod","w":[q…],"x":[q…]}            → "<generated> <model>"   node_likelihood ∘ Sum/Product.likelihood | wsum / lprod
  {"op":"s3_floor","x":[q…]}                                           → "<generated>"            node_log_likelihood ∘ Product.log_likelihood (floor −1e31)
  {"op":"s3_leaf","kind":"bern","p":q,"x":k|null}                      → "<generated> <model>"   Bernoulli.likelihood | catLeafFn [1−p, p]
  {"op":"s3_leaf","kind":"cat","probs":[q…],"x":k|null}                → "<generated> <model>"   Categorical.likelihood | catLeafFn probs
  {"op":"s3_evalnet","row":[k|null…]}  (after {"op":"net",…}; cat leaves only)
                                                                       → "<generated values> | <model values>"  eval_forward with the generated node / leaf functions | evalNet
  {"op":"s3_split","kind":"rows","clusters":[i…],"items":[n…]}         → "<slices>|<weights>|<model slices>|<model weights>"   (slices `a b;c`, weights `n/d`)
  {"op":"s3_split","kind":"cols","clusters":[i…],"items":[n…]}         → "<scopes>|<model slices>"
  {"op":"s3_learn_tasks","kind":"rows"|"cols","task":{"parent":n,"rows":[…],"scope":[…],"ncs":b,"nrs":b,"first":b},"node":n,"clusters":[i…]}
       → "requeue <task>" or "sub <task>;<task>…", task = "parent|rows|scope|ncs|nrs|first"   (generated records),
         then " # " and the same text computed from the model's `step`, then " # " and the deque method of the re-queue
  {"op":"s3_cnet_run","tree":T,"x":[[k…]…]}  T = {"or":{"scope":[…],"or_id":v,"w":[q,q],"ch":[T,T]}} | {"leaf":id}
       → "<leaf id>:<rows>:<cols>;… | <per-row product of the weights> | <model per-row product>"
  {"op":"s3_moment","order":i}                                          → "<S3momentCase>"
  {"op":"s3_moment","scope":[…],"mom":q,"n":k}                          → "<generated vector> | <model vector>"
  {"op":"s3_io_edges","id":n,"ch":[n…]}                                 → "<c,p,idx;…> | <model>"
  {"op":"s3_io_children","edges":[[c,p,idx]…],"parent":p}               → "<generated> | <model>"   entries `n` or `-` (None)
  {"op":"s3_io_weights","w":[q…]}                                       → "<generated> | <model>"
-/
open Lean
namespace Deeprob.Driver
open Deeprob

def jOptNat (j : Json) : Except String (Option Nat) :=
  match j with
  | .null => pure none
  | _ => do let n ← j.getNat?; pure (some n)

def listsStr (l : List (List Nat)) : String := ";".intercalate (l.map natsStr)
def pairsStr (l : List (Int × Int)) : String := " ".intercalate (l.map (fun p => s!"{p.1}/{p.2}"))
def boolStr (b : Bool) : String := if b then "1" else "0"

abbrev T3 := Gen.S3Task Nat (List Nat) (List Nat)
def t3Str (t : T3) : String :=
  s!"{t.parent}|{natsStr t.data}|{natsStr t.scope}|{boolStr t.no_cols_split}|{boolStr t.no_rows_split}|{boolStr t.is_first}"
def taskStr (t : Learn.Task) : String :=
  s!"{t.parent}|{natsStr t.rows}|{natsStr t.scope}|{boolStr t.noColsSplit}|{boolStr t.noRowsSplit}|{boolStr t.isFirst}"

/-- the OR tree of a cutset network with numbered leaves -/
inductive OrT where
  | leaf (id : Nat)
  | or (scope : List Nat) (v : Nat) (w0 w1 : Rat) (c0 c1 : OrT)
deriving Inhabited

partial def parseOrT (j : Json) : Except String OrT := do
  match j.getObjVal? "leaf" with
  | .ok l => pure (.leaf (← l.getNat?))
  | .error _ => do
    let o ← field j "or"
    let scope ← jNatList (← field o "scope")
    let v ← (← field o "or_id").getNat?
    let w ← jRatList (← field o "w")
    let ch ← jArr (← field o "ch")
    match w, ch with
    | [w0, w1], [a, b] => pure (.or scope v w0 w1 (← parseOrT a) (← parseOrT b))
    | _, _ => .error "or node needs two weights and two children"

def OrT.size : OrT → Nat
  | .leaf _ => 1
  | .or _ _ _ _ a b => 1 + a.size + b.size

/-- the same tree as a model `CNet` whose leaves have value 1 (only the weights are compared) -/
def OrT.toCNet : OrT → CNet Rat
  | .leaf _ => .leaf [] (fun _ => 1)
  | .or s v w0 w1 a b => .or s v w0 w1 a.toCNet b.toCNet

/-- the routing loop of `BinaryCNet.log_likelihood` driven by the GENERATED step: work list of (node, rows, cols) -/
def cnetGenRun (x : List (List Nat)) : Nat → List (OrT × List Nat × List Nat) → List Rat → List (Nat × List Nat × List Nat) →
    List Rat × List (Nat × List Nat × List Nat)
  | 0, _, acc, leaves => (acc, leaves)
  | _, [], acc, leaves => (acc, leaves)
  | fuel+1, (node, rows, cols) :: q, acc, leaves =>
    match node with
    | .leaf id => cnetGenRun x fuel q acc (leaves ++ [(id, rows, cols)])
    | .or scope v w0 w1 c0 c1 =>
      let nodeIdx := Gen.S3cnetNodeIdx scope v
      let col := cols.getD nodeIdx 0
      let cutcol : List Int := rows.map (fun r => (((x.getD r []).getD col 0 : Nat) : Int))
      let st := Gen.S3cnetOrStep rows cols nodeIdx cutcol
      let pushes := st.1.map (fun p => ((if p.1 == 0 then c0 else c1), p.2.1, p.2.2))
      let acc' := st.2.foldl (fun a p => a.zipIdx.map (fun ar => if p.1.contains ar.2 then ar.1 * (if p.2 == 0 then w0 else w1) else ar.1)) acc
      cnetGenRun x fuel (q ++ pushes) acc' leaves

def optStr (l : List (Option Nat)) : String := " ".intercalate (l.map (fun o => match o with | some n => toString n | none => "-"))

def handleStruct3 (net : Net Rat) (op : String) (j : Json) : Option (Except String String) :=
  match op with
  | "s3_inner" => some do
      let kind ← (← field j "kind").getStr?
      let x ← jRatList (← field j "x")
      match kind with
      | "sum" => do
          let w ← jRatList (← field j "w")
          pure s!"{showRat (GenRat.S3nodeLikelihood (GenRat.S3sumLikelihood w) x)} {showRat (wsum w x)}"
      | "prod" => pure s!"{showRat (GenRat.S3nodeLikelihood GenRat.S3productLikelihood x)} {showRat (lprod x)}"
      | k => .error s!"unknown kind {k}"
  | "s3_floor" => some do
      let x ← jRatList (← field j "x")
      pure (showRat (GenRat.S3nodeLogLikelihood GenRat.S3productLogLikelihood x))
  | "s3_leaf" => some do
      let kind ← (← field j "kind").getStr?
      let x ← jOptNat (← field j "x")
      let e : Ev := fun _ => x
      match kind with
      | "bern" => do
          let p ← jRat (← field j "p")
          pure s!"{showRat (GenRat.S3bernoulliLikelihood p x)} {showRat (Circ.catLeafFn 0 [1 - p, p] e)}"
      | "cat" => do
          let probs ← jRatList (← field j "probs")
          pure s!"{showRat (GenRat.S3categoricalLikelihood (List.range probs.length) probs x)} {showRat (Circ.catLeafFn 0 probs e)}"
      | k => .error s!"unknown kind {k}"
  | "s3_evalnet" => some do
      let row ← jOptNatList (← field j "row")
      let e := Ev.ofList row
      -- `eval_bottom_up` over the children-first table with the generated leaf / node functions
      let vals ← net.foldlM (fun (vals : List Rat) (x : NNode Rat) => do
        let v ← match x.kind, x.leaf with
          | .leaf, .cat v tbl => pure (GenRat.S3categoricalLikelihood (List.range tbl.length) tbl (e v))
          | .leaf, _ => .error "s3_evalnet: only table leaves"
          | .sum, _ => pure (GenRat.S3evalForwardInner (N := Nat) id (fun _ => x.ch)
                              (fun _ => GenRat.S3nodeLikelihood (GenRat.S3sumLikelihood x.ws)) (fun c => vals.getD c 0) 0)
          | .prod, _ => pure (GenRat.S3evalForwardInner (N := Nat) id (fun _ => x.ch)
                              (fun _ => GenRat.S3nodeLikelihood GenRat.S3productLikelihood) (fun c => vals.getD c 0) 0)
        pure (vals ++ [v])) []
      pure (ratsStr vals ++ " | " ++ ratsStr (evalNet e [] net))
  | "s3_split" => some do
      let kind ← (← field j "kind").getStr?
      let clusters ← jIntList (← field j "clusters")
      let items ← jNatList (← field j "items")
      if clusters.length != items.length then .error "s3_split: one label per item"
      match kind with
      | "rows" =>
          let ms := Learn.slicesOf clusters items
          pure (listsStr (Gen.S3splitRowsSlices items clusters) ++ "|" ++ pairsStr (Gen.S3splitRowsWeights items clusters) ++ "|" ++
                listsStr ms ++ "|" ++ pairsStr ((Learn.weightsOf ms items.length).map (fun p => ((p.1 : Int), (p.2 : Int)))))
      | "cols" =>
          pure (listsStr (Gen.S3splitColsScopes items clusters items) ++ "|" ++ listsStr (Learn.slicesOf clusters items))
      | k => .error s!"unknown kind {k}"
  | "s3_learn_tasks" => some do
      let kind ← (← field j "kind").getStr?
      let tj ← field j "task"
      let t : Learn.Task := {
        parent := ← (← field tj "parent").getNat?, rows := ← jNatList (← field tj "rows"), scope := ← jNatList (← field tj "scope"),
        noColsSplit := ← (← field tj "ncs").getBool?, noRowsSplit := ← (← field tj "nrs").getBool?, isFirst := ← (← field tj "first").getBool? }
      let t3 : T3 := { parent := t.parent, data := t.rows, scope := t.scope, no_cols_split := t.noColsSplit,
                       no_rows_split := t.noRowsSplit, is_first := t.isFirst }
      let node ← (← field j "node").getNat?
      let clusters ← jIntList (← field j "clusters")
      -- the model's `step` on a state whose table has `node` cells, so that the new node gets the index `node`
      let cell : Learn.Node := { kind := .prod, scope := t.scope, rows := t.rows }
      let st : Learn.St := { nodes := List.replicate node cell, queue := [t],
                             script := [.zeroVar [], if kind == "rows" then .rows clusters else .cols clusters] }
      let cfg : Learn.Cfg := { minRows := 1, minCols := 1, front := true }
      let modelTxt := match Learn.step cfg st with
        | .ok s' => if s'.nodes.length == node then "requeue " ++ ";".intercalate (s'.queue.map taskStr)
                    else "sub " ++ ";".intercalate (s'.queue.map taskStr)
        | .error e => "error " ++ e
      match kind with
      | "rows" =>
          if clusters.length != t.rows.length then .error "one label per row"
          let sl := Gen.S3splitRowsSlices t.rows clusters
          let gen := if Gen.S3learnRowsSingle sl then s!"requeue {t3Str (Gen.S3learnRowsRequeue t3)}"
                     else "sub " ++ ";".intercalate ((Gen.S3learnRowsSubtasks t3 node sl).map t3Str)
          pure (gen ++ " # " ++ modelTxt ++ " # " ++ Gen.S3learnRowsRequeueAt)
      | "cols" =>
          if clusters.length != t.scope.length then .error "one label per column"
          let scopes := Gen.S3splitColsScopes t.scope clusters t.scope
          let gen := if Gen.S3learnColsSingle scopes then s!"requeue {t3Str (Gen.S3learnColsRequeue t3)}"
                     else "sub " ++ ";".intercalate ((Gen.S3learnColsSubtasks t3 node (scopes.map (fun _ => t.rows)) scopes).map t3Str)
          pure (gen ++ " # " ++ modelTxt ++ " # " ++ Gen.S3learnColsRequeueAt)
      | k => .error s!"unknown kind {k}"
  | "s3_cnet_run" => some do
      let tree ← parseOrT (← field j "tree")
      let x ← (← jArr (← field j "x")).mapM jNatList
      let n := x.length
      let m := (x.headD []).length
      let init := Gen.S3cnetInit n m
      let (acc, leaves) := cnetGenRun x tree.size [(tree, init.1, init.2)] (List.replicate n 1) []
      let rows : Nat → Ev := fun r => Ev.ofList ((x.getD r []).map some)
      let model := cnetBatch rows n tree.toCNet
      pure (";".intercalate (leaves.map (fun l => s!"{l.1}:{natsStr l.2.1}:{natsStr l.2.2}")) ++ " | " ++ ratsStr acc ++ " | " ++ ratsStr model)
  | "s3_moment" => some do
      match j.getObjVal? "order" with
      | .ok o => do let k ← o.getInt?; pure (toString (Gen.S3momentCase k))
      | .error _ => do
          let scope ← jNatList (← field j "scope")
          let mom ← jRat (← field j "mom")
          let n ← (← field j "n").getNat?
          let gen := (List.range n).map (GenRat.S3leafMoment scope (fun _ => mom))
          let c : MCirc Rat := .leaf scope (fun _ => 1) (fun _ _ => mom)
          pure (ratsStr gen ++ " | " ++ ratsStr ((List.range n).map (fun v => MCirc.moment 1 v c)))
  | "s3_io_edges" => some do
      let id ← (← field j "id").getNat?
      let ch ← jNatList (← field j "ch")
      let gen := Gen.S3ioEdges (N := Nat) (fun n => n) (fun _ => ch) id
      let n : MNode := { id, cls := "", scope := [], weights := [], params := [], ch }
      pure (";".intercalate (gen.map (fun t => s!"{t.1},{t.2.1},{t.2.2}")) ++ " | " ++
            ";".intercalate ((nodeEdges n).map (fun e => s!"{e.child},{e.parent},{e.idx}")))
  | "s3_io_children" => some do
      let es ← (← jArr (← field j "edges")).mapM jNatList
      let p ← (← field j "parent").getNat?
      let edges : List Edge := es.map (fun t => { child := t.getD 0 0, parent := t.getD 1 0, idx := t.getD 2 0 })
      let gen := (edges.filter (fun e => e.parent == p)).foldl (fun l e => Gen.S3ioPlace l (e.idx : Int) e.child) []
      pure (optStr gen ++ " | " ++ optStr (childrenOf edges p))
  | "s3_io_weights" => some do
      let w ← jRatList (← field j "w")
      let n : MNode := { id := 0, cls := "Sum", scope := [], weights := w, params := [], ch := [] }
      pure (ratsStr (Gen.S3ioSumWeights roundN w) ++ " | " ++ ratsStr (encodeNode n).weights)
  | _ => none

end Deeprob.Driver
