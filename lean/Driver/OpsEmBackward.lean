import Lean.Data.Json
import Driver.Proto
import DeeprobModel.Model.EmBackward
/-
Driver op for the backward pass as coded (`Model/EmBackward.lean`). No Mathlib.
-/
open Lean
namespace Deeprob.Driver
open Deeprob.LogV

/-- `f:n/d` (the float `log(n/d)`), `l:k` (about `(k+1)·(-1e31)`), `b` (`-inf`), `t` (not tracked) -/
def showLogV : LogV Rat → String
  | .fin a => s!"f:{showRat a}"
  | .low k => s!"l:{k}"
  | .bot => "b"
  | .top => "t"

def showExpRat : Option Rat → String
  | some q => showRat q
  | none => "nan"

/-- op `embackward` — `{"op":"embackward","row":[…]}` on the current net and root (table leaves only: no densities).
Answer: six fields separated by ` | `:
`lls` of `forwardC` · `grads` of `backwardC` (on `codedLls (evalNet …)`) · `exp` of `statLeafC` for every node ·
for every sum node `i=` the comma separated `exp` of `statSumC` · the same for `respSumC` · the linear-domain
`backward` (the true derivatives) -/
def handleEmBackward (net : Net Rat) (root : Nat) (op : String) (j : Json) : Option (Except String String) :=
  match op with
  | "embackward" => some do
      let row ← jOptNatList (← field j "row")
      let e := Ev.ofList row
      let vals := evalNet e [] net
      let lls := codedLls vals
      let fw := forwardC e [] net
      let G := backwardC net lls root
      let D := backward net vals root
      let idx := List.range net.length
      let leafStats := idx.map (fun i => showExpRat (expL (statLeafC lls G root i)))
      let sums := idx.filterMap (fun i => match net[i]? with
        | some x => if x.kind = .sum then some (i, x) else none
        | none => none)
      let raw := sums.map (fun ix => s!"{ix.1}=" ++ ",".intercalate ((statSumC lls G root ix.1 ix.2).map (fun s => showExpRat (expL s))))
      let resp := sums.map (fun ix => s!"{ix.1}=" ++ ",".intercalate ((respSumC lls G root ix.1 ix.2).map showExpRat))
      pure (" | ".intercalate [" ".intercalate (fw.map showLogV), " ".intercalate (G.map showLogV),
        " ".intercalate leafStats, " ".intercalate raw, " ".intercalate resp, ratsStr D])
  | _ => none

end Deeprob.Driver
