import Lean.Data.Json
import DeeprobModel.Model.Sched
import Driver.Proto
/-
Driver ops of the schedule model (C08).

  {"op":"trace","layers":[[{"task":1,"acts":[{"kind":"or","array":"masks","rows":[3],"locked":true}]},
                           {"task":2,"acts":[{"kind":"or","array":"masks","rows":[3],"locked":false}]}]]}
      → `disciplined`   or   `violation layer=0 task=1 act=0 (or masks locked=true) task=2 act=0 (or masks locked=false)`
      (`kind` ∈ or | write | read; the footprint is `rows:[i,…]` (row i = cell (i,0)) or `cells:[[r,c],…]`;
       `locked` defaults to false). Checks `Sched.disciplinedB` layer by layer.
  {"op":"layers"}   (after a `net` op) → `none`  or  the layers as node indices, `0|1 2|3`  (layers separated
      by `|`), followed by ` reachOK=true|false` (the hypothesis of the `layers_*` theorems, re-checked).
-/
open Lean
namespace Deeprob.Driver
open Deeprob.Sched

def parseAccess (j : Json) : Except String Access := do
  let k ← (← field j "kind").getStr?
  let kind ← match k with
    | "or" => pure AKind.or
    | "write" => pure AKind.write
    | "read" => pure AKind.read
    | o => .error s!"unknown access kind {o}"
  let array ← (← field j "array").getStr?
  let locked ← (fieldD j "locked" (Json.bool false)).getBool?
  let cells ← match j.getObjVal? "rows" with
    | .ok v => do pure ((← jNatList v).map (fun r => (r, 0)))
    | .error _ => match j.getObjVal? "cells" with
      | .ok v => (← jArr v).mapM (fun p => do
          match ← jNatList p with
          | [r, c] => pure (r, c)
          | _ => .error "a cell is a pair [r, c]")
      | .error _ => .error "access needs rows or cells"
  pure { kind, array, cells, locked }

def parseTaskTrace (j : Json) : Except String TaskTrace := do
  let task ← (← field j "task").getNat?
  let acts ← (← jArr (← field j "acts")).mapM parseAccess
  pure { task, acts }

def showKind : AKind → String
  | .or => "or" | .write => "write" | .read => "read"

def showAccess (l : List Access) (i : Nat) : String :=
  match l[i]? with
  | some a => s!"({showKind a.kind} {a.array} locked={a.locked})"
  | none => "(?)"

def checkLayers : Nat → List (List TaskTrace) → String
  | _, [] => "disciplined"
  | k, l :: ls =>
    if disciplinedB l then checkLayers (k + 1) ls else
    match firstOffending l with
    | some (t, i, u, j) =>
      let ta := (l.find? (fun x => x.task == t)).map (·.acts) |>.getD []
      let ua := (l.find? (fun x => x.task == u)).map (·.acts) |>.getD []
      s!"violation layer={k} task={t} act={i} {showAccess ta i} task={u} act={j} {showAccess ua j}"
    | none => s!"violation layer={k}"

def handleSched (net : Net Rat) (root : Nat) (op : String) (j : Json) : Option (Except String String) :=
  match op with
  | "trace" => some do
      let ls ← (← jArr (← field j "layers")).mapM (fun l => do (← jArr l).mapM parseTaskTrace)
      pure (checkLayers 0 ls)
  | "layers" => some do
      let ok := reachOKB net root (Net.collect net root)
      match layers net root with
      | none => pure s!"none reachOK={ok}"
      | some L => pure ("|".intercalate (L.map natsStr) ++ s!" reachOK={ok}")
  | _ => none

end Deeprob.Driver
