import Driver.Proto
import DeeprobModel.Model.TopDownNet
/-
Driver ops of the top-down queries (C06 / C07).  No Mathlib.

* `{"op":"mpe","row":[v|null,…],"bern":[i,…]}` → `r0 r1 … | n/d`
    completed row (one int per variable, `nan` for an entry that stays missing), then the smallest
    arg-max margin met on the path (best minus second-best `wᵢ·valueᵢ` over the reached sum nodes with
    ≥ 2 children; `inf` if there is none).  `bern` (optional) = table indices of the leaves that are
    `Bernoulli` objects (mode tie → 1); other `cat` leaves are `Categorical` (first arg-max).
    Any `ext` / `clt` leaf in the table → `unsupported-leaf`.  With `"tree":true` the row is also
    computed by `mpeDescent` on the unfolded tree and compared (`mpe-mismatch` if different).
* `{"op":"pmf","row":[…],"bern":[…],"dom":[…]}` → `k1:n/d k2:n/d …`
    exact conditional pmf over all completions of the row on the root scope, lexicographic order;
    key = the completed row, one digit per variable (`?` = stays missing; entries separated by `,` when
    some domain has more than 10 values).  Computed twice — spec `eval x / eval e` on the stored table
    and `topDownPmf` on the unfolded tree — and compared: `pmf-mismatch` if they differ,
    `zero-evidence` if `eval e = 0`.
-/
open Lean
namespace Deeprob.Driver

def allCat (net : Net Rat) : Bool :=
  net.all (fun x => match x.kind with
    | .leaf => (match x.leaf with | .cat _ _ => true | _ => false)
    | _ => true)

def tdMinOpt (a : Option Rat) (b : Rat) : Option Rat :=
  match a with
  | none => some b
  | some x => some (if b < x then b else x)

/-- best minus second best of a list with at least two entries -/
def listMargin (l : List Rat) : Option Rat :=
  if l.length < 2 then none else
    let k := argmax l
    let m := l.getD k 0
    let others := (l.zipIdx.filter (fun p => p.2 != k)).map (·.1)
    match others with
    | [] => none
    | o :: os => some (m - os.foldl (fun a b => if a < b then b else a) o)

def pathMargin (net : Net Rat) (vals : List Rat) (reach : Nat → Bool) : Option Rat :=
  (List.range net.length).foldl (fun acc i =>
    match net[i]? with
    | some x => if reach i && x.kind == .sum then
        (match listMargin (List.zipWith (· * ·) x.ws (x.ch.map (fun c => vals.getD c 0))) with
         | some m => tdMinOpt acc m
         | none => acc) else acc
    | none => acc) none

def showEntry : Option Nat → String
  | some k => toString k
  | none => "nan"

/-- all completions of the missing entries among `vars`, lexicographic (first variable slowest) -/
def completions (dom : Nat → Nat) : List Nat → Ev → List Ev
  | [], e => [e]
  | v :: vs, e => (List.range (dom v)).flatMap (fun k => completions dom vs (e.set v k))

def rowKey (sep : String) (n : Nat) (x : Ev) : String :=
  sep.intercalate ((List.range n).map (fun v => match x v with | some k => toString k | none => "?"))

def handleTopDownD (net : Net Rat) (root : Nat) (dom : List Nat) (op : String) (j : Json) :
    Option (Except String String) :=
  match op with
  | "mpe" => some (do
      let row ← jOptNatList (← field j "row")
      let bern ← jNatList (fieldD j "bern" (Json.arr #[]))
      if !allCat net then return "unsupported-leaf"
      if !Net.wellOrderedB net then throw "mpe: table not in children-first order"
      let isBern := fun i => bern.contains i
      let e := Ev.ofList row
      let st := mpeNetOrd (List.range net.length).reverse e [] net root isBern
      let n := max row.length dom.length
      -- optional cross-check (`"tree":true`): the tree-level descent of the unfolding gives the same row
      let chk ← (fieldD j "tree" (Json.bool false)).getBool?
      if chk then
        let t := TCirc.mpeDescent e (toTTree net [] isBern (root + 1) root)
        if (List.range n).any (fun v => t v != st.row v) then return "mpe-mismatch"
      let out := " ".intercalate ((List.range n).map (fun v => showEntry (st.row v)))
      let mg := match pathMargin net (evalNet e [] net) st.reach with
        | some m => showRat m
        | none => "inf"
      return s!"{out} | {mg}")
  | "pmf" => some (do
      let row ← jOptNatList (← field j "row")
      let bern ← jNatList (fieldD j "bern" (Json.arr #[]))
      let dom ← (match j.getObjVal? "dom" with | .ok d => jNatList d | .error _ => pure dom)
      if !allCat net then return "unsupported-leaf"
      if !Net.wellOrderedB net then throw "pmf: table not in children-first order"
      let isBern := fun i => bern.contains i
      let domF := fun v => dom.getD v 0
      let e := Ev.ofList row
      let n := max row.length dom.length
      let scope := match net[root]? with | some x => x.scope | none => []
      let vars := (List.range n).filter (fun v => scope.contains v && (e v).isNone)
      let le := (evalNet e [] net).getD root 0
      if le == 0 then return "zero-evidence"
      let tree : TCirc Rat := toTTree net [] isBern (root + 1) root
      let sep := if dom.any (· > 10) then "," else ""
      let items := (completions domF vars e).map (fun x =>
        let spec := (evalNet x [] net).getD root 0 / le
        let model := TCirc.topDownPmf e x tree
        (rowKey sep n x, spec, model))
      if items.any (fun t => t.2.1 != t.2.2) then return "pmf-mismatch"
      return " ".intercalate (items.map (fun t => s!"{t.1}:{showRat t.2.1}")))
  | _ => none

/-- as required by Driver/Main.lean's dispatcher; `dom` is taken from the op's own `dom` field
(Main can instead call `handleTopDownD` with the `dom` list loaded with the net) -/
def handleTopDown (net : Net Rat) (root : Nat) (op : String) (j : Json) : Option (Except String String) :=
  handleTopDownD net root [] op j

end Deeprob.Driver
