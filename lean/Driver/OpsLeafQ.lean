import Lean.Data.Json
import Driver.Proto
import DeeprobModel.Model.LeafQ
import DeeprobModel.Model.GaussQ
/-
Driver ops for the exact leaf families (`Model/LeafQ.lean`). No Mathlib.
-/
open Lean
namespace Deeprob.Driver
open Deeprob.LeafTheory

/-- one argument `arg` or a batch `args` -/
def leafArgs (j : Json) : Except String (List Rat) := do
  match j.getObjVal? "args" with
  | .ok a => jRatList a
  | .error _ => do pure [← jRat (← field j "arg")]

def leafNatArgs (j : Json) : Except String (List Nat) := do
  match j.getObjVal? "args" with
  | .ok a => jNatList a
  | .error _ => do pure [← (← field j "arg").getNat?]

def ratOrD (j : Json) (k : String) (d : Rat) : Except String Rat :=
  match j.getObjVal? k with
  | .ok v => jRat v
  | .error _ => pure d

/-- a rational that is an integer, else `none` -/
def ratInt? (q : Rat) : Option Int := if q.den = 1 then some q.num else none

/-- op `leafq` — exact rational answers for one leaf (answers space separated `n/d`; `nan` where SciPy answers NaN):
`{"op":"leafq", "family":…, <params>, "fn":…, "arg":"n/d" | "args":["n/d",…]}` (for `fn = "moment"` the arguments are
natural numbers; `mode`, `z`, `heights`, `vary` take no argument)
* `family:"isotonic"`, params `d` (the `densities` parameter), `b` (`breaks`, strictly increasing, `len = len(d)+1`),
  optional `atol`, `rtol` (NumPy `allclose`, defaults 1e-8, 1e-5), `ood` (default 2⁻²³);
  `fn`: `pdf` (`distribution.pdf`), `lik` (`Isotonic.likelihood`: end points and outside ⇒ `ood`), `cdf`
  (`distribution.cdf`), `cdfraw` (closed form `histCdfRaw/Z`, `0` left of `b₀`), `ppf` (`distribution.ppf`), `moment`
  (`Isotonic.moment(k)`), `mode` (`Isotonic.mpe`), `z`, `heights` (what `rv_histogram` works with), `vary`
  (`not np.allclose(widths, widths[0])`)
* `family:"uniform"`, params `start`, `width`; `fn`: `pdf`, `cdf`, `ppf`, `moment`, `mode`
* `family:"bernoulli"`, param `p`; `fn`: `pdf` (`0` at non-integers), `cdf`, `moment`, `mode`
* `family:"categorical"`, params `cats` (integers), `ps`; `fn`: `pdf` (argument truncated towards zero like
  `astype(np.int64)`), `cdf` (argument floored), `moment`, `mode`, `dense` (args = `[n]`: the value-indexed table)
* `family:"gaussian"`, params `mean`, `stddev`; `fn`: `moment` (`GaussQ.gaussRawMoment`, = the integral by
  `GaussTheory.gauss_moment_is_integral`), `mode` (the mean, `GaussTheory.gauss_mode`) -/
def handleLeafQ (op : String) (j : Json) : Option (Except String String) :=
  match op with
  | "leafq" => some do
      let fam ← (← field j "family").getStr?
      let fn ← (← field j "fn").getStr?
      match fam with
      | "isotonic" => do
          let d ← jRatList (← field j "d")
          let b ← jRatList (← field j "b")
          if d.length + 1 ≠ b.length then throw "leafq: len(b) must be len(d)+1"
          if !(incrB b) then throw "leafq: breaks not strictly increasing"
          if d.isEmpty then throw "leafq: no bins"
          let atol ← ratOrD j "atol" atolDefault
          let rtol ← ratOrD j "rtol" rtolDefault
          let ood ← ratOrD j "ood" oodDefault
          let hs := isoHeights atol rtol d b
          let z := histZ hs b
          match fn with
          | "heights" => pure (ratsStr hs)
          | "vary" => pure (toString (binsVary atol rtol (widths b)))
          | "z" => pure (showRat z)
          | "mode" => pure (showRat (isoMode d b))
          | _ => do
            if z == 0 then throw "leafq: zero total mass"
            match fn with
            | "pdf" => pure (ratsStr ((← leafArgs j).map (histPdf hs b)))
            | "lik" => pure (ratsStr ((← leafArgs j).map (isoLik ood hs b)))
            | "cdf" => pure (ratsStr ((← leafArgs j).map (isoCdf hs b)))
            | "cdfraw" => pure (ratsStr ((← leafArgs j).map (fun x =>
                if x < b.headD 0 then 0 else histCdfRaw x hs b / z)))
            | "ppf" => pure (" ".intercalate ((← leafArgs j).map (fun u =>
                if u < 0 || 1 < u then "nan" else showRat (isoPpf 0 hs b u))))
            | "moment" => pure (ratsStr ((← leafNatArgs j).map (fun k => isoMoment k hs b)))
            | f => throw s!"leafq: unknown fn {f} for isotonic"
      | "uniform" => do
          let s ← jRat (← field j "start")
          let w ← jRat (← field j "width")
          match fn with
          | "pdf" => pure (ratsStr ((← leafArgs j).map (uniPdf s w)))
          | "cdf" => pure (ratsStr ((← leafArgs j).map (uniCdf s w)))
          | "ppf" => pure (" ".intercalate ((← leafArgs j).map (fun u =>
              if u < 0 || 1 < u then "nan" else showRat (uniPpf s w u))))
          | "moment" => pure (ratsStr ((← leafNatArgs j).map (uniMoment s w)))
          | "mode" => pure (showRat (uniMode s w))
          | f => throw s!"leafq: unknown fn {f} for uniform"
      | "bernoulli" => do
          let p ← jRat (← field j "p")
          match fn with
          | "pdf" => pure (ratsStr ((← leafArgs j).map (fun x =>
              match ratInt? x with | some i => bernPmf p i | none => 0)))
          | "cdf" => pure (ratsStr ((← leafArgs j).map (fun x => bernCdf p x.floor)))
          | "moment" => pure (ratsStr ((← leafNatArgs j).map (bernMoment p)))
          | "mode" => pure (toString (bernMode p))
          | f => throw s!"leafq: unknown fn {f} for bernoulli"
      | "categorical" => do
          let cats ← jIntList (← field j "cats")
          let ps ← jRatList (← field j "ps")
          if cats.length ≠ ps.length then throw "leafq: len(cats) must be len(ps)"
          if cats.eraseDups.length ≠ cats.length then throw "leafq: repeated category"
          match fn with
          | "pdf" => pure (ratsStr ((← leafArgs j).map (fun x => catPmf cats ps (truncZ x))))
          | "cdf" => pure (ratsStr ((← leafArgs j).map (fun x => catCdf cats ps x.floor)))
          | "moment" => pure (ratsStr ((← leafNatArgs j).map (fun k => catMoment k cats ps)))
          | "mode" => pure (toString (catMode cats ps))
          | "dense" => do
              let ns ← leafNatArgs j
              pure (ratsStr (denseTbl cats ps (ns.headD 0)))
          | f => throw s!"leafq: unknown fn {f} for categorical"
      | "gaussian" => do
          let mu ← jRat (← field j "mean")
          let sd ← jRat (← field j "stddev")
          match fn with
          | "moment" => pure (ratsStr ((← leafNatArgs j).map (fun k => Deeprob.GaussQ.gaussRawMoment k mu sd)))
          | "mode" => pure (showRat mu)
          | f => throw s!"leafq: unknown fn {f} for gaussian"
      | f => throw s!"leafq: unknown family {f}"
  | _ => none

end Deeprob.Driver
