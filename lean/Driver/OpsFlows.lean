import Lean.Data.Json
import Driver.Proto
import DeeprobModel.Model.Flows
/-
Line-protocol ops for property C15 (normalizing flows): exact index/mask bookkeeping only.

  made_seq      {"features":n,"hidden":[u1,..,uL],"reverse":bool}
                  -> "deg <d0>|<d1>|.. # masks <M1>|..|<Mout> # inv <argsort d0> # dep <D>"
  made_masks    {"degrees":[[..],[..],..]}      (explicit degrees, e.g. from build_degrees_random)
                  -> "masks .. # inv .. # dep .. # admissible true|false"
  squeeze       {"c":c,"h":h,"w":w}   -> source flat index for every flat index of squeeze_depth2d(x), x:(c,h,w)
  unsqueeze     {"c":c,"h":h,"w":w}   -> same for unsqueeze_depth2d(x), x:(c,h,w), c divisible by 4
  coupling_mask {"kind":"alternating","n":n,"reverse":b}
                {"kind":"checkerboard"|"channelwise","c":c,"h":h,"w":w,"reverse":b}   -> mask bits
  perm          {"channels":c}        -> bits of build_permutation_matrix(c) flattened [4c,c,2,2]
  permconv      {"c":c,"h":h,"w":w}   -> F.conv2d(arange(c*h*w).view(c,h,w), P, stride=2) flattened
  permconvT     {"c":c,"h":h,"w":w}   -> F.conv_transpose2d(arange(4c*(h/2)*(w/2)).view(4c,h/2,w/2), P, stride=2)

Vectors: entries joined by " "; matrices: rows (strings of 0/1) joined by ";"; lists of those by "|".
-/
open Lean Deeprob Deeprob.Driver Deeprob.Flows

namespace Deeprob.Driver

def bitsStr (l : List Bool) : String := String.join (l.map (fun b => if b then "1" else "0"))
def matStr (M : List (List Bool)) : String := ";".intercalate (M.map bitsStr)
def matsStr (Ms : List (List (List Bool))) : String := "|".intercalate (Ms.map matStr)
def vecsStr (ds : List (List Nat)) : String := "|".intercalate (ds.map natsStr)

def jNatListList (j : Json) : Except String (List (List Nat)) := do
  (← jArr j).mapM jNatList

def madeReport (degs : List (List Nat)) : String :=
  let Ms := buildMasks degs
  let d0 := degs.headD []
  s!"masks {matsStr Ms} # inv {natsStr (invOrdering d0)} # dep {matStr (depMatrix Ms d0.length)}"

def handleFlows (op : String) (j : Json) : Option (Except String String) :=
  match op with
  | "made_seq" => some do
      let n ← (← field j "features").getNat?
      let hidden ← jNatList (← field j "hidden")
      let rev ← (fieldD j "reverse" (Json.bool false)).getBool?
      -- build_degrees_sequential uses one `units` for all layers; a list of sizes generalises it
      let degs := inputDegreesSeq n rev :: hidden.map (hiddenDegreesSeq n)
      pure s!"deg {vecsStr degs} # {madeReport degs}"
  | "made_masks" => some do
      let degs ← jNatListList (← field j "degrees")
      let n := (degs.headD []).length
      let units := ((degs.tail.headD [])).length
      let ok := degreesRandomOK n (degs.length - 1) units degs
      pure s!"{madeReport degs} # admissible {ok}"
  | "squeeze" => some do
      let c ← (← field j "c").getNat?
      let h ← (← field j "h").getNat?
      let w ← (← field j "w").getNat?
      if h % 2 != 0 || w % 2 != 0 then throw "squeeze: odd spatial size (reshape fails in the code)"
      pure (natsStr ((List.range (4 * c * (h / 2) * (w / 2))).map (squeezeSrc h w)))
  | "unsqueeze" => some do
      let c ← (← field j "c").getNat?
      let h ← (← field j "h").getNat?
      let w ← (← field j "w").getNat?
      if c % 4 != 0 then throw "unsqueeze: channels not divisible by 4 (reshape fails in the code)"
      pure (natsStr ((List.range (c * h * w)).map (unsqueezeSrc h w)))
  | "coupling_mask" => some do
      let kind ← (← field j "kind").getStr?
      let rev ← (fieldD j "reverse" (Json.bool false)).getBool?
      match kind with
      | "alternating" => do
          let n ← (← field j "n").getNat?
          pure (bitsStr ((List.range n).map (alternatingMask rev)))
      | "checkerboard" => do
          let c ← (← field j "c").getNat?
          let h ← (← field j "h").getNat?
          let w ← (← field j "w").getNat?
          pure (bitsStr ((List.range (c * h * w)).map (checkerboardMask h w rev)))
      | "channelwise" => do
          let c ← (← field j "c").getNat?
          let h ← (← field j "h").getNat?
          let w ← (← field j "w").getNat?
          if c % 2 != 0 then throw "channelwise: odd channel count (chunk sizes differ in the code)"
          pure (bitsStr ((List.range (c * h * w)).map (channelwiseMask c h w rev)))
      | k => throw s!"unknown mask kind {k}"
  | "perm" => some do
      let c ← (← field j "channels").getNat?
      let bits := (List.range (4 * c)).flatMap (fun o => (List.range c).flatMap (fun ci =>
        (List.range 2).flatMap (fun a => (List.range 2).map (fun b => permWeight c o ci a b))))
      pure (bitsStr bits)
  | "permconv" => some do
      let c ← (← field j "c").getNat?
      let h ← (← field j "h").getNat?
      let w ← (← field j "w").getNat?
      if h % 2 != 0 || w % 2 != 0 then throw "permconv: odd spatial size"
      let out : Nat → Nat := convPerm c h w (fun k => k)
      pure (natsStr ((List.range (4 * c * (h / 2) * (w / 2))).map out))
  | "permconvT" => some do
      let c ← (← field j "c").getNat?
      let h ← (← field j "h").getNat?
      let w ← (← field j "w").getNat?
      if h % 2 != 0 || w % 2 != 0 then throw "permconvT: odd spatial size"
      let out : Nat → Nat := convTPerm c h w (fun k => k)
      pure (natsStr ((List.range (c * h * w)).map out))
  | _ => none

end Deeprob.Driver
