import Lean.Data.Json
import Driver.Proto
import Driver.OpsTopDown
import DeeprobModel.Model.TopoLoop
import DeeprobModel.Model.TopDownNet
import DeeprobModel.Model.Moments
import DeeprobModel.Generated.FormulasRat
/-
Driver ops of the fifth wave, (c): the GENERATED loops of the serial evaluation passes (`Gen.S5evalUp…`, `Gen.S5evalDown…`,
`Gen.S5momentLoop`) executed on the table of the last `net` op, next to the hand-written model.  Here the tables `ls` /
`masks` / `lls` are indexed by the CODE's node ids (`nid i` = the `id` stored with node `i` of the exported table), as in
the source; the visiting order is the GENERATED `topological_order` (`Oblig.Struct5T.genTopo`); the initial content of `ls`
(`np.empty`) is a table of `7`s.  Table leaves only (`cat`).  No Mathlib.

  {"op":"s5_eval_up","row":[k|null…]}            → "<returned entry> | <generated table BY CODE ID> | <model evalNet BY POSITION>"
                                                    (`none | …` when the generated `topological_order` returns None)
  {"op":"s5_eval_down","row":[k|null…],"bern":[i…]}
                                                  → "<row completed by the generated pass> | <row of the model mpeNetOrd>"
  {"op":"s5_moment","order":k,"nvars":n}         → "<generated moment vector> | <model vector (momentNet at the root)>"
-/
open Lean Deeprob Deeprob.Driver

namespace Deeprob.Driver

def s5Nid (net : Net Rat) (i : Nat) : Nat := match net[i]? with | some x => x.id | none => 0
def s5IsKind (net : Net Rat) (k : Kind) (i : Nat) : Bool :=
  match net[i]? with
  | some x => (match x.kind, k with | .leaf, .leaf => true | .sum, .sum => true | .prod, .prod => true | _, _ => false)
  | none => false

/-- `node_func = node_likelihood` around the generated `Sum.likelihood` / `Product.likelihood` of the node at position `i` -/
def s5NodeLik (net : Net Rat) (i : Nat) : List Rat → Rat :=
  match net[i]? with
  | some y => (match y.kind with
      | .sum => GenRat.S3nodeLikelihood (GenRat.S3sumLikelihood y.ws)
      | .prod => GenRat.S3nodeLikelihood GenRat.S3productLikelihood
      | .leaf => fun _ => 0)
  | none => fun _ => 0

/-- `leaf_func = node.likelihood` (generated `Categorical.likelihood`; a Bernoulli is exported as its table) -/
def s5LeafLik (net : Net Rat) (e : Ev) (i : Nat) : Rat :=
  match net[i]? with
  | some x => (match x.leaf with
      | .cat v tbl => GenRat.S3categoricalLikelihood (List.range tbl.length) tbl (e v)
      | _ => 0)
  | none => 0

/-- the generated serial path of `eval_bottom_up` on the exported table, rows by code id -/
def s5EvalUp (net : Net Rat) (root : Nat) (leafF : Nat → Rat) (nodeF : Nat → List Rat → Rat) : Option (Rat × List Rat) :=
  Gen.S5evalUp (N := Nat) (T := List Rat) (V := Rat) (s5Nid net) (fun t k => t.getD k 0)
    (Gen.S5evalUpTask (N := Nat) (T := List Rat) (V := Rat) (s5Nid net) (Net.chOf net) (s5IsKind net .leaf) (fun t k => t.getD k 0)
      (fun t k v => t.set k v) leafF nodeF)
    (fun r => Oblig.Struct5T.genTopo net r) (fun k => List.replicate k 7) root

def handleStruct5Eval (net : Net Rat) (root : Nat) (dom : List Nat) (op : String) (j : Json) : Option (Except String String) :=
  match op with
  | "s5_eval_up" => some do
      let row ← jOptNatList (← field j "row")
      if !allCat net then return "unsupported-leaf"
      let e := Ev.ofList row
      let model := ratsStr (evalNet e [] net)
      match s5EvalUp net root (s5LeafLik net e) (s5NodeLik net) with
      | none => pure s!"none | | {model}"
      | some (v, tbl) => pure s!"{showRat v} | {ratsStr tbl} | {model}"
  | "s5_eval_down" => some do
      let row ← jOptNatList (← field j "row")
      let bern ← jNatList (fieldD j "bern" (Json.arr #[]))
      if !allCat net then return "unsupported-leaf"
      let isBern := fun i => bern.contains i
      let e := Ev.ofList row
      let n := max row.length dom.length
      let model := (mpeNetOrd (List.range net.length).reverse e [] net root isBern).row
      let mtxt := " ".intercalate ((List.range n).map (fun v => showEntry (model v)))
      -- `lls` = the table (by code id) the generated bottom-up pass returns (`mpe` runs it first)
      match s5EvalUp net root (s5LeafLik net e) (s5NodeLik net) with
      | none => pure s!"none | {mtxt}"
      | some (_, lls) =>
        let task : List Bool × Ev → Nat → List Bool × Ev := fun st i =>
          Gen.S5evalDownTask (N := Nat) (M := List Bool) (X := Ev) (L := Rat) (s5Nid net) (Net.chOf net)
            (s5IsKind net .leaf) (s5IsKind net .prod) (s5IsKind net .sum) (fun m k => m.getD k false) (fun m k b => m.set k b)
            (fun i b x => if b then (match net[i]? with
                | some y => writeScope y.scope (y.leaf.mode (isBern i) x) x
                | none => x) else x)
            (fun i ls => argmax (List.zipWith (· * ·) (match net[i]? with | some y => y.ws | none => []) ls))
            (fun k => lls.getD k 0) st st.1 st.2 i
        match Gen.S5evalDown (N := Nat) (M := List Bool) (X := Ev) (s5Nid net) (fun m k b => m.set k b) task
            (fun r => Oblig.Struct5T.genTopo net r) (fun k => List.replicate k false) root e with
        | none => pure s!"none | {mtxt}"
        | some x => pure (" ".intercalate ((List.range n).map (fun v => showEntry (x v))) ++ " | " ++ mtxt)
  | "s5_moment" => some do
      let k ← (← field j "order").getInt?
      let nv ← (← field j "nvars").getNat?
      if !allCat net then return "unsupported-leaf"
      let gen := (List.range nv).map (fun v =>
        Gen.S5momentLoop (N := Nat) (V := Rat) (fun r lf nf => s5EvalUp net r lf nf)
          (fun o i => match net[i]? with
            | some x => GenRat.S3leafMoment x.scope (fun _ => x.leaf.rawMoment o.toNat 0) v
            | none => 0)
          (s5NodeLik net) root k)
      let model := (List.range nv).map (fun v => (momentNet k.toNat v [] net).getD root 0)
      if gen.any (fun g => g.isNone) then pure s!"none | {ratsStr model}"
      else pure (ratsStr (gen.map (fun g => match g with | some p => p.1 | none => 0)) ++ " | " ++ ratsStr model)
  | _ => none

end Deeprob.Driver
