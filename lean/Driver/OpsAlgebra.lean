import Lean.Data.Json
import Driver.Proto
import DeeprobModel.Generated.FormulasRat
import DeeprobModel.Model.Moments
import DeeprobModel.Model.Em
import DeeprobModel.Model.Posterior
import DeeprobModel.Model.Io
import DeeprobModel.Model.Cnet
/-
Driver ops of the algebraic properties C13, C14, C18, C19, C20 (no Mathlib: only A-layer definitions and the
Mathlib-free copy `GenRat` of the generated formulas). Formats: see the doc comment of `handleAlgebra`.
-/
open Lean
namespace Deeprob.Driver

def jRatTable (j : Json) : Except String (List (List Rat)) := do (← jArr j).mapM jRatList
def algTableStr (t : List (List Rat)) : String := ";".intercalate (t.map ratsStr)

def genRatCltFns : CltEmFns Rat where
  prior1 := GenRat.cltEmPrior1
  prior0 := GenRat.cltEmPrior0
  cond1 := GenRat.cltEmCond1
  cond0 := GenRat.cltEmCond0
  cell1 := GenRat.cltEmCell1
  cell0 := GenRat.cltEmCell0
  new := GenRat.cltEmNew

/-- nested JSON → OR tree. `{"kind":"or","scope":[..],"v":k,"w":["n/d","n/d"],"ch":[t0,t1]}` or
`{"kind":"clt","scope":[..],"pred":[..],"cpt":[[[..]]]}` (linear-domain CPT) -/
partial def parseCNet (j : Json) : Except String (CNet Rat) := do
  let kind ← (← field j "kind").getStr?
  let scope ← jNatList (← field j "scope")
  match kind with
  | "or" => do
      let v ← (← field j "v").getNat?
      let w ← jRatList (← field j "w")
      let ch ← jArr (← field j "ch")
      match w, ch with
      | [w0, w1], [a, b] => pure (.or scope v w0 w1 (← parseCNet a) (← parseCNet b))
      | _, _ => .error "or node needs two weights and two children"
  | "clt" => do
      let pred ← jIntList (← field j "pred")
      let cpt ← (← jArr (← field j "cpt")).mapM jRatTable
      pure (.leaf scope (Clt.value scope pred cpt))
  | k => .error s!"unknown cnet node kind {k}"

def parseMNode (j : Json) : Except String MNode := do
  pure { id := ← (← field j "id").getNat?, cls := ← (← field j "cls").getStr?,
         scope := ← jNatList (← field j "scope"),
         weights := ← jRatList (fieldD j "weights" (Json.arr #[])),
         params := ← jRatList (fieldD j "params" (Json.arr #[])),
         ch := ← jNatList (fieldD j "ch" (Json.arr #[])) }

def mnodeStr (n : MNode) : String :=
  s!"{n.id}:{n.cls}:{natsStr n.scope}:{natsStr n.ch}:{ratsStr n.weights}:{ratsStr n.params}"

/-- ops (one JSON object per line, exact rationals as `"n/d"`; answers are space separated `n/d`, table rows
separated by `;`):
* `moments` `{m:[m1,m2,m3,m4]}` → `variance kurtosis skewnessNum skewnessDenBase` (generated formulas at Rat;
  skewness = num / base^1.5 is left to the caller)
* `momentnet` `{nodes:[…as op net…], root, k, moms:[…]}` → `moment(root, k)` for every variable id `0..n-1`
  (n = length of the root scope); `moms[i]` = supplied raw moment of non-table leaf `i` (default 0)
* `posterior` `{w:[…], L:[[…one row per class…]], rows:n}` → `predict_proba` table `r0;r1;…`, then ` | ` and the
  arg-max branch per row
* `round8` `{x}` → rounded value
* `jsonrt` `{nodes:[{id,cls,scope,weights,params,ch}]}` → `decode (encode m)`: `none` or the nodes `id:cls:scope:ch:weights:params` joined by `|`
* `emstep` `{kind:"sum", old:[…], eta, stats:[…]}` / `{kind:"bern", old, eta, stats, data}` /
  `{kind:"cat", old:[…], eta, stats, data:[ints]}` / `{kind:"gauss", mean, std, eta, stats, data, sqrt?}` →
  `meanNew stdArg` and, when the caller supplies `sqrt` (the square root of `stdArg`), also `stdNew` /
  `{kind:"clt", pred, old:[[[…]]], eta, stats, data:[[…]]}` → table `i,b` rows joined by `;`
* `backward` `{nodes, root, row, dens?}` → `vals | grads`
* `cnet` `{tree, row}` → value; `{tree, rows:[…]}` → batch values through the queue loop -/
def handleAlgebra (op : String) (j : Json) : Option (Except String String) :=
  match op with
  | "moments" => some do
      let m ← jRatList (← field j "m")
      match m with
      | [m1, m2, m3, m4] =>
          pure (ratsStr [GenRat.variance m1 m2 m3 m4, GenRat.kurtosis m1 m2 m3 m4,
                         GenRat.skewnessNum m1 m2 m3 m4, GenRat.skewnessDenBase m1 m2 m3 m4])
      | _ => .error "moments: need four raw moments"
  | "momentnet" => some do
      let nodes ← (← jArr (← field j "nodes")).mapM parseNode
      let root ← (← field j "root").getNat?
      let k ← (← field j "k").getNat?
      let moms ← jRatList (fieldD j "moms" (Json.arr #[]))
      let n := match nodes[root]? with | some x => x.scope.length | none => 0
      if k == 0 then pure (ratsStr ((List.range n).map (fun _ => (1 : Rat))))
      else pure (ratsStr ((List.range n).map (fun v => (momentNet k v moms nodes).getD root 0)))
  | "posterior" => some do
      let w ← jRatList (← field j "w")
      let L ← jRatTable (← field j "L")
      let rows ← (← field j "rows").getNat?
      pure (algTableStr (posteriorTable w L rows) ++ " | " ++ natsStr ((List.range rows).map (predictBranch w L)))
  | "posteriorpinned" => some do
      let w ← jRatList (← field j "w")
      let L ← jRatTable (← field j "L")
      pure (algTableStr (pinnedTable w L))
  | "round8" => some do
      let x ← jRat (← field j "x")
      pure (showRat (round8 x))
  | "jsonrt" => some do
      let m ← (← jArr (← field j "nodes")).mapM parseMNode
      match decode (encode m) with
      | none => pure "none"
      | some m' => pure ("|".intercalate (m'.map mnodeStr))
  | "emstep" => some do
      let kind ← (← field j "kind").getStr?
      let eta ← jRat (← field j "eta")
      match kind with
      | "sum" => do
          let old ← jRatList (← field j "old")
          let stats ← jRatList (← field j "stats")
          pure (ratsStr (sumStepWith GenRat.sumEmUnnorm GenRat.sumEmNew eta old stats))
      | "bern" => do
          let old ← jRat (← field j "old")
          let stats ← jRatList (← field j "stats")
          let data ← jRatList (← field j "data")
          pure (showRat (bernStepWith GenRat.bernEmNew eta old stats data))
      | "cat" => do
          let old ← jRatList (← field j "old")
          let stats ← jRatList (← field j "stats")
          let data ← jNatList (← field j "data")
          pure (ratsStr (catStepWith GenRat.catEmNew eta old stats data))
      | "gauss" => do
          let mean ← jRat (← field j "mean")
          let std ← jRat (← field j "std")
          let stats ← jRatList (← field j "stats")
          let data ← jRatList (← field j "data")
          let T := gaussT stats
          let Sx := gaussSx stats data
          let mean' := GenRat.gaussEmMeanReest Sx T
          let arg := GenRat.gaussEmStdArg (gaussV stats data mean') T
          let base := [GenRat.gaussEmMeanNew eta mean Sx T, arg]
          match j.getObjVal? "sqrt" with
          | .ok r => do pure (ratsStr (base ++ [GenRat.gaussEmStdOf eta std (← jRat r)]))
          | .error _ => pure (ratsStr base)
      | "clt" => do
          let pred ← jIntList (← field j "pred")
          let old ← (← jArr (← field j "old")).mapM jRatTable
          let stats ← jRatList (← field j "stats")
          let data ← jRatTable (← field j "data")
          pure (algTableStr ((cltStepWith genRatCltFns eta pred old stats data).flatten))
      | k => .error s!"emstep: unknown kind {k}"
  | "backward" => some do
      let nodes ← (← jArr (← field j "nodes")).mapM parseNode
      let root ← (← field j "root").getNat?
      let row ← jOptNatList (← field j "row")
      let d := fieldD j "dens" (Json.mkObj [])
      let dens ← (List.range nodes.length).mapM (fun i =>
        match d.getObjVal? (toString i) with
        | .ok v => jRat v
        | .error _ => pure (0 : Rat))
      let vals := evalNet (Ev.ofList row) dens nodes
      pure (ratsStr vals ++ " | " ++ ratsStr (backward nodes vals root))
  | "cnet" => some do
      let c ← parseCNet (← field j "tree")
      match j.getObjVal? "rows" with
      | .ok rs => do
          let rows ← (← jArr rs).mapM jOptNatList
          let f : Nat → Ev := fun r => Ev.ofList (rows.getD r [])
          pure (ratsStr (cnetBatch f rows.length c))
      | .error _ => do
          let row ← jOptNatList (← field j "row")
          pure (showRat (cnetEval (Ev.ofList row) c))
  | _ => none

end Deeprob.Driver
