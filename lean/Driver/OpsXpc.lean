import Driver.Proto
import DeeprobModel.Model.Xpc
/-
Line-protocol ops for the XPC learner (C04): the model of `build_xpc` / `learn_expc` on the exported
partition tree `utils['part_root']`, `PartInv`, `build_trees_dict`, the sd discipline.

Input partition (nested JSON):
  {"kind":"H"|"V"|"L","rows":[..],"cols":[..],"subs":[..]}                          inner
  {"kind":"L","rows":[..],"cols":[..],"is_conj":b,"is_naive":b,"disc":[[..]]|null,
   "row0":[..],"tbl":[["n/d","n/d"],..],"ws":["n/d",..],
   "clt":{"scope":[..],"pred":[..],"cpt":[[["n/d","n/d"],["n/d","n/d"]],..]}}        leaf (absent = empty)
-/
open Lean Deeprob Deeprob.Driver

namespace Deeprob.Driver

/-- canonical text, same format as `circ_text` of harness/clt.py (+ `CLT[scope]`) -/
partial def xcText : XC Rat → String
  | .bern v q0 q1 => s!"L{[v]}({showRat q0},{showRat q1},1/1)"
  | .clt s _ _ => s!"CLT{s}"
  | .sum s ws cs => s!"S{s}[" ++ ",".intercalate ((ws.zip cs).map (fun (w, c) => showRat w ++ ":" ++ xcText c)) ++ "]"
  | .prod s cs => s!"P{s}[" ++ ",".intercalate (cs.map xcText) ++ "]"

def jBoolD (j : Json) (k : String) (d : Bool) : Except String Bool :=
  match j.getObjVal? k with
  | .ok (.bool b) => pure b
  | .ok .null => pure d
  | .ok _ => .error s!"field {k}: expected bool"
  | .error _ => pure d

def jNatListD (j : Json) (k : String) : Except String (List Nat) :=
  match j.getObjVal? k with
  | .ok .null => pure []
  | .ok v => jNatList v
  | .error _ => pure []

def parseLeafPar (j : Json) : Except String (LeafPar Rat) := do
  let row0 ← jNatListD j "row0"
  let tbl ← match j.getObjVal? "tbl" with
    | .ok .null => pure []
    | .ok v => (← jArr v).mapM (fun p => do
        match ← jRatList p with
        | [a, b] => pure (a, b)
        | _ => .error "tbl entry: expected [pmf0, pmf1]")
    | .error _ => pure []
  let ws ← match j.getObjVal? "ws" with
    | .ok .null => pure []
    | .ok v => jRatList v
    | .error _ => pure []
  match j.getObjVal? "clt" with
  | .ok (.obj o) => do
      let c := Json.obj o
      let scope ← jNatList (← field c "scope")
      let pred ← jIntList (← field c "pred")
      let cpt ← match c.getObjVal? "cpt" with
        | .ok .null => pure []
        | .ok v => (← jArr v).mapM (fun a => do (← jArr a).mapM jRatList)
        | .error _ => pure []
      pure { row0, tbl, ws, cltScope := scope, cltPred := pred, cltCpt := cpt }
  | _ => pure { row0, tbl, ws }

partial def parsePart (j : Json) : Except String (Part Rat) := do
  let kind ← (← field j "kind").getStr?
  let rows ← jNatList (← field j "rows")
  let cols ← jNatList (← field j "cols")
  match kind with
  | "L" => do
      let isConj ← jBoolD j "is_conj" false
      let isNaive ← jBoolD j "is_naive" false
      let disc ← match j.getObjVal? "disc" with
        | .ok .null => pure []
        | .ok v => (← jArr v).mapM jNatList
        | .error _ => pure []
      let par ← parseLeafPar j
      pure (.leaf rows cols isConj isNaive disc par)
  | "H" | "V" => do
      let subs ← (← jArr (← field j "subs")).mapM parsePart
      -- the model classifies with the rule of `is_horizontally_partitioned`; the exporter sends the
      -- answer of the real method: a disagreement is an infrastructure error, never papered over
      let p := Part.ofNode rows cols subs
      let ok := match p, kind with
        | .horiz .., "H" => true
        | .vert .., "V" => true
        | _, _ => false
      if ok then pure p else .error s!"kind mismatch: exporter says {kind}, is_horizontally_partitioned rule says otherwise"
  | k => .error s!"unknown partition kind {k}"

def laminarB (F : List (List Nat)) : Bool :=
  match F with
  | [] => true
  | a :: rest =>
    rest.all (fun b => a.all (fun v => b.contains v) || b.all (fun v => a.contains v) ||
      a.all (fun v => !b.contains v)) && laminarB rest

def dictText (d : List (List Int × List Nat)) : String :=
  ";".intercalate (d.map (fun e => s!"{e.2.length}:{e.1}:{e.2}"))

def handleXpc (op : String) (j : Json) : Option (Except String String) :=
  match op with
  | "xpc" => some do
      let useClt ← jBoolD j "use_clt" true
      let det ← jBoolD j "det" false
      let p ← parsePart (← field j "part")
      pure s!"partinv={partInvB useClt det p} {xcText (buildXpc useClt det p)}"
  | "expc" => some do
      let useClt ← jBoolD j "use_clt" true
      let det ← jBoolD j "det" false
      let ps ← (← jArr (← field j "parts")).mapM parsePart
      pure s!"partinv={ps.all (partInvB useClt det)} {xcText (buildExpc useClt det ps)}"
  | "xpc_scopes" => some do
      -- product scopes + get_scopes of the CLT leaves of the built circuit, and the laminarity verdict
      let useClt ← jBoolD j "use_clt" true
      let det ← jBoolD j "det" false
      let p ← parsePart (← field j "part")
      let x := buildXpc useClt det p
      pure s!"laminar={laminarB x.sdScopes} prod={x.prodScopes} clt={x.cltScopes}"
  | "xpc_trees" => some do
      -- build_trees_dict after the spanning trees: trees[k] over scopes[k] (Python order)
      let trees ← (← jArr (← field j "trees")).mapM jIntList
      let scopes ← (← jArr (← field j "scopes")).mapM jNatList
      pure (dictText (Xpc.treesDict trees scopes))
  | "xpc_sd" => some do
      -- the sd discipline: blocks = conj_vars_l + [free_vars] (Python order), trees = the spanning trees
      let useClt ← jBoolD j "use_clt" true
      let p ← parsePart (← field j "part")
      let trees ← (← jArr (← field j "trees")).mapM jIntList
      let scopes ← (← jArr (← field j "scopes")).mapM jNatList
      pure s!"sdinv={Xpc.sdInvB useClt trees scopes p} blocksok={Xpc.blocksOkB trees scopes}"
  | _ => none

end Deeprob.Driver
