import Lean.Data.Json
import DeeprobModel.Model.Net
/-
Line protocol helpers: exact rationals as "n/d" strings, JSON accessors that fail loudly.
-/
open Lean
namespace Deeprob.Driver

def parseRat (s : String) : Except String Rat :=
  match s.splitOn "/" with
  | [n] => match n.toInt? with
    | some i => .ok (i : Rat)
    | none => .error s!"bad rational {s}"
  | [n, d] => match n.toInt?, d.toNat? with
    | some i, some k => if k == 0 then .error s!"zero denominator {s}" else .ok (mkRat i k)
    | _, _ => .error s!"bad rational {s}"
  | _ => .error s!"bad rational {s}"

def showRat (q : Rat) : String := s!"{q.num}/{q.den}"

def jRat (j : Json) : Except String Rat := do
  match j with
  | .str s => parseRat s
  | .num n => if n.exponent == 0 then .ok (n.mantissa : Rat) else .error "non-integer JSON number where an exact rational string is required"
  | _ => .error "expected rational"

def jArr (j : Json) : Except String (List Json) := do
  let a ← j.getArr?
  pure a.toList

def field (j : Json) (k : String) : Except String Json := j.getObjVal? k

def fieldD (j : Json) (k : String) (d : Json) : Json :=
  match j.getObjVal? k with | .ok v => v | .error _ => d

def jNatList (j : Json) : Except String (List Nat) := do
  (← jArr j).mapM (fun x => x.getNat?)
def jIntList (j : Json) : Except String (List Int) := do
  (← jArr j).mapM (fun x => x.getInt?)
def jRatList (j : Json) : Except String (List Rat) := do
  (← jArr j).mapM jRat
def jOptNatList (j : Json) : Except String (List (Option Nat)) := do
  (← jArr j).mapM (fun x => match x with
    | .null => pure none
    | _ => do let n ← x.getNat?; pure (some n))

def natsStr (l : List Nat) : String := " ".intercalate (l.map toString)
def ratsStr (l : List Rat) : String := " ".intercalate (l.map showRat)

def parseNode (j : Json) : Except String (NNode Rat) := do
  let kind ← (← field j "kind").getStr?
  let id ← (← field j "id").getNat?
  let scope ← jNatList (← field j "scope")
  let ch ← jNatList (fieldD j "ch" (Json.arr #[]))
  let ws ← jRatList (fieldD j "w" (Json.arr #[]))
  match kind with
  | "sum" => pure { id, kind := .sum, scope, ch, ws, leaf := .absent }
  | "prod" => pure { id, kind := .prod, scope, ch, ws, leaf := .absent }
  | "cat" => do
      let v ← (← field j "v").getNat?
      let tbl ← jRatList (← field j "tbl")
      pure { id, kind := .leaf, scope, ch, ws, leaf := .cat v tbl }
  | "ext" => do
      let v ← (← field j "v").getNat?
      pure { id, kind := .leaf, scope, ch, ws, leaf := .ext v }
  | "clt" => do
      let pred ← jIntList (← field j "pred")
      let cpt ← (← jArr (← field j "cpt")).mapM (fun a => do (← jArr a).mapM jRatList)
      pure { id, kind := .leaf, scope, ch, ws, leaf := .clt pred cpt }
  | k => .error s!"unknown node kind {k}"

end Deeprob.Driver
