import Driver.Proto
import DeeprobModel.Model.CltPc
/-
Line-protocol ops for Chow-Liu trees (C02, C06, C07, C12): the model of `to_pc`, `get_scopes`,
`mpe` and the local conditionals of the (repaired) sampler.
-/
open Lean Deeprob Deeprob.Driver

namespace Deeprob.Driver

/-- generic printer of a tree circuit: leaves are printed by probing their (single-variable)
function at value 0, value 1 and missing -/
partial def circText : Circ Rat → String
  | .leaf s f =>
      let v := s.getD 0 0
      let e0 : Ev := fun _ => none
      s!"L{s}({showRat (f (e0.set v 0))},{showRat (f (e0.set v 1))},{showRat (f e0)})"
  | .sum s ws cs => s!"S{s}[" ++ ",".intercalate ((ws.zip cs).map (fun (w, c) => showRat w ++ ":" ++ circText c)) ++ "]"
  | .prod s cs => s!"P{s}[" ++ ",".intercalate (cs.map circText) ++ "]"

structure CltIn where
  scope : List Nat
  pred : List Int
  cpt : List (List (List Rat))

def parseClt (j : Json) : Except String CltIn := do
  let scope ← jNatList (← field j "scope")
  let pred ← jIntList (← field j "pred")
  let cpt ← (← jArr (← field j "cpt")).mapM (fun a => do (← jArr a).mapM jRatList)
  pure { scope, pred, cpt }

def handleClt (op : String) (j : Json) : Option (Except String String) :=
  match op with
  | "clt_tree" => some do
      let c ← parseClt j
      pure s!"isTree={Clt.isTree c.pred} root={Clt.rootOf c.pred} bfs={match Clt.rootOf c.pred with | some r => Clt.bfsOrder c.pred (c.pred.length + 1) [r] | none => []}"
  | "clt_pc" => some do
      let c ← parseClt j
      pure (circText (Clt.toPc c.scope c.pred c.cpt))
  | "clt_scopes" => some do
      let c ← parseClt j
      match Clt.rootOf c.pred with
      | none => pure "none"
      | some r => pure (toString (Clt.getScopes c.scope (Clt.build c.pred c.pred.length r)))
  | "clt_mpe" => some do
      -- answer: decoded value of every scope variable (scope order) | joint value of the decoded row (= max over completions)
      let c ← parseClt j
      let row ← jOptNatList (← field j "row")
      let e := Ev.ofList row
      let d := Clt.mpe c.scope c.pred c.cpt e
      let vals := c.scope.map (fun v => match d v with | some k => toString k | none => "?")
      let best := Clt.value c.scope c.pred c.cpt d
      let mx := match Clt.rootOf c.pred with
        | some r => Clt.upMax c.scope c.cpt (Clt.build c.pred c.pred.length r) 0 e
        | none => 0
      pure (" ".intercalate vals ++ " | " ++ showRat best ++ " | " ++ showRat mx)
  | "clt_value" => some do
      let c ← parseClt j
      let row ← jOptNatList (← field j "row")
      pure (showRat (Clt.value c.scope c.pred c.cpt (Ev.ofList row)))
  | "clt_joint" => some do
      let c ← parseClt j
      let row ← jOptNatList (← field j "row")
      pure (showRat (Clt.joint c.scope c.pred c.cpt (fun v => ((Ev.ofList row) v).getD 0)))
  | "clt_cond" => some do
      -- for the completed row x: per local index j (missing in e) the Bernoulli parameter the exact sampler uses,
      -- i.e. localCond j (children) (value of parent in x) 1 e ; plus the pinned formulas for the witness
      let c ← parseClt j
      let row ← jOptNatList (← field j "row")
      let xs ← jNatList (← field j "x")
      let e := Ev.ofList row
      let x : Nat → Nat := fun v => xs.getD v 0
      match Clt.rootOf c.pred with
      | none => pure "none"
      | some r =>
        let t := Clt.build c.pred c.pred.length r
        let items := t.subtrees.filterMap (fun u => match u with
          | .node i cs =>
            let v := c.scope.getD i 0
            match e v with
            | some _ => none
            | none =>
              let p := match c.pred.getD i (-1) with
                | Int.negSucc _ => 0
                | Int.ofNat pi => x (c.scope.getD pi 0)
              some s!"{i}:{showRat (Clt.localCond c.scope c.cpt i cs p 1 e)}")
        pure (" ".intercalate items ++ " | pmf=" ++ showRat (Clt.samplePmfTree c.scope c.pred c.cpt e x))
  | _ => none

end Deeprob.Driver
