import Lean.Data.Json
import Driver.Proto
import Driver.OpsAlgebra
import DeeprobModel.Model.F32
/-
Driver ops for the float-storage model of C13 (`Model/F32.lean`). No Mathlib.
-/
open Lean
namespace Deeprob.Driver
open Deeprob.Io32

/-- one rational `q` or a batch `qs` -/
def f32Args (j : Json) : Except String (List Rat) := do
  match j.getObjVal? "qs" with
  | .ok a => jRatList a
  | .error _ => do pure [← jRat (← field j "q")]

def docNodeStr (n : DocNode) : String :=
  s!"{n.id}:{n.cls}:{natsStr n.scope}:{ratsStr n.weights}:{ratsStr n.params}"

def docStr (d : Doc) : String :=
  "|".intercalate (d.nodes.map docNodeStr) ++ "#" ++
  " ".intercalate (d.edges.map (fun e => s!"{e.child}>{e.parent}@{e.idx}"))

/-- ops (exact rationals as `"n/d"`, answers space separated `n/d`):
* `f32` `{q}` or `{qs:[…]}` → `f32 q` for every argument (binary32 round-to-nearest-even, no overflow)
* `f64` `{q}` or `{qs:[…]}` → `f64 q`
* `around64` `{q}` or `{qs:[…]}` → `around64 q` (NumPy's binary64 `np.around(·, 8)`: multiply, rint, divide)
* `ilog2` `{q}` or `{qs:[…]}` → `⌊log₂|q|⌋` (integers)
* `io32chain` `{y, kind:"f32"|"f64", gens:n}` or `{ys:[…], kind, gens}` → per start value `d1 y1 d2 y2 … dn yn`
  (`dᵢ = round8 yᵢ₋₁`, `yᵢ = f32 (f64 dᵢ)` or `f64 dᵢ`), start values separated by `;`
* `io32model` `{nodes:[{id,cls,scope,weights,params,ch}], gens:n}` → the documents of `n` generations
  (`genDocs`), each `id:cls:scope:weights:params|…#child>parent@idx …`, generations separated by `;;`,
  followed by `;;mem=` and the in-memory model after the first reload (`id:cls:scope:ch:weights:params|…`) -/
def handleF32 (op : String) (j : Json) : Option (Except String String) :=
  match op with
  | "f32" => some do
      let qs ← f32Args j
      pure (ratsStr (qs.map f32))
  | "f64" => some do
      let qs ← f32Args j
      pure (ratsStr (qs.map f64))
  | "around64" => some do
      let qs ← f32Args j
      pure (ratsStr (qs.map around64))
  | "ilog2" => some do
      let qs ← f32Args j
      pure (" ".intercalate (qs.map (fun q => toString (ilog2 q))))
  | "io32chain" => some do
      let ys ← match j.getObjVal? "ys" with
        | .ok a => jRatList a
        | .error _ => do pure [← jRat (← field j "y")]
      let kind ← (← field j "kind").getStr?
      let gens ← (← field j "gens").getNat?
      let load ← match kind with
        | "f32" => pure load32
        | "f64" => pure load64
        | k => .error s!"io32chain: unknown kind {k}"
      pure (";".intercalate (ys.map (fun y => ratsStr (chain load gens y))))
  | "io32model" => some do
      let m ← (← jArr (← field j "nodes")).mapM parseMNode
      let gens ← (← field j "gens").getNat?
      let docs := genDocs gens m
      pure (";;".intercalate (docs.map docStr) ++ ";;mem=" ++
            "|".intercalate ((loadModel (encode m)).map mnodeStr))
  | _ => none

end Deeprob.Driver
