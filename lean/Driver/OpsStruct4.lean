import Lean.Data.Json
import Driver.Proto
import Driver.OpsClt
import Driver.OpsStruct3
import DeeprobModel.Generated.Consts
import DeeprobModel.Generated.FormulasRat
import DeeprobModel.Model.Net
import DeeprobModel.Model.Learn
import DeeprobModel.Model.Clt
import DeeprobModel.Model.CltPc
import DeeprobModel.Model.CltFit
import DeeprobModel.Model.RewriteNet
import DeeprobModel.Model.CnetLearn
import DeeprobModel.Model.RatSpn
import DeeprobModel.Model.RatSample
import DeeprobModel.Model.TopDown
/-
Driver ops of the fourth wave of translated fragments (`Gen.S4…` / `GenRat.S4…`): every op evaluates the GENERATED
definition (what the current source says) and, next to it, the hand-written model definition, so that the harness can
compare implementation = generated = model on concrete inputs.  No Mathlib.  Exact rationals as "n/d".
Log-domain code is evaluated in the linear domain (`+ ↦ *`), as in `Oblig/Struct4*.lean`.

  {"op":"s4_select_op","rows":n,"cols":m,"ncs":b,"nrs":b,"first":b,"zv":[b…],"min_rows":i,"min_cols":i}
        → "<generated OperationKind> <model Op>"
  {"op":"s4_bfs","pred":[i…]}                                  → "<ordering by the generated step> | <model bfsOrder>"
  {"op":"s4_clt_ll","scope":[v…],"pred":[i…],"cpt":[[[q,q],[q,q]]…],"row":[k|null…],"batch_any":b}
        → "<generated> <model>"   (row indexed by variable id; missing ⇒ message passing = model `value`, else `joint`)
  {"op":"s4_clt_mpe","scope":…,"pred":…,"cpt":…,"row":[k|null…]} → "<generated completion of the scope> | <model>"
  {"op":"s4_clt_messages","scope":…,"pred":…,"cpt":…,"row":[k|null…],"reduce":"mar"|"mpe"}
        → "<generated messages, 2 per variable> | <model msgAt / msgMax> | <generated root value> <model value>"  (root value only for "mar")
  {"op":"s4_marg","keep":[v…]}   (after {"op":"net",…})           → "<generated pass> | <model margPass>", per node `rep;scope;children`
  {"op":"s4_clt_param","X":[[k…]…],"alpha":q,"pred":[i…],"root":r} → "<generated cpt entries> | <model cptTable>" (i,l,k order)
  {"op":"s4_mi_outers","priors":[[q,q]…],"i":i,"j":j,"k":k,"l":l} → "<generated outers[i,j,k,l]>"
  {"op":"s4_cnet_step","kind":"fit"|"bd"|"bic","data":[[k…]…],"rows":[r…],"scope":[v…],"par":q,"min_samples":i,
   "min_features":i,"ncand":i,"cut":v|null}
        → "<generated outcome> | <model outcome>", outcome = `leaf` or `v;w0;w1;rowsL;rowsR;scopeChild;parChild`
  {"op":"s4_rat_prod","in_nodes":n,"g":[…],"o":[…]}               → "<generated g;o> | <model g;o>"
  {"op":"s4_rat_sum_mpe","x":[[q…]…],"w":[[[q…]…]…],"g":[…],"o":[…]} → "<generated g;o> | <model g;o>"
  {"op":"s4_rat_root_mpe","x":[[q…]…],"w":[q…]}                   → "<generated g;o> | <model g;o>"
  {"op":"s4_rat_unpad","n":n,"d":d,"regions":[[v…]…],"x":[k…],"g":[…]} → "<generated row> | <model row>"
  {"op":"s4_branch_pmf","w":[q…],"l":[q…]}                        → "<model branchPmf>"
-/
open Lean
namespace Deeprob.Driver
open Deeprob

def opName : Gen.S4OperationKind → String
  | .REM_FEATURES => "REM_FEATURES" | .CREATE_LEAF => "CREATE_LEAF" | .SPLIT_NAIVE => "SPLIT_NAIVE"
  | .SPLIT_ROWS => "SPLIT_ROWS" | .SPLIT_COLS => "SPLIT_COLS"

def modelOpName : Learn.Op → String
  | .remFeatures => "REM_FEATURES" | .createLeaf => "CREATE_LEAF" | .splitNaive => "SPLIT_NAIVE"
  | .splitRows => "SPLIT_ROWS" | .splitCols => "SPLIT_COLS"

def jBoolList (j : Json) : Except String (List Bool) := do
  (← jArr j).mapM (fun x => x.getBool?)

def intsStr (l : List Int) : String := " ".intercalate (l.map toString)

/-- the loop of `compute_bfs_ordering` driven by the generated step -/
def bfsGen (pred : List Int) : Nat → List Nat → List Nat → List Nat
  | 0, _, ord => ord
  | _, [], ord => ord
  | f + 1, q :: qs, ord =>
    let st := Gen.S4bfsStep (fun j => j) (fun j => (Clt.childrenOf pred j).isEmpty) (Clt.childrenOf pred) q qs ord
    bfsGen pred f st.1 st.2

/-- the linear-domain reading of a log-domain `+` -/
@[instance_reducible] def mulAsAdd : Add Rat := ⟨(· * ·)⟩

/-- the pass of `marginalize` driven by the generated step, in table order (children first) -/
def margGen (keep : List Nat) (net : Net Rat) : Net Rat × List (Option Nat) × List String :=
  net.foldl (fun (st : Net Rat × List (Option Nat) × List String) x =>
    let t := st.1
    let i := t.length
    let scopeF : Nat → List Nat := fun j => if j = i then x.scope else Net.scopeAt t j
    let isClt := match x.leaf with | .clt _ _ => true | _ => false
    let out := Gen.S4margStep (fun _ => x.kind == .leaf) (fun _ => isClt) (fun _ => x.kind == .prod) (fun _ => x.kind == .sum)
      (fun j => j) scopeF (fun _ => x.ch) (fun c => st.2.1.getD c none) keep i
    match out with
    | .drop => (t ++ [x], st.2.1 ++ [none], st.2.2)
    | .replace n => (t ++ [x], st.2.1 ++ [some n], st.2.2)
    | .rewrite sc ch => (t ++ [{ x with scope := sc, ch := ch }], st.2.1 ++ [some i], st.2.2)
    | .viaPc sc => (t ++ [x], st.2.1 ++ [some i], st.2.2 ++ [s!"viaPc@{i}:{natsStr sc}"])
    | .raises e => (t ++ [x], st.2.1 ++ [none], st.2.2 ++ [s!"raises@{i}:{e}"])) ([], [], [])

def passStr (t : Net Rat) (rep : List (Option Nat)) : String :=
  ",".intercalate ((t.zip rep).map (fun p =>
    (match p.2 with | some r => toString r | none => "-") ++ ";" ++ natsStr p.1.scope ++ ";" ++ natsStr p.1.ch))

def cnetKind (s : String) : Except String CnetLearn.Kind :=
  match s with
  | "fit" => pure .fit | "bd" => pure .bd | "bic" => pure .bic
  | k => .error s!"unknown learner {k}"

def cnodeStr (c : Gen.S4CNode Unit) : String := natsStr c.rows ++ ":" ++ natsStr c.scope ++ ":" ++ natsStr c.cols

def tabOf (x : List (List Rat)) : RatSample.Tab Rat :=
  { groups := x.length, nodes := (x.getD 0 []).length, at_ := fun g t => (x.getD g []).getD t 0 }

def handleStruct4 (net : Net Rat) (op : String) (j : Json) : Option (Except String String) :=
  match op with
  | "s4_select_op" => some do
      let n ← (← field j "rows").getNat?
      let m ← (← field j "cols").getNat?
      let ncs ← (← field j "ncs").getBool?
      let nrs ← (← field j "nrs").getBool?
      let first ← (← field j "first").getBool?
      let zv ← jBoolList (← field j "zv")
      let minRows ← (← field j "min_rows").getNat?
      let minCols ← (← field j "min_cols").getNat?
      let t3 : Gen.S3Task Nat (List Nat) (List Nat) :=
        { parent := 0, data := List.range n, scope := List.range m, no_cols_split := ncs, no_rows_split := nrs, is_first := first }
      let g := Gen.S4selectOp t3 ((n : Int), (m : Int)) zv (minRows : Int) (minCols : Int)
      let t : Learn.Task := { parent := 0, rows := List.range n, scope := List.range m, noColsSplit := ncs, noRowsSplit := nrs, isFirst := first }
      let md := Learn.selectOp { minRows := minRows, minCols := minCols, front := true } t zv
      pure s!"{opName g} {modelOpName md}"
  | "s4_bfs" => some do
      let pred ← jIntList (← field j "pred")
      match Clt.rootOf pred with
      | none => pure "none"
      | some r => pure s!"{natsStr (bfsGen pred (pred.length + 1) [r] [])} | {natsStr (Clt.bfsOrder pred (pred.length + 1) [r])}"
  | "s4_clt_ll" => some do
      let c ← parseClt j
      let row ← jOptNatList (← field j "row")
      let batchAny ← (← field j "batch_any").getBool?
      let e := Ev.ofList row
      let x := c.scope.map (fun v => row.getD v none)
      let params : Int → Int → Int → Rat := fun i l k => Clt.cptAt c.cpt i.toNat l.toNat k.toNat
      let mp : List (Option Nat) → List Bool → Bool → String → Rat := fun _ _ _ _ => Clt.value c.scope c.pred c.cpt e
      let g := @Gen.S4cltLogLikelihood Rat ⟨1⟩ mulAsAdd params c.pred mp batchAny 1 x
      let md := if x.any Option.isNone then Clt.value c.scope c.pred c.cpt e
                else Clt.joint c.scope c.pred c.cpt (fun v => (e v).getD 0)
      pure s!"{match g with | some q => showRat q | none => "unwritten"} {showRat md}"
  | "s4_clt_mpe" => some do
      let c ← parseClt j
      let row ← jOptNatList (← field j "row")
      let e := Ev.ofList row
      let x := c.scope.map (fun v => row.getD v none)
      let params : Int → Int → Int → Rat := fun i l k => Clt.cptAt c.cpt i.toNat l.toNat k.toNat
      let msgs : Int → List Rat := fun i =>
        let cs := (Clt.build c.pred c.pred.length i.toNat).kids
        [Clt.msgMax c.scope c.cpt cs 0 e, Clt.msgMax c.scope c.cpt cs 1 e]
      match Clt.rootOf c.pred with
      | none => pure "none"
      | some r =>
        let bfs := (Clt.bfsOrder c.pred (c.pred.length + 1) [r]).map (fun (a : Nat) => (a : Int))
        let g := @Gen.S4cltMpe Rat mulAsAdd _ _ params (r : Int) bfs c.pred (fun _ _ _ _ => msgs) x
        let d := Clt.mpe c.scope c.pred c.cpt e
        pure s!"{optStr g} | {optStr (c.scope.map d)}"
  | "s4_clt_messages" => some do
      let c ← parseClt j
      let row ← jOptNatList (← field j "row")
      let reduce ← (← field j "reduce").getStr?
      let e := Ev.ofList row
      let x := c.scope.map (fun v => row.getD v none)
      let params : Int → Int → Int → Rat := fun i l k => Clt.cptAt c.cpt i.toNat l.toNat k.toNat
      let sumL : List Rat → Rat := fun v => v.foldr (fun a b => a + b) 0
      let maxL : List Rat → Rat := fun v => v.foldr max 0
      match Clt.rootOf c.pred with
      | none => pure "none"
      | some r =>
        let bfs := (Clt.bfsOrder c.pred (c.pred.length + 1) [r]).map (fun (a : Nat) => (a : Int))
        let obs := x.map Option.isSome
        let g := @Gen.S4cltMessages Rat ⟨1⟩ mulAsAdd params (r : Int) bfs c.pred sumL maxL [] 1 x obs reduce
        let md := (List.range c.pred.length).map (fun i =>
          let cs := (Clt.build c.pred c.pred.length i).kids
          if reduce == "mar" then [Clt.msgAt c.scope c.cpt cs 0 e, Clt.msgAt c.scope c.cpt cs 1 e]
          else [Clt.msgMax c.scope c.cpt cs 0 e, Clt.msgMax c.scope c.cpt cs 1 e])
        let rv := @Gen.S4cltRootValue Rat ⟨1⟩ mulAsAdd params (r : Int) bfs c.pred sumL maxL 1 x obs g
        pure s!"{ratsStr g.flatten} | {ratsStr md.flatten} | {match rv with | some q => showRat q | none => "unwritten"} {showRat (Clt.value c.scope c.pred c.cpt e)}"
  | "s4_marg" => some do
      let keep ← jNatList (← field j "keep")
      let g := margGen keep net
      let m := Net.margPass keep net
      pure s!"{passStr g.1 g.2.1}{if g.2.2.isEmpty then "" else " !" ++ " ".intercalate g.2.2} | {passStr m.1 m.2}"
  | "s4_clt_param" => some do
      let X ← (← jArr (← field j "X")).mapM jNatList
      let al ← jRat (← field j "alpha")
      let pred ← jIntList (← field j "pred")
      let root ← (← field j "root").getNat?
      let n := pred.length
      let wrap : Int → Nat := fun p => if p < 0 then n - 1 else p.toNat
      let gen := (List.range n).flatMap (fun (i : Nat) => [0, 1].flatMap (fun l => [0, 1].map (fun k =>
        GenRat.S4cltParam (fun p k => CltFit.prior X al (wrap p) k) (fun a b k l => CltFit.joint X al a.toNat (wrap b) k l)
          (fun a => pred.getD a.toNat (-1)) (root : Int) ((i : Nat) : Int) l k)))
      let md := ((CltFit.cptTable X al pred root).map (fun a => a.flatten)).flatten
      pure s!"{ratsStr gen} | {ratsStr md}"
  | "s4_mi_outers" => some do
      let pr ← (← jArr (← field j "priors")).mapM jRatList
      let i ← (← field j "i").getNat?
      let jj ← (← field j "j").getNat?
      let k ← (← field j "k").getNat?
      let l ← (← field j "l").getNat?
      pure (showRat (GenRat.S4miOuters (fun a b => (pr.getD a []).getD b 0) i jj k l))
  | "s4_cnet_step" => some do
      let kind ← cnetKind (← (← field j "kind").getStr?)
      let data ← (← jArr (← field j "data")).mapM jNatList
      let rows ← jNatList (← field j "rows")
      let scope ← jNatList (← field j "scope")
      let par ← jRat (← field j "par")
      let minS ← (fieldD j "min_samples" (Json.num 10)).getNat?
      let minF ← (fieldD j "min_features" (Json.num 1)).getNat?
      let ncand ← (fieldD j "ncand" (Json.num 10)).getNat?
      let cut ← jOptNat (← field j "cut")
      let nd : CnetLearn.Node Rat := { rows := rows, scope := scope, par := par }
      let s4 : Gen.S4CNode Unit := { scope := scope, rows := rows, cols := scope }
      let cutcol : Int → List Int := fun k => rows.map (fun r => (((CnetLearn.cellOf data r (scope.getD k.toNat 0)) : Nat) : Int))
      let idx : Int := match cut with | some v => ((scope.idxOf v : Nat) : Int) | none => 0
      -- generated outcome: (children, weights, or_id, clt note)
      let gen : List (Gen.S4CNode Unit) × List Rat × Option Nat × String :=
        match kind with
        | .fit =>
          -- the oracle answers: a stop is `max_info_gain = 0` (≤ 0), a cut `mean_entropy = 1 ≥ min_mean_entropy = 0, gain = 1`
          let r := Gen.S4cnetFitStep (W := Rat) s4 [] cutcol par 0 (minS : Int) (minF : Int) idx 1 (if cut.isSome then 1 else 0)
          (r.2.1, r.2.2.1, r.2.2.2.1, r.2.2.2.2)
        | .bd =>
          let r := Gen.S4cnetBdStep (W := Rat) s4 par 0 par [] cutcol (ncand : Int) (if cut.isSome then 1 else -1) idx () () 0 0
          (r.2.1, r.2.2.1, r.2.2.2.1, r.2.2.2.2)
        | .bic =>
          let r := Gen.S4cnetBicStep (W := Rat) s4 0 par [] cutcol (ncand : Int) (if cut.isSome then 1 else -1) idx () () 0 0
          (r.2.1, r.2.2.1, r.2.2.2.1, r.2.2.2.2)
      let genStr := match gen.2.2.1 with
        | none => "leaf"
        | some v => s!"{v};{ratsStr gen.2.1};{";".intercalate (gen.1.map cnodeStr)}"
      -- model outcome: one `step` on a single-node table
      let cfg : CnetLearn.Cfg := { kind := kind, minSamples := minS, minFeatures := minF, nCand := ncand }
      let st : CnetLearn.St Rat := { nodes := [nd], queue := [0], script := match cut with | some v => [.cut v] | none => [.stop] }
      let mdStr := match CnetLearn.step cfg data st with
        | .error e => "error:" ++ e
        | .ok s' => match (CnetLearn.getN s'.nodes 0).split with
          | none => "leaf"
          | some sp =>
            let a := CnetLearn.getN s'.nodes sp.l
            let b := CnetLearn.getN s'.nodes sp.r
            s!"{sp.v};{ratsStr [sp.w0, sp.w1]};{natsStr a.rows}:{natsStr a.scope}:{natsStr a.scope};{natsStr b.rows}:{natsStr b.scope}:{natsStr b.scope}"
      let crash := if kind != .fit then s!" crash={Gen.S4selectCandScalar (Gen.S4cnetBdK s4 (ncand : Int))}/{CnetLearn.candCrash cfg scope.length}" else ""
      pure s!"{genStr} | {mdStr}{crash}"
  | "s4_rat_prod" => some do
      let n ← (← field j "in_nodes").getNat?
      let g ← jNatList (← field j "g")
      let o ← jNatList (← field j "o")
      let r := Gen.S4ratProdSample (n : Int) (g.map (fun (a : Nat) => (a : Int))) (o.map (fun (a : Nat) => (a : Int)))
      let m := RatSpn.prodDown n g o
      pure s!"{intsStr r.1};{intsStr r.2} | {natsStr m.1};{natsStr m.2}"
  | "s4_rat_sum_mpe" => some do
      let x ← (← jArr (← field j "x")).mapM jRatList
      let w ← (← jArr (← field j "w")).mapM (fun a => do (← jArr a).mapM jRatList)
      let g ← jNatList (← field j "g")
      let o ← jNatList (← field j "o")
      let V := tabOf x
      let wf : Nat → Nat → List Rat := fun a b => (w.getD a []).getD b []
      let r := @Gen.S4ratSumMpe Rat mulAsAdd _ _ (fun v => v) (fun a => x.getD a.toNat []) (fun a b => wf a.toNat b.toNat)
        (g.map (fun (a : Nat) => (a : Int))) (o.map (fun (a : Nat) => (a : Int)))
      let m := RatSample.sumMpe wf V (g, o)
      pure s!"{intsStr r.1};{intsStr r.2} | {natsStr m.1};{natsStr m.2}"
  | "s4_rat_root_mpe" => some do
      let x ← (← jArr (← field j "x")).mapM jRatList
      let w ← jRatList (← field j "w")
      let V := tabOf x
      let r := @Gen.S4ratRootMpe Rat mulAsAdd _ _ (fun v => v) x (fun _ => w) (V.nodes : Int) 0
      let m := RatSample.rootMpe w V
      pure s!"{intsStr r.1};{intsStr r.2} | {natsStr m.1};{natsStr m.2}"
  | "s4_rat_unpad" => some do
      let n ← (← field j "n").getNat?
      let d ← (← field j "d").getNat?
      let regions ← (← jArr (← field j "regions")).mapM jNatList
      let x ← jNatList (← field j "x")
      let g ← jNatList (← field j "g")
      let r := Gen.S4ratUnpad (d : Int) ((RatSpn.padOf n d : Nat) : Int) (n : Int)
        (fun t => (RatSpn.invMask n d regions t.toNat).map (fun (a : Nat) => (a : Int)))
        (fun t => RatSpn.invPadMask n d regions t.toNat) 1 x (g.map (fun (a : Nat) => (a : Int)))
      let m := RatSpn.unpad n d regions (g.headD 0 / 2 ^ d) x
      pure s!"{natsStr r} | {natsStr m}"
  | "s4_branch_pmf" => some do
      let w ← jRatList (← field j "w")
      let l ← jRatList (← field j "l")
      pure (ratsStr (TCirc.branchPmf (wsum w l) w l))
  | _ => none

end Deeprob.Driver
