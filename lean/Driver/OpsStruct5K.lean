import Lean.Data.Json
import Driver.Proto
import Driver.OpsClt
import Driver.OpsStruct3
import Driver.OpsStruct4
import DeeprobModel.Model.CltLoop
import DeeprobModel.Oblig.Struct5CltSample
/-
Driver ops of the loop skeletons extracted by tools/listprog.py, block K (`Gen.S5cltMessagePassing`, `Gen.S5cltMpeLoop`: the LOOPS of
`BinaryCLT.message_passing` / `mpe`): the GENERATED loops are executed on one row (`CltLoop.messagePassing`, `CltLoop.mpe`: the
skeletons with the row bodies of `Model/CltLoop.lean`, `self.bfs` = the generated breadth-first loop `bfsGen`), next to the
fourth-wave definitions (`Gen.S4clt…`) and the model, so that the harness compares implementation = generated loop = model.  No Mathlib.

  {"op":"s5_clt_mp","scope":…,"pred":…,"cpt":…,"row":[v|null…],"reduce":"mar"|"mpe"}
        → "<messages of the generated loop, flattened> | <fourth-wave messages> | <model messages> | <value of the generated loop> <model value>"
  {"op":"s5_clt_mpe","scope":…,"pred":…,"cpt":…,"row":[v|null…]}
        → "<row completed by the generated loops> | <fourth-wave mpe fed with the fourth-wave messages> | <model Clt.mpe>"
  {"op":"s5_clt_sample","scope":…,"pred":…,"cpt":…,"row":[v|null…],"target":[v…]}
        → "<probability that the GENERATED sampling loop (`Gen.S5cltSampleLoop` on weighted rows, `Struct5CltSample.sampleProbWith`, messages from
           the generated message-passing loop) turns `row` into `target`> <model: Clt.value target / Clt.value row>"   (`undefined` when value row = 0)
-/
open Lean Deeprob

namespace Deeprob.Driver

def handleStruct5K (net : Net Rat) (root : Nat) (op : String) (j : Json) : Option (Except String String) :=
  match op with
  | "s5_clt_mp" => some do
      let c ← parseClt j
      let row ← jOptNatList (← field j "row")
      let reduce ← (← field j "reduce").getStr?
      let e := Ev.ofList row
      let x := c.scope.map (fun v => row.getD v none)
      let params : Int → Int → Int → Rat := fun i l k => Clt.cptAt c.cpt i.toNat l.toNat k.toNat
      let sumL : List Rat → Rat := fun v => v.foldr (fun a b => a + b) 0
      let maxL : List Rat → Rat := fun v => v.foldr max 0
      match Clt.rootOf c.pred with
      | none => pure "none"
      | some r =>
        let bfs := (bfsGen c.pred (c.pred.length + 1) [r] []).map (fun (a : Nat) => (a : Int))
        let obs := x.map Option.isSome
        let lm := @CltLoop.messagePassing Rat ⟨1⟩ mulAsAdd params (r : Int) bfs c.pred sumL maxL x obs false reduce
        let lv := @CltLoop.messagePassing Rat ⟨1⟩ mulAsAdd params (r : Int) bfs c.pred sumL maxL x obs true reduce
        let g := @Gen.S4cltMessages Rat ⟨1⟩ mulAsAdd params (r : Int) bfs c.pred sumL maxL [] 1 x obs reduce
        let md := (List.range c.pred.length).map (fun i =>
          let cs := (Clt.build c.pred c.pred.length i).kids
          if reduce == "mar" then [Clt.msgAt c.scope c.cpt cs 0 e, Clt.msgAt c.scope c.cpt cs 1 e]
          else [Clt.msgMax c.scope c.cpt cs 0 e, Clt.msgMax c.scope c.cpt cs 1 e])
        let lms := match lm with | .inl m => ratsStr m.flatten | .inr _ => "values"
        let lvs := match lv with | .inr (some q) => showRat q | .inr none => "unwritten" | .inl _ => "messages"
        pure s!"{lms} | {ratsStr g.flatten} | {ratsStr md.flatten} | {lvs} {showRat (Clt.value c.scope c.pred c.cpt e)}"
  | "s5_clt_mpe" => some do
      let c ← parseClt j
      let row ← jOptNatList (← field j "row")
      let e := Ev.ofList row
      let x := c.scope.map (fun v => row.getD v none)
      let params : Int → Int → Int → Rat := fun i l k => Clt.cptAt c.cpt i.toNat l.toNat k.toNat
      let sumL : List Rat → Rat := fun v => v.foldr (fun a b => a + b) 0
      let maxL : List Rat → Rat := fun v => v.foldr max 0
      match Clt.rootOf c.pred with
      | none => pure "none"
      | some r =>
        let bfs := (bfsGen c.pred (c.pred.length + 1) [r] []).map (fun (a : Nat) => (a : Int))
        let l := @CltLoop.mpe Rat ⟨1⟩ mulAsAdd _ _ params (r : Int) bfs c.pred sumL maxL x
        let g := @Gen.S4cltMpe Rat mulAsAdd _ _ params (r : Int) bfs c.pred
          (fun x obs _ reduce i => Gen.Py4.getI (@Gen.S4cltMessages Rat ⟨1⟩ mulAsAdd params (r : Int) bfs c.pred sumL maxL [] 1 x obs reduce) i []) x
        let d := Clt.mpe c.scope c.pred c.cpt e
        pure s!"{optStr l} | {optStr g} | {optStr (c.scope.map d)}"
  | "s5_clt_sample" => some do
      let c ← parseClt j
      let row ← jOptNatList (← field j "row")
      let tgt ← jOptNatList (← field j "target")
      let e := Ev.ofList row
      let eX := Ev.ofList tgt
      let x := c.scope.map (fun v => row.getD v none)
      let target := c.scope.map (fun v => tgt.getD v none)
      let params : Int → Int → Int → Rat := fun i l k => Clt.cptAt c.cpt i.toNat l.toNat k.toNat
      let sumL : List Rat → Rat := fun v => v.foldr (fun a b => a + b) 0
      let maxL : List Rat → Rat := fun v => v.foldr max 0
      match Clt.rootOf c.pred with
      | none => pure "none"
      | some r =>
        let bfs := (bfsGen c.pred (c.pred.length + 1) [r] []).map (fun (a : Nat) => (a : Int))
        let mp := fun (x : List (Option Nat)) (obs : List Bool) (rl : Bool) (rd : String) =>
          CltLoop.msgsOf (@CltLoop.messagePassing Rat ⟨1⟩ mulAsAdd params (r : Int) bfs c.pred sumL maxL x obs rl rd)
        let p := Oblig.Struct5CltSample.sampleProbWith (α := Rat) (· * ·) (· / ·) id sumL params (r : Int) bfs c.pred mp x target
        let ve := Clt.value c.scope c.pred c.cpt e
        if ve == 0 then pure s!"{showRat p} undefined"
        else pure s!"{showRat p} {showRat (Clt.value c.scope c.pred c.cpt eX / ve)}"
  | _ => none

end Deeprob.Driver
