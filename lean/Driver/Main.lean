import Driver.Proto
import Driver.OpsFit
import Driver.OpsClt
import Driver.OpsFlows
import Driver.OpsRewrite
import Driver.OpsTopDown
import Driver.OpsAlgebra
import Driver.OpsTensor
import Driver.OpsLearn
import Driver.OpsSched
import Driver.OpsXpc
import Driver.OpsLearnTerm
import Driver.OpsCnetLearn
import Driver.OpsF32
import Driver.OpsRatSample
import Driver.OpsStruct3
import Driver.OpsLeafQ
import Driver.OpsGraphIo
import Driver.OpsStruct4
import Driver.OpsStruct5
import Driver.OpsEmBackward
import Driver.OpsStruct5Eval
import Driver.OpsStruct5K
/-
Line-protocol driver: one JSON object per input line, one answer line per input line.
Run with `lake env lean --run Driver/Main.lean < ops.jsonl`.
Anything that cannot be parsed yields `bad-op <reason>` (an infrastructure error for the harness,
never a default answer).
-/
open Lean Deeprob Deeprob.Driver

structure St where
  net : Net Rat := []
  root : Nat := 0
  dom : List Nat := []
deriving Inhabited

def domFn (st : St) : Nat → Nat := fun v => st.dom.getD v 0

def rowDens (st : St) (j : Json) : Except String (List Rat) := do
  -- "dens": {"<node index>": "n/d"} for ext leaves of this row
  let d := fieldD j "dens" (Json.mkObj [])
  (List.range st.net.length).mapM (fun i =>
    match d.getObjVal? (toString i) with
    | .ok v => jRat v
    | .error _ => pure 0)

def handle (st : St) (j : Json) : Except String (St × String) := do
  let op ← (← field j "op").getStr?
  match op with
  | "net" => do
      let nodes ← (← jArr (← field j "nodes")).mapM parseNode
      let root ← (← field j "root").getNat?
      let dom ← jNatList (fieldD j "dom" (Json.arr #[]))
      let st' : St := { net := nodes, root, dom }
      let cov := (Net.collect nodes root).length == nodes.length
      pure (st', s!"ok n={nodes.length} wellOrdered={Net.wellOrderedB nodes} covers={cov}")
  | "check" => do
      let l ← (fieldD j "labeled" (Json.bool true)).getBool?
      let s ← (fieldD j "smooth" (Json.bool true)).getBool?
      let d ← (fieldD j "decomposable" (Json.bool true)).getBool?
      pure (st, (Net.checkSpn st.net st.root l s d).toString)
  | "checkold" => do
      let nodes := Net.collect st.net st.root
      pure (st, match Net.isDecomposableUnionOnly st.net nodes with | none => "accept" | some w => "reject:decomposable:" ++ w)
  | "collect" => pure (st, natsStr (Net.collect st.net st.root))
  | "eval" => do
      let row ← jOptNatList (← field j "row")
      let dens ← rowDens st j
      let vals := evalNet (Ev.ofList row) dens st.net
      pure (st, ratsStr vals)
  | "margspec" => do
      -- S-layer: explicit sum over completions of the root scope of the complete-evidence values
      let row ← jOptNatList (← field j "row")
      let dens ← rowDens st j
      let scope := match st.net[st.root]? with | some x => x.scope | none => []
      let v := sumOver (domFn st) scope (Ev.ofList row) (fun e' => (evalNet e' dens st.net).getD st.root 0)
      pure (st, showRat v)
  | o =>
    -- extension handlers (one file per theory); first that owns the op answers
    let exts : List (Option (Except String String)) := [
      handleFit o j,
      handleClt o j,
      handleFlows o j,
      handleRewrite st.net st.root o j,
      handleTopDownD st.net st.root st.dom o j,
      handleAlgebra o j,
      handleTensor o j,
      handleLearn o j,
      handleSched st.net st.root o j,
      handleXpc o j,
      handleLearnTerm o j,
      handleCnetLearn o j,
      handleF32 o j,
      handleRatSample o j,
      handleStruct3 st.net o j,
      handleLeafQ o j,
      handleGraphIo o j,
      handleStruct4 st.net o j,
      handleStruct5 o j,
      handleStruct5K st.net st.root o j,
      handleStruct5Topo st.net st.root o j,
      handleEmBackward st.net st.root o j,
      handleStruct5Eval st.net st.root st.dom o j ]
    match exts.findSome? id with
    | some r => do let a ← r; pure (st, a)
    | none => .error s!"unknown op {o}"

partial def loop (h : IO.FS.Stream) (out : IO.FS.Stream) (st : St) : IO Unit := do
  let line ← h.getLine
  if line.isEmpty then return ()
  let t := line.trimAscii.toString
  if t.isEmpty then
    loop h out st
  else
    match Json.parse t with
    | .error e => out.putStrLn s!"bad-op json {e}"; out.flush; loop h out st
    | .ok j =>
      match handle st j with
      | .ok (st', ans) => out.putStrLn ans; out.flush; loop h out st'
      | .error e => out.putStrLn s!"bad-op {e}"; out.flush; loop h out st

def main : IO Unit := do
  let out ← IO.getStdout
  loop (← IO.getStdin) out {}
  out.flush
