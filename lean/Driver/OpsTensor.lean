import Driver.Proto
import DeeprobModel.Model.RatSpn
import DeeprobModel.Model.DgcSpn
/-
Driver ops for C16 / C17 (no Mathlib).

* `regions` `{features, depth, perms:[[..]..]}` → the layers of `RegionGraph.make_layers(len(perms))`:
  layers joined by ` | `, items by a blank; a region is `0,1,2`, a partition is `0,1;2,3,4`.
  `perms[t]` is one permutation of `0..features-1` for repetition `t` (oracle: a region is ordered by
  position in it); optional `draws:[[[..]..]..]` gives, per repetition, the literal outputs of
  `random_state.permutation(r)` in call order (used for the region whose sorted content matches).
* `ratpad` (same fields) → `pad=.. dim=.. mask=.. pad_mask=.. inv_mask=.. inv_pad_mask=..` (flattened buffers,
  booleans as 0/1, `none` when the buffer does not exist).
* `unpad` / `unpadold` (same fields) → per repetition the gather positions of the repaired / pinned
  `unpad_samples`, repetitions joined by ` ; `.
* `dgc` `{in_size:[c,h,w], n_pooling, depthwise: bool | [bool..], n_batch, sum_channels}` →
  `depth=.. | <layer> | <layer> ...` with `<layer> = kind s=.. d=.. pad=b,a out=c,h,w` and, for product layers,
  ` scopes=` the 1-D scope of every cell (cells joined by `/`, pixels by `,`, `-` for empty).
-/
open Lean
namespace Deeprob.Driver
open Deeprob

def regionStr (r : List Nat) : String := ",".intercalate (r.map toString)
def partStr (p : List Nat × List Nat) : String := regionStr p.1 ++ ";" ++ regionStr p.2
def boolsStr (l : List Bool) : String := " ".intercalate (l.map (fun b => if b then "1" else "0"))

def tJNatListList (j : Json) : Except String (List (List Nat)) := do
  (← jArr j).mapM jNatList

def isPermOfRange (n : Nat) (π : List Nat) : Bool :=
  π.length == n && (List.range n).all (fun v => π.contains v)

structure RatArgs where
  n : Nat
  depth : Nat
  reps : Nat
  ρ : Nat → List Nat → List Nat

def ratArgs (j : Json) : Except String RatArgs := do
  let n ← (← field j "features").getNat?
  let depth ← (← field j "depth").getNat?
  let perms ← tJNatListList (← field j "perms")
  for π in perms do
    if !isPermOfRange n π then throw s!"perms entry is not a permutation of range({n})"
  let draws ← match j.getObjVal? "draws" with
    | .ok d => (← jArr d).mapM tJNatListList
    | .error _ => pure []
  if !RatSpn.accepted n depth then throw "rejected: RegionGraph constructor guard"
  if perms.length == 0 then throw "rejected: repetitions must be positive"
  let ρ : Nat → List Nat → List Nat := fun t r =>
    match (draws.getD t []).find? (fun d => RatSpn.isort d == r) with
    | some d => d
    | none => RatSpn.oracleOfPerm (perms.getD t []) r
  pure { n, depth, reps := perms.length, ρ }

def regionsText (a : RatArgs) : String :=
  let layers := (List.range (2 * a.depth + 1)).map (fun h =>
    if h % 2 == 0 then " ".intercalate ((RatSpn.regionLayer a.ρ a.n a.reps (h / 2)).map regionStr)
    else " ".intercalate ((RatSpn.partitionLayer a.ρ a.n a.reps (h / 2)).map partStr))
  " | ".intercalate layers

def ratpadText (a : RatArgs) : String :=
  let regs := RatSpn.leafRegions a.ρ a.n a.depth a.reps
  let pad := RatSpn.padOf a.n a.depth
  let reps := List.range a.reps
  let mask := natsStr (RatSpn.maskBuf a.n a.depth regs).flatten
  let padMask := if pad > 0 then boolsStr (RatSpn.padMaskBuf a.n a.depth regs).flatten else "none"
  let inv := natsStr (reps.flatMap (fun t => RatSpn.invMask a.n a.depth regs t))
  let invPad := if pad > 0 then boolsStr (reps.flatMap (fun t => RatSpn.invPadMask a.n a.depth regs t)) else "none"
  let rows := RatSpn.reshapeRows (a.n + pad) (RatSpn.maskBuf a.n a.depth regs)
  s!"pad={pad} dim={RatSpn.dimOf a.n a.depth} rows={rows} mask={mask} pad_mask={padMask} inv_mask={inv} inv_pad_mask={invPad}"

def unpadText (a : RatArgs) (old : Bool) : String :=
  let regs := RatSpn.leafRegions a.ρ a.n a.depth a.reps
  " ; ".intercalate ((List.range a.reps).map (fun t =>
    natsStr (if old then RatSpn.unpadOldIdx a.n a.depth regs t else RatSpn.unpadIdx a.n a.depth regs t)))

def scopesStr (xs : List (List Nat)) : String :=
  "/".intercalate (xs.map (fun s => if s.isEmpty then "-" else regionStr s))

def dgcText (j : Json) : Except String String := do
  let sz ← jNatList (← field j "in_size")
  let (c, h, w) ← match sz with
    | [c, h, w] => pure (c, h, w)
    | _ => throw "in_size must be [c,h,w]"
  let p ← (← field j "n_pooling").getNat?
  let batch ← (fieldD j "n_batch" (Json.num 8)).getNat?
  let sumCh ← (fieldD j "sum_channels" (Json.num 8)).getNat?
  if !DgcSpn.accepted h w p then throw "rejected: DgcSpn constructor guard"
  let depth := DgcSpn.clog2 h
  let flags ← match fieldD j "depthwise" (Json.bool false) with
    | .bool b => pure (List.replicate (depth + 1) b)
    | v => do
        let l ← (← jArr v).mapM (fun x => x.getBool?)
        match DgcSpn.dwFlags depth l with
        | some f => pure f
        | none => throw "rejected: depthwise length"
  let dw : Nat → Bool := fun i => flags.getD i false
  let _ := c
  let infos := DgcSpn.layerInfos h p batch sumCh dw
  let trace := (List.range (depth + 1)).map (fun i => DgcSpn.stage h p dw (i + 1))
  let rec fmt (infos : List DgcSpn.LayerInfo) (tr : List (List (List Nat))) : List String :=
    match infos with
    | [] => []
    | li :: rest =>
      let base := s!"{li.kind} s={li.stride} d={li.dilation} pad={li.padBefore},{li.padAfter} out={li.outC},{li.outS},{li.outS}"
      if li.kind == "sum" then base :: fmt rest tr
      else match tr with
        | [] => base :: fmt rest []
        | s :: tr' => (base ++ " scopes=" ++ scopesStr s) :: fmt rest tr'
  pure (" | ".intercalate (s!"depth={depth}" :: fmt infos trace))

def jList {β : Type} (f : Json → Except String β) (j : Json) : Except String (List β) := do
  (← jArr j).mapM f

/-- `rateval` `{features, depth, perms, batch, sum, probs:[region][channel][k], sumw:[layer][region][out][in],
rootw:[class][flat], row:[0|1|null ..]}` (rationals as "n/d" strings; Bernoulli leaves, `probs` = P(x=1)) →
the value of the unrolled circuit for every class, exact rationals. -/
def ratevalText (j : Json) : Except String String := do
  let a ← ratArgs j
  let batch ← (← field j "batch").getNat?
  let sm ← (← field j "sum").getNat?
  let probs ← jList (jList (jList jRat)) (← field j "probs")
  let sumw ← jList (jList (jList (jList jRat))) (← field j "sumw")
  let rootw ← jList (jList jRat) (← field j "rootw")
  let row ← jOptNatList (← field j "row")
  let regs := RatSpn.leafRegions a.ρ a.n a.depth a.reps
  let e := Ev.ofList row
  let lf : Nat → Nat → Nat → Ev → Rat := fun i c k e =>
    let v := (regs.getD i []).getD k 0
    let p := ((probs.getD i []).getD c []).getD k 0
    match e v with
    | none => 1
    | some x => if x == 1 then p else 1 - p
  let w : Nat → Nat → Nat → List Rat := fun l g o => ((sumw.getD l []).getD g []).getD o []
  pure (ratsStr (rootw.map (fun wr =>
    Circ.eval e (RatSpn.unroll a.ρ a.n a.depth a.reps batch sm lf w wr))))

/-- `dgceval` `{in_size:[c,h,w], n_pooling, depthwise, n_batch, sum_channels,
leafvals:[b][ch][r][c] (density of the observed value, 1 if missing), sumw:[layer][o][r][c][in],
rootw:[class][flat]}` → the value of the unrolled circuit for every class, exact rationals. -/
def dgcevalText (j : Json) : Except String String := do
  let sz ← jNatList (← field j "in_size")
  let (c, h, w) ← match sz with
    | [c, h, w] => pure (c, h, w)
    | _ => throw "in_size must be [c,h,w]"
  let p ← (← field j "n_pooling").getNat?
  let batch ← (← field j "n_batch").getNat?
  let sumCh ← (← field j "sum_channels").getNat?
  if !DgcSpn.accepted h w p then throw "rejected: DgcSpn constructor guard"
  let depth := DgcSpn.clog2 h
  let flags ← match fieldD j "depthwise" (Json.bool false) with
    | .bool b => pure (List.replicate (depth + 1) b)
    | v => do
        let l ← (← jArr v).mapM (fun x => x.getBool?)
        match DgcSpn.dwFlags depth l with
        | some f => pure f
        | none => throw "rejected: depthwise length"
  let dw : Nat → Bool := fun i => flags.getD i false
  let leafvals ← jList (jList (jList (jList jRat))) (← field j "leafvals")
  let sumw ← jList (jList (jList (jList (jList jRat)))) (← field j "sumw")
  let rootw ← jList (jList jRat) (← field j "rootw")
  let lf : Nat → Nat → Nat → Nat → Ev → Rat := fun b ch r c _ =>
    (((leafvals.getD b []).getD ch []).getD r []).getD c 0
  let wf : Nat → Nat → Nat → Nat → List Rat := fun l o r c =>
    (((sumw.getD l []).getD o []).getD r []).getD c []
  pure (ratsStr (rootw.map (fun wr =>
    Circ.eval (fun _ => none) (DgcSpn.unroll c h p batch sumCh dw lf wf wr))))

/-- ops of this file; `none` = not mine -/
def handleTensor (op : String) (j : Json) : Option (Except String String) :=
  match op with
  | "regions" => some (do let a ← ratArgs j; pure (regionsText a))
  | "ratpad" => some (do let a ← ratArgs j; pure (ratpadText a))
  | "unpad" => some (do let a ← ratArgs j; pure (unpadText a false))
  | "unpadold" => some (do let a ← ratArgs j; pure (unpadText a true))
  | "dgc" => some (dgcText j)
  | "rateval" => some (ratevalText j)
  | "dgceval" => some (dgcevalText j)
  | _ => none

end Deeprob.Driver
