import Driver.Proto
import DeeprobModel.Model.RewriteNet
/-
Driver ops for C09 / C10 (no Mathlib): `prune`, `pruneold`, `marginalize`, `marginalizeold`, `normalform`.
`prune`/`pruneold` take an optional field `"order"`: `"table"` (default, storage order) or `"kahn"`
(the code's own `reversed(topological_order(root))`); `marginalize*` take `"keep": [..]`.

Answer format of a table: one item per node, items separated by `;`, nodes in children-first order
(last item = root). Item = six blank-separated fields
    kind id scope children weights orig
  kind     `sum` | `prod` | `leaf`
  id       the id `assign_ids` gives the node (position in `topological_order(new_root)`)
  scope    comma-separated variable ids
  children comma-separated positions in this table (`-` if none)
  weights  comma-separated exact rationals `n/d` (`-` if none)
  orig     index, in the table the op was applied to, of the node object this item is (identity of leaves
           and of mutated inner nodes)
-/
open Lean Deeprob Deeprob.Driver

namespace Deeprob.Driver

def listStr (l : List String) : String := if l.isEmpty then "-" else ",".intercalate l

def kindStr (k : Kind) : String := match k with | .sum => "sum" | .prod => "prod" | .leaf => "leaf"

def nodeStr (x : NNode Rat) (orig : Nat) : String :=
  let ws := if x.kind = .sum then listStr (x.ws.map showRat) else "-"
  s!"{kindStr x.kind} {x.id} {listStr (x.scope.map toString)} {listStr (x.ch.map toString)} {ws} {orig}"

def tableStr (res : Net Rat × List Nat) : String :=
  ";".intercalate (List.zipWith nodeStr res.1 res.2)

/-- `prune` / `marginalize` start with `check_spn(root, labeled=True, smooth=True, decomposable=True)` -/
def checked (net : Net Rat) (root : Nat) (k : Unit → String) : String :=
  match Net.checkSpn net root true true true with
  | .accept => k ()
  | v => v.toString

def pruneAns (repaired : Bool) (net : Net Rat) (root : Nat) (j : Json) : Except String String := do
  let order ← (fieldD j "order" (Json.str "table")).getStr?
  let res ← match order with
    | "table" => pure (Net.pruneNetWith repaired net root)
    | "kahn" => pure (Net.pruneNetKahn repaired net root)
    | o => throw s!"unknown order {o}"
  pure (checked net root (fun _ => match res with | some r => tableStr r | none => "cycle"))

def handleRewrite (net : Net Rat) (root : Nat) (op : String) (j : Json) : Option (Except String String) :=
  match op with
  | "prune" => some (pruneAns true net root j)
  | "pruneold" => some (pruneAns false net root j)
  | "marginalize" => some (marg true)
  | "marginalizeold" => some (marg false)
  | "normalform" => some (pure (toString (Net.normalFormB net root)))
  | _ => none
where
  marg (repaired : Bool) : Except String String := do
      let keep ← jNatList (← field j "keep")
      -- the argument checks come before `check_spn` in the code
      match margGuard keep (Net.scopeAt net root) with
      | some why => pure ("reject:" ++ why)
      | none => pure (checked net root (fun _ =>
          match Net.marginalizeNetWith repaired keep net root with
          | .ok r => tableStr r
          | .error e => e))

end Deeprob.Driver
