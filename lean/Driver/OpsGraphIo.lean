import Lean.Data.Json
import Driver.Proto
import DeeprobModel.Model.GraphOrder
import DeeprobModel.Model.CltIo
/-
Driver ops for the visiting order of `BinaryCLT.message_passing` (Model/GraphOrder.lean) and the JSON form of a
binary Chow-Liu tree (Model/CltIo.lean). No Mathlib.
-/
open Lean
namespace Deeprob.Driver
open Deeprob.GraphIo

def jTable (j : Json) : Except String (List (List (List Rat))) := do
  (← jArr j).mapM (fun a => do (← jArr a).mapM jRatList)

def jqRat (q : Rat) : Json := Json.str (showRat q)
def jqTable (t : List (List Rat)) : Json := Json.arr (t.map (fun row => Json.arr (row.map jqRat).toArray)).toArray
def jInt (n : Int) : Json := Json.num (JsonNumber.fromInt n)
def jNat (n : Nat) : Json := jInt (n : Int)
def jqNats (l : List Nat) : Json := Json.arr (l.map jNat).toArray
def jqInts (l : List Int) : Json := Json.arr (l.map jInt).toArray
def jqOpt {β : Type} (f : β → Json) : Option β → Json | none => Json.null | some x => f x

/-- the text of `json.dumps(node_link_data(graph))`, numbers as exact `"n/d"` strings -/
def docJson (d : CDoc) : Json :=
  Json.mkObj [("directed", Json.bool true), ("multigraph", Json.bool false), ("graph", Json.mkObj []),
    ("nodes", Json.arr (d.nodes.map (fun na =>
      match na.2 with
      | some a => Json.mkObj [("scope", jNat a.scope), ("weight", jqTable a.weight), ("id", jNat na.1)]
      | none => Json.mkObj [("id", jNat na.1)])).toArray),
    ("edges", Json.arr (d.edges.map (fun e =>
      Json.mkObj [("source", jNat e.1), ("target", jNat e.2)])).toArray)]

def objJson (o : CltObj) : Json :=
  Json.mkObj [("scope", jqNats o.scope), ("tree", jqInts o.tree), ("root", jqOpt jNat o.root),
    ("bfs", jqOpt jqNats o.bfs), ("params", Json.arr (o.params.map jqTable).toArray)]

def parseDoc (j : Json) : Except String CDoc := do
  let nodes ← (← jArr (← field j "nodes")).mapM (fun nj => do
    let id ← (← field nj "id").getNat?
    match nj.getObjVal? "scope", nj.getObjVal? "weight" with
    | .ok s, .ok w => do
        let sc ← s.getNat?
        let wt ← (← jArr w).mapM jRatList
        pure (id, some ({ scope := sc, weight := wt } : CAttr))
    | _, _ => pure (id, none))
  let edges ← (← jArr (← field j "edges")).mapM (fun ej => do
    let s ← (← field ej "source").getNat?
    let t ← (← field ej "target").getNat?
    pure (s, t))
  pure { nodes, edges }

/-- memory objects after 1, 2, … loads (float32 storage) -/
def cltGenMem : Nat → CltObj → List (Option CltObj)
  | 0, _ => []
  | g+1, o => match (cltEncode o).bind cltLoad32 with
    | some o' => some o' :: cltGenMem g o'
    | none => [none]

/-- ops
* `bfsorder {tree:[…]}` → `compute_bfs_ordering(tree)`: the ids separated by blanks, or `none` (exception)
* `cltpass {tree, params:[[["n/d",…],…],…] (LINEAR domain), row:[0|1|null…], order:[…]?}` →
  `pass=<n/d> value=<n/d> childFirst=<bool> wf=<bool>`: the array pass of `message_passing` in the given order
  (default: the code's own `reversed(bfs[1:])`; `pass=none` when `compute_bfs_ordering` raises) next to `Clt.value`
  (scope = identity)
* `cltmsgs {tree, params (LINEAR domain), row, reduce:"mar"|"mpe", order:[…]?}` → the array `messages` after the loop
  (`message_passing(..., return_lls=False)`), slot by slot `m0,m1 m0,m1 …` (exact rationals); `mpe`: the carrier's
  `+` is `max`; default order: the code's own; `none` when `compute_bfs_ordering` raises
* `cltdoc {scope, tree, params (as stored: log domain), gens:k?}` → one JSON object
  `{"doc": <document of the object | null>, "decoded": <exact reload | null>, "docs": [k documents of k save/load
  generations with float32 storage], "mem": [the objects held after each of the k loads]}`; a document is
  `{"directed":true,"multigraph":false,"graph":{},"nodes":[{"scope","weight","id"}],"edges":[{"source","target"}]}`,
  an object `{"scope","tree","root","bfs","params"}`; all non-integer numbers are `"n/d"` strings
* `cltload {nodes:[{id, scope?, weight?}], edges:[{source,target}]}` → `{"arborescence": <what is_arborescence
  answers, null on the empty graph>, "obj": <the object load_binary_clt_json builds from this document (exact
  numbers), or null when it raises>}` -/
def handleGraphIo (op : String) (j : Json) : Option (Except String String) :=
  match op with
  | "bfsorder" => some do
      let tree ← jIntList (← field j "tree")
      pure (match computeBfsOrdering tree with | some l => natsStr l | none => "none")
  | "cltpass" => some do
      let tree ← jIntList (← field j "tree")
      let cpt ← jTable (← field j "params")
      let rowL ← jOptNatList (← field j "row")
      let row : Nat → Option Nat := fun i => rowL.getD i none
      let scope := List.range tree.length
      let value := Clt.value scope tree cpt (Ev.ofList rowL)
      let wf := wellFormedPred tree
      match j.getObjVal? "order" with
      | .ok oj => do
          let order ← jNatList oj
          let r := (rootIdx tree).getD 0
          pure s!"pass={showRat (passValue tree cpt row r order)} value={showRat value} childFirst={childFirst tree order} wf={wf}"
      | .error _ =>
          let p := match codeValue tree cpt row with | some v => showRat v | none => "none"
          let cf := match computeBfsOrdering tree with | some b => childFirst tree b.tail.reverse | none => false
          pure s!"pass={p} value={showRat value} childFirst={cf} wf={wf}"
  | "cltmsgs" => some do
      let tree ← jIntList (← field j "tree")
      let cpt ← jTable (← field j "params")
      let rowL ← jOptNatList (← field j "row")
      let row : Nat → Option Nat := fun i => rowL.getD i none
      let reduce ← (fieldD j "reduce" (Json.str "mar")).getStr?
      let order? ← match j.getObjVal? "order" with
        | .ok oj => do pure (some (← jNatList oj))
        | .error _ => pure ((computeBfsOrdering tree).map (fun b => b.tail.reverse))
      match order? with
      | none => pure "none"
      | some order =>
        let M ← match reduce with
          | "mar" => pure (arrayPass tree cpt row order)
          | "mpe" => pure (@arrayPass Rat _ _ ⟨max⟩ _ tree cpt row order)
          | r => .error s!"cltmsgs: unknown reduce {r}"
        pure (" ".intercalate (M.map (fun m => s!"{showRat m.1},{showRat m.2}")))
  | "cltdoc" => some do
      let scope ← jNatList (← field j "scope")
      let tree ← jIntList (← field j "tree")
      let params ← jTable (← field j "params")
      let gens ← (fieldD j "gens" (jNat 1)).getNat?
      let o : CltObj := { scope, tree, params }
      let out := Json.mkObj [("doc", jqOpt docJson (cltEncode o)),
        ("decoded", jqOpt objJson ((cltEncode o).bind cltDecode)),
        ("docs", Json.arr ((cltGenDocs gens o).map (jqOpt docJson)).toArray),
        ("mem", Json.arr ((cltGenMem gens o).map (jqOpt objJson)).toArray)]
      pure out.compress
  | "cltload" => some do
      let d ← parseDoc j
      let g := graphOfDoc d
      let arb : Json := if g.isEmpty then Json.null else Json.bool (isArborescence g)
      pure (Json.mkObj [("arborescence", arb), ("obj", jqOpt objJson (cltDecode d))]).compress
  | _ => none

end Deeprob.Driver
