import Lean.Data.Json
import DeeprobModel.Model.Learn
import Driver.Proto
/-
Driver ops of the LearnSPN machine (C04 / C05).

  {"op":"learn","n_rows":10,"n_cols":3,"min_rows_slice":2,"min_cols_slice":3,"front":false,
   "script":[{"zero_var":[]},{"rows":[0,0,0,1,1,1,1,1,1,1]},{"zero_var":[]},{"cols":[0,0,0]}, …]}
      → canonical text of the returned structure, e.g.
        S{0 1 2}[3/10:P{0 1 2}(L(rows=3 4 5 6 7 8 9;scope=0 2),L(rows=3 4 5 6 7 8 9;scope=1)),7/10:L(rows=0 1 2;scope=0 1 2)]
      (`L(rows=…;scope=…)` leaf, `P{scope}(children)` product, `S{scope}[|slice|/|rows|:child,…]` sum;
       weights are the exact unreduced pairs). Errors: `bad-op …` when the script does not answer what
       the machine asks, is exhausted before the deque is empty, or has unread entries left.
  {"op":"classifier","classes":[0,1,1,0,2],"n_cols":3,"min_rows_slice":…,"min_cols_slice":…,"front":…,
   "scripts":[[…],[…],[…]]}   → same text for `learn_classifier` (without the final prune).
-/
open Lean
namespace Deeprob.Driver
open Deeprob.Learn

def parseAns (j : Json) : Except String Ans := do
  match j.getObjVal? "zero_var" with
  | .ok v => pure (.zeroVar (← jNatList v))
  | .error _ =>
    match j.getObjVal? "rows" with
    | .ok v => pure (.rows (← jIntList v))
    | .error _ =>
      match j.getObjVal? "cols" with
      | .ok v => pure (.cols (← jIntList v))
      | .error _ => .error "script entry must have one of zero_var / rows / cols"

def parseCfg (j : Json) : Except String Cfg := do
  let minRows ← (← field j "min_rows_slice").getNat?
  let minCols ← (← field j "min_cols_slice").getNat?
  let front ← (← field j "front").getBool?
  if minRows == 0 || minCols == 0 then .error "min_rows_slice and min_cols_slice must be positive"
  pure { minRows, minCols, front }

def handleLearn (op : String) (j : Json) : Option (Except String String) :=
  match op with
  | "learn" => some do
      let cfg ← parseCfg j
      let nRows ← (← field j "n_rows").getNat?
      let nCols ← (← field j "n_cols").getNat?
      if nRows == 0 || nCols == 0 then .error "n_rows and n_cols must be positive"
      let script ← (← jArr (← field j "script")).mapM parseAns
      let s ← learn cfg nRows nCols script
      if !s.queue.isEmpty then .error s!"script exhausted with {s.queue.length} task(s) pending"
      if !s.script.isEmpty then .error s!"{s.script.length} unread script entrie(s)"
      match result s with
      | some t => pure t.render
      | none => .error "no root"
  | "classifier" => some do
      let cfg ← parseCfg j
      let nCols ← (← field j "n_cols").getNat?
      let classes ← jIntList (← field j "classes")
      let scripts ← (← jArr (← field j "scripts")).mapM (fun a => do (← jArr a).mapM parseAns)
      let t ← learnClassifier cfg classes nCols scripts
      pure t.render
  | _ => none

end Deeprob.Driver
