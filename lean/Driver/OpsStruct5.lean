import Lean.Data.Json
import Driver.Proto
import Driver.OpsClt
import DeeprobModel.Model.ToPcLoop
/-
Driver ops of the fifth wave of translated fragments (`Gen.S5…`: the explicit-stack loops of `BinaryCLT.to_pc` and
`BinaryCLT.get_scopes`): the GENERATED loop is executed (what the current source says), printed like the model ops
`clt_pc` / `clt_scopes`, so that the harness compares implementation = generated = model.  No Mathlib.

  {"op":"s5_topc","scope":[v…],"pred":[i…],"cpt":[[[q,q],[q,q]]…]}  → canonical text of the circuit the generated loop returns
                                                                       (`none` when the buffer is empty / no unique root)
  {"op":"s5_scopes","scope":[v…],"pred":[i…],"cpt":…}                → the list the generated loop of `get_scopes` returns
  {"op":"s5_trace","scope":…,"pred":…,"cpt":…}                       → stack ids / last / buffer sizes after every iteration of the
                                                                       generated `to_pc` loop (until the stack is empty)
-/
open Lean Deeprob Deeprob.Driver

namespace Deeprob.Driver

def handleStruct5 (op : String) (j : Json) : Option (Except String String) :=
  match op with
  | "s5_topc" => some do
      let c ← parseClt j
      match E2EToPc.genToPcLoop c.scope c.pred c.cpt with
      | none => pure "none"
      | some pc => pure (circText pc)
  | "s5_scopes" => some do
      let c ← parseClt j
      match E2EToPc.genGetScopesLoop c.scope c.pred with
      | none => pure "none"
      | some l => pure (toString l)
  | "s5_trace" => some do
      let c ← parseClt j
      match GraphIo.rootIdx c.pred with
      | none => pure "none"
      | some r =>
        let t := Clt.build c.pred c.pred.length r
        let getId := fun (t : RTree) => c.scope.getD t.idx 0
        let stepf := fun (s : List RTree × Option RTree × List (Circ Rat) × List (Circ Rat)) =>
          Gen.S5toPcStep getId Oblig.Struct5.isLeaf RTree.kids Oblig.Struct5.isIn (fun v p => Circ.catLeaf v (Clt.indicator p)) Circ.mkProd
            (fun cs w => Circ.mkSum w cs) (Oblig.Struct5.factorsOf c.scope c.cpt) s.1 s.2.1 s.2.2.1 s.2.2.2
        let rec go (fuel : Nat) (s : List RTree × Option RTree × List (Circ Rat) × List (Circ Rat)) (acc : List String) : List String :=
          match fuel with
          | 0 => acc.reverse
          | f+1 =>
            if s.1.isEmpty then acc.reverse else
            let s' := stepf s
            go f s' (s!"{s'.1.map getId};{(s'.2.1.map getId)};{s'.2.2.1.length};{s'.2.2.2.length}" :: acc)
        pure (" | ".intercalate (go (2 * PostOrder.size t + 2) ([t], none, [], []) []))
  | _ => none

end Deeprob.Driver
