import Lean.Data.Json
import Driver.Proto
import Driver.OpsClt
import Driver.OpsXpc
import DeeprobModel.Model.ToPcLoop
import DeeprobModel.Model.XpcLoop
import DeeprobModel.Model.TopoLoop
/-
Driver ops of the fifth wave of translated fragments (`Gen.S5…`: the explicit-stack loops of `BinaryCLT.to_pc` and
`BinaryCLT.get_scopes`): the GENERATED loop is executed (what the current source says), printed like the model ops
`clt_pc` / `clt_scopes`, so that the harness compares implementation = generated = model.  No Mathlib.

  {"op":"s5_topc","scope":[v…],"pred":[i…],"cpt":[[[q,q],[q,q]]…]}  → canonical text of the circuit the generated loop returns
                                                                       (`none` when the buffer is empty / no unique root)
  {"op":"s5_scopes","scope":[v…],"pred":[i…],"cpt":…}                → the list the generated loop of `get_scopes` returns
  {"op":"s5_trace","scope":…,"pred":…,"cpt":…}                       → stack ids / last / buffer sizes after every iteration of the
                                                                       generated `to_pc` loop (until the stack is empty)
  {"op":"s5_xpc","use_clt":b,"det":b,"part":…}                       → `welltagged=<b> stackempty=<b> <text>`: the GENERATED loop of `build_xpc`
                                                                       (`Gen.S5buildXpcStep`) run on the `Partition` objects of the exported tree
                                                                       (input as for the op `xpc`), `<text>` = canonical text of `pc_nodes_stack[0]`
                                                                       (`none` when the buffer is empty), printed like the model op `xpc`
  {"op":"s5_xpc_trace","use_clt":b,"det":b,"part":…}                 → stack ids / last / buffer size after every iteration of that loop
  {"op":"s5_topo"}   (after a `net` op)                                → `none` or the node indices in the order the GENERATED `topological_order`
                                                                       returns (`Gen.S5topoInit / RootGuard / Step / Result` iterated:
                                                                       `Oblig.Struct5T.genTopo`), followed by ` queueempty=<b>` (the generated
                                                                       `while queue:` loop has ended within the iterations run)
  {"op":"kahn"}      (after a `net` op)                                → the same for the MODEL `Net.kahn` (`none` or the indices)
  {"op":"s5_layers"} (after a `net` op)                                → the GENERATED `topological_order_layered` (`Gen.S5layered…` iterated:
                                                                       `Oblig.Struct5T.genLayers`), printed like the model op `layers`
  {"op":"s5_bfs"}  /  {"op":"s5_dfs"}  (after a `net` op)             → what the GENERATED generators `bfs` / `dfs_post_order` yield (`Gen.S5bfsStep`,
                                                                       `Gen.S5dfsStep` iterated), followed by ` workempty=<b>` (the loop has ended)
                                                                       (the MODEL node list `Net.collect` is the op `collect` of Main.lean)
  {"op":"s5_topo_trace"} (after a `net` op)                            → queue / length of the ordering after every iteration of the generated
                                                                       `while queue:` loop (until the queue is empty)
-/
open Lean Deeprob Deeprob.Driver

namespace Deeprob.Driver

def handleStruct5 (op : String) (j : Json) : Option (Except String String) :=
  match op with
  | "s5_topc" => some do
      let c ← parseClt j
      match E2EToPc.genToPcLoop c.scope c.pred c.cpt with
      | none => pure "none"
      | some pc => pure (circText pc)
  | "s5_scopes" => some do
      let c ← parseClt j
      match E2EToPc.genGetScopesLoop c.scope c.pred with
      | none => pure "none"
      | some l => pure (toString l)
  | "s5_trace" => some do
      let c ← parseClt j
      match GraphIo.rootIdx c.pred with
      | none => pure "none"
      | some r =>
        let t := Clt.build c.pred c.pred.length r
        let getId := fun (t : RTree) => c.scope.getD t.idx 0
        let stepf := fun (s : List RTree × Option RTree × List (Circ Rat) × List (Circ Rat)) =>
          Gen.S5toPcStep getId Oblig.Struct5.isLeaf RTree.kids Oblig.Struct5.isIn (fun v p => Circ.catLeaf v (Clt.indicator p)) Circ.mkProd
            (fun cs w => Circ.mkSum w cs) (Oblig.Struct5.factorsOf c.scope c.cpt) s.1 s.2.1 s.2.2.1 s.2.2.2
        let rec go (fuel : Nat) (s : List RTree × Option RTree × List (Circ Rat) × List (Circ Rat)) (acc : List String) : List String :=
          match fuel with
          | 0 => acc.reverse
          | f+1 =>
            if s.1.isEmpty then acc.reverse else
            let s' := stepf s
            go f s' (s!"{s'.1.map getId};{(s'.2.1.map getId)};{s'.2.2.1.length};{s'.2.2.2.length}" :: acc)
        pure (" | ".intercalate (go (2 * PostOrder.size t + 2) ([t], none, [], []) []))
  | "s5_xpc" => some do
      let useClt ← jBoolD j "use_clt" true
      let det ← jBoolD j "det" false
      let p ← parsePart (← field j "part")
      let st := E2EXpc.genXpcState useClt det p (2 * PostOrder.sizeR (Part.number p 0))
      let text := match st.2.2.head? with
        | none => "none"
        | some x => xcText x
      pure s!"welltagged={Part.wellTaggedB p} stackempty={st.1.isEmpty} {text}"
  | "s5_xpc_trace" => some do
      let useClt ← jBoolD j "use_clt" true
      let det ← jBoolD j "det" false
      let p ← parsePart (← field j "part")
      let t := Part.number p 0
      let stepf := fun (s : List (PostOrder.PTree (Part Rat)) × Option (PostOrder.PTree (Part Rat)) × List (XC Rat)) =>
        Oblig.Struct5X.genRunX Oblig.Struct5X.isHorizP Oblig.Struct5X.rowIdsP XC.children XC.isProduct XC.isSum
          (fun a b => (a : Rat) / (b : Rat)) XC.mkSum XC.mkProd (Oblig.Struct5X.buildLeafP useClt det) 1 s
      let rec goX (fuel : Nat) (s : List (PostOrder.PTree (Part Rat)) × Option (PostOrder.PTree (Part Rat)) × List (XC Rat))
          (acc : List String) : List String :=
        match fuel with
        | 0 => acc.reverse
        | f+1 =>
          if s.1.isEmpty then acc.reverse else
          let s' := stepf s
          goX f s' (s!"{s'.1.map PostOrder.PTree.id};{s'.2.1.map PostOrder.PTree.id};{s'.2.2.length}" :: acc)
      pure (" | ".intercalate (goX (2 * PostOrder.sizeR t + 2) ([t], none, []) []))
  | _ => none

/-- the loops of `topological_order` / `topological_order_layered` (node.py) as generated, on the table of the last `net` op -/
def handleStruct5Topo (net : Net Rat) (root : Nat) (op : String) (_j : Json) : Option (Except String String) :=
  match op with
  | "s5_topo" => some do
      let qe := (Oblig.Struct5T.genTopoState net root).1.isEmpty
      match Oblig.Struct5T.genTopo net root with
      | none => pure s!"none queueempty={qe}"
      | some ord => pure (natsStr ord ++ s!" queueempty={qe}")
  | "kahn" => some do
      match Net.kahn net root with
      | none => pure "none"
      | some ord => pure (natsStr ord)
  | "s5_layers" => some do
      let ok := Sched.reachOKB net root (Net.collect net root)
      match Oblig.Struct5T.genLayers net root with
      | none => pure s!"none reachOK={ok}"
      | some L => pure ("|".intercalate (L.map natsStr) ++ s!" reachOK={ok}")
  | "s5_bfs" => some do
      pure (natsStr (Oblig.Struct5T.genBfs net root) ++ s!" workempty={(Oblig.Struct5T.genBfsState net root).1.isEmpty}")
  | "s5_dfs" => some do
      pure (natsStr (Oblig.Struct5T.genDfs net root) ++ s!" workempty={(Oblig.Struct5T.genDfsState net root).1.isEmpty}")
  | "s5_topo_trace" => some do
      let rec go (fuel : Nat) (s : List Nat × Oblig.Struct5T.Cnt × List Nat) (acc : List String) : List String :=
        match fuel with
        | 0 => acc.reverse
        | f+1 =>
          if s.1.isEmpty then acc.reverse else
          let s' := Oblig.Struct5T.genTopoStep net s
          go f s' (s!"{s'.1};{s'.2.2.length}" :: acc)
      pure (" | ".intercalate (go (net.length + 2) ([root], Oblig.Struct5T.genTopoCounts net root, []) []))
  | _ => none

end Deeprob.Driver
