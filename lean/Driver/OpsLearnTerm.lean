import Lean.Data.Json
import DeeprobModel.Model.Learn
import DeeprobModel.Model.LearnTerm
import Driver.Proto
import Driver.OpsLearn
/-
Driver ops for the termination bound of the LearnSPN machine (Props/C05Term.lean).

  {"op":"learnbound","n_rows":6,"n_cols":3,"min_rows_slice":2,"min_cols_slice":2,"front":true}
      → the iteration bound `Deeprob.LearnTerm.B n_rows n_cols cfg` as a decimal, e.g. `87`
  {"op":"learncount", …same fields as op "learn" (n_rows, n_cols, min_rows_slice, min_cols_slice, front, script)…}
      → `steps=12;bound=87;consumed=20;pending=0;trace=87 86 … 0;text=S{0 1 2}[…]`
        steps    = number of `while tasks:` iterations the machine performed on the script (`runCount`)
        bound    = `B n_rows n_cols cfg`
        consumed = number of script entries read
        pending  = tasks left in the deque (always 0: a script that runs out early is an error)
        trace    = the termination measure before every iteration and after the last one
        text     = canonical text of the result (as op "learn"), `-` if the deque is not empty
      Errors (`bad-op …`): the script does not answer what the machine asks, or is exhausted before the
      deque is empty.
-/
open Lean
namespace Deeprob.Driver
open Deeprob.Learn Deeprob.LearnTerm

def handleLearnTerm (op : String) (j : Json) : Option (Except String String) :=
  match op with
  | "learnbound" => some do
      let cfg ← parseCfg j
      let nRows ← (← field j "n_rows").getNat?
      let nCols ← (← field j "n_cols").getNat?
      pure (toString (B nRows nCols cfg))
  | "learncount" => some do
      let cfg ← parseCfg j
      let nRows ← (← field j "n_rows").getNat?
      let nCols ← (← field j "n_cols").getNat?
      if nRows == 0 || nCols == 0 then .error "n_rows and n_cols must be positive"
      let script ← (← jArr (← field j "script")).mapM parseAns
      let s0 := init nRows nCols script
      let (s, k) ← runCount cfg (script.length + 1) s0
      let tr := measureTrace cfg (script.length + 1) s0
      let text := if s.queue.isEmpty then (match result s with | some t => t.render | none => "-") else "-"
      pure s!"steps={k};bound={B nRows nCols cfg};consumed={script.length - s.script.length};pending={s.queue.length};trace={natsStr tr};text={text}"
  | _ => none

end Deeprob.Driver
