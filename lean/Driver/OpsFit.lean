import Lean.Data.Json
import DeeprobModel.Model.CltFit
import Driver.Proto
/-
Driver ops for C11 (Chow-Liu fitting).  No Mathlib.

op `fitcheck`:
  {"op":"fitcheck","data":[[0,1,..],..],"nvars":k (optional, default = length of `pred`),
   "alpha":"n/d","pred":[..],"root":r,
   "params":[[["n/d","n/d"],["n/d","n/d"]],..]   -- exp(params) of the implementation, exact
   "mi":[["n/d",..],..]                            -- the implementation's MI matrix, exact
   "w":[["n/d",..],..]   (optional)                -- the weights actually handed to the MST routine
   "tol":"n/d"           (optional, default 0)     -- tie margin for `cycleOKtol`
  }
answer (one line, space separated `key=value`):
  binary=<b> tree=<b> cltTree=<b> root=<b>
  cptdev=<n/d> cptclass=<exact|le1e-7|le1e-6|le1e-5|gt1e-5> rowsum=<b> implrowdev=<n/d> norm=<n/d>
  misym=<b> cycleOK=<b> margin=<n/d|none> cycleOKtol=<b>
  treeW=<n/d> brute=<n/d|skipped> gap=<n/d|skipped>
  [wsym=<b> cycleOKw=<b> marginw=<n/d|none> cycleOKtolw=<b> treeWw=<n/d> brutew=<n/d|skipped> gapw=<n/d|skipped>]
All weight checks are run on `symMax` of the shipped matrix (SciPy's Kruskal reads both directed entries);
`misym` / `wsym` report whether the shipped matrix was exactly symmetric.
-/
open Lean Deeprob Deeprob.Driver Deeprob.CltFit

namespace Deeprob.Driver

def absR (q : Rat) : Rat := if q < 0 then -q else q
def maxR (a b : Rat) : Rat := if a < b then b else a
def minOpt : List Rat → Option Rat
  | [] => none
  | x :: xs => some (xs.foldl (fun m y => if y < m then y else m) x)

def showOptRat : Option Rat → String
  | none => "none"
  | some q => showRat q

def matFn (m : List (List Rat)) : Nat → Nat → Rat := fun i j => (m.getD i []).getD j 0
def isSymMat (n : Nat) (w : Nat → Nat → Rat) : Bool :=
  (List.range n).all (fun a => (List.range n).all (fun b => w a b == w b a))

def devClass (d : Rat) : String :=
  if d == 0 then "exact"
  else if d ≤ mkRat 1 10000000 then "le1e-7"
  else if d ≤ mkRat 1 1000000 then "le1e-6"
  else if d ≤ mkRat 1 100000 then "le1e-5"
  else "gt1e-5"

def jRatMat (j : Json) : Except String (List (List Rat)) := do
  (← jArr j).mapM jRatList

/-- maximal absolute entry-wise deviation between two `(n,2,2)` tables -/
def tableDev (n : Nat) (a b : List (List (List Rat))) : Rat :=
  (List.range n).foldl (fun m i => [0, 1].foldl (fun m l => [0, 1].foldl (fun m k =>
    maxR m (absR (Clt.cptAt a i l k - Clt.cptAt b i l k))) m) m) 0

def weightReport (sfx : String) (w : Nat → Nat → Rat) (pred : List Int) (tol : Rat) : String :=
  let n := pred.length
  let ok := cycleOK w pred
  let mg := minOpt (cycleMargins w pred)
  let complete := (cyclePairs pred).all (fun t => t.2.2.isSome)
  let okTol := complete && (match mg with | none => true | some m => decide (-tol ≤ m))
  let tw := treeWeight w pred
  let (br, gap) := if n ≤ 7 then
      match mstBrute w n with
      | some b => (showRat b, showRat (b - tw))
      | none => ("none", "none")
    else ("skipped", "skipped")
  s!"cycleOK{sfx}={ok} margin{sfx}={showOptRat mg} cycleOKtol{sfx}={okTol} treeW{sfx}={showRat tw} brute{sfx}={br} gap{sfx}={gap}"

def fitcheck (j : Json) : Except String String := do
  let data ← (← jArr (← field j "data")).mapM jNatList
  let al ← jRat (← field j "alpha")
  let pred ← jIntList (← field j "pred")
  let root ← (← field j "root").getNat?
  let params ← (← jArr (← field j "params")).mapM jRatMat
  let mi ← jRatMat (← field j "mi")
  let tol ← match j.getObjVal? "tol" with | .ok v => jRat v | .error _ => pure 0
  let n := pred.length
  if params.length != n then throw s!"params has {params.length} tables, pred has {n} entries"
  if mi.length != n then throw s!"mi has {mi.length} rows, pred has {n} entries"
  let model : List (List (List Rat)) := cptTable data al pred root
  let dev := tableDev n model params
  let rowsOk := (List.range n).all (fun i => [0, 1].all (fun l =>
    Clt.cptAt model i l 0 + Clt.cptAt model i l 1 == 1))
  let implRow := (List.range n).foldl (fun m i => [0, 1].foldl (fun m l =>
    maxR m (absR (Clt.cptAt params i l 0 + Clt.cptAt params i l 1 - 1))) m) 0
  let norm : Rat := Clt.value (List.range n) pred model (fun _ => none)
  let sym := isSymMat n (matFn mi)
  let wmi := symMax (matFn mi)
  let head := s!"binary={isBinary data} tree={isRootedSpanningTree pred root} cltTree={Clt.isTree pred} " ++
    s!"root={Clt.rootOf pred == some root} cptdev={showRat dev} cptclass={devClass dev} rowsum={rowsOk} " ++
    s!"implrowdev={showRat implRow} norm={showRat norm} misym={sym} " ++ weightReport "" wmi pred tol
  match j.getObjVal? "w" with
  | .ok wj => do
      let wm ← jRatMat wj
      if wm.length != n then throw s!"w has {wm.length} rows, pred has {n} entries"
      pure (head ++ s!" wsym={isSymMat n (matFn wm)} " ++ weightReport "w" (symMax (matFn wm)) pred 0)
  | .error _ => pure head

/-- op `cptmodel`: the exact model table for data/alpha/pred/root, as nested rationals (for debugging) -/
def cptmodel (j : Json) : Except String String := do
  let data ← (← jArr (← field j "data")).mapM jNatList
  let al ← jRat (← field j "alpha")
  let pred ← jIntList (← field j "pred")
  let root ← (← field j "root").getNat?
  let model : List (List (List Rat)) := cptTable data al pred root
  pure (" | ".intercalate (model.map (fun t => " ; ".intercalate (t.map ratsStr))))

def handleFit (op : String) (j : Json) : Option (Except String String) :=
  match op with
  | "fitcheck" => some (fitcheck j)
  | "cptmodel" => some (cptmodel j)
  | _ => none

end Deeprob.Driver
