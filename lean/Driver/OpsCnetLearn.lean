import Lean.Data.Json
import DeeprobModel.Model.CnetLearn
import Driver.Proto
/-
Driver ops of the cutset-network learner machine (C18, Model/CnetLearn.lean).

  {"op":"cnetlearn","kind":"fit"|"bd"|"bic","data":[[0,1,1],[1,0,0],…],"n_cols":3,
   "par":"1/100",                      -- alpha (fit, bic) or ess (bd), exact rational
   "min_n_samples":10,"min_n_features":1,   -- fit only (default 10 / 1)
   "n_cand_cuts":10,                        -- bd / bic only (default 10)
   "keep_root_clt":true,                    -- fit only: false = the pinned code (F11)
   "script":["stop", 2, 0, "stop", …]}      -- the recorded decisions in the code's visiting order
                                            --   (breadth-first), one per node at which scores are computed:
                                            --   a natural number = cut on that variable, "stop" = no split
      → canonical text of the learned OR tree with exact weights, e.g.
        O{0 1 2}[v=0;w=301/1002,701/1002](L(rows=0 3 4;scope=1 2),O{1 2}[v=2;w=…,…](L(…),L(…)))
      → `raises: …` when the Python code raises on that run (n_cand_cuts == 1; pinned F11)
      → `bad-op …` when the script is not the record of a run (exhausted, unread entries, cut variable
        outside the scope, empty side for bd / bic) or the data are not a binary n × n_cols matrix.
  {"op":"cnetlearn_leaves", …same fields…}
      → `path=0:1 2:0|rows=3 5|scope=1;…` one item per leaf, left to right (cut variable:value from the root).
-/
open Lean
namespace Deeprob.Driver
open Deeprob.CnetLearn

def parseDec (j : Json) : Except String Dec :=
  match j with
  | .str "stop" => pure .stop
  | _ => do
    let v ← j.getNat?
    pure (.cut v)

def parseKind (s : String) : Except String CnetLearn.Kind :=
  match s with
  | "fit" => pure .fit
  | "bd" => pure .bd
  | "bic" => pure .bic
  | k => .error s!"unknown learner kind {k}"

def runCnetLearn (j : Json) : Except String (Except String (LTree Rat)) := do
  let kind ← parseKind (← (← field j "kind").getStr?)
  let data ← (← jArr (← field j "data")).mapM jNatList
  let nCols ← (← field j "n_cols").getNat?
  if nCols == 0 then .error "n_cols must be positive"
  if data.any (fun r => r.length != nCols || r.any (fun v => decide (1 < v))) then
    .error "data must be a binary matrix with n_cols columns"
  let par ← jRat (← field j "par")
  if par < 0 then .error "par must be non-negative"
  let minSamples ← (fieldD j "min_n_samples" (Json.num 10)).getNat?
  let minFeatures ← (fieldD j "min_n_features" (Json.num 1)).getNat?
  let nCand ← (fieldD j "n_cand_cuts" (Json.num 10)).getNat?
  let keep ← (fieldD j "keep_root_clt" (Json.bool true)).getBool?
  let script ← (← jArr (← field j "script")).mapM parseDec
  let cfg : Cfg := { kind, minSamples, minFeatures, nCand, keepRootClt := keep }
  match learnSt cfg data nCols par script with
  | .error e => if e.startsWith "raises:" then pure (.error e) else .error e
  | .ok s =>
    if !s.script.isEmpty then .error s!"{s.script.length} unread script entrie(s)"
    match learn cfg data nCols par script with
    | .error e => if e.startsWith "raises:" then pure (.error e) else .error e
    | .ok t => pure (.ok t)

def handleCnetLearn (op : String) (j : Json) : Option (Except String String) :=
  match op with
  | "cnetlearn" => some do
      match ← runCnetLearn j with
      | .error e => pure e
      | .ok t => pure (t.render showRat)
  | "cnetlearn_leaves" => some do
      match ← runCnetLearn j with
      | .error e => pure e
      | .ok t => pure t.renderLeaves
  | _ => none

end Deeprob.Driver
