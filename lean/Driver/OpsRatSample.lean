import Driver.Proto
import Driver.OpsTensor
import Driver.OpsTopDown
import DeeprobModel.Model.RatSample
/-
Driver ops for the sampling / MPE clause of C16 (no Mathlib).  Common request shape (that of `rateval`):

  {features, depth, perms:[[..]..] (, draws), batch, sum,
   probs:[region][channel][k]   P(x=1) of `base_layer` (sigmoid of the logits), exact "n/d" strings,
   sumw:[layer][region][out][in] soft-max rows of the sum layers (layer 0 = nearest to the leaves),
   rootw:[class][flat]           soft-max rows of the root layer,
   row:[0|1|null ..]             evidence (null = NaN),
   y: class (optional)}

* `ratmpe`  → `r0 r1 … | margin | y`: `RatSample.mpeRow` (the layer-wise pass of `RatSpn.mpe`), the smallest
  relative arg-max margin met on the way (class choice when `y` is absent, root, every visited sum-layer
  entry, every leaf mode written into a missing variable; `inf` if no choice had ≥ 2 candidates) and the
  class used.  The row is also computed by `TCirc.mpeDescent` on `RatSample.unrollT`: `mpe-mismatch` if
  different (instance of `ratspn_mpe_is_descent`).
* `ratcond` → `k1:n/d k2:n/d …`: `RatSample.condPmf` on every completion of `row` (keys: one digit per
  variable, lexicographic).  Cross-checked against `TCirc.topDownPmf` on `unrollT` and against the
  specification `eval x / eval e` of `RatSpn.unroll`: `pmf-mismatch` if they differ, `zero-evidence` if
  `eval e = 0`.
* `ratlaw`  → `k1:n/d …`: `RatSample.samplePmf` (law of `RatSpn.sample(·, y)`, no evidence) on all rows,
  cross-checked against `eval x` of `RatSpn.unroll` (`law-mismatch`); with `"rowlevel": true` also against
  `RatSample.sampleRowPmf` (all columns drawn, dummies dropped by `unpad_samples`; exponential in the padded
  width, meant for ≤ 4 features).
-/
open Lean
namespace Deeprob.Driver
open Deeprob RatSample

structure RatSampleArgs where
  S : Spec Rat
  row : List (Option Nat)
  y : Option Nat

def ratSampleArgs (j : Json) : Except String RatSampleArgs := do
  let a ← ratArgs j
  let batch ← (← field j "batch").getNat?
  let sm ← (← field j "sum").getNat?
  if batch == 0 || sm == 0 then throw "rejected: batch and sum must be positive"
  let probs ← jList (jList (jList jRat)) (← field j "probs")
  let sumw ← jList (jList (jList (jList jRat))) (← field j "sumw")
  let rootw ← jList (jList jRat) (← field j "rootw")
  let row ← jOptNatList (← field j "row")
  if row.length != a.n then throw "row width differs from features"
  if rootw.length == 0 then throw "rejected: classes must be positive"
  let y ← match j.getObjVal? "y" with
    | .ok v => do let k ← v.getNat?; pure (some k)
    | .error _ => pure none
  match y with
  | some k => if k ≥ rootw.length then throw "class out of range"
  | none => pure ()
  let S : Spec Rat := {
    ρ := a.ρ, n := a.n, depth := a.depth, reps := a.reps, batch := batch, rgSum := sm, classes := rootw.length,
    tbl := fun i c k => let p := ((probs.getD i []).getD c []).getD k 0; [1 - p, p],
    w := fun l g o => ((sumw.getD l []).getD g []).getD o [],
    wroot := fun y => rootw.getD y [] }
  pure { S, row, y }

/-- relative margin (best − second best) / best of a candidate list with ≥ 2 entries -/
def rsRelMargin (l : List Rat) : Option Rat :=
  match listMargin l with
  | none => none
  | some m =>
    let b := l.getD (argmax l) 0
    some (if b == 0 then 0 else m / b)

def rsMinOpt (a : Option Rat) (b : Option Rat) : Option Rat :=
  match a, b with
  | none, b => b
  | a, none => a
  | some x, some y => some (if y < x then y else x)

/-- margins of the sum-layer choices along the pass (same recursion as `RatSample.mpeDown`) -/
def mpeDownMargin (w : Nat → Nat → Nat → List Rat) (rgSum : Nat) : Nat → Nat → Tab Rat → Idx → Idx × Option Rat
  | 0, _, _, io => (io, none)
  | 1, _, V, io => (prodDownI V.nodes io, none)
  | k + 2, l, V, io =>
      let V1 := prodVal V
      let (io2, m2) := mpeDownMargin w rgSum (k + 1) (l + 1) (sumVal (w l) rgSum V1) io
      let ms := List.zipWith (fun g o =>
        rsRelMargin (List.zipWith (· * ·) (w l g o) ((List.range V1.nodes).map (fun t => V1.at_ g t)))) io2.1 io2.2
      (prodDownI V.nodes (sumMpe (w l) V1 io2), ms.foldl rsMinOpt m2)

def rsShowRow (l : List Nat) : String := " ".intercalate (l.map toString)

def ratmpeText (j : Json) : Except String String := do
  let a ← ratSampleArgs j
  let S := a.S
  let e := Ev.ofList a.row
  let (y, mcls) := match a.y with
    | some y => (y, none)
    | none => (mpeClass S e, if S.classes = 1 then none else rsRelMargin ((List.range S.classes).map (fun y => forward S y e)))
  let out := mpeRow S y a.row
  -- margins
  let Vt := topVal S e
  let mroot := rsRelMargin (List.zipWith (· * ·) (S.wroot y) (flat Vt))
  let (io, msum) := mpeDownMargin S.w S.rgSum S.depth 0 (baseVal S e) (rootMpe (S.wroot y) Vt)
  if io != mpeIdx S y e then throw "internal: margin recursion disagrees with mpeDown"
  let mleaf := ((io.1.zip io.2).flatMap (fun go =>
      (List.range (S.mrow go.1).length).map (fun k =>
        if (S.prow go.1).getD k false then none
        else if (e ((S.mrow go.1).getD k 0)).isSome then none
        else rsRelMargin (S.tbl go.1 go.2 k)))).foldl rsMinOpt none
  let mg := rsMinOpt (rsMinOpt mcls mroot) (rsMinOpt msum mleaf)
  -- instance of `ratspn_mpe_is_descent`
  let t := TCirc.mpeDescent e (unrollT S y)
  if (List.range S.n).map t != out.map some then return "mpe-mismatch"
  let mgs := match mg with | some m => showRat m | none => "inf"
  return s!"{rsShowRow out} | {mgs} | {y}"

def rsClass (a : RatSampleArgs) : Nat :=
  match a.y with
  | some y => y
  | none => 0

def ratcondText (j : Json) : Except String String := do
  let a ← ratSampleArgs j
  let S := a.S
  let y := rsClass a
  let e := Ev.ofList a.row
  let c := circ S y
  let tc := unrollT S y
  let le := Circ.eval e c
  if le != forward S y e then return "pmf-mismatch forward"
  if le == 0 then return "zero-evidence"
  let vars := (List.range S.n).filter (fun v => (e v).isNone)
  let items := (completions (fun _ => 2) vars e).map (fun x =>
    (rowKey "" S.n x, condPmf S y e x, TCirc.topDownPmf e x tc, Circ.eval x c / le))
  if items.any (fun t => t.2.1 != t.2.2.1 || t.2.1 != t.2.2.2) then return "pmf-mismatch"
  return " ".intercalate (items.map (fun t => s!"{t.1}:{showRat t.2.1}"))

def ratlawText (j : Json) : Except String String := do
  let a ← ratSampleArgs j
  let S := a.S
  let y := rsClass a
  let c := circ S y
  let items := (completions (fun _ => 2) (List.range S.n) (fun _ => none)).map (fun x =>
    (rowKey "" S.n x, samplePmf S y x, Circ.eval x c))
  if items.any (fun t => t.2.1 != t.2.2) then return "law-mismatch"
  -- optional (`"rowlevel": true`): the law of the returned row with the dummy columns drawn and dropped by
  -- `unpad_samples` (`RatSample.sampleRowPmf`, instance of `ratspn_sample_rowlaw`)
  let rl ← (fieldD j "rowlevel" (Json.bool false)).getBool?
  if rl then
    let rows := (completions (fun _ => 2) (List.range S.n) (fun _ => none)).map (fun x =>
      (List.range S.n).map (fun v => (x v).getD 0))
    if rows.any (fun r => sampleRowPmf S y r != samplePmf S y (Ev.ofList (r.map some))) then
      return "law-mismatch rowlevel"
  return " ".intercalate (items.map (fun t => s!"{t.1}:{showRat t.2.1}"))

def handleRatSample (op : String) (j : Json) : Option (Except String String) :=
  match op with
  | "ratmpe" => some (ratmpeText j)
  | "ratcond" => some (ratcondText j)
  | "ratlaw" => some (ratlawText j)
  | _ => none

end Deeprob.Driver
