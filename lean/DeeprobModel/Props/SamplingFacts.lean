import DeeprobModel.Props.E2ECirc
import DeeprobModel.Spec.RealExpLog
import Mathlib.Probability.Moments.SubGaussian
import Mathlib.Probability.Independence.Basic
import Mathlib.MeasureTheory.Integral.IntegralEqImproper
import Mathlib.MeasureTheory.Constructions.Pi
import Mathlib.MeasureTheory.Measure.WithDensity
import Mathlib.Analysis.SpecialFunctions.ExpDeriv
import Mathlib.Analysis.Complex.ExponentialBounds
import Mathlib.NumberTheory.Real.Irrational
import Mathlib.Analysis.SpecialFunctions.Log.Basic
import Mathlib.Analysis.SpecialFunctions.Sqrt
set_option linter.unusedSimpArgs false
set_option linter.unusedVariables false
set_option linter.unnecessarySeqFocus false

/-
The two probabilistic facts the sampling checks of C07 / C16 used to trust (DESIGN §4 item 6), proved with Mathlib.

Part 1 (Hoeffding): `hoeffding_two_sided` — independent `[0,1]`-valued variables with mean `p`:
`P(|mean − p| ≥ ε) ≤ 2·exp(−2nε²)` (from Mathlib's `HasSubgaussianMGF` API: Hoeffding's lemma `hasSubgaussianMGF_of_mem_Icc`
and `measure_sum_ge_le_of_iIndepFun`); `two_exp_hoeffdingEps` — at the harness's radius
`hoeffding_eps(n, m) = sqrt(log(2m/δ)/(2n))` the bound is exactly `δ/m`; `union_bound` — the union-bound step over a finite
family of events; `hoeffding_family` / `hoeffding_empirical_frequencies` — the decision as `harness/c07.py` takes it: with
probability ≥ 1 − δ all (at most m) relative frequencies are within the radius of the exact probabilities.

Part 2 (Gumbel-max): the standard right-skewed Gumbel law `gumbel` (density `exp(−x − exp(−x))` w.r.t. Lebesgue measure) is a
probability measure with cdf `exp(−exp(−x))`; analytic core `integral_gumbelKernel`: `∫ exp(−x − c·exp(−x)) dx = 1/c`;
`gumbel_argmax_first` — for ANY number `n+1` of children, scores `s`, independent standard Gumbel noise:
`P(np.argmax(s + G) = k) = exp(s_k) / Σ_j exp(s_j)` (`np.argmax` = first maximal position; weak / strict variants
`gumbel_max`, `gumbel_strict_max`; ties are null: `gumbel_argmax_ae_unique`; any probability space: `gumbel_max_indep`;
max-stability `gumbel_max_law`); `gumbelMaxIdentity_real` — the named hypothesis `hGumbelMax_trusted` of
`Props/E2ECirc.lean` is a theorem for `F = ℝ`, hence `e2e_sum_sample_branch_real`, `e2e_sum_sample_exact_real`.

Still trusted after this file: that NumPy's `gumbel` / SciPy's `gumbel_r.rvs` draw from the law `gumbel` independently
(a fact about the libraries), and the DKW inequality (uniform-in-threshold band for continuous variables: the harness picks
its thresholds from the sample itself, so the pointwise Hoeffding bound proved here does not cover that stream).
-/
namespace Deeprob.SamplingFacts
open MeasureTheory ProbabilityTheory Real Set Filter
open scoped NNReal ENNReal Topology

/-! ## Part 2a — the analytic core of the Gumbel law -/

/-- the integrand `exp(−x − c·exp(−x))`; `c = 1` is the density of the standard right-skewed Gumbel law -/
noncomputable def gumbelKernel (c x : ℝ) : ℝ := Real.exp (-x - c * Real.exp (-x))

/-- its antiderivative `(1/c)·exp(−c·exp(−x))`; `c = 1` is the Gumbel cdf -/
noncomputable def gumbelAnti (c x : ℝ) : ℝ := c⁻¹ * Real.exp (-(c * Real.exp (-x)))

theorem gumbelKernel_pos (c x : ℝ) : 0 < gumbelKernel c x := Real.exp_pos _

theorem gumbelKernel_continuous (c : ℝ) : Continuous (gumbelKernel c) := by
  unfold gumbelKernel; fun_prop

theorem gumbelAnti_hasDerivAt {c : ℝ} (hc : c ≠ 0) (x : ℝ) :
    HasDerivAt (gumbelAnti c) (gumbelKernel c x) x := by
  have h1 : HasDerivAt (fun y : ℝ => Real.exp (-y)) (Real.exp (-x) * -1) x := (hasDerivAt_neg x).exp
  have h2 : HasDerivAt (fun y : ℝ => -(c * Real.exp (-y))) (-(c * (Real.exp (-x) * -1))) x :=
    (h1.const_mul c).neg
  have h3 : HasDerivAt (fun y : ℝ => c⁻¹ * Real.exp (-(c * Real.exp (-y))))
      (c⁻¹ * (Real.exp (-(c * Real.exp (-x))) * -(c * (Real.exp (-x) * -1)))) x := (h2.exp).const_mul c⁻¹
  have e : gumbelKernel c x = c⁻¹ * (Real.exp (-(c * Real.exp (-x))) * -(c * (Real.exp (-x) * -1))) := by
    unfold gumbelKernel
    rw [sub_eq_add_neg, Real.exp_add]
    field_simp
  rw [e]
  exact h3

theorem gumbelAnti_tendsto_atTop {c : ℝ} : Tendsto (gumbelAnti c) atTop (𝓝 c⁻¹) := by
  have h1 : Tendsto (fun y : ℝ => Real.exp (-y)) atTop (𝓝 0) :=
    Real.tendsto_exp_atBot.comp tendsto_neg_atTop_atBot
  have h2 : Tendsto (fun y : ℝ => -(c * Real.exp (-y))) atTop (𝓝 (-(c * 0))) :=
    (h1.const_mul c).neg
  have h3 := ((Real.continuous_exp.tendsto _).comp h2).const_mul c⁻¹
  show Tendsto (fun x => c⁻¹ * Real.exp (-(c * Real.exp (-x)))) atTop (𝓝 c⁻¹)
  simpa [Function.comp_def] using h3

theorem gumbelAnti_tendsto_atBot {c : ℝ} (hc : 0 < c) : Tendsto (gumbelAnti c) atBot (𝓝 0) := by
  have h1 : Tendsto (fun y : ℝ => Real.exp (-y)) atBot atTop :=
    Real.tendsto_exp_atTop.comp tendsto_neg_atBot_atTop
  have h2 : Tendsto (fun y : ℝ => -(c * Real.exp (-y))) atBot atBot :=
    tendsto_neg_atTop_atBot.comp (h1.const_mul_atTop hc)
  have h3 := (Real.tendsto_exp_atBot.comp h2).const_mul c⁻¹
  show Tendsto (fun x => c⁻¹ * Real.exp (-(c * Real.exp (-x)))) atBot (𝓝 0)
  simpa [Function.comp_def] using h3

theorem gumbelKernel_integrable {c : ℝ} (hc : 0 < c) : Integrable (gumbelKernel c) := by
  refine integrable_of_intervalIntegral_norm_tendsto (l := atTop) (a := fun i : ℝ => -i) (b := fun i : ℝ => i)
    (c⁻¹ - 0) (fun i => (gumbelKernel_continuous c).integrableOn_Ioc) tendsto_neg_atTop_atBot tendsto_id ?_
  have h : ∀ i : ℝ, ∫ x in (-i)..i, ‖gumbelKernel c x‖ = gumbelAnti c i - gumbelAnti c (-i) := by
    intro i
    have : (fun x => ‖gumbelKernel c x‖) = gumbelKernel c := by
      funext x; exact abs_of_pos (gumbelKernel_pos c x)
    rw [this]
    exact intervalIntegral.integral_eq_sub_of_hasDerivAt (fun x _ => gumbelAnti_hasDerivAt hc.ne' x)
      ((gumbelKernel_continuous c).intervalIntegrable _ _)
  simp_rw [h]
  exact gumbelAnti_tendsto_atTop.sub ((gumbelAnti_tendsto_atBot hc).comp tendsto_neg_atTop_atBot)

/-- **the analytic core**: `∫ exp(−x − c·exp(−x)) dx = 1/c` over the whole line, for every `c > 0` (substitution
`u = exp(−x)`, done here through the antiderivative `(1/c)·exp(−c·exp(−x))`). -/
theorem integral_gumbelKernel {c : ℝ} (hc : 0 < c) : ∫ x, gumbelKernel c x = c⁻¹ := by
  have := integral_of_hasDerivAt_of_tendsto (fun x => gumbelAnti_hasDerivAt hc.ne' x)
    (gumbelKernel_integrable hc) (gumbelAnti_tendsto_atBot hc) gumbelAnti_tendsto_atTop
  simpa using this

/-- the partial integral: `∫_{−∞}^{a} exp(−x − c·exp(−x)) dx = (1/c)·exp(−c·exp(−a))` -/
theorem integral_Iic_gumbelKernel {c : ℝ} (hc : 0 < c) (a : ℝ) :
    ∫ x in Iic a, gumbelKernel c x = gumbelAnti c a := by
  have := integral_Iic_of_hasDerivAt_of_tendsto' (a := a) (fun x _ => gumbelAnti_hasDerivAt hc.ne' x)
    (gumbelKernel_integrable hc).integrableOn (gumbelAnti_tendsto_atBot hc)
  simpa using this

/-- non-vacuity: `∫ exp(−x − 3·exp(−x)) dx = 1/3` -/
example : ∫ x : ℝ, Real.exp (-x - 3 * Real.exp (-x)) = 1 / 3 := by
  have := integral_gumbelKernel (c := 3) (by norm_num)
  simpa [gumbelKernel] using this

/-! ## Part 2b — the standard (right-skewed) Gumbel law -/

/-- density of `scipy.stats.gumbel_r` / `numpy.random.gumbel(0, 1)`: `exp(−x − exp(−x))` -/
noncomputable def gumbelPdf (x : ℝ) : ℝ := Real.exp (-x - Real.exp (-x))

/-- its cdf `exp(−exp(−x))` -/
noncomputable def gumbelCdf (x : ℝ) : ℝ := Real.exp (-Real.exp (-x))

/-- the standard right-skewed Gumbel law, as the measure with density `gumbelPdf` w.r.t. Lebesgue measure -/
noncomputable def gumbel : Measure ℝ := volume.withDensity (fun x => ENNReal.ofReal (gumbelPdf x))

theorem gumbelPdf_eq_kernel : gumbelPdf = gumbelKernel 1 := by
  funext x; simp [gumbelPdf, gumbelKernel]

theorem gumbelCdf_eq_anti : gumbelCdf = gumbelAnti 1 := by
  funext x; simp [gumbelCdf, gumbelAnti]

theorem gumbelPdf_pos (x : ℝ) : 0 < gumbelPdf x := Real.exp_pos _
theorem gumbelCdf_pos (x : ℝ) : 0 < gumbelCdf x := Real.exp_pos _

theorem measurable_gumbelPdf : Measurable gumbelPdf := by
  rw [gumbelPdf_eq_kernel]; exact (gumbelKernel_continuous 1).measurable

theorem lintegral_gumbelKernel {c : ℝ} (hc : 0 < c) :
    ∫⁻ x, ENNReal.ofReal (gumbelKernel c x) = ENNReal.ofReal c⁻¹ := by
  rw [← ofReal_integral_eq_lintegral_ofReal (gumbelKernel_integrable hc)
    (Eventually.of_forall fun x => (gumbelKernel_pos c x).le), integral_gumbelKernel hc]

/-- **the Gumbel density integrates to one**: `gumbel` is a probability measure -/
instance gumbel_isProbabilityMeasure : IsProbabilityMeasure gumbel := by
  refine ⟨?_⟩
  rw [gumbel, withDensity_apply _ MeasurableSet.univ, Measure.restrict_univ, gumbelPdf_eq_kernel,
    lintegral_gumbelKernel one_pos]
  simp

theorem gumbel_absolutelyContinuous : gumbel ≪ volume := withDensity_absolutelyContinuous _ _

instance gumbel_nullSingleton : NullSingletonClass gumbel := ⟨fun x => gumbel_absolutelyContinuous (measure_singleton x)⟩

/-- **the cdf of the Gumbel law**: `P(G ≤ a) = exp(−exp(−a))` -/
theorem gumbel_Iic (a : ℝ) : gumbel (Iic a) = ENNReal.ofReal (gumbelCdf a) := by
  rw [gumbel, withDensity_apply _ measurableSet_Iic, gumbelPdf_eq_kernel, gumbelCdf_eq_anti,
    ← ofReal_integral_eq_lintegral_ofReal (gumbelKernel_integrable one_pos).integrableOn
      (Eventually.of_forall fun x => (gumbelKernel_pos 1 x).le), integral_Iic_gumbelKernel one_pos]

theorem gumbel_Iio (a : ℝ) : gumbel (Iio a) = ENNReal.ofReal (gumbelCdf a) := by
  rw [measure_congr (Iio_ae_eq_Iic (μ := gumbel) (a := a)), gumbel_Iic]

/-- integrals against the Gumbel law are integrals against its density -/
theorem lintegral_gumbel {f : ℝ → ℝ≥0∞} (hf : Measurable f) :
    ∫⁻ x, f x ∂gumbel = ∫⁻ x, ENNReal.ofReal (gumbelPdf x) * f x := by
  rw [gumbel, lintegral_withDensity_eq_lintegral_mul _ measurable_gumbelPdf.ennreal_ofReal hf]
  rfl

/-- non-vacuity: `P(G ≤ 0) = e⁻¹` -/
example : gumbel (Iic 0) = ENNReal.ofReal (Real.exp (-1)) := by
  simpa [gumbelCdf] using gumbel_Iic 0

theorem gumbel_real_Iic (a : ℝ) : gumbel.real (Iic a) = gumbelCdf a := by
  rw [Measure.real, gumbel_Iic, ENNReal.toReal_ofReal (gumbelCdf_pos a).le]

/-! ## Part 2c — the Gumbel-max identity -/

section GumbelMax
variable {n : ℕ}

/-- the joint law of `n` independent standard Gumbel variables (one per child of the sum node) -/
noncomputable def gumbelNoise (n : ℕ) : Measure (Fin n → ℝ) := Measure.pi fun _ => gumbel

instance (n : ℕ) : IsProbabilityMeasure (gumbelNoise n) := by unfold gumbelNoise; infer_instance

/-- density × product of shifted cdfs is again a kernel `exp(−x − C·exp(−x))` -/
theorem gumbelPdf_mul_prod_cdf (c : Fin n → ℝ) (x : ℝ) :
    gumbelPdf x * ∏ j, gumbelCdf (x + c j) = gumbelKernel (1 + ∑ j, Real.exp (-c j)) x := by
  unfold gumbelPdf gumbelCdf gumbelKernel
  rw [← Real.exp_sum, ← Real.exp_add]
  congr 1
  have : ∀ j, Real.exp (-(x + c j)) = Real.exp (-x) * Real.exp (-c j) := by
    intro j; rw [← Real.exp_add]; congr 1; ring
  simp_rw [this]
  rw [Finset.sum_neg_distrib, ← Finset.mul_sum]
  ring

/-- the integral `∫ f(x)·Π_j F(x + c_j) dx = 1 / (1 + Σ_j exp(−c_j))` of the task statement -/
theorem lintegral_gumbel_prod_cdf (c : Fin n → ℝ) :
    ∫⁻ x, ∏ j, ENNReal.ofReal (gumbelCdf (x + c j)) ∂gumbel
      = ENNReal.ofReal (1 + ∑ j, Real.exp (-c j))⁻¹ := by
  have hC : 0 < 1 + ∑ j, Real.exp (-c j) :=
    add_pos_of_pos_of_nonneg one_pos (Finset.sum_nonneg fun j _ => (Real.exp_pos _).le)
  have hm : Measurable fun x : ℝ => ∏ j, ENNReal.ofReal (gumbelCdf (x + c j)) := by
    refine Finset.measurable_prod _ fun j _ => ENNReal.measurable_ofReal.comp ?_
    unfold gumbelCdf
    exact (Real.continuous_exp.comp (Real.continuous_exp.comp
      ((continuous_id.add continuous_const).neg)).neg).measurable
  rw [lintegral_gumbel hm, ← lintegral_gumbelKernel hC]
  congr 1
  funext x
  rw [← ENNReal.ofReal_prod_of_nonneg (fun j _ => (gumbelCdf_pos _).le),
    ← ENNReal.ofReal_mul (gumbelPdf_pos x).le, gumbelPdf_mul_prod_cdf]

/-- **Gumbel-max, core statement.**  `k` is one of `n+1` positions with scores `s`; every other position `j` is compared
with `k` either strictly (`strict j`) or weakly.  Under independent standard Gumbel noise the probability that `k` beats
every other position is the soft-max weight `exp(s k) / Σ_j exp(s j)`. -/
theorem gumbel_win_core (k : Fin (n + 1)) (s : Fin (n + 1) → ℝ) (strict : Fin (n + 1) → Prop)
    [DecidablePred strict] :
    gumbelNoise (n + 1)
        {g | ∀ j, j ≠ k → if strict j then s j + g j < s k + g k else s j + g j ≤ s k + g k}
      = ENNReal.ofReal (Real.exp (s k) / ∑ j, Real.exp (s j)) := by
  set c : Fin n → ℝ := fun j => s k - s (k.succAbove j) with hc
  set A : Fin n → ℝ → Set ℝ :=
    fun j x => if strict (k.succAbove j) then Iio (x + c j) else Iic (x + c j) with hA
  set E' : Set (ℝ × (Fin n → ℝ)) := {p | ∀ j, p.2 j ∈ A j p.1} with hE'
  have hpre : {g : Fin (n + 1) → ℝ |
      ∀ j, j ≠ k → if strict j then s j + g j < s k + g k else s j + g j ≤ s k + g k}
      = (MeasurableEquiv.piFinSuccAbove (fun _ => ℝ) k) ⁻¹' E' := by
    ext g
    simp only [Set.mem_ofPred_eq, mem_preimage, hE', hA, MeasurableEquiv.piFinSuccAbove_apply]
    rw [Fin.forall_iff_succAbove k]
    simp only [ne_eq, not_true_eq_false, false_imp_iff, true_and]
    refine forall_congr' fun j => ?_
    have hne : k.succAbove j ≠ k := Fin.succAbove_ne k j
    simp only [hne, not_false_eq_true, true_imp_iff, Fin.insertNthEquiv, Equiv.coe_fn_symm_mk,
      Fin.removeNth, hc]
    split_ifs <;> simp only [mem_Iio, mem_Iic] <;> constructor <;> intro h <;> linarith
  have hmeas : MeasurableSet E' := by
    have : E' = ⋂ j, {p : ℝ × (Fin n → ℝ) | p.2 j ∈ A j p.1} := by ext p; simp [hE']
    rw [this]
    refine MeasurableSet.iInter fun j => ?_
    have h1 : Measurable fun p : ℝ × (Fin n → ℝ) => p.2 j := (measurable_pi_apply j).comp measurable_snd
    have h2 : Measurable fun p : ℝ × (Fin n → ℝ) => p.1 + c j := measurable_fst.add_const _
    by_cases hs : strict (k.succAbove j)
    · simp only [hA, hs, if_true, mem_Iio]; exact measurableSet_lt h1 h2
    · simp only [hA, hs, if_false, mem_Iic]; exact measurableSet_le h1 h2
  have hsec : ∀ x : ℝ, (Measure.pi fun _ : Fin n => gumbel) (Prod.mk x ⁻¹' E')
      = ∏ j, ENNReal.ofReal (gumbelCdf (x + c j)) := by
    intro x
    have : Prod.mk x ⁻¹' E' = Set.pi univ fun j => A j x := by ext h; simp [hE']
    rw [this, Measure.pi_pi]
    refine Finset.prod_congr rfl fun j _ => ?_
    by_cases hs : strict (k.succAbove j)
    · simp only [hA, hs, if_true]; exact gumbel_Iio _
    · simp only [hA, hs, if_false]; exact gumbel_Iic _
  rw [hpre, gumbelNoise,
    (measurePreserving_piFinSuccAbove (fun _ : Fin (n + 1) => gumbel) k).measure_preimage_equiv,
    Measure.prod_apply hmeas]
  simp_rw [hsec]
  rw [lintegral_gumbel_prod_cdf]
  congr 1
  rw [Fin.sum_univ_succAbove _ k]
  have : ∀ j, Real.exp (-c j) = Real.exp (s (k.succAbove j)) / Real.exp (s k) := by
    intro j; rw [← Real.exp_sub]; congr 1; simp [hc]
  simp_rw [this]
  have hk : 0 < Real.exp (s k) := Real.exp_pos _
  rw [← Finset.sum_div]
  field_simp

/-- `k` is what `np.argmax(v)` returns: the FIRST position holding the maximum of `v` -/
def IsFirstArgmax (v : Fin n → ℝ) (k : Fin n) : Prop := (∀ j, j < k → v j < v k) ∧ ∀ j, k < j → v j ≤ v k

theorem measurableSet_isFirstArgmax (s : Fin n → ℝ) (k : Fin n) :
    MeasurableSet {g : Fin n → ℝ | IsFirstArgmax (fun j => s j + g j) k} := by
  have hc : ∀ j : Fin n, Measurable fun g : Fin n → ℝ => s j + g j :=
    fun j => (measurable_pi_apply j).const_add _
  have : {g : Fin n → ℝ | IsFirstArgmax (fun j => s j + g j) k}
      = (⋂ j, ⋂ (_ : j < k), {g | s j + g j < s k + g k}) ∩ ⋂ j, ⋂ (_ : k < j), {g | s j + g j ≤ s k + g k} := by
    ext g; simp [IsFirstArgmax]
  rw [this]
  exact (MeasurableSet.iInter fun j => MeasurableSet.iInter fun _ => measurableSet_lt (hc j) (hc k)).inter
    (MeasurableSet.iInter fun j => MeasurableSet.iInter fun _ => measurableSet_le (hc j) (hc k))

/-- **Gumbel-max for the selector as coded (`np.argmax`, first maximum), any number of children**: for scores
`s_0 … s_n` and independent standard Gumbel noise `G_j`, `P(np.argmax_j (s_j + G_j) = k) = exp(s_k) / Σ_j exp(s_j)`. -/
theorem gumbel_argmax_first (k : Fin (n + 1)) (s : Fin (n + 1) → ℝ) :
    gumbelNoise (n + 1) {g | IsFirstArgmax (fun j => s j + g j) k}
      = ENNReal.ofReal (Real.exp (s k) / ∑ j, Real.exp (s j)) := by
  classical
  rw [← gumbel_win_core k s (fun j => j < k)]
  congr 1
  ext g
  simp only [Set.mem_ofPred_eq, IsFirstArgmax]
  constructor
  · rintro ⟨h1, h2⟩ j hj
    split_ifs with hlt
    · exact h1 j hlt
    · exact h2 j (lt_of_le_of_ne (not_lt.1 hlt) (Ne.symm hj))
  · intro h
    refine ⟨fun j hj => ?_, fun j hj => ?_⟩
    · have := h j hj.ne; rwa [if_pos hj] at this
    · have := h j hj.ne'; rwa [if_neg (not_lt.2 hj.le)] at this

/-- **Gumbel-max, weak form**: `P(s_k + G_k ≥ s_j + G_j for all j) = exp(s_k) / Σ_j exp(s_j)`. -/
theorem gumbel_max (k : Fin (n + 1)) (s : Fin (n + 1) → ℝ) :
    gumbelNoise (n + 1) {g | ∀ j, s j + g j ≤ s k + g k}
      = ENNReal.ofReal (Real.exp (s k) / ∑ j, Real.exp (s j)) := by
  classical
  rw [← gumbel_win_core k s (fun _ => False)]
  congr 1
  ext g
  simp only [Set.mem_ofPred_eq, if_false]
  constructor
  · intro h j _; exact h j
  · intro h j
    by_cases hj : j = k
    · subst hj; exact le_rfl
    · exact h j hj

/-- **Gumbel-max, strict form**: `P(s_k + G_k > s_j + G_j for all j ≠ k)` is the same number. -/
theorem gumbel_strict_max (k : Fin (n + 1)) (s : Fin (n + 1) → ℝ) :
    gumbelNoise (n + 1) {g | ∀ j, j ≠ k → s j + g j < s k + g k}
      = ENNReal.ofReal (Real.exp (s k) / ∑ j, Real.exp (s j)) := by
  classical
  rw [← gumbel_win_core k s (fun _ => True)]
  simp only [if_true]

/-- ties at the maximum have probability zero: almost surely the arg-max is unique (so the tie-breaking rule of
`np.argmax` does not influence the law) -/
theorem gumbel_argmax_ae_unique (s : Fin (n + 1) → ℝ) :
    ∀ᵐ g ∂gumbelNoise (n + 1), ∀ k, (∀ j, s j + g j ≤ s k + g k) → ∀ j, j ≠ k → s j + g j < s k + g k := by
  rw [ae_all_iff]
  intro k
  rw [ae_iff]
  have hc : ∀ j : Fin (n + 1), Measurable fun g : Fin (n + 1) → ℝ => s j + g j :=
    fun j => (measurable_pi_apply j).const_add _
  have hS : MeasurableSet {g : Fin (n + 1) → ℝ | ∀ j, j ≠ k → s j + g j < s k + g k} := by
    have : {g : Fin (n + 1) → ℝ | ∀ j, j ≠ k → s j + g j < s k + g k}
        = ⋂ j, ⋂ (_ : j ≠ k), {g | s j + g j < s k + g k} := by ext g; simp
    rw [this]
    exact MeasurableSet.iInter fun j => MeasurableSet.iInter fun _ => measurableSet_lt (hc j) (hc k)
  have hsub : {g : Fin (n + 1) → ℝ | ∀ j, j ≠ k → s j + g j < s k + g k} ⊆ {g | ∀ j, s j + g j ≤ s k + g k} := by
    intro g h j
    by_cases hj : j = k
    · subst hj; exact le_rfl
    · exact (h j hj).le
  have hset : {g : Fin (n + 1) → ℝ |
      ¬((∀ j, s j + g j ≤ s k + g k) → ∀ j, j ≠ k → s j + g j < s k + g k)}
      = {g | ∀ j, s j + g j ≤ s k + g k} \ {g | ∀ j, j ≠ k → s j + g j < s k + g k} := by
    ext g; simp only [Set.mem_ofPred_eq, Set.mem_sdiff, Classical.not_imp]
  rw [hset, measure_sdiff hsub hS.nullMeasurableSet (measure_ne_top _ _), gumbel_max, gumbel_strict_max, tsub_self]

/-- **the categorical form**: for positive (not necessarily normalised) weights `p_j`,
`P(np.argmax_j (log p_j + G_j) = k) = p_k / Σ_j p_j` — `argmax(log p + G) ~ Categorical(p / Σ p)`. -/
theorem gumbel_max_categorical (k : Fin (n + 1)) (p : Fin (n + 1) → ℝ) (hp : ∀ j, 0 < p j) :
    gumbelNoise (n + 1) {g | IsFirstArgmax (fun j => Real.log (p j) + g j) k}
      = ENNReal.ofReal (p k / ∑ j, p j) := by
  rw [gumbel_argmax_first k (fun j => Real.log (p j))]
  simp only [Real.exp_log (hp _)]

/-- the soft-max weights add up to one: the events `{np.argmax = k}` exhaust the probability -/
theorem softmax_sum_one (s : Fin (n + 1) → ℝ) : ∑ k, Real.exp (s k) / ∑ j, Real.exp (s j) = 1 := by
  have : 0 < ∑ j, Real.exp (s j) := Finset.sum_pos (fun j _ => Real.exp_pos _) Finset.univ_nonempty
  rw [← Finset.sum_div, div_self this.ne']

/-- **max-stability**: the maximum of independent shifted Gumbel variables is a Gumbel variable shifted by the
log-sum-exp: `P(max_j (s_j + G_j) ≤ x) = F(x − log Σ_j exp(s_j))`. -/
theorem gumbel_max_law (s : Fin (n + 1) → ℝ) (x : ℝ) :
    gumbelNoise (n + 1) {g | ∀ j, s j + g j ≤ x}
      = ENNReal.ofReal (gumbelCdf (x - Real.log (∑ j, Real.exp (s j)))) := by
  have hpos : 0 < ∑ j, Real.exp (s j) := Finset.sum_pos (fun j _ => Real.exp_pos _) Finset.univ_nonempty
  have : {g : Fin (n + 1) → ℝ | ∀ j, s j + g j ≤ x} = Set.pi univ fun j => Iic (x - s j) := by
    ext g; simp only [Set.mem_ofPred_eq, Set.mem_pi, mem_univ, true_imp_iff, mem_Iic]
    exact forall_congr' fun j => by constructor <;> intro h <;> linarith
  rw [this, gumbelNoise, Measure.pi_pi]
  simp_rw [gumbel_Iic]
  rw [← ENNReal.ofReal_prod_of_nonneg (fun j _ => (gumbelCdf_pos _).le)]
  congr 1
  unfold gumbelCdf
  rw [← Real.exp_sum]
  congr 1
  rw [Finset.sum_neg_distrib, neg_inj, neg_sub, Real.exp_sub, Real.exp_log hpos, div_eq_mul_inv, Finset.sum_mul]
  refine Finset.sum_congr rfl fun j _ => ?_
  rw [← Real.exp_neg x, ← Real.exp_add]
  congr 1; ring

/-- **Gumbel-max on an arbitrary probability space**: `G_0 … G_n` independent, each with the standard Gumbel law. -/
theorem gumbel_max_indep {Ω : Type*} {mΩ : MeasurableSpace Ω} {μ : Measure Ω} (G : Fin (n + 1) → Ω → ℝ)
    (hG : ∀ i, Measurable (G i)) (h_indep : iIndepFun G μ) (hlaw : ∀ i, μ.map (G i) = gumbel)
    (s : Fin (n + 1) → ℝ) (k : Fin (n + 1)) :
    μ {ω | IsFirstArgmax (fun j => s j + G j ω) k} = ENNReal.ofReal (Real.exp (s k) / ∑ j, Real.exp (s j)) := by
  have : IsProbabilityMeasure μ := h_indep.isProbabilityMeasure
  have hmap := (iIndepFun_iff_map_fun_eq_pi_map (fun i => (hG i).aemeasurable)).1 h_indep
  simp_rw [hlaw] at hmap
  rw [← gumbel_argmax_first k s, gumbelNoise, ← hmap,
    Measure.map_apply (measurable_pi_lambda _ hG) (measurableSet_isFirstArgmax s k)]
  rfl

/-- **`gumbel_max_two`** — the one-integral case of the task statement: two children with scores `a`, `b`:
`P(a + G₀ ≥ b + G₁) = exp a / (exp a + exp b)`. -/
theorem gumbel_max_two (a b : ℝ) :
    gumbelNoise 2 {g | b + g 1 ≤ a + g 0} = ENNReal.ofReal (Real.exp a / (Real.exp a + Real.exp b)) := by
  have h := gumbel_max (n := 1) (0 : Fin 2) ![a, b]
  have hs : ∑ j : Fin 2, Real.exp (![a, b] j) = Real.exp a + Real.exp b := by simp [Fin.sum_univ_two]
  have hset : {g : Fin 2 → ℝ | b + g 1 ≤ a + g 0} = {g | ∀ j : Fin 2, ![a, b] j + g j ≤ ![a, b] 0 + g 0} := by
    ext g; simp [Fin.forall_fin_two]
  rw [hset, ← hs]
  exact h

/-- non-vacuity (the weights of finding F4): `P(np.argmax(log(0.7, 0.2, 0.1) + G) = 0) = 0.7` -/
example : gumbelNoise 3 {g | IsFirstArgmax (fun j => Real.log (![7/10, 2/10, 1/10] j) + g j) 0}
    = ENNReal.ofReal (7/10) := by
  rw [gumbel_max_categorical (n := 2) 0 _ (by intro j; fin_cases j <;> simp)]
  congr 1
  simp [Fin.sum_univ_three]
  norm_num

/-- non-vacuity of `gumbel_max_two`: equal scores give one half -/
example : gumbelNoise 2 {g | 0 + g 1 ≤ 0 + g 0} = ENNReal.ofReal (1/2) := by
  rw [gumbel_max_two]; norm_num

end GumbelMax

/-! ## Part 1 — Hoeffding's inequality for bounded means, the harness's `hoeffding_eps`, the union bound -/

section Hoeffding
variable {Ω : Type*} {mΩ : MeasurableSpace Ω} {μ : Measure Ω} {ι : Type*}

/-- the empirical mean of the variables indexed by `s` -/
noncomputable def empMean (X : ι → Ω → ℝ) (s : Finset ι) (ω : Ω) : ℝ := (∑ i ∈ s, X i ω) / s.card

/-- **Hoeffding, upper tail**: independent `X i` (`i ∈ s`) with values in `[0, 1]` and common mean `p`:
`P(mean − p ≥ ε) ≤ exp(−2·n·ε²)`, `n = s.card`. -/
theorem hoeffding_upper {X : ι → Ω → ℝ} (h_indep : iIndepFun X μ) (s : Finset ι) (hs : s.Nonempty)
    (hm : ∀ i ∈ s, AEMeasurable (X i) μ) (hb : ∀ i ∈ s, ∀ᵐ ω ∂μ, X i ω ∈ Icc (0 : ℝ) 1)
    {p : ℝ} (hmean : ∀ i ∈ s, μ[X i] = p) {ε : ℝ} (hε : 0 ≤ ε) :
    μ.real {ω | ε ≤ empMean X s ω - p} ≤ Real.exp (-2 * s.card * ε ^ 2) := by
  have : IsProbabilityMeasure μ := h_indep.isProbabilityMeasure
  have hn : (0 : ℝ) < s.card := by exact_mod_cast hs.card_pos
  have hY : iIndepFun (fun i ω => X i ω - μ[X i]) μ :=
    h_indep.comp (fun i x => x - ∫ ω, X i ω ∂μ) (fun i => measurable_id.sub_const _)
  have hsub : ∀ i ∈ s, HasSubgaussianMGF (fun ω => X i ω - μ[X i]) ((‖(1 : ℝ) - 0‖₊ / 2) ^ 2) μ :=
    fun i hi => hasSubgaussianMGF_of_mem_Icc (hm i hi) (hb i hi)
  have key := HasSubgaussianMGF.measure_sum_ge_le_of_iIndepFun hY (c := fun _ => (‖(1 : ℝ) - 0‖₊ / 2) ^ 2)
    (s := s) hsub (ε := s.card * ε) (by positivity)
  have hset : {ω | ε ≤ empMean X s ω - p} = {ω | s.card * ε ≤ ∑ i ∈ s, (X i ω - μ[X i])} := by
    ext ω
    simp only [Set.mem_ofPred_eq, empMean, Finset.sum_sub_distrib]
    rw [Finset.sum_congr rfl hmean, Finset.sum_const, nsmul_eq_mul, le_sub_iff_add_le, le_sub_iff_add_le,
      le_div_iff₀ hn]
    constructor <;> intro h <;> nlinarith
  rw [hset]
  refine key.trans_eq ?_
  congr 1
  simp only [Finset.sum_const, nsmul_eq_mul, sub_zero, nnnorm_one, NNReal.coe_mul, NNReal.coe_natCast,
    NNReal.coe_pow, NNReal.coe_div, NNReal.coe_one, NNReal.coe_ofNat]
  field_simp

/-- **Hoeffding, lower tail**: `P(p − mean ≥ ε) ≤ exp(−2·n·ε²)` (the upper tail of `1 − X i`). -/
theorem hoeffding_lower {X : ι → Ω → ℝ} (h_indep : iIndepFun X μ) (s : Finset ι) (hs : s.Nonempty)
    (hm : ∀ i ∈ s, AEMeasurable (X i) μ) (hb : ∀ i ∈ s, ∀ᵐ ω ∂μ, X i ω ∈ Icc (0 : ℝ) 1)
    {p : ℝ} (hmean : ∀ i ∈ s, μ[X i] = p) {ε : ℝ} (hε : 0 ≤ ε) :
    μ.real {ω | ε ≤ p - empMean X s ω} ≤ Real.exp (-2 * s.card * ε ^ 2) := by
  have : IsProbabilityMeasure μ := h_indep.isProbabilityMeasure
  have hn : (0 : ℝ) < s.card := by exact_mod_cast hs.card_pos
  have hY : iIndepFun (fun i ω => 1 - X i ω) μ :=
    h_indep.comp (fun i x => 1 - x) (fun i => measurable_const.sub measurable_id)
  have hint : ∀ i ∈ s, Integrable (X i) μ := fun i hi => Integrable.of_mem_Icc 0 1 (hm i hi) (hb i hi)
  have key := hoeffding_upper hY s hs (fun i hi => (hm i hi).const_sub 1)
    (fun i hi => by filter_upwards [hb i hi] with ω h; exact ⟨by linarith [h.2], by linarith [h.1]⟩)
    (p := 1 - p)
    (fun i hi => by
      show ∫ ω, (1 - X i ω) ∂μ = 1 - p
      rw [integral_sub (integrable_const _) (hint i hi), hmean i hi]; simp) hε
  refine le_trans (le_of_eq ?_) key
  congr 1
  ext ω
  simp only [Set.mem_ofPred_eq, empMean, Finset.sum_sub_distrib, Finset.sum_const, nsmul_eq_mul, mul_one]
  rw [sub_div, div_self hn.ne']
  constructor <;> intro h <;> linarith

/-- **Hoeffding's inequality for a bounded mean (two-sided)**: for independent `X i`, `i ∈ s`, with values in `[0, 1]`
and mean `p` each (i.i.d. Bernoulli(`p`) indicators in C07 / C16), `P(|mean − p| ≥ ε) ≤ 2·exp(−2·n·ε²)`. -/
theorem hoeffding_two_sided {X : ι → Ω → ℝ} (h_indep : iIndepFun X μ) (s : Finset ι) (hs : s.Nonempty)
    (hm : ∀ i ∈ s, AEMeasurable (X i) μ) (hb : ∀ i ∈ s, ∀ᵐ ω ∂μ, X i ω ∈ Icc (0 : ℝ) 1)
    {p : ℝ} (hmean : ∀ i ∈ s, μ[X i] = p) {ε : ℝ} (hε : 0 ≤ ε) :
    μ.real {ω | ε ≤ |empMean X s ω - p|} ≤ 2 * Real.exp (-2 * s.card * ε ^ 2) := by
  have hsub : {ω | ε ≤ |empMean X s ω - p|} ⊆ {ω | ε ≤ empMean X s ω - p} ∪ {ω | ε ≤ p - empMean X s ω} := by
    intro ω h
    simp only [Set.mem_ofPred_eq, mem_union] at h ⊢
    rcases le_abs'.1 h with h | h
    · right; linarith
    · left; exact h
  have : IsProbabilityMeasure μ := h_indep.isProbabilityMeasure
  calc μ.real {ω | ε ≤ |empMean X s ω - p|}
      ≤ μ.real ({ω | ε ≤ empMean X s ω - p} ∪ {ω | ε ≤ p - empMean X s ω}) := measureReal_mono hsub
    _ ≤ μ.real {ω | ε ≤ empMean X s ω - p} + μ.real {ω | ε ≤ p - empMean X s ω} := measureReal_union_le _ _
    _ ≤ Real.exp (-2 * s.card * ε ^ 2) + Real.exp (-2 * s.card * ε ^ 2) :=
        add_le_add (hoeffding_upper h_indep s hs hm hb hmean hε) (hoeffding_lower h_indep s hs hm hb hmean hε)
    _ = 2 * Real.exp (-2 * s.card * ε ^ 2) := by ring

/-- `harness/c07.py: hoeffding_eps(n, m_pairs)` with `FWER = δ`: `sqrt(log(2·m / δ) / (2·n))` -/
noncomputable def hoeffdingEps (n m : ℕ) (δ : ℝ) : ℝ := Real.sqrt (Real.log (2 * m / δ) / (2 * n))

theorem hoeffdingEps_nonneg (n m : ℕ) (δ : ℝ) : 0 ≤ hoeffdingEps n m δ := Real.sqrt_nonneg _

/-- with the harness's radius the two-sided Hoeffding bound is exactly `δ / m` -/
theorem two_exp_hoeffdingEps {n m : ℕ} (hn : 0 < n) (hm : 0 < m) {δ : ℝ} (hδ : 0 < δ) (hδm : δ ≤ 2 * m) :
    2 * Real.exp (-2 * n * hoeffdingEps n m δ ^ 2) = δ / m := by
  have hn' : (0 : ℝ) < n := by exact_mod_cast hn
  have hm' : (0 : ℝ) < m := by exact_mod_cast hm
  have h1 : 1 ≤ 2 * (m : ℝ) / δ := by rw [le_div_iff₀ hδ]; linarith
  have hlog : 0 ≤ Real.log (2 * m / δ) := Real.log_nonneg h1
  unfold hoeffdingEps
  rw [Real.sq_sqrt (div_nonneg hlog (by positivity))]
  have : -2 * (n : ℝ) * (Real.log (2 * m / δ) / (2 * n)) = -Real.log (2 * m / δ) := by field_simp
  rw [this, Real.exp_neg, Real.exp_log (by positivity)]
  field_simp

/-- **each statistic fails with probability at most `δ / m`** at the harness's radius -/
theorem hoeffding_harness_single {X : ι → Ω → ℝ} (h_indep : iIndepFun X μ) (s : Finset ι) (hs : s.Nonempty)
    (hm : ∀ i ∈ s, AEMeasurable (X i) μ) (hb : ∀ i ∈ s, ∀ᵐ ω ∂μ, X i ω ∈ Icc (0 : ℝ) 1)
    {p : ℝ} (hmean : ∀ i ∈ s, μ[X i] = p) {m : ℕ} (hm0 : 0 < m) {δ : ℝ} (hδ : 0 < δ) (hδm : δ ≤ 2 * m) :
    μ.real {ω | hoeffdingEps s.card m δ ≤ |empMean X s ω - p|} ≤ δ / m :=
  (hoeffding_two_sided h_indep s hs hm hb hmean (hoeffdingEps_nonneg _ _ _)).trans_eq
    (two_exp_hoeffdingEps hs.card_pos hm0 hδ hδm)

/-- **the union-bound step**, over a finite family of events: if each of at most `m` events has probability at most
`δ / m`, the probability that ANY of them happens is at most `δ`.  No independence between the events is needed. -/
theorem union_bound {α : Type*} (t : Finset α) (E : α → Set Ω) {m : ℕ} (hm0 : 0 < m) (htm : t.card ≤ m)
    {δ : ℝ} (hδ : 0 ≤ δ) (h : ∀ a ∈ t, μ.real (E a) ≤ δ / m) :
    μ.real (⋃ a ∈ t, E a) ≤ δ := by
  have hm' : (0 : ℝ) < m := by exact_mod_cast hm0
  calc μ.real (⋃ a ∈ t, E a) ≤ ∑ a ∈ t, μ.real (E a) := measureReal_biUnion_finset_le t E
    _ ≤ ∑ _a ∈ t, δ / m := Finset.sum_le_sum h
    _ = t.card * (δ / m) := by rw [Finset.sum_const, nsmul_eq_mul]
    _ ≤ m * (δ / m) := by
        have : (t.card : ℝ) ≤ m := by exact_mod_cast htm
        exact mul_le_mul_of_nonneg_right this (by positivity)
    _ = δ := by field_simp

/-- **the statistical decision of C07 / C16 at family-wise level `δ`**: `t` is a family of at most `m` statistics; statistic
`a` is the mean of `n = s.card` variables `X a i` with values in `[0, 1]`, independent in `i` (NOT assumed independent across
`a`: the indicators of different outcomes are computed from the same draws), each with mean `p a` (the exact probability
computed by the model).  The probability that ANY empirical mean is at distance `≥ hoeffding_eps(n, m)` from its exact
value is at most `δ` — so a reported deviation is, with probability `≥ 1 − δ`, not a sampling accident. -/
theorem hoeffding_family {α : Type*} (t : Finset α) (X : α → ι → Ω → ℝ) (p : α → ℝ) (s : Finset ι) (hs : s.Nonempty)
    (h_indep : ∀ a ∈ t, iIndepFun (X a) μ)
    (hm : ∀ a ∈ t, ∀ i ∈ s, AEMeasurable (X a i) μ) (hb : ∀ a ∈ t, ∀ i ∈ s, ∀ᵐ ω ∂μ, X a i ω ∈ Icc (0 : ℝ) 1)
    (hmean : ∀ a ∈ t, ∀ i ∈ s, μ[X a i] = p a)
    {m : ℕ} (hm0 : 0 < m) (htm : t.card ≤ m) {δ : ℝ} (hδ : 0 < δ) (hδm : δ ≤ 2 * m) :
    μ.real {ω | ∃ a ∈ t, hoeffdingEps s.card m δ ≤ |empMean (X a) s ω - p a|} ≤ δ := by
  have hset : {ω | ∃ a ∈ t, hoeffdingEps s.card m δ ≤ |empMean (X a) s ω - p a|}
      = ⋃ a ∈ t, {ω | hoeffdingEps s.card m δ ≤ |empMean (X a) s ω - p a|} := by
    ext ω; simp
  rw [hset]
  exact union_bound t _ hm0 htm hδ.le fun a ha =>
    hoeffding_harness_single (h_indep a ha) s hs (hm a ha) (hb a ha) (hmean a ha) hm0 hδ hδm

/-- non-vacuity of `two_exp_hoeffdingEps` at the harness's numbers (N = 200000 draws, m = 10000 statistics, δ = 1e-9) -/
example : 2 * Real.exp (-2 * (200000 : ℕ) * hoeffdingEps 200000 10000 (1e-9) ^ 2) = 1e-9 / (10000 : ℕ) :=
  two_exp_hoeffdingEps (by norm_num) (by norm_num) (by norm_num) (by norm_num)

/-- the radius at the harness's numbers is below 0.009 (the harness prints 0.0087 for its own `m`) -/
theorem hoeffdingEps_harness_value : hoeffdingEps 200000 10000 (1e-9) ≤ 9 / 1000 := by
  unfold hoeffdingEps
  rw [Real.sqrt_le_left (by norm_num)]
  have hx : (0 : ℝ) < 2 * (10000 : ℕ) / 1e-9 := by norm_num
  have hlog : Real.log (2 * (10000 : ℕ) / 1e-9) ≤ 32 := by
    rw [Real.log_le_iff_le_exp hx]
    have h1 : (2.7 : ℝ) ≤ Real.exp 1 := by linarith [Real.exp_one_gt_d9]
    have h2 : Real.exp 32 = Real.exp 1 ^ 32 := by rw [← Real.exp_nat_mul]; norm_num
    rw [h2]
    calc (2 * (10000 : ℕ) / 1e-9 : ℝ) ≤ 2.7 ^ 32 := by norm_num
      _ ≤ Real.exp 1 ^ 32 := pow_le_pow_left₀ (by norm_num) h1 32
  calc Real.log (2 * (10000 : ℕ) / 1e-9) / (2 * (200000 : ℕ)) ≤ 32 / (2 * (200000 : ℕ)) := by gcongr
    _ ≤ (9 / 1000) ^ 2 := by norm_num

/-- non-vacuity of `union_bound`: three events of probability at most `δ/3` each under the Gumbel law -/
example (E : Fin 3 → Set ℝ) (h : ∀ a, gumbel.real (E a) ≤ (3/100) / (3 : ℕ)) :
    gumbel.real (⋃ a ∈ (Finset.univ : Finset (Fin 3)), E a) ≤ 3/100 :=
  union_bound Finset.univ E (by norm_num) (by simp) (by norm_num) (fun a _ => h a)

end Hoeffding

/-! ## Part 1b — the decision as the harness takes it: empirical frequencies of outcomes in `n` i.i.d. draws -/

section Frequencies
variable {S : Type*} [MeasurableSpace S]

/-- the relative frequency of the outcome set `A` among the `n` draws `ω 0 … ω (n−1)` -/
noncomputable def empFreq {n : ℕ} (A : Set S) (ω : Fin n → S) : ℝ := (∑ i, A.indicator (1 : S → ℝ) (ω i)) / n

/-- the mean of the indicator of `A` at draw `i` is the probability of `A` -/
theorem integral_indicator_eval (ν : Measure S) [IsProbabilityMeasure ν] {n : ℕ} (i : Fin n) {A : Set S}
    (hA : MeasurableSet A) :
    ∫ ω, A.indicator (1 : S → ℝ) (ω i) ∂(Measure.pi fun _ : Fin n => ν) = ν.real A := by
  have hmp := measurePreserving_eval (fun _ : Fin n => ν) i
  have := integral_map (μ := Measure.pi fun _ : Fin n => ν) (φ := Function.eval i)
    hmp.measurable.aemeasurable (f := A.indicator (1 : S → ℝ))
    (by rw [hmp.map_eq]; exact (measurable_one.indicator hA).aestronglyMeasurable)
  rw [hmp.map_eq, integral_indicator_one hA] at this
  exact this.symm

/-- **the C07 / C16 decision**: `n` i.i.d. draws from a law `ν` (the sampler's law on rows); `t` a family of at most `m`
measurable outcome sets (the (case, outcome) pairs).  With probability at least `1 − δ` EVERY relative frequency is within
`hoeffding_eps(n, m)` of the probability `ν(A)` of its outcome.  Hence, if the sampler's law is the exact conditional law
computed by the model, the check reports a deviation with probability at most `δ` (= 1e-9 in the harness). -/
theorem hoeffding_empirical_frequencies (ν : Measure S) [IsProbabilityMeasure ν] {n : ℕ} (hn : 0 < n)
    {α : Type*} (t : Finset α) (A : α → Set S) (hA : ∀ a ∈ t, MeasurableSet (A a))
    {m : ℕ} (hm0 : 0 < m) (htm : t.card ≤ m) {δ : ℝ} (hδ : 0 < δ) (hδm : δ ≤ 2 * m) :
    (Measure.pi fun _ : Fin n => ν).real
        {ω | ∃ a ∈ t, hoeffdingEps n m δ ≤ |empFreq (A a) ω - ν.real (A a)|} ≤ δ := by
  have hne : (Finset.univ : Finset (Fin n)).Nonempty := by
    have : Nonempty (Fin n) := ⟨⟨0, hn⟩⟩
    exact Finset.univ_nonempty
  have hmeasf : ∀ a ∈ t, Measurable ((A a).indicator (1 : S → ℝ)) :=
    fun a ha => measurable_one.indicator (hA a ha)
  have key := hoeffding_family (μ := Measure.pi fun _ : Fin n => ν) t
    (fun a i ω => (A a).indicator (1 : S → ℝ) (ω i)) (fun a => ν.real (A a)) Finset.univ hne
    (fun a ha => iIndepFun_pi (μ := fun _ : Fin n => ν) (X := fun _ x => (A a).indicator (1 : S → ℝ) x)
      (fun _ => (hmeasf a ha).aemeasurable))
    (fun a ha i _ => ((hmeasf a ha).comp (measurable_pi_apply i)).aemeasurable)
    (fun a ha i _ => Eventually.of_forall fun ω => by
      by_cases h : ω i ∈ A a <;> simp [Set.indicator, h])
    (fun a ha i _ => integral_indicator_eval ν i (hA a ha))
    hm0 htm hδ hδm
  simpa [empMean, empFreq] using key

/-- non-vacuity at the harness's numbers: 200000 independent standard Gumbel draws, the two outcomes `{G ≤ 0}`
(probability `e⁻¹`) and `{G ≤ 1}`: both relative frequencies are within `hoeffding_eps(200000, 10000)` (< 0.009) of the
exact probabilities, except with probability at most 1e-9 -/
example : (Measure.pi fun _ : Fin 200000 => gumbel).real
    {ω | ∃ a ∈ ({0, 1} : Finset ℝ),
      hoeffdingEps 200000 10000 (1e-9) ≤ |empFreq (Iic a) ω - gumbelCdf a|} ≤ 1e-9 := by
  have := hoeffding_empirical_frequencies gumbel (n := 200000) (by norm_num) ({0, 1} : Finset ℝ) (fun a => Iic a)
    (fun a _ => measurableSet_Iic) (m := 10000) (by norm_num) (Finset.card_le_two.trans (by norm_num))
    (δ := 1e-9) (by norm_num) (by norm_num)
  simpa only [gumbel_real_Iic] using this

/-- non-vacuity of `hoeffding_two_sided`: the frequency of `{G ≤ 0}` in 3 independent Gumbel draws -/
example (ε : ℝ) (hε : 0 ≤ ε) :
    (Measure.pi fun _ : Fin 3 => gumbel).real
      {ω | ε ≤ |empMean (fun i ω => (Iic (0 : ℝ)).indicator (1 : ℝ → ℝ) (ω i)) Finset.univ ω - Real.exp (-1)|}
      ≤ 2 * Real.exp (-2 * 3 * ε ^ 2) := by
  have hmeas : Measurable ((Iic (0 : ℝ)).indicator (1 : ℝ → ℝ)) := measurable_one.indicator measurableSet_Iic
  have key := hoeffding_two_sided (μ := Measure.pi fun _ : Fin 3 => gumbel)
    (X := fun i ω => (Iic (0 : ℝ)).indicator (1 : ℝ → ℝ) (ω i))
    (iIndepFun_pi (μ := fun _ : Fin 3 => gumbel) (X := fun _ x => (Iic (0 : ℝ)).indicator (1 : ℝ → ℝ) x)
      (fun _ => hmeas.aemeasurable))
    Finset.univ Finset.univ_nonempty (fun i _ => (hmeas.comp (measurable_pi_apply i)).aemeasurable)
    (fun i _ => Eventually.of_forall fun ω => by
      by_cases h : ω i ≤ 0 <;> simp [Set.indicator, h])
    (p := Real.exp (-1))
    (fun i _ => by
      rw [integral_indicator_eval gumbel i measurableSet_Iic, gumbel_real_Iic]; simp [gumbelCdf]) hε
  simpa using key

end Frequencies

/-! ## Part 2d — the named hypothesis `hGumbelMax_trusted` of `Props/E2ECirc.lean`, discharged over ℝ -/

section Bridge
open Deeprob.E2E

/-- the law of `np.argmax(s + G)` for a LIST of scores (one per child of the sum node): entry `k` is the probability,
under independent standard Gumbel noise `G`, that `k` is the position `np.argmax` returns.  This is the object the
parameter `argmaxLaw` of `E2E.ssGumbelMaxIdentity` stands for. -/
noncomputable def gumbelArgmaxLaw (s : List ℝ) : List ℝ :=
  List.ofFn fun k : Fin s.length =>
    (gumbelNoise s.length).real {g | IsFirstArgmax (fun j => s[j.1] + g j) k}

theorem tsum_eq_sum (l : List ℝ) : Deeprob.tsum l = l.sum := by
  induction l with
  | nil => rfl
  | cons a t ih => simp [Deeprob.tsum, ih]

/-- **the Gumbel-max identity in the form `Props/E2ECirc.lean` assumes it**: the law of the arg-max of the noisy scores is
the soft-max of the scores, for every list of real scores. -/
theorem gumbelArgmaxLaw_eq_softmax (s : List ℝ) :
    gumbelArgmaxLaw s = s.map (fun a => Real.exp a / Deeprob.tsum (s.map Real.exp)) := by
  cases s with
  | nil => simp [gumbelArgmaxLaw]
  | cons a t =>
    rw [← List.ofFn_getElem_eq_map]
    unfold gumbelArgmaxLaw
    congr 1
    funext k
    have h := gumbel_argmax_first (n := t.length) k (fun j => (a :: t)[j.1])
    have hpos : 0 ≤ Real.exp ((a :: t)[k.1]) / ∑ j : Fin (t.length + 1), Real.exp ((a :: t)[j.1]) :=
      div_nonneg (Real.exp_pos _).le (Finset.sum_nonneg fun j _ => (Real.exp_pos _).le)
    have hsum : ∑ j : Fin (a :: t).length, Real.exp ((a :: t)[j.1]) = Deeprob.tsum ((a :: t).map Real.exp) := by
      rw [tsum_eq_sum, Fin.sum_univ_fun_getElem]
    have h' : ((gumbelNoise (t.length + 1)) {g | IsFirstArgmax (fun j => (a :: t)[j.1] + g j) k}).toReal
        = Real.exp ((a :: t)[k.1]) / ∑ j : Fin (t.length + 1), Real.exp ((a :: t)[j.1]) := by
      rw [h, ENNReal.toReal_ofReal hpos]
    rw [← hsum]
    exact h'

/-- `E2E.ssGumbelMaxIdentity` holds for the real exponential and the actual arg-max law: the hypothesis
`hGumbelMax_trusted` is a theorem when `F = ℝ`. -/
theorem gumbelMaxIdentity_real : ssGumbelMaxIdentity Deeprob.realExpLog gumbelArgmaxLaw :=
  fun s => gumbelArgmaxLaw_eq_softmax s

/-- **`e2e_sum_sample_branch` without the trusted hypothesis** (C07, over ℝ): at a sum node with positive weights `ws`
whose children have positive values `ls`, the probability that `np.argmax` of the GENERATED scores plus independent
standard Gumbel noise returns child `i` is the exact conditional branch probability `wᵢ·Lᵢ / Σⱼ wⱼ·Lⱼ`. -/
theorem e2e_sum_sample_branch_real (ws ls : List ℝ) (hw : ∀ w ∈ ws, 0 < w) (hl : ∀ l ∈ ls, 0 < l) :
    gumbelArgmaxLaw (ssGenScore0 Deeprob.realExpLog ws ls) = Deeprob.TCirc.branchPmf (Deeprob.wsum ws ls) ws ls :=
  e2e_sum_sample_branch Deeprob.realExpLog gumbelArgmaxLaw gumbelMaxIdentity_real ws ls hw hl

/-- **`e2e_sum_sample_branch_exact` without the trusted hypothesis** (C07, over ℝ): the sampler whose sum nodes return
`np.argmax` of the generated scores plus standard Gumbel noise draws from the exact conditional distribution. -/
theorem e2e_sum_sample_exact_real (dom : Nat → Nat) (c : Deeprob.TCirc ℝ) (hv : Deeprob.Circ.Valid dom c.toCirc)
    (hn : Deeprob.TCirc.NonNeg c) (hl : Deeprob.TCirc.LeafExact c) (e x : Deeprob.Ev) (hpos : ssPos e c)
    (hx : Deeprob.Completes c.scope e x) :
    ssGenTopDownPmf Deeprob.realExpLog gumbelArgmaxLaw e x c * Deeprob.TCirc.eval e c = Deeprob.TCirc.eval x c :=
  e2e_sum_sample_branch_exact Deeprob.realExpLog gumbelArgmaxLaw gumbelMaxIdentity_real dom c hv hn hl e x hpos hx

/-- non-vacuity: the law of `np.argmax(log(0.7, 0.2, 0.1) + G)` is `(0.7, 0.2, 0.1)` (with the left-skewed noise of the
pinned tree it was measured as `(0.739, 0.195, 0.066)`: finding F4) -/
example : gumbelArgmaxLaw [Real.log (7/10), Real.log (2/10), Real.log (1/10)] = [7/10, 2/10, 1/10] := by
  rw [gumbelArgmaxLaw_eq_softmax]
  have h7 : Real.exp (Real.log (7/10)) = 7/10 := Real.exp_log (by norm_num)
  have h2 : Real.exp (Real.log (2/10)) = 2/10 := Real.exp_log (by norm_num)
  have h1 : Real.exp (Real.log (1/10)) = 1/10 := Real.exp_log (by norm_num)
  simp only [List.map_cons, List.map_nil, Deeprob.tsum, h7, h2, h1]
  norm_num

/-- non-vacuity of `e2e_sum_sample_branch_real`: weights `(1/4, 3/4)`, child values `(1/3, 1/10)` -/
example : gumbelArgmaxLaw (ssGenScore0 Deeprob.realExpLog [1/4, 3/4] [1/3, 1/10])
    = Deeprob.TCirc.branchPmf (Deeprob.wsum [1/4, 3/4] [1/3, 1/10]) [1/4, 3/4] [1/3, 1/10] :=
  e2e_sum_sample_branch_real _ _ (by intro w hw; simp at hw; rcases hw with rfl | rfl <;> norm_num)
    (by intro l hl; simp at hl; rcases hl with rfl | rfl <;> norm_num)

/-! ### a real-valued witness for `e2e_sum_sample_exact_real`

The witness of `Props/E2ECirc.lean` (`ssExT`) lives over `ℚ` and quantifies over `E : ExpLog ℚ`.  There is NO such `E`
(`expLog_rat_empty` below: `exp (log 2 / 2)` would be a rational square root of 2), so that `example` does not show the
hypotheses to be satisfiable.  The same circuit over `ℝ`, with `realExpLog` and the actual law `gumbelArgmaxLaw`, does. -/

/-- **witness**: the interface `ExpLog` has no instance over `ℚ` -/
theorem expLog_rat_empty (E : Deeprob.ExpLog ℚ) : False := by
  set q : ℚ := E.exp (E.log 2 / 2) with hq
  have h2 : q * q = 2 := by
    rw [hq, ← E.exp_add, add_halves, E.exp_log 2 (by norm_num)]
  have hr : ((q : ℝ)) ^ 2 = 2 := by
    have : ((q * q : ℚ) : ℝ) = 2 := by rw [h2]; norm_num
    rw [pow_two]; exact_mod_cast this
  have hs : Real.sqrt 2 = ((|q| : ℚ) : ℝ) := by
    rw [← hr, Real.sqrt_sq_eq_abs]; push_cast; rfl
  exact irrational_sqrt_two.ne_rat _ hs

section RealWitness
open Deeprob Deeprob.TCirc

noncomputable def ssExTR : TCirc ℝ :=
  .sum [0, 1] [1/4, 3/4]
    [ .prod [0, 1] [bernT 0 [1/2, 1/2], bernT 1 [1/3, 2/3]],
      .prod [0, 1] [bernT 0 [1/5, 4/5], bernT 1 [9/10, 1/10]] ]

theorem ssExTR_ok : TDOK (fun _ => 2) ssExTR := by
  have hb : ∀ (v : Nat) (tbl : List ℝ), tbl.length = 2 → tsum tbl = 1 → (∀ x ∈ tbl, 0 ≤ x) →
      TDOK (fun _ => 2) (bernT v tbl) := fun v tbl hl hs h0 => bernT_ok (fun _ => 2) v tbl hl rfl hs h0
  unfold ssExTR
  apply TDOK.sum
  · simp
  · simp
  · intro w hw; simp at hw; rcases hw with rfl | rfl <;> norm_num
  · intro c hc'; simp at hc'; rcases hc' with rfl | rfl <;> simp [scope, scopeEq]
  · intro c hc'; simp only [List.mem_cons, List.not_mem_nil, or_false] at hc'
    rcases hc' with rfl | rfl
    · apply TDOK.prod
      · simp [scope, bernT]
      · simp [scope, bernT, scopeEq]
      · intro d hd; simp only [List.mem_cons, List.not_mem_nil, or_false] at hd
        rcases hd with rfl | rfl
        · apply hb <;> simp [tsum] <;> norm_num
        · apply hb <;> simp [tsum] <;> norm_num
    · apply TDOK.prod
      · simp [scope, bernT]
      · simp [scope, bernT, scopeEq]
      · intro d hd; simp only [List.mem_cons, List.not_mem_nil, or_false] at hd
        rcases hd with rfl | rfl
        · apply hb <;> simp [tsum] <;> norm_num
        · apply hb <;> simp [tsum] <;> norm_num

theorem ssExTR_eval_e : eval ssExE ssExTR = 29/120 := by
  simp [ssExTR, eval, toCirc, Circ.eval, wsum, lprod, bernT, Circ.catLeafFn, ssExE, Ev.ofList]
  norm_num

theorem ssExTR_eval_x : eval ssExX ssExTR = 59/600 := by
  simp [ssExTR, eval, toCirc, Circ.eval, wsum, lprod, bernT, Circ.catLeafFn, ssExX, Ev.ofList]
  norm_num

theorem ssExTR_pos : ssPos ssExE ssExTR := by
  unfold ssExTR
  simp only [ssPos, List.mem_cons, List.not_mem_nil, or_false, forall_eq_or_imp, forall_eq, bernT, and_true,
    true_and, implies_true]
  refine ⟨⟨by norm_num, by norm_num⟩, ?_, ?_⟩ <;>
    (simp [toCirc, Circ.eval, lprod, Circ.catLeafFn, ssExE, Ev.ofList])

theorem ssExXR_completes : Completes ssExTR.scope ssExE ssExX := by
  constructor
  · intro v hv
    match v with
    | 0 => simp [ssExE, Ev.ofList] at hv
    | 1 => simp [ssExE, ssExX, Ev.ofList]
    | n + 2 => simp [ssExE, Ev.ofList] at hv
  · intro v hv
    simp only [ssExTR, scope, List.mem_cons, List.not_mem_nil, or_false] at hv
    rcases hv with rfl | rfl <;> simp [ssExX, Ev.ofList]

/-- **non-vacuity with nothing assumed**: on the two-component mixture over two binary variables with variable 1 observed,
the law of `np.argmax` of the generated root scores plus standard Gumbel noise is `(20/29, 9/29)`, and the sampler draws the
completion `(0, 1)` with the exact conditional probability: `P_sampler · 29/120 = 59/600`. -/
example :
    gumbelArgmaxLaw (ssGenScore0 realExpLog [1/4, 3/4] [2/3, 1/10]) = [20/29, 9/29] ∧
    ssGenTopDownPmf realExpLog gumbelArgmaxLaw ssExE ssExX ssExTR * eval ssExE ssExTR = eval ssExX ssExTR ∧
    eval ssExE ssExTR = 29/120 ∧ eval ssExX ssExTR = 59/600 := by
  refine ⟨?_, ?_, ssExTR_eval_e, ssExTR_eval_x⟩
  · rw [e2e_sum_sample_branch_real _ _
      (by intro w hw; simp at hw; rcases hw with rfl | rfl <;> norm_num)
      (by intro l hl; simp at hl; rcases hl with rfl | rfl <;> norm_num)]
    simp [branchPmf, wsum]; norm_num
  · exact e2e_sum_sample_exact_real (fun _ => 2) ssExTR ssExTR_ok.1 ssExTR_ok.2.2.1
      ssExTR_ok.2.2.2.2 ssExE ssExX ssExTR_pos ssExXR_completes

end RealWitness

end Bridge

end Deeprob.SamplingFacts
