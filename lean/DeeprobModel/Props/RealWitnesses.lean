import DeeprobModel.Props.E2ECirc
import DeeprobModel.Spec.RealExpLog
import DeeprobModel.Props.E2ELearn
import DeeprobModel.Oblig.StructClt
import DeeprobModel.Oblig.StructTopDown
import DeeprobModel.Oblig.Struct5Grad
import DeeprobModel.Oblig.C14
import DeeprobModel.Oblig.C19
import DeeprobModel.Oblig.Struct4CltFit
import Mathlib.Analysis.SpecialFunctions.Log.Basic
import Mathlib.Analysis.SpecialFunctions.Sqrt
import Mathlib.Tactic.NormNum
import Mathlib.Tactic.Linarith
set_option linter.unusedSimpArgs false
set_option linter.unusedVariables false
set_option linter.unnecessarySeqFocus false

/-
Real-valued witnesses for theorems quantified over `ExpLog F` (non-vacuity repair).

`Props/SamplingFacts.lean: expLog_rat_empty` shows that the interface `ExpLog` has NO instance over `ℚ` (`exp (log 2 / 2)` would
be a rational square root of 2).  Every `example (E : ExpLog ℚ) …` of the development is therefore itself vacuous and does not
show the hypotheses of the theorem before it to be satisfiable.  The places (found by searching for the interface names applied
to `ℚ` / `Rat`):

* `Oblig/Struct4Sampling.lean:36`  (after `sumSampleEntry_as_coded`)          → `sumSampleEntry_real`
* `Oblig/Struct4Sampling.lean:54`  (after `branchPmf_as_coded`)               → `branchPmf_real`
* `Props/E2ECirc.lean:561`         (after `e2e_log_likelihood_linear`)        → `e2e_log_likelihood_real`
                                                                                (+ `real_log_floor`, `ll_exNetR_values`)
* `Props/E2ECirc.lean:1647`        (after `e2e_sum_sample_branch_exact`)      → already replaced by the last `example` of
                                                                                `Props/SamplingFacts.lean` (`ssExTR`)

Here each one is restated at `F = ℝ` with `Deeprob.realExpLog` (the usual `exp`, `log`, `sqrt`), nothing assumed.  Section 3
adds instances at `realExpLog` for theorems quantified over `ExpLog F` that had no instance at any concrete field
(`sample_as_coded`, `sum_mpe_as_coded`, `gaussian_em_sigma_pos`, `skewness_sigma`, `mutualInfo_as_coded`,
`gradRoot_denotes`), and a three-variable witness of `C11.fit_tree_maximal` / `E2E.e2e_cpt_tree_maximal` whose certificate is
about actual logarithms (the existing instances have two variables, where the certificate is empty).
-/
namespace Deeprob.RealWitnesses
open Deeprob Deeprob.TCirc Deeprob.E2E

/-! ## 0. the real logarithm satisfies the side hypotheses -/

theorem realExpLog_exp (a : ℝ) : realExpLog.exp a = Real.exp a := rfl
theorem realExpLog_log (a : ℝ) : realExpLog.log a = Real.log a := rfl

/-- the side hypothesis `hE` of the example after `e2e_log_likelihood_linear`, for the real logarithm (in fact
`log a ≥ 1 - 1/a ≥ -5/3` on `[3/8, ∞)`) -/
theorem real_log_floor (a : ℝ) (ha : 3/8 ≤ a) : (-1000000 : ℝ) ≤ realExpLog.log a := by
  have hpos : (0 : ℝ) < a := by linarith
  have h1 : 1 - a⁻¹ ≤ Real.log a := Real.one_sub_inv_le_log_of_pos hpos
  have h2 : a⁻¹ ≤ (3/8 : ℝ)⁻¹ := inv_anti₀ (by norm_num) ha
  rw [realExpLog_log]
  norm_num at h2
  linarith

example : (-1000000 : ℝ) ≤ realExpLog.log (3/8) := real_log_floor _ le_rfl

/-! ## 1. `Oblig/Struct4Sampling.lean` -/

/-- replacement of `Oblig/Struct4Sampling.lean:36` -/
theorem sumSampleEntry_real :
    realExpLog.exp (Gen.S4sumSampleEntry realExpLog (realExpLog.log (1 / 2)) (1 / 4) 0) = 1 / 4 * (1 / 2) ∧
    ∀ g : ℝ, Gen.S4sumSampleEntry realExpLog (realExpLog.log (1 / 2)) (1 / 4) g
      = Gen.S4sumSampleEntry realExpLog (realExpLog.log (1 / 2)) (1 / 4) 0 + g :=
  ⟨(Struct4.sumSampleEntry_as_coded realExpLog (1 / 4) (1 / 2) 0 (by norm_num) (by norm_num)).2,
   fun g => (Struct4.sumSampleEntry_as_coded realExpLog (1 / 4) (1 / 2) g (by norm_num) (by norm_num)).1⟩

/-- replacement of `Oblig/Struct4Sampling.lean:54` -/
theorem branchPmf_real :
    branchPmf (1 / 4 : ℝ) [1 / 4, 3 / 4] [1 / 2, 1 / 6] =
      List.zipWith (fun w l => realExpLog.exp (Gen.S4sumSampleEntry realExpLog (realExpLog.log l) w 0) / (1 / 4))
        [1 / 4, 3 / 4] [1 / 2, 1 / 6] ∧
    branchPmf (1 / 4 : ℝ) [1 / 4, 3 / 4] [1 / 2, 1 / 6] = [1 / 2, 1 / 2] := by
  refine ⟨Struct4.branchPmf_as_coded realExpLog _ _ _
    (by intro w hw; simp at hw; rcases hw with rfl | rfl <;> norm_num)
    (by intro l hl; simp at hl; rcases hl with rfl | rfl <;> norm_num), ?_⟩
  simp [branchPmf]; norm_num

/-! ## 2. `Props/E2ECirc.lean`, item 2 -/

noncomputable def exLeavesR : Nat → SrcLeaf ℝ := fun i =>
  [SrcLeaf.bernoulli 0 (3/4), .categorical 1 [1/2, 1/2], .categorical 1 [1/10, 9/10]].getD i (.bernoulli 0 0)

noncomputable def exNetR : Net ℝ :=
  [ { id := 3, kind := .leaf, scope := [0], ch := [], ws := [], leaf := (exLeavesR 0).toModel },
    { id := 4, kind := .leaf, scope := [1], ch := [], ws := [], leaf := (exLeavesR 1).toModel },
    { id := 5, kind := .leaf, scope := [1], ch := [], ws := [], leaf := (exLeavesR 2).toModel },
    { id := 1, kind := .prod, scope := [0, 1], ch := [0, 1], ws := [], leaf := .absent },
    { id := 2, kind := .prod, scope := [1, 0], ch := [2, 0], ws := [], leaf := .absent },
    { id := 0, kind := .sum, scope := [0, 1], ch := [3, 4], ws := [1/3, 2/3], leaf := .absent } ]

theorem exNetR_wellOrdered : WellOrdered exNetR := (wellOrderedB_iff exNetR).1 (by decide)

theorem exNetR_cases (P : Nat → NNode ℝ → Prop)
    (h0 : P 0 exNetR[0]) (h1 : P 1 exNetR[1]) (h2 : P 2 exNetR[2]) (h3 : P 3 exNetR[3]) (h4 : P 4 exNetR[4])
    (h5 : P 5 exNetR[5]) : ∀ i (x : NNode ℝ), exNetR[i]? = some x → P i x := by
  intro i x hx
  match i with
  | 0 => cases hx; exact h0
  | 1 => cases hx; exact h1
  | 2 => cases hx; exact h2
  | 3 => cases hx; exact h3
  | 4 => cases hx; exact h4
  | 5 => cases hx; exact h5
  | n+6 => simp [exNetR] at hx

theorem exNetR_tableLeaves : TableLeaves exNetR exLeavesR := by
  apply exNetR_cases (fun i x => x.kind = .leaf → x.leaf = (exLeavesR i).toModel)
  all_goals first | (intro h; cases h; done) | (intro _; rfl)

/-- the row `(1, 1)` -/
def exRow : Ev := Ev.ofList [some 1, some 1]

/-- the exact semantic value of every node of `exNetR` on the row `(1, 1)` -/
theorem exNetR_values :
    (List.range 6).map (fun i => Circ.eval exRow (toTree exNetR [] (i+1) i)) = [3/4, 1/2, 9/10, 3/8, 27/40, 23/40] := by
  simp [List.range_succ, toTree, exNetR, exLeavesR, Circ.eval, SrcLeaf.toModel, LeafP.fn, Circ.catLeafFn, exRow,
    Ev.ofList, wsum, lprod]
  norm_num

theorem exNetR_value (i : Nat) (hi : i < exNetR.length) :
    Circ.eval exRow (toTree exNetR [] (i+1) i) = ([3/4, 1/2, 9/10, 3/8, 27/40, 23/40] : List ℝ).getD i 0 := by
  have h := congrArg (fun l => l.getD i 0) exNetR_values
  have hi' : i < 6 := hi
  simpa [List.getD_eq_getElem?_getD, List.getElem?_map, List.getElem?_range hi'] using h

/-- on the row `(1, 1)` every node of `exNetR` has a value in `[3/8, ∞)` (real-valued mirror of `E2E.ll_exNet_values`) -/
theorem ll_exNetR_values : ∀ i, i < exNetR.length → (3/8 : ℝ) ≤ Circ.eval exRow (toTree exNetR [] (i+1) i) := by
  intro i hi
  rw [exNetR_value i hi]
  have hi' : i < 6 := hi
  interval_cases i <;> norm_num

/-- **real-valued witness of `e2e_log_likelihood_log`, `e2e_log_likelihood`, `e2e_log_likelihood_linear`** (replacement of
the example at `Props/E2ECirc.lean:561`, which quantifies over the empty type `ExpLog ℚ`): for the real `exp` / `log` all
hypotheses hold on `exNetR` and the row `(1, 1)` — nothing is assumed —, the generated log-domain pass stores
`log (23/40)` at the root, its exponential is `23/40 = 1/3·(3/4·1/2) + 2/3·(9/10·3/4)`, and that is the entry of the
generated linear-domain table. -/
theorem e2e_log_likelihood_real :
    (llTable realExpLog exRow exNetR exLeavesR).getD 5 0 = Real.log (23/40) ∧
    realExpLog.exp ((llTable realExpLog exRow exNetR exLeavesR).getD 5 0) = 23/40 ∧
    realExpLog.exp ((llTable realExpLog exRow exNetR exLeavesR).getD 5 0) = (genTable exRow exNetR exLeavesR).getD 5 0 := by
  have hpos : ∀ i, i < exNetR.length → (0 : ℝ) < Circ.eval exRow (toTree exNetR [] (i+1) i) :=
    fun i hi => lt_of_lt_of_le (by norm_num) (ll_exNetR_values i hi)
  have hfl : ∀ i, i < exNetR.length →
      (-1000000 : ℝ) ≤ realExpLog.log (Circ.eval exRow (toTree exNetR [] (i+1) i)) :=
    fun i hi => real_log_floor _ (ll_exNetR_values i hi)
  have h5 : Circ.eval exRow (toTree exNetR [] (5+1) 5) = 23/40 := by
    rw [exNetR_value 5 (by decide)]; norm_num
  refine ⟨?_, ?_, ?_⟩
  · rw [e2e_log_likelihood_log realExpLog exNetR exLeavesR [] exRow exNetR_wellOrdered exNetR_tableLeaves hpos hfl 5
      (by decide), h5]; rfl
  · rw [e2e_log_likelihood realExpLog exNetR exLeavesR [] exRow exNetR_wellOrdered exNetR_tableLeaves hpos hfl 5
      (by decide), h5]
  · exact e2e_log_likelihood_linear realExpLog exNetR exLeavesR [] exRow exNetR_wellOrdered exNetR_tableLeaves hpos hfl 5
      (by decide)

/-- the real-valued table is the cast of the rational one the existing development computes with `decide +kernel`:
the root entries of the linear-domain tables over `ℚ` (`exNet`) and over `ℝ` (`exNetR`) agree -/
theorem genTable_real_eq_cast :
    (genTable exRow exNetR exLeavesR).getD 5 0 = (((genTable exRow exNet exLeaves).getD 5 0 : ℚ) : ℝ) := by
  have hq : (genTable exRow exNet exLeaves).getD 5 0 = 23/40 := by decide +kernel
  rw [hq, ← e2e_log_likelihood_real.2.2, e2e_log_likelihood_real.2.1]
  norm_num

/-! ## 3. theorems quantified over `ExpLog F` that had no instance at all, instantiated at `realExpLog` -/

/-- `Oblig/StructClt.sample_as_coded` over ℝ (C07): `a₀ = 1/6`, `a₁ = 1/3`, Bernoulli parameter `2/3` -/
theorem sample_as_coded_real :
    Gen.cltSampleBernParam realExpLog
      (Gen.cltSampleLogProb (realExpLog.log (1/3)) (realExpLog.log (1/6 + 1/3))) = 2/3 := by
  rw [(Oblig.StructClt.sample_as_coded realExpLog (1/6) (1/3) (by norm_num) (by norm_num)).2.2.2.2.2]
  norm_num

/-- `Oblig/StructTopDown.sum_mpe_as_coded` over ℝ (C06) -/
theorem sum_mpe_as_coded_real :
    Gen.sumMpeScore realExpLog (realExpLog.log (1/2)) (1/4) = Real.log (1/4 * (1/2)) :=
  (Oblig.StructTopDown.sum_mpe_as_coded realExpLog (1/4) (1/2) (by norm_num) (by norm_num)).2.2

/-- `Oblig/C14.gaussian_em_sigma_pos` over ℝ with the real square root (C14): step size `1/2`, `σ = 1`, statistics
`V = 2`, `T = 8` -/
theorem gaussian_em_sigma_pos_real :
    (1 / 100000 : ℝ) ≤ Gen.gaussEmStdNew realExpLog (1/2) 1 2 8 :=
  Oblig.C14.gaussian_em_sigma_pos realExpLog (1/2) 1 2 8 (by norm_num) (by norm_num) (by norm_num)

/-- `Oblig/C19.skewness_sigma` over ℝ (C19): raw moments of Bernoulli(1/4) -/
theorem skewness_sigma_real :
    Gen.skewness realExpLog (1/4) (1/4) (1/4) (1/4)
      = ((1/4 : ℝ) - 3 * (1/4) * (1/4) + 2 * (1/4) ^ 3) / (((1/4 : ℝ) - (1/4) ^ 2) * Real.sqrt ((1/4 : ℝ) - (1/4) ^ 2)) :=
  Oblig.C19.skewness_sigma realExpLog (1/4) (1/4) (1/4) (1/4) (by norm_num)

/-- `Oblig/Struct4CltFit.mutualInfo_as_coded` over ℝ (C11) -/
theorem mutualInfo_as_coded_real :
    CltFit.mutualInfo realExpLog [[1, 0], [1, 1], [0, 1], [1, 1]] (1 / 10 : ℝ) 0 1 =
      Gen.S4mutualInfo realExpLog 2 (fun i k => CltFit.prior [[1, 0], [1, 1], [0, 1], [1, 1]] (1 / 10 : ℝ) i k)
        (fun i j k l => CltFit.joint [[1, 0], [1, 1], [0, 1], [1, 1]] (1 / 10 : ℝ) i j k l) 0 1 :=
  Struct4.mutualInfo_as_coded realExpLog _ _ 0 1

/-- `Oblig/Struct5Grad.gradRoot_denotes` over ℝ (C14): the literal the backward pass starts from denotes `exp 0 = 1` -/
theorem gradRoot_denotes_real :
    LogV.expL (Gen.S5gradRoot Oblig.Struct5G.litLogV : LogV ℝ)
      = some (realExpLog.exp (Gen.S5gradRoot (fun q : Rat => (q : ℝ)))) ∧
    realExpLog.exp (Gen.S5gradRoot (fun q : Rat => (q : ℝ))) = 1 := by
  refine ⟨Oblig.Struct5G.gradRoot_denotes realExpLog, ?_⟩
  simp [Gen.S5gradRoot, realExpLog_exp]

/-- the data set with three identical columns -/
def X3 : List (List Nat) := [[1, 1, 1], [0, 0, 0], [1, 1, 1], [1, 1, 1]]

theorem mi_X3 (al : ℝ) (i j : Nat) (hi : i < 3) (hj : j < 3) (hij : i ≠ j) :
    CltFit.mutualInfo realExpLog X3 al i j = CltFit.mutualInfo realExpLog X3 al 0 1 := by
  interval_cases i <;> interval_cases j <;> first | (exfalso; exact hij rfl) | rfl

/-- the certificate of `fit_tree_maximal` holds for the chain `0 ← 1 ← 2` on `X3` with the REAL mutual information
(all three off-diagonal entries coincide, so the non-tree pair `(0, 2)` is no heavier than the tree edges) -/
theorem cycleOK_X3 (al : ℝ) : CltFit.cycleOK (CltFit.mutualInfo realExpLog X3 al) [-1, 0, 1] = true := by
  have hp : CltFit.cyclePairs [-1, 0, 1] = [(0, 2, some [2, 1])] := by decide
  have h10 := mi_X3 al 1 0 (by norm_num) (by norm_num) (by norm_num)
  have h21 := mi_X3 al 2 1 (by norm_num) (by norm_num) (by norm_num)
  have h02 := mi_X3 al 0 2 (by norm_num) (by norm_num) (by norm_num)
  have e1 : CltFit.edgeW (CltFit.mutualInfo realExpLog X3 al) [-1, 0, 1] 1
      = CltFit.mutualInfo realExpLog X3 al 1 0 := rfl
  have e2 : CltFit.edgeW (CltFit.mutualInfo realExpLog X3 al) [-1, 0, 1] 2
      = CltFit.mutualInfo realExpLog X3 al 2 1 := rfl
  simp only [CltFit.cycleOK, hp, List.all_cons, List.all_nil, Bool.and_true, e1, e2, h10, h21, h02, lt_irrefl,
    decide_false, Bool.not_false]

/-- **real-valued witness of `C11.fit_tree_maximal` and `E2E.e2e_cpt_tree_maximal`** (C11) on three variables, where the
certificate is about actual logarithms (the only instances in the development are on two variables, where there is no
non-tree pair, and quantify over an arbitrary `ExpLog F`): on `X3` the chain has maximal total REAL mutual information
among all rooted spanning trees, both for the specification's matrix and for the GENERATED one. -/
theorem fit_tree_maximal_real (al : ℝ) (pred' : List Int) (root' : Nat) (hl : pred'.length = 3)
    (hT : CltFit.isRootedSpanningTree pred' root' = true) :
    CltFit.treeWeight (CltFit.mutualInfo realExpLog X3 al) pred'
      ≤ CltFit.treeWeight (CltFit.mutualInfo realExpLog X3 al) [-1, 0, 1] ∧
    CltFit.treeWeight (cpGenMI realExpLog X3 al) pred' ≤ CltFit.treeWeight (cpGenMI realExpLog X3 al) [-1, 0, 1] :=
  ⟨C11.fit_tree_maximal realExpLog X3 al (pred := [-1, 0, 1]) (root := 0) (by decide) (cycleOK_X3 al) pred' root' hl hT,
   e2e_cpt_tree_maximal realExpLog X3 al (pred := [-1, 0, 1]) (root := 0) (by decide)
     (by rw [cpGenMI_eq]; exact cycleOK_X3 al) pred' root' hl hT⟩

example (al : ℝ) := (fit_tree_maximal_real al [1, -1, 1] 1 rfl (by decide)).1

end Deeprob.RealWitnesses
