import DeeprobModel.Props.E2EClt
import DeeprobModel.Oblig.Struct5ToPc
set_option linter.unusedSimpArgs false
set_option linter.unusedVariables false
set_option linter.unusedSectionVars false
/-
End-to-end corollaries for `BinaryCLT.to_pc` and `BinaryCLT.get_scopes` (C12, C10, C04): the property stated about the LOOPS
EXTRACTED from the source (`Gen.S5toPcStep`, `Gen.S5getScopesStep`, iterated from `([root], None, [], [])` with
`root = build_tree_structure(tree, scope)`), closing the chain that `E2EClt.e2e_to_pc_partial` left open:

    source --(tools/listprog.py, every run)--> Gen.S5toPcStep --(Struct5.toPcStep_as_coded: simulation)--> PostOrder.step
      --(PostOrderLemmas.run_eq_fold: the explicit-stack walk computes the recursive fold, distinct node ids)--> fold
      --(Struct5.fold_toPc)--> Clt.pc --(Props/Clt.lean: toPc_eval, pc_valid, pc_structured, pc_deterministic)--> specification.

What stays outside: `assign_ids` (relabels ids, semantics unchanged — `Model/AssignIds.lean`), `build_tree_structure` (modelled by
`Clt.build`, tied by the C12 correspondence and by `CltOrder.wellFormedPred_iff_build`), NumPy's `exp` of the stored log-tables
(the tables `cpt` are the exponentiated ones).
-/
namespace Deeprob.E2EToPc
open Deeprob Deeprob.Clt Deeprob.PostOrder Deeprob.Oblig.Struct5
open Deeprob.GraphIo (exTree exCpt exScope exEv exTree_wf)

section
variable {α : Type} [CommSemiring α]

/-- **e2e_to_pc_loop (C12)**: on every Chow-Liu tree (well-formed predecessor vector, scope without repetitions) the loop of
`to_pc` AS EXTRACTED FROM THE SOURCE returns exactly the circuit `Clt.toPc` of the model. -/
theorem e2e_to_pc_loop (tree : List Int) (hwf : GraphIo.WellFormedPred tree) (scope : List Nat) (cpt : List (List (List α)))
    (hlen : scope.length = tree.length) (hnd : scope.Nodup) :
    genToPcLoop scope tree cpt = some (toPc scope tree cpt) := by
  obtain ⟨r, h⟩ := GraphIo.WF.of_wf hwf
  have hr : rootOf tree = some r := by rw [← GraphIo.rootIdx_eq_rootOf]; exact h.root
  have hperm := E2EClt.vars_build_perm_range h
  have hvnd : (build tree tree.length r).vars.Nodup := hperm.nodup_iff.2 List.nodup_range
  have hlt : ∀ i ∈ (build tree tree.length r).vars, i < scope.length := by
    intro i hi
    have := hperm.mem_iff.1 hi
    rw [hlen]; simpa using this
  obtain ⟨l, hl⟩ := toPcLoop_as_coded (fun t => scope.getD t.idx 0) (fun v p => Circ.catLeaf v (indicator p)) Circ.mkProd
    (fun cs w => Circ.mkSum w cs) (factorsOf scope cpt) (build tree tree.length r) hvnd
  have hf := fold_toPc scope cpt hnd (build tree tree.length r) hlt
  unfold pcComb at hf
  rw [hf] at hl
  simp only [genToPcLoop, h.root, hl, toPc, hr, List.head?_cons]

/-- **e2e_to_pc (C12, C10)**: everything `e2e_to_pc_partial` states about the hand-written unfolding holds for the circuit computed
by the EXTRACTED loop: it evaluates to the tree's value on every complete and marginal query, is smooth and decomposable with
indicator leaves, structured decomposable, deterministic on complete evidence — and the value the extracted `message_passing`
returns for a row is the value of that circuit. -/
theorem e2e_to_pc (dom : Nat → Nat) (tree : List Int) (hwf : GraphIo.WellFormedPred tree)
    (scope : List Nat) (cpt : List (List (List α))) (hlen : scope.length = tree.length) (hnd : scope.Nodup)
    (hdom : ∀ v ∈ scope, dom v = 2)
    (hroot : ∀ r, rootOf tree = some r → ∀ k, cptAt cpt r 0 k = cptAt cpt r 1 k) :
    ∃ r c, GraphIo.rootIdx tree = some r ∧ genToPcLoop scope tree cpt = some c ∧
      (∀ e : Ev, Circ.eval e c = Clt.value scope tree cpt e) ∧
      (∀ e : Ev, Circ.eval e c = sumOver dom scope e (fun e' => Circ.eval e' c)) ∧
      Circ.Valid dom c ∧
      Laminar (Circ.prodScopes c) ∧
      (∀ e : Ev, (∀ v ∈ scope, e v ≠ none) → Circ.DetAt e c) ∧
      (∀ (e : Ev) (mx : List α → α), (∀ v ∈ scope, ∀ o, e v = some o → o < 2) →
        E2EClt.genValue cpt tree r Struct4.sumL mx (E2EClt.rowList scope tree.length e)
          ((E2EClt.rowList scope tree.length e).map (fun o => !o.isNone)) "mar" = some (Circ.eval e c)) := by
  obtain ⟨r, c, h1, _, h3, h4, h5, h6, h7, h8, h9⟩ := E2EClt.e2e_to_pc_partial dom tree hwf scope cpt hlen hnd hdom hroot
  subst h3
  exact ⟨r, _, h1, e2e_to_pc_loop tree hwf scope cpt hlen hnd, h4, h5, h6, h7, h8, h9⟩

/-- **e2e_get_scopes (C12, C04)**: the loop of `get_scopes` AS EXTRACTED returns `Clt.getScopes` of the built tree: one list per inner
sub-tree, each a permutation of the scope stored at the corresponding product nodes of the circuit `to_pc` builds (`get_scopes_spec`)
— the list `are_compatible` / the XPC learner compare against. -/
theorem e2e_get_scopes (tree : List Int) (hwf : GraphIo.WellFormedPred tree) (scope : List Nat) (cpt : List (List (List α))) :
    ∃ r, GraphIo.rootIdx tree = some r ∧
      genGetScopesLoop scope tree = some (getScopes scope (build tree tree.length r)) ∧
      (∀ s ∈ getScopes scope (build tree tree.length r), ∃ s' ∈ Circ.prodScopes (toPc scope tree cpt), s.Perm s') ∧
      (∀ s' ∈ Circ.prodScopes (toPc scope tree cpt), ∃ s ∈ getScopes scope (build tree tree.length r), s.Perm s') := by
  obtain ⟨r, h⟩ := GraphIo.WF.of_wf hwf
  have hr : rootOf tree = some r := by rw [← GraphIo.rootIdx_eq_rootOf]; exact h.root
  have hperm := E2EClt.vars_build_perm_range h
  have hvnd : (build tree tree.length r).vars.Nodup := hperm.nodup_iff.2 List.nodup_range
  obtain ⟨l, hl⟩ := getScopesLoop_as_coded (fun t => scope.getD t.idx 0) (build tree tree.length r) hvnd
  rw [fold_getScopes scope (build tree tree.length r)] at hl
  obtain ⟨_, h2, h3⟩ := get_scopes_spec scope cpt (build tree tree.length r) 1
  have hpc : toPc scope tree cpt = pc scope cpt (build tree tree.length r) 1 := by simp only [toPc, hr]
  refine ⟨r, h.root, ?_, ?_, ?_⟩
  · simp only [genGetScopesLoop, h.root, hl]
  · rw [hpc]; exact h2
  · rw [hpc]; exact h3

end

/-! non-vacuity on the regression tree `[3, 4, 1, -1, 0]` of `Props/CltOrder.lean` -/
example : genToPcLoop exScope exTree exCpt = some (toPc exScope exTree exCpt) ∧
    Circ.eval exEv (toPc exScope exTree exCpt) = 3319 / 5000 := by
  refine ⟨e2e_to_pc_loop exTree exTree_wf exScope exCpt rfl (by decide), ?_⟩
  obtain ⟨r, c, _, _, h3, h4, _, _, _, _, _⟩ := E2EClt.e2e_to_pc_partial (fun _ => 2) exTree exTree_wf exScope exCpt rfl
    (by decide) (fun _ _ => rfl) E2EClt.exRoot
  rw [← h3, h4 exEv]; exact GraphIo.exValue

example : ∃ r, genGetScopesLoop exScope exTree = some (getScopes exScope (build exTree exTree.length r)) := by
  obtain ⟨r, _, h, _⟩ := e2e_get_scopes exTree exTree_wf exScope exCpt
  exact ⟨r, h⟩

end Deeprob.E2EToPc
