import DeeprobModel.Lemmas.CheckLemmas
import DeeprobModel.Props.CircMarg
set_option linter.unusedVariables false
/-
C03 — validation (`check_spn` of deeprob/spn/utils/validity.py, on the node list produced by
`collect_nodes` = `bfs` of deeprob/spn/structure/node.py) accepts exactly the well-labelled, smooth,
decomposable circuits; acceptance is sound for inference; the pinned union-only decomposability test is not.

`Net.isDecomposable` is the *repaired* test (duplicate-free concatenation ∧ same set); the pinned code's
test is `Net.isDecomposableUnionOnly` (see `unionOnly_unsound`).
-/
namespace Deeprob
open Net
variable {α : Type}

/-! ### `is_labeled` -/

/-- `is_labeled` returns `None` iff the ids of the listed nodes are a permutation of `0..len-1`
(unique ∧ min = 0 ∧ max = len-1 ⇔ consecutive from 0). Holds for the empty list as well (where the
Python code would raise on `min(set())`; `collect` never returns it, see `collect_ne_nil`). -/
theorem isLabeled_iff_perm (n : Net α) (nodes : List Nat) :
    Net.isLabeled n nodes = none ↔ (nodes.map (idOf n)).Perm (List.range nodes.length) := by
  rw [isLabeled_eq_none_iff, labeled_list_iff, List.length_map]

example : Net.isLabeled C03.exNet (Net.collect C03.exNet 5) = none ∧
    ((Net.collect C03.exNet 5).map (idOf C03.exNet)).Perm (List.range 6) :=
  ⟨by decide, (isLabeled_iff_perm C03.exNet _).1 (by decide)⟩
example : ¬ ((Net.collect C03.badIdNet 5).map (idOf C03.badIdNet)).Perm (List.range (Net.collect C03.badIdNet 5).length) :=
  fun h => absurd ((isLabeled_iff_perm C03.badIdNet _).2 h) (by decide)

/-! ### the S-layer predicate and its three parts -/

theorem validSpec_iff (n : Net α) (root : Nat) :
    ValidSpec n root ↔ LabeledSpec n root ∧ SmoothSpec n root ∧ DecompSpec n root := by
  unfold ValidSpec LabeledSpec SmoothSpec DecompSpec SumOK ProdOK
  constructor
  · rintro ⟨h1, h2⟩
    exact ⟨h1, fun i hi x hx => (h2 i hi x hx).1, fun i hi x hx => (h2 i hi x hx).2⟩
  · rintro ⟨h1, h2, h3⟩
    exact ⟨h1, fun i hi x hx => ⟨h2 i hi x hx, h3 i hi x hx⟩⟩

example : ValidSpec C03.exNet 5 ∧ LabeledSpec C03.exNet 5 ∧ SmoothSpec C03.exNet 5 ∧ DecompSpec C03.exNet 5 := by
  have h : LabeledSpec C03.exNet 5 ∧ SmoothSpec C03.exNet 5 ∧ DecompSpec C03.exNet 5 :=
    ⟨(isLabeled_iff_perm _ _).1 (by decide), (isSmooth_eq_none_iff _ _).1 (by decide),
      (isDecomposable_eq_none_iff _ _).1 (by decide)⟩
  exact ⟨(validSpec_iff _ _).2 h, h⟩

/-- the product clause of `ValidSpec` (each child scope duplicate-free ∧ pairwise disjoint) is the same
as a duplicate-free concatenation of the child scopes — the form used by `Circ.Valid` and `NodeOK` -/
theorem decompSpec_iff_flatten_nodup (n : Net α) (root : Nat) :
    DecompSpec n root ↔ ∀ i ∈ Net.collect n root, ∀ x, n[i]? = some x → x.kind = .prod →
      x.ch ≠ [] ∧ (x.ch.map (scopeOf n)).flatten.Nodup ∧ scopeEq (x.ch.map (scopeOf n)).flatten x.scope := by
  unfold DecompSpec
  simp only [← prodOK'_iff]
  rfl

example : ∀ i ∈ Net.collect C03.exNet 5, ∀ x, C03.exNet[i]? = some x → x.kind = .prod →
      x.ch ≠ [] ∧ (x.ch.map (scopeOf C03.exNet)).flatten.Nodup ∧
        scopeEq (x.ch.map (scopeOf C03.exNet)).flatten x.scope :=
  (decompSpec_iff_flatten_nodup _ _).1 ((isDecomposable_eq_none_iff _ _).1 (by decide))

/-! ### `check_spn` accepts exactly `ValidSpec` -/

/-- the root is always collected, so the node list handed to the three tests is never empty -/
theorem collect_root (n : Net α) (root : Nat) : root ∈ Net.collect n root ∧ Net.collect n root ≠ [] :=
  ⟨root_mem_collect n root, collect_ne_nil n root⟩

example : 5 ∈ Net.collect C03.exNet 5 ∧ Net.collect C03.exNet 5 = [5, 3, 4, 0, 1, 2] := by decide

/-- **C03 main theorem**: `check_spn(root, labeled=True, smooth=True, decomposable=True)` raises nothing
iff the collected nodes are well labelled, every sum is smooth and every product decomposable. -/
theorem checkSpn_accept_iff (n : Net α) (root : Nat) :
    Net.checkSpn n root true true true = .accept ↔ ValidSpec n root := by
  rw [checkSpn_accept_iff_flags, validSpec_iff]
  simp only [forall_const, isLabeled_iff_perm, isSmooth_eq_none_iff, isDecomposable_eq_none_iff]
  rfl

example : Net.checkSpn C03.exNet 5 true true true = .accept ∧ ValidSpec C03.exNet 5 :=
  ⟨by decide, (checkSpn_accept_iff _ _).1 (by decide)⟩
example : ¬ ValidSpec C03.witnessNet 3 :=
  fun h => absurd ((checkSpn_accept_iff _ _).2 h) (by decide)

/-- any combination of the three flags: exactly the enabled parts of the specification are required -/
theorem checkSpn_flags_accept_iff (n : Net α) (root : Nat) (l s d : Bool) :
    Net.checkSpn n root l s d = .accept ↔
      (l = true → LabeledSpec n root) ∧ (s = true → SmoothSpec n root) ∧ (d = true → DecompSpec n root) := by
  rw [checkSpn_accept_iff_flags]
  simp only [isLabeled_iff_perm, isSmooth_eq_none_iff, isDecomposable_eq_none_iff]
  rfl

example : Net.checkSpn C03.witnessNet 3 true true false = .accept ∧
    Net.checkSpn C03.witnessNet 3 false false true ≠ .accept := by decide

/-- `check_spn(root)` with the default flags (labeled only) -/
theorem checkSpn_labeled_only_iff (n : Net α) (root : Nat) :
    Net.checkSpn n root true false false = .accept ↔ LabeledSpec n root := by
  rw [checkSpn_flags_accept_iff]; simp

example : Net.checkSpn C03.badSmoothNet 5 true false false = .accept ∧ LabeledSpec C03.badSmoothNet 5 :=
  ⟨by decide, (checkSpn_labeled_only_iff _ _).1 (by decide)⟩

theorem checkSpn_smooth_only_iff (n : Net α) (root : Nat) :
    Net.checkSpn n root false true false = .accept ↔ SmoothSpec n root := by
  rw [checkSpn_flags_accept_iff]; simp

example : Net.checkSpn C03.badIdNet 5 false true false = .accept ∧ SmoothSpec C03.badIdNet 5 :=
  ⟨by decide, (checkSpn_smooth_only_iff _ _).1 (by decide)⟩

theorem checkSpn_decomposable_only_iff (n : Net α) (root : Nat) :
    Net.checkSpn n root false false true = .accept ↔ DecompSpec n root := by
  rw [checkSpn_flags_accept_iff]; simp

example : Net.checkSpn C03.badIdNet 5 false false true = .accept ∧ DecompSpec C03.badIdNet 5 :=
  ⟨by decide, (checkSpn_decomposable_only_iff _ _).1 (by decide)⟩

/-- **error class = first failing check**, in the order labeled, smooth, decomposable
(all three flags on; the verdict is one of the four classes and the classes are exclusive) -/
theorem checkSpn_reject_first (n : Net α) (root : Nat) :
    ((∃ w, Net.checkSpn n root true true true = .labeled w) ↔ ¬ LabeledSpec n root) ∧
    ((∃ w, Net.checkSpn n root true true true = .smooth w) ↔ LabeledSpec n root ∧ ¬ SmoothSpec n root) ∧
    ((∃ w, Net.checkSpn n root true true true = .decomposable w) ↔
        LabeledSpec n root ∧ SmoothSpec n root ∧ ¬ DecompSpec n root) := by
  have hL : LabeledSpec n root ↔ isLabeled n (collect n root) = none := (isLabeled_iff_perm n _).symm
  have hS : SmoothSpec n root ↔ isSmooth n (collect n root) = none := (isSmooth_eq_none_iff n _).symm
  have hD : DecompSpec n root ↔ isDecomposable n (collect n root) = none := (isDecomposable_eq_none_iff n _).symm
  simp only [checkSpn_labeled_iff, checkSpn_smooth_iff, checkSpn_decomposable_iff, hL, hS, hD, true_and,
    forall_const, exists_and_left, ← Option.isSome_iff_exists, Option.isSome_iff_ne_none]

example : (∃ w, Net.checkSpn C03.badIdNet 5 true true true = .labeled w) ∧
    (∃ w, Net.checkSpn C03.badSmoothNet 5 true true true = .smooth w) ∧ ¬ SmoothSpec C03.badSmoothNet 5 ∧
    ¬ DecompSpec C03.badSmoothNet 5 ∧
    (∃ w, Net.checkSpn C03.witnessNet 3 true true true = .decomposable w) :=
  ⟨⟨"repeated", by decide⟩, ⟨"weights", by decide⟩,
    fun h => absurd ((isSmooth_eq_none_iff _ _).2 h) (by decide),
    fun h => absurd ((isDecomposable_eq_none_iff _ _).2 h) (by decide), ⟨"scopes", by decide⟩⟩

/-! ### soundness for inference -/

/-- **acceptance is sound**: a children-first table all of whose entries are collected from the root,
accepted by `check_spn` with all three flags, with distribution leaves, normalised sum weights and
normalised leaves, has complete-evidence values summing to one over the domain of the root scope, and
evaluates to one when nothing is observed — sharing of sub-circuits included. -/
theorem checkSpn_sound [CommSemiring α] (dom : Nat → Nat) (n : Net α) (dens : List α) (root : Nat)
    (hw : WellOrdered n) (hacc : Net.checkSpn n root true true true = .accept)
    (hall : ∀ i < n.length, i ∈ Net.collect n root) (hroot : root < n.length)
    (hleaf : ∀ (i : Nat) (x : NNode α), n[i]? = some x → x.kind = .leaf →
      LeafOK dom x.scope (x.leaf.fn x.scope (dens.getD i 0)))
    (hnw : NetNormW n) (hln : NetLeafNorm n dens) :
    sumOver dom (scopeOf n root) (fun _ => none) (fun e => (evalNet e dens n).getD root 0) = 1 ∧
      (evalNet (fun _ => none) dens n).getD root 0 = 1 := by
  obtain ⟨_, hsm, hdc⟩ := (validSpec_iff n root).1 ((checkSpn_accept_iff n root).1 hacc)
  have hok : ∀ i (x : NNode α), n[i]? = some x → NodeOK dom n dens i x := by
    intro i x hx
    have hi : i < n.length := (List.getElem?_eq_some_iff.1 hx).1
    have hm := hall i hi
    unfold NodeOK
    cases hk : x.kind
    · exact hsm i hm x hx hk
    · exact ((prodOK'_iff n x).2 (hdc i hm x hx hk)).2
    · exact hleaf i x hx hk
  have V := valid_toTree dom n dens hw hok root hroot
  have NW := normW_toTree n dens hw hnw root hroot
  have LN := leafNorm_toTree dom n dens hw hln root hroot
  have h1 := Circ.normalised dom _ V NW LN
  rw [scope_toTree n dens root root hroot] at h1
  have hf : (fun e => (evalNet e dens n).getD root 0) = fun e => Circ.eval e (toTree n dens (root+1) root) :=
    funext fun e => evalNet_refines e dens n hw root hroot
  refine ⟨by rw [hf]; exact h1, ?_⟩
  rw [evalNet_refines _ dens n hw root hroot]
  exact Circ.all_missing_one dom _ V NW LN

example :
    sumOver (fun _ => 2) (scopeOf C03.exNet 5) (fun _ => none) (fun e => (evalNet e [] C03.exNet).getD 5 0) = 1 ∧
      (evalNet (fun _ => none) [] C03.exNet).getD 5 0 = 1 :=
  checkSpn_sound (fun _ => 2) C03.exNet [] 5 C03.exNet_wellOrdered (by decide) (by decide) (by decide)
    C03.exNet_leafOK C03.exNet_normW C03.exNet_leafNorm

/-! ### the pinned union-only decomposability test is unsound -/

/-- **witness**: a 4-entry table (root = product over `[0,1]` of the Bernoulli leaf over variable 0 and
of a product of the leaves over variables 0 and 1; all tables `[1/2,1/2]`) that satisfies *every*
hypothesis of `checkSpn_sound` except acceptance by the repaired test — it is well labelled, smooth and
accepted by the union-only test of the pinned code — yet its complete-evidence values sum to `1/2`. -/
theorem unionOnly_unsound :
    ∃ (n : Net Rat) (root : Nat), WellOrdered n ∧ root < n.length ∧ (∀ i < n.length, i ∈ Net.collect n root) ∧
      Net.isLabeled n (Net.collect n root) = none ∧ Net.isSmooth n (Net.collect n root) = none ∧
      Net.isDecomposableUnionOnly n (Net.collect n root) = none ∧
      Net.isDecomposable n (Net.collect n root) = some "scopes" ∧
      Net.checkSpn n root true true true = .decomposable "scopes" ∧
      (∀ (i : Nat) (x : NNode Rat), n[i]? = some x → x.kind = .leaf →
        LeafOK (fun _ => 2) x.scope (x.leaf.fn x.scope (([] : List Rat).getD i 0))) ∧
      NetNormW n ∧ NetLeafNorm n [] ∧
      sumOver (fun _ => 2) (scopeOf n root) (fun _ => none) (fun e => (evalNet e [] n).getD root 0) = 1/2 :=
  ⟨C03.witnessNet, 3, C03.witnessNet_wellOrdered, by decide, by decide, by decide, by decide, by decide,
    by decide, by decide, C03.witnessNet_leafOK, C03.witnessNet_normW, C03.witnessNet_leafNorm,
    by decide +kernel⟩

/-- the witness, concretely: the four complete assignments each get `1/8` -/
example : (List.map (fun r => (evalNet (Ev.ofList r) [] C03.witnessNet).getD 3 (0 : Rat))
    [[some 0, some 0], [some 0, some 1], [some 1, some 0], [some 1, some 1]]) = [1/8, 1/8, 1/8, 1/8] := by
  decide +kernel

/-! ### BFS correctness (`collect_nodes` = reachable set) -/

/-- with in-range child indices (in particular for every children-first table) the fuel `n.length+1`
suffices and `collect` returns exactly the nodes reachable from the root along child edges -/
theorem collect_reach (n : Net α) (root : Nat)
    (h : ∀ (i : Nat) (x : NNode α), n[i]? = some x → ∀ c ∈ x.ch, c < n.length) (i : Nat) :
    i ∈ Net.collect n root ↔ Relation.ReflTransGen (fun a b => b ∈ Net.chOf n a) root i :=
  mem_collect_iff_reach n root h i

example : (∀ (i : Nat) (x : NNode Rat), C03.exNet[i]? = some x → ∀ c ∈ x.ch, c < C03.exNet.length) ∧
    Relation.ReflTransGen (fun a b => b ∈ Net.chOf C03.exNet a) 5 0 := by
  have h : ∀ (i : Nat) (x : NNode Rat), C03.exNet[i]? = some x → ∀ c ∈ x.ch, c < C03.exNet.length :=
    fun i x hx c hc => lt_trans (C03.exNet_wellOrdered i x hx c hc) (List.getElem?_eq_some_iff.1 hx).1
  exact ⟨h, (collect_reach C03.exNet 5 h 0).1 (by decide)⟩

/-- BFS lists every node once (any table, cycles and dangling indices included); this is what makes
`len(ids) != len(nodes)` in `is_labeled` a test of id uniqueness -/
theorem collect_nodup (n : Net α) (root : Nat) : (Net.collect n root).Nodup := Net.collect_nodup n root

example : (Net.collect C03.exNet 5).Nodup ∧ (Net.collect C03.exNet 5).length = 6 :=
  ⟨collect_nodup _ _, by decide⟩

end Deeprob
