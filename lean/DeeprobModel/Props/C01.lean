import DeeprobModel.Lemmas.NetValid
import DeeprobModel.Props.CircMarg
/-
C01 — complete-evidence inference is the circuit's mixture/product semantics and is normalised.
Property theorems only. The value table `evalNet` is what `eval_bottom_up` fills (children first).
-/
namespace Deeprob
variable {α : Type} [CommSemiring α]

/-- every entry of the bottom-up value table is the mixture/product semantics of that node's
unfolding — trees and DAGs with shared sub-circuits, any arity, any labelling, any evidence -/
theorem C01_semantics (net : Net α) (dens : List α) (e : Ev) (hw : WellOrdered net)
    (i : Nat) (hi : i < net.length) :
    (evalNet e dens net).getD i 0 = Circ.eval e (toTree net dens (i+1) i) :=
  evalNet_refines e dens net hw i hi

/-- the complete-evidence values of a valid circuit with normalised weights and leaves sum to one
over the whole (discrete) domain of the root scope -/
theorem C01_normalised (dom : Nat → Nat) (net : Net α) (dens : List α) (hw : WellOrdered net)
    (hok : ∀ i (x : NNode α), net[i]? = some x → NodeOK dom net dens i x)
    (hnw : NetNormW net) (hln : NetLeafNorm net dens) (root : Nat) (hr : root < net.length) :
    sumOver dom (scopeOf net root) (fun _ => none) (fun x => (evalNet x dens net).getD root 0) = 1 := by
  have hv := valid_toTree dom net dens hw hok root hr
  have h1 := Circ.normalised dom _ hv (normW_toTree net dens hw hnw root hr) (leafNorm_toTree dom net dens hw hln root hr)
  rw [scope_toTree net dens root root hr] at h1
  rw [← h1]
  apply sumOver_congr; intro e' _
  exact evalNet_refines e' dens net hw root hr

/-- non-vacuity: a 2-variable DAG (a sum over two products sharing a leaf) meets the hypotheses -/
def exNet : Net Rat :=
  [ { id := 3, kind := .leaf, scope := [0], ch := [], ws := [], leaf := .cat 0 [1/4, 3/4] },
    { id := 4, kind := .leaf, scope := [2], ch := [], ws := [], leaf := .cat 2 [1/2, 1/2] },
    { id := 5, kind := .leaf, scope := [2], ch := [], ws := [], leaf := .cat 2 [1/10, 9/10] },
    { id := 1, kind := .prod, scope := [0, 2], ch := [0, 1], ws := [], leaf := .absent },
    { id := 2, kind := .prod, scope := [2, 0], ch := [2, 0], ws := [], leaf := .absent },
    { id := 0, kind := .sum, scope := [0, 2], ch := [3, 4], ws := [1/3, 2/3], leaf := .absent } ]

example : Net.wellOrderedB exNet = true := by decide
example : (evalNet (fun _ => none) [] exNet).getD 5 0 = 1 := by decide +kernel
example : (evalNet (Ev.ofList [some 1, none, some 0]) [] exNet).getD 5 0 = 1/3 * (3/4 * (1/2)) + 2/3 * (1/10 * (3/4)) := by
  decide +kernel

end Deeprob
