import DeeprobModel.Lemmas.MargLemmas
import DeeprobModel.Props.C09
set_option linter.unusedSectionVars false
set_option linter.unusedSimpArgs false
/-
C10 — structural marginalisation equals marginal inference (TREE level).
Model: `Circ.margStep` / `Circ.marginalize` / `margGuard` (Model/Rewrite.lean) mirror structure.py
`marginalize`. Leaves over several variables (Chow-Liu trees in the code, which are converted with
`to_pc()` and marginalised recursively) enter through the parameter `margLeaf` together with the
hypothesis `MargLeafOK` that it is exact on the leaves of the circuit at hand.
The DAG-level model is `marginalizeNet` (Model/RewriteNet.lean).
-/
namespace Deeprob

/-- the evidence `x` with every variable outside `keep` marked missing -/
def Ev.restrict (x : Ev) (keep : List Nat) : Ev := fun v => if v ∈ keep then x v else none

theorem Ev.restrict_out (x : Ev) (keep : List Nat) : ∀ v, v ∉ keep → x.restrict keep v = none := by
  intro v hv; simp [Ev.restrict, hv]

/-! ### the argument checks -/

theorem nodupNatB_iff (l : List Nat) : nodupNatB l = true ↔ l.Nodup := by
  induction l with
  | nil => simp [nodupNatB]
  | cons x xs ih => simp [nodupNatB, ih]

/-- **guards**: the three checks at the top of `marginalize` accept exactly the non-empty,
duplicate-free kept sets that lie inside the root scope -/
theorem marginalize_guards (keep scope : List Nat) :
    margGuard keep scope = none ↔ keep ≠ [] ∧ keep.Nodup ∧ ∀ v ∈ keep, v ∈ scope := by
  unfold margGuard
  by_cases h1 : keep = []
  · simp [h1]
  · by_cases h2 : nodupNatB keep = true
    · have h2' := (nodupNatB_iff keep).1 h2
      by_cases h3 : keep.all (fun v => scope.contains v) = true
      · have h3' : ∀ v ∈ keep, v ∈ scope := by simpa using h3
        simp [h1, h2, h3, h2', h3']
      · have h3' : ¬ ∀ v ∈ keep, v ∈ scope := by simpa using h3
        simp only [List.isEmpty_iff, h1, h2, h3]; simp [h3']
    · have h2' : ¬ keep.Nodup := fun h => h2 ((nodupNatB_iff keep).2 h)
      simp [h1, h2, h2']

/-- which `ValueError` is raised (the checks are made in this order) -/
theorem marginalize_guard_reasons (keep scope : List Nat) :
    (margGuard keep scope = some "empty" ↔ keep = []) ∧
    (margGuard keep scope = some "duplicates" ↔ keep ≠ [] ∧ ¬ keep.Nodup) ∧
    (margGuard keep scope = some "subset" ↔ keep ≠ [] ∧ keep.Nodup ∧ ¬ ∀ v ∈ keep, v ∈ scope) := by
  unfold margGuard
  by_cases h1 : keep = []
  · simp [h1]
  · by_cases h2 : nodupNatB keep = true
    · have h2' := (nodupNatB_iff keep).1 h2
      by_cases h3 : keep.all (fun v => scope.contains v) = true
      · have h3' : ∀ v ∈ keep, v ∈ scope := by simpa using h3
        simp [h1, h2, h3, h2', h3']
      · have h3' : ¬ ∀ v ∈ keep, v ∈ scope := by simpa using h3
        simp only [List.isEmpty_iff, h1, h2, h3]; simp [h1, h2', h3']
    · have h2' : ¬ keep.Nodup := fun h => h2 ((nodupNatB_iff keep).2 h)
      simp [h1, h2, h2']

example : margGuard [1] [0, 1] = none ∧ margGuard [] [0, 1] = some "empty" ∧
    margGuard [1, 1] [0, 1] = some "duplicates" ∧ margGuard [1, 2] [0, 1] = some "subset" := by decide

namespace Circ
variable {α : Type} [CommSemiring α]

/-- what the theorems assume about the input: a valid normalised circuit with duplicate-free scope
lists, and an exact `margLeaf` on its multi-variable leaves -/
structure MargInput (dom : Nat → Nat) (keep : List Nat)
    (margLeaf : List Nat → (Ev → α) → List Nat → Option (Circ α)) (c : Circ α) : Prop where
  valid : Valid dom c
  normW : NormW c
  leafNorm : LeafNorm dom c
  nodup : ScopesNodup c
  leafOK : MargLeafOK dom keep margLeaf c

variable {dom : Nat → Nat} {keep : List Nat} {margLeaf : List Nat → (Ev → α) → List Nat → Option (Circ α)}
  {c c' : Circ α}

theorem marginalize_some (h : marginalize margLeaf keep c = some c') :
    ∃ r, margStep margLeaf keep c = some r ∧ c' = prune r := by
  unfold marginalize at h
  cases hs : margStep margLeaf keep c with
  | none => rw [hs] at h; simp at h
  | some r => rw [hs] at h; simp at h; exact ⟨r, rfl, h.symm⟩

/-- everything at once: the result of `marginalize` is an exact structural marginal -/
theorem marginalize_res (H : MargInput dom keep margLeaf c) (h : marginalize margLeaf keep c = some c') :
    MargRes dom keep c c' := by
  obtain ⟨r, hr, rfl⟩ := marginalize_some h
  have R := (margStep_ok dom keep margLeaf c H.valid H.normW H.leafNorm H.nodup H.leafOK).2 r hr
  have P := prune_ok dom r R.valid R.nodup
  have N := prune_normalised dom r R.valid R.normW R.leafNorm
  exact { valid := P.1, normW := N.1, leafNorm := N.2, nodup := P.2.1,
          scope_iff := fun v => (P.2.2 v).trans (R.scope_iff v), hit := R.hit,
          eval_eq := fun e he => by
            rw [prune_preserves_eval_valid dom r R.valid R.normW e]; exact R.eval_eq e he }

/-- **C10, value**: whenever every variable outside the kept set is missing, the marginalised circuit
and the original circuit report the same value -/
theorem marginalize_eval (H : MargInput dom keep margLeaf c) (h : marginalize margLeaf keep c = some c')
    (e : Ev) (he : ∀ v, v ∉ keep → e v = none) : eval e c' = eval e c :=
  (marginalize_res H h).eval_eq e he

/-- **C10, value, as stated in the property**: for *every* input `x` the likelihood of the result
equals the original circuit's likelihood with all other variables marked missing -/
theorem marginalize_eval_restrict (H : MargInput dom keep margLeaf c)
    (h : marginalize margLeaf keep c = some c') (x : Ev) :
    eval x c' = eval (x.restrict keep) c := by
  have R := marginalize_res H h
  rw [← R.eval_eq (x.restrict keep) (Ev.restrict_out x keep)]
  apply eval_congr dom c' R.valid
  intro v hv
  have := ((R.scope_iff v).1 hv).2
  simp [Ev.restrict, this]

/-- … which is the explicit sum of the original circuit over all completions of the other variables -/
theorem marginalize_is_marginal (H : MargInput dom keep margLeaf c)
    (h : marginalize margLeaf keep c = some c') (x : Ev) :
    eval x c' = sumOver dom (scope c) (x.restrict keep) (fun e' => eval e' c) := by
  rw [marginalize_eval_restrict H h x]; exact marg dom c H.valid _

/-- **C10, scope**: the result is a circuit over exactly the kept variables of the original scope -/
theorem marginalize_scope (H : MargInput dom keep margLeaf c) (h : marginalize margLeaf keep c = some c') :
    ∀ v, v ∈ scope c' ↔ v ∈ scope c ∧ v ∈ keep :=
  (marginalize_res H h).scope_iff

theorem marginalize_scope_eq (H : MargInput dom keep margLeaf c) (h : marginalize margLeaf keep c = some c')
    (hsub : ∀ v ∈ keep, v ∈ scope c) : scopeEq (scope c') keep := by
  intro v; rw [marginalize_scope H h v]
  exact ⟨fun h => h.2, fun h => ⟨hsub v h, h⟩⟩

/-- **C10, validity**: the result is valid, its weights and leaves are normalised, scopes duplicate-free -/
theorem marginalize_valid (H : MargInput dom keep margLeaf c) (h : marginalize margLeaf keep c = some c') :
    Valid dom c' ∧ NormW c' ∧ LeafNorm dom c' ∧ ScopesNodup c' :=
  have R := marginalize_res H h
  ⟨R.valid, R.normW, R.leafNorm, R.nodup⟩

/-- **`None` iff no kept variable is in scope** (what `nodes_map[node.id] = None` means) -/
theorem marginalize_none_iff (H : MargInput dom keep margLeaf c) :
    marginalize margLeaf keep c = none ↔ ∀ v ∈ scope c, v ∉ keep := by
  have S := margStep_ok dom keep margLeaf c H.valid H.normW H.leafNorm H.nodup H.leafOK
  unfold marginalize
  cases hs : margStep margLeaf keep c with
  | none => simp only [Option.map_none, true_iff]; exact S.1 hs
  | some r =>
    simp only [Option.map_some]
    constructor
    · intro h; cases h
    · intro h
      obtain ⟨v, hv, hk⟩ := (S.2 r hs).hit
      exact absurd hk (h v hv)

/-- an accepted kept set always yields a circuit -/
theorem marginalize_accepts (H : MargInput dom keep margLeaf c) (hg : margGuard keep (scope c) = none) :
    ∃ c', marginalize margLeaf keep c = some c' := by
  obtain ⟨hne, _, hsub⟩ := (marginalize_guards keep (scope c)).1 hg
  cases hm : marginalize margLeaf keep c with
  | some c' => exact ⟨c', rfl⟩
  | none =>
    obtain ⟨v, hv⟩ := List.exists_mem_of_ne_nil keep hne
    exact absurd hv ((marginalize_none_iff H).1 hm v (hsub v hv))

/-! ### non-vacuity: the circuit of C09 (single-variable leaves only, any `margLeaf`) -/

theorem C09ex.margInput (keep : List Nat) : MargInput C09ex.dom keep (fun _ _ _ => none) C09ex.c :=
  { valid := C09ex.valid_c, normW := C09ex.normW_c, leafNorm := C09ex.leafNorm_c, nodup := C09ex.scopesNodup_c,
    leafOK := by simp [C09ex.c, MargLeafOK, C09ex.l0, C09ex.l0', C09ex.l1, catLeaf] }

theorem C09ex.marg1 : marginalize (fun _ _ _ => none) [1] C09ex.c = some C09ex.l1 := by
  simp [marginalize, margStep, margSum, margProd, C09ex.c, C09ex.l0, C09ex.l0', C09ex.l1, catLeaf, prune,
    List.filterMap_cons]

theorem C09ex.marg0 : marginalize (fun _ _ _ => none) [0] C09ex.c
    = some (.sum [0] [1/2, 1/2] [C09ex.l0, C09ex.l0']) := by
  simp [marginalize, margStep, margSum, margProd, C09ex.c, C09ex.l0, C09ex.l0', C09ex.l1, catLeaf, prune,
    rwSum, absorbSum, sumKids, List.filterMap_cons]

example : ∀ x : Ev, eval x C09ex.l1 = eval (x.restrict [1]) C09ex.c :=
  marginalize_eval_restrict (C09ex.margInput [1]) C09ex.marg1
example : ∀ x : Ev, eval x (.sum [0] [1/2, 1/2] [C09ex.l0, C09ex.l0'])
    = sumOver C09ex.dom [0, 1] (x.restrict [0]) (fun e' => eval e' C09ex.c) :=
  marginalize_is_marginal (C09ex.margInput [0]) C09ex.marg0
example : scopeEq (scope C09ex.l1) [1] :=
  marginalize_scope_eq (C09ex.margInput [1]) C09ex.marg1 (by simp [C09ex.c])
example : Valid C09ex.dom C09ex.l1 ∧ NormW C09ex.l1 ∧ LeafNorm C09ex.dom C09ex.l1 ∧ ScopesNodup C09ex.l1 :=
  marginalize_valid (C09ex.margInput [1]) C09ex.marg1
example : marginalize (fun _ _ _ => none) [7] C09ex.c = none :=
  (marginalize_none_iff (C09ex.margInput [7])).2 (by simp [C09ex.c])
example : ∃ c', marginalize (fun _ _ _ => none) [1, 0] C09ex.c = some c' :=
  marginalize_accepts (C09ex.margInput [1, 0]) (by decide)

/-! ### non-vacuity with a genuinely multi-variable leaf (the role Chow-Liu-tree leaves play in the code)
`S{½,½}( L[0,1], P(B₀', B₁) )` where the leaf `L` is the joint distribution `B₀ ⊗ B₁` given as a black-box
function, and `margLeaf` answers `B₀` for the kept set `[0]`. -/
namespace C10ex
open C09ex
def joint : Circ Rat := .prod [0, 1] [l0, l1]
theorem valid_joint : Valid C09ex.dom joint := by simp [joint, Valid, scopeEq, valid_l0, valid_l1]
def L : Circ Rat := .leaf [0, 1] (fun e => eval e joint)
def jc : Circ Rat := .sum [0, 1] [1/2, 1/2] [L, .prod [0, 1] [l0', l1]]
def jMargLeaf : List Nat → (Ev → Rat) → List Nat → Option (Circ Rat) := fun _ _ keep => if keep = [0] then some l0 else none

theorem leafOK_L : LeafOK C09ex.dom [0, 1] (fun e => eval e joint) :=
  { local_ := fun a b h => eval_congr C09ex.dom joint valid_joint a b h,
    marg := fun e => (marg C09ex.dom joint valid_joint e).symm }

theorem margInput : MargInput C09ex.dom [0] jMargLeaf jc :=
  { valid := by simp [jc, L, Valid, scopeEq, valid_l0', valid_l1, leafOK_L]
    normW := by
      have h0' : NormW l0' := by simp [l0', catLeaf, NormW]
      have h1 : NormW l1 := by simp [l1, catLeaf, NormW]
      simp only [jc, L, NormW, List.forall_mem_cons, List.not_mem_nil, false_imp_iff, implies_true, and_true, h0', h1]
      norm_num [tsum]
    leafNorm := by simp [jc, L, joint, LeafNorm, eval, lprod, l0, l0', l1, catLeaf, catLeafFn]
    nodup := by simp [jc, L, ScopesNodup, l0', l1, catLeaf]
    leafOK := by
      simp only [jc, L, MargLeafOK, List.forall_mem_cons, List.not_mem_nil, false_imp_iff, implies_true, and_true]
      refine ⟨fun _ => ⟨by simp [jMargLeaf], ?_⟩, by simp [l0', l1, catLeaf, MargLeafOK]⟩
      intro c' hc'
      simp only [jMargLeaf, if_true, Option.some.injEq] at hc'; subst hc'
      exact { valid := valid_l0, normW := by simp [l0, catLeaf, NormW],
              leafNorm := by simp [l0, catLeaf, catLeafFn, LeafNorm],
              nodup := by simp [l0, catLeaf, ScopesNodup],
              scope_iff := by intro v; simp; intro h; exact Or.inl h
              hit := ⟨0, by simp⟩,
              eval_eq := by
                intro e he
                have h1 : e 1 = none := he 1 (by simp)
                simp [joint, eval, lprod, l0, l1, catLeaf, catLeafFn, h1] } }

theorem marg0 : marginalize jMargLeaf [0] jc = some (.sum [0] [1/2, 1/2] [l0, l0']) := by
  simp [marginalize, margStep, margSum, margProd, jc, L, jMargLeaf, l0, l0', l1, catLeaf, prune,
    rwSum, absorbSum, sumKids, List.filterMap_cons]

example : ∀ x : Ev, eval x (.sum [0] [1/2, 1/2] [l0, l0']) = eval (x.restrict [0]) jc :=
  marginalize_eval_restrict margInput marg0
end C10ex

end Circ
end Deeprob
