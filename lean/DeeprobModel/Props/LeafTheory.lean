import DeeprobModel.Lemmas.LeafCdf
import DeeprobModel.Lemmas.LeafIntegral
import DeeprobModel.Lemmas.LeafCast
import DeeprobModel.Lemmas.LeafDiscrete
import DeeprobModel.Props.C19
import Mathlib.MeasureTheory.Measure.Lebesgue.Basic
import Mathlib.Algebra.Order.Field.Rat
import Mathlib.Tactic.NormNum
set_option linter.unusedSimpArgs false
set_option linter.unusedVariables false
set_option linter.unusedSectionVars false
/-
Exact theory of the univariate leaf families of `deeprob/spn/structure/leaf.py` (`Model/LeafQ.lean`):
the histogram leaf `Isotonic` (density, cdf, inverse cdf, raw moments as coded by `scipy.stats.rv_histogram`),
`Uniform` as its one-bin case, `Bernoulli`, `Categorical`. The densities / cdfs / raw moments that C01, C07, C19
take from Python reference formulas are here Lean functions (run by the driver at `ℚ`) with their defining
integrals proved in Mathlib over `ℝ`.

Hypotheses used throughout: `Incr b` (breaks strictly increasing), `NonNeg hs` / `AllPos hs` (heights), and
`histZ hs b ≠ 0` (`> 0`): at least one bin carries mass.  `hs` are the heights `rv_histogram` works with
(`isoHeights`: the `densities` parameter itself when the widths vary, divided by the widths otherwise).
-/
namespace Deeprob.LeafTheory
open MeasureTheory intervalIntegral Set

/-! ## A. the histogram leaf over any linearly ordered field (in particular at `ℚ`, where the driver computes) -/
section OrderedField
variable {α : Type} [Field α] [LinearOrder α] [IsStrictOrderedRing α]

/-- **isoPdf_nonneg**: the realised density `distribution.pdf` and `Isotonic.likelihood` (with a non-negative
out-of-support constant) are non-negative everywhere. -/
theorem isoPdf_nonneg (ood : α) (hs b : List α) (x : α) (hn : NonNeg hs) (hb : Incr b) (ho : 0 ≤ ood) :
    0 ≤ histPdf hs b x ∧ 0 ≤ isoLik ood hs b x := by
  have h1 := histPdf_nonneg' hs b x hn hb
  refine ⟨h1, ?_⟩
  cases b with
  | nil => simpa [isoLik] using ho
  | cons b0 bs =>
    simp only [isoLik]
    split_ifs
    · exact h1
    · exact ho

/-- the heights `rv_histogram` derives from non-negative `densities` are non-negative under either reading
(heights / counts), whatever `np.allclose` decides -/
theorem isoHeights_nonNeg (atol rtol : α) : ∀ (d b : List α), NonNeg d → Incr b → NonNeg (isoHeights atol rtol d b) := by
  intro d b hd hb
  unfold isoHeights
  split_ifs
  · exact hd
  · have key : ∀ (d b : List α), NonNeg d → Incr b → NonNeg (List.zipWith (fun x w => x / w) d (widths b)) := by
      intro d
      induction d with
      | nil => intro b _ _; simp [NonNeg]
      | cons x d ih =>
        intro b hd hb
        match b, hb with
        | [], _ => simp [widths, NonNeg]
        | [_], _ => simp [widths, NonNeg]
        | lo :: hi :: bs, hb =>
          simp only [widths, List.zipWith_cons_cons]
          intro y hy
          rcases List.mem_cons.1 hy with rfl | hy
          · exact div_nonneg hd.head (sub_nonneg.2 hb.1.le)
          · exact ih (hi :: bs) hd.tail hb.2 y hy
    exact key d b hd hb

/-- **isoPpf_cdf**: `cdf(ppf(u)) = u` for every `u ∈ [0,1]` — the exact guard is: breaks strictly increasing,
heights `≥ 0`, total mass `Z > 0`; zero-height bins are allowed (positivity of all heights is NOT needed for this
direction; it is needed for `ppf(cdf(t)) = t`, see `isoPpf_cdf_inv`). The end points use the wrapper of
`rv_continuous.ppf` (`ppf(0) = a`, `ppf(1) = b`). -/
theorem isoPpf_cdf (bad : α) (hs : List α) (b0 : α) (bs : List α) (u : α) (hn : NonNeg hs)
    (hb : Incr (b0 :: bs)) (hz : 0 < histZ hs (b0 :: bs)) (h0 : 0 ≤ u) (h1 : u ≤ 1) :
    isoCdf hs (b0 :: bs) (isoPpf bad hs (b0 :: bs) u) = u :=
  isoCdf_isoPpf bad hs b0 bs u hn hb hz h0 h1

/-- `ppf(cdf(t)) = t` on the support `[b₀, bₙ]` when ALL heights are positive (with a zero-height bin the
left-hand side is the right end of the flat piece of the cdf through `t`). -/
theorem isoPpf_cdf_inv (bad : α) (hs : List α) (b0 : α) (bs : List α) (t : α) (hp : AllPos hs)
    (hb : Incr (b0 :: bs)) (hne : hs ≠ []) (hl : hs.length = bs.length) (h0 : b0 ≤ t) (h1 : t ≤ lastB b0 bs) :
    isoPpf bad hs (b0 :: bs) (isoCdf hs (b0 :: bs) t) = t := by
  have hbs : bs ≠ [] := by intro h; apply hne; subst h; simpa using hl
  exact isoPpf_isoCdf bad hs b0 bs t hp hb (histZ_pos hs b0 bs hp hb hne hbs) hl h0 h1

/-- **closed form of the cdf** (`np.interp` on the cumulated masses): `0` left of `b₀`, otherwise the mass of
the full bins left of `x` plus `h·(x − bᵢ)` of the bin containing `x`, over `Z`. -/
theorem isoCdf_closed_form (hs : List α) (b0 : α) (bs : List α) (x : α) (hb : Incr (b0 :: bs))
    (hz : histZ hs (b0 :: bs) ≠ 0) :
    isoCdf hs (b0 :: bs) x = if x < b0 then 0 else histCdfRaw x hs (b0 :: bs) / histZ hs (b0 :: bs) :=
  isoCdf_closed hs b0 bs x hb hz

/-- the cdf is monotone with values in `[0,1]` -/
theorem isoCdf_monotone (hs : List α) (b0 : α) (bs : List α) (hn : NonNeg hs) (hb : Incr (b0 :: bs))
    (hz : 0 < histZ hs (b0 :: bs)) :
    (∀ x y, x ≤ y → isoCdf hs (b0 :: bs) x ≤ isoCdf hs (b0 :: bs) y) ∧
    ∀ x, 0 ≤ isoCdf hs (b0 :: bs) x ∧ isoCdf hs (b0 :: bs) x ≤ 1 :=
  ⟨fun _ _ hxy => isoCdf_mono hs b0 bs hxy hn hb hz,
   fun x => ⟨isoCdf_nonneg hs b0 bs x hn hb hz, isoCdf_le_one hs b0 bs x hn hb hz⟩⟩

/-- **inverse_transform_law, general heights**: for `U` uniform on `[0,1]` the event `ppf(U) ≤ t` is `[0, cdf t]`
up to the single point `cdf t` — for every `t`, heights `≥ 0`, `Z > 0`. (With zero-height bins `np.interp` on the
repeated knot returns the RIGHT end of the flat piece, so the point `u = cdf t` may be missing; for `t < b₀` the set
is empty and `[0, cdf t] = {0}`.) -/
theorem inverse_transform_sandwich (bad : α) (hs : List α) (b0 : α) (bs : List α) (t : α) (hn : NonNeg hs)
    (hb : Incr (b0 :: bs)) (hz : 0 < histZ hs (b0 :: bs)) :
    Ico 0 (isoCdf hs (b0 :: bs) t) ⊆ {u | u ∈ Icc (0 : α) 1 ∧ isoPpf bad hs (b0 :: bs) u ≤ t} ∧
    {u | u ∈ Icc (0 : α) 1 ∧ isoPpf bad hs (b0 :: bs) u ≤ t} ⊆ Icc 0 (isoCdf hs (b0 :: bs) t) := by
  constructor
  · intro u hu
    have hle1 : u ≤ 1 := le_trans hu.2.le (isoCdf_le_one hs b0 bs t hn hb hz)
    refine ⟨⟨hu.1, hle1⟩, ?_⟩
    by_contra hc
    have hlt : t < isoPpf bad hs (b0 :: bs) u := not_le.1 hc
    have := isoCdf_mono hs b0 bs hlt.le hn hb hz
    rw [isoCdf_isoPpf bad hs b0 bs u hn hb hz hu.1 hle1] at this
    exact absurd hu.2 (not_lt.2 this)
  · intro u hu
    obtain ⟨⟨h0, h1⟩, hq⟩ := hu
    have := isoCdf_mono hs b0 bs hq hn hb hz
    rw [isoCdf_isoPpf bad hs b0 bs u hn hb hz h0 h1] at this
    exact ⟨h0, this⟩

/-- **inverse_transform_law**: with all heights positive and `t ≥ b₀`,
`{u ∈ [0,1] : ppf u ≤ t} = [0, cdf t]` exactly. Hence `ppf` of a uniform draw — `Isotonic.sample` as coded:
`self.distribution.ppf(q=np.random.rand(n))` — has cdf `isoCdf`. -/
theorem inverse_transform_law (bad : α) (hs : List α) (b0 : α) (bs : List α) (t : α) (hp : AllPos hs)
    (hb : Incr (b0 :: bs)) (hne : hs ≠ []) (hl : hs.length = bs.length) (ht : b0 ≤ t) :
    {u | u ∈ Icc (0 : α) 1 ∧ isoPpf bad hs (b0 :: bs) u ≤ t} = Icc 0 (isoCdf hs (b0 :: bs) t) := by
  have hbs : bs ≠ [] := by intro h; apply hne; subst h; simpa using hl
  have hz := histZ_pos hs b0 bs hp hb hne hbs
  have hn := hp.nonNeg
  obtain ⟨s1, s2⟩ := inverse_transform_sandwich bad hs b0 bs t hn hb hz
  apply Subset.antisymm s2
  intro u hu
  rcases lt_or_eq_of_le hu.2 with hlt | heq
  · exact s1 ⟨hu.1, hlt⟩
  · have hle1 : u ≤ 1 := heq ▸ isoCdf_le_one hs b0 bs t hn hb hz
    refine ⟨⟨hu.1, hle1⟩, ?_⟩
    by_cases hlast : t ≤ lastB b0 bs
    · rw [heq, isoPpf_isoCdf bad hs b0 bs t hp hb hz hl ht hlast]
    · exact le_trans (isoPpf_le_last bad hs b0 bs u hn hb hz hl hu.1 hle1) (not_le.1 hlast).le

end OrderedField

/-! ### non-vacuity at `ℚ`: four bins of UNEQUAL widths, one of them of height zero (the object of the
differential run: `Isotonic(0, [0.2, 0.0, 0.5, 0.3], [0, 1, 1.5, 3.5, 4])`) -/

def exD : List ℚ := [1/5, 0, 1/2, 3/10]
def exB : List ℚ := [0, 1, 3/2, 7/2, 4]
/-- three bins, all heights positive, unequal widths -/
def exDp : List ℚ := [1/5, 1/2, 3/10]
def exBp : List ℚ := [0, 1, 3, 4]

theorem exB_incr : Incr exB := by norm_num [exB, Incr]
theorem exBp_incr : Incr exBp := by norm_num [exBp, Incr]
theorem exD_nonNeg : NonNeg exD := by
  intro h hh; simp only [exD, List.mem_cons, List.not_mem_nil, or_false] at hh
  rcases hh with rfl | rfl | rfl | rfl <;> norm_num
theorem exDp_pos : AllPos exDp := by
  intro h hh; simp only [exDp, List.mem_cons, List.not_mem_nil, or_false] at hh
  rcases hh with rfl | rfl | rfl <;> norm_num
theorem exZ : histZ exD exB = 27/20 := by norm_num [histZ, exD, exB]

/-- as coded: the widths vary, so SciPy reads the `densities` as heights -/
example : isoHs exD exB = exD := by decide +kernel

example (x : ℚ) : 0 ≤ histPdf exD exB x ∧ 0 ≤ isoLik oodDefault exD exB x :=
  isoPdf_nonneg _ _ _ x exD_nonNeg exB_incr (by norm_num [oodDefault])

/-- break points belong to the bin on their RIGHT; both end points answer the out-of-support constant -/
example : isoLik oodDefault exD exB 1 = 0 ∧ isoLik oodDefault exD exB (3/2) = 10/27 ∧
    isoLik oodDefault exD exB 0 = 1/8388608 ∧ isoLik oodDefault exD exB 4 = 1/8388608 ∧
    histPdf exD exB 0 = 4/27 ∧ histPdf exD exB 4 = 0 := by decide +kernel

example (u : ℚ) (h0 : 0 ≤ u) (h1 : u ≤ 1) : isoCdf exD exB (isoPpf (-1) exD exB u) = u :=
  isoPpf_cdf (-1) exD 0 _ u exD_nonNeg exB_incr (by rw [show (0 : ℚ) :: _ = exB from rfl, exZ]; norm_num) h0 h1

/-- on the flat piece of the cdf (the zero-height bin `[1, 3/2)`) `np.interp` returns its right end -/
example : isoCdf exD exB 1 = 4/27 ∧ isoPpf (-1) exD exB (4/27) = 3/2 ∧ isoCdf exD exB (6/5) = 4/27 := by
  decide +kernel

example (t : ℚ) (h0 : 0 ≤ t) (h1 : t ≤ 4) : isoPpf (-1) exDp exBp (isoCdf exDp exBp t) = t :=
  isoPpf_cdf_inv (-1) exDp 0 _ t exDp_pos exBp_incr (by simp [exDp]) (by simp [exDp]) h0 (by simpa [lastB] using h1)

example (t : ℚ) :
    Ico 0 (isoCdf exD exB t) ⊆ {u | u ∈ Icc (0 : ℚ) 1 ∧ isoPpf (-1) exD exB u ≤ t} ∧
    {u | u ∈ Icc (0 : ℚ) 1 ∧ isoPpf (-1) exD exB u ≤ t} ⊆ Icc 0 (isoCdf exD exB t) :=
  inverse_transform_sandwich (-1) exD 0 _ t exD_nonNeg exB_incr
    (by rw [show (0 : ℚ) :: _ = exB from rfl, exZ]; norm_num)

example (t : ℚ) (ht : 0 ≤ t) :
    {u | u ∈ Icc (0 : ℚ) 1 ∧ isoPpf (-1) exDp exBp u ≤ t} = Icc 0 (isoCdf exDp exBp t) :=
  inverse_transform_law (-1) exDp 0 _ t exDp_pos exBp_incr (by simp [exDp]) (by simp [exDp]) ht

/-- the point `u = cdf t` really can be missing: `t = 1` lies at the left end of the zero-height bin -/
example : isoCdf exD exB 1 = 4/27 ∧ ¬ isoPpf (-1) exD exB (4/27) ≤ 1 := by decide +kernel


/-! ## B. integrals over `ℝ` (Mathlib interval integrals) -/

/-- **iso_integral_one**: the piecewise-constant density integrates to one over `[b₀, bₙ]`; the integral is the
finite sum of interval integrals `Σ hᵢ·∫_{bᵢ}^{bᵢ₊₁} 1` over `Z`. Any number of bins, any heights with `Z ≠ 0`. -/
theorem iso_integral_one (hs : List ℝ) (b0 : ℝ) (bs : List ℝ) (hb : Incr (b0 :: bs))
    (hz : histZ hs (b0 :: bs) ≠ 0) :
    (∫ t in b0..lastB b0 bs, histPdf hs (b0 :: bs) t =
      histInt (fun a b => ∫ _ in a..b, (1 : ℝ)) (lastB b0 bs) hs (b0 :: bs) / histZ hs (b0 :: bs)) ∧
    ∫ t in b0..lastB b0 bs, histPdf hs (b0 :: bs) t = 1 := by
  have h := (integral_mul_histPdf (fun _ => 1) continuous_const hs b0 bs (lastB b0 bs) hb
    (incr_le_lastB bs b0 hb)).2
  simp only [one_mul] at h
  refine ⟨h, ?_⟩
  rw [h, histInt_sub, histCdfRaw_ge_last _ hs b0 bs hb (le_refl _), div_self hz]

/-- **isoCdf_is_integral**: `distribution.cdf(x) = ∫_{b₀}^{x} pdf`, for EVERY real `x` (left of `b₀` both sides
are `0`, right of `bₙ` both are `1`). -/
theorem isoCdf_is_integral (hs : List ℝ) (b0 : ℝ) (bs : List ℝ) (x : ℝ) (hb : Incr (b0 :: bs))
    (hz : histZ hs (b0 :: bs) ≠ 0) :
    isoCdf hs (b0 :: bs) x = ∫ t in b0..x, histPdf hs (b0 :: bs) t := by
  rw [isoCdf_closed hs b0 bs x hb hz]
  by_cases hx : x < b0
  · rw [if_pos hx, integral_histPdf_left hs b0 bs x hx]
  · have h := (integral_mul_histPdf (fun _ => 1) continuous_const hs b0 bs x hb (not_lt.1 hx)).2
    simp only [one_mul] at h
    rw [if_neg hx, h, histInt_sub]

/-- **isoMoment_is_integral**: `rv_histogram._munp(k)` — the closed form
`Σ hᵢ·(bᵢ₊₁^{k+1} − bᵢ^{k+1}) / ((k+1)·Z)` — is `∫ tᵏ·pdf(t) dt` over the support, every order `k`; and
`Isotonic.moment(k)` (which answers `1` for `k = 0` without computing) is the same integral. -/
theorem isoMoment_is_integral (k : ℕ) (hs : List ℝ) (b0 : ℝ) (bs : List ℝ) (hb : Incr (b0 :: bs))
    (hz : histZ hs (b0 :: bs) ≠ 0) :
    histMoment k hs (b0 :: bs) = ∫ t in b0..lastB b0 bs, t ^ k * histPdf hs (b0 :: bs) t ∧
    isoMoment k hs (b0 :: bs) = ∫ t in b0..lastB b0 bs, t ^ k * histPdf hs (b0 :: bs) t := by
  have h := (integral_mul_histPdf (fun t => t ^ k) (continuous_pow k) hs b0 bs (lastB b0 bs) hb
    (incr_le_lastB bs b0 hb)).2
  have h1 : histMoment k hs (b0 :: bs) = ∫ t in b0..lastB b0 bs, t ^ k * histPdf hs (b0 :: bs) t := by
    rw [h, histInt_pow_last _ k _ hs b0 bs hb (le_refl _)]; rfl
  refine ⟨h1, ?_⟩
  unfold isoMoment
  split_ifs with hk
  · subst hk
    simp only [pow_zero, one_mul]
    exact (iso_integral_one hs b0 bs hb hz).2.symm
  · exact h1

/-- the integrand of the moment integral is interval integrable (so the integral above is a genuine one) -/
theorem isoMoment_integrable (k : ℕ) (hs : List ℝ) (b0 : ℝ) (bs : List ℝ) (hb : Incr (b0 :: bs)) :
    IntervalIntegrable (fun t => t ^ k * histPdf hs (b0 :: bs) t) volume b0 (lastB b0 bs) :=
  (integral_mul_histPdf (fun t => t ^ k) (continuous_pow k) hs b0 bs (lastB b0 bs) hb
    (incr_le_lastB bs b0 hb)).1

/-- **law of `Isotonic.sample`** in measure form: for `U` uniform on `[0,1]` (Lebesgue measure) the event
`ppf(U) ≤ t` has probability `cdf(t) = ∫_{b₀}^{t} pdf` — every `t`, heights `≥ 0` (zero bins allowed), `Z > 0`. -/
theorem inverse_transform_measure (bad : ℝ) (hs : List ℝ) (b0 : ℝ) (bs : List ℝ) (t : ℝ) (hn : NonNeg hs)
    (hb : Incr (b0 :: bs)) (hz : 0 < histZ hs (b0 :: bs)) :
    volume {u : ℝ | u ∈ Icc (0 : ℝ) 1 ∧ isoPpf bad hs (b0 :: bs) u ≤ t} = ENNReal.ofReal (isoCdf hs (b0 :: bs) t) ∧
    isoCdf hs (b0 :: bs) t = ∫ x in b0..t, histPdf hs (b0 :: bs) x := by
  obtain ⟨s1, s2⟩ := inverse_transform_sandwich bad hs b0 bs t hn hb hz
  refine ⟨le_antisymm ?_ ?_, isoCdf_is_integral hs b0 bs t hb hz.ne'⟩
  · calc volume {u : ℝ | u ∈ Icc (0 : ℝ) 1 ∧ isoPpf bad hs (b0 :: bs) u ≤ t}
        ≤ volume (Icc 0 (isoCdf hs (b0 :: bs) t)) := measure_mono s2
      _ = ENNReal.ofReal (isoCdf hs (b0 :: bs) t) := by rw [Real.volume_Icc, sub_zero]
  · calc ENNReal.ofReal (isoCdf hs (b0 :: bs) t)
        = volume (Ico 0 (isoCdf hs (b0 :: bs) t)) := by rw [Real.volume_Ico, sub_zero]
      _ ≤ volume {u : ℝ | u ∈ Icc (0 : ℝ) 1 ∧ isoPpf bad hs (b0 :: bs) u ≤ t} := measure_mono s1

/-! ### rational parameters: what the driver computes at `ℚ`, cast to `ℝ`, is the integral -/

/-- for rational `densities`-heights and breaks the real density integrates to one, the rational cdf value the
driver prints is the real integral up to the rational point `x`, and the rational moment is the real moment
integral -/
theorem iso_rat_is_integral (hs : List ℚ) (b0 : ℚ) (bs : List ℚ) (hb : Incr (b0 :: bs))
    (hz : histZ hs (b0 :: bs) ≠ 0) :
    (∫ t in (b0 : ℝ)..((lastB b0 bs : ℚ) : ℝ), histPdf (castL hs) (castL (b0 :: bs)) t = 1) ∧
    (∀ x : ℚ, ((isoCdf hs (b0 :: bs) x : ℚ) : ℝ) = ∫ t in (b0 : ℝ)..(x : ℝ), histPdf (castL hs) (castL (b0 :: bs)) t) ∧
    (∀ k : ℕ, ((isoMoment k hs (b0 :: bs) : ℚ) : ℝ) =
      ∫ t in (b0 : ℝ)..((lastB b0 bs : ℚ) : ℝ), t ^ k * histPdf (castL hs) (castL (b0 :: bs)) t) ∧
    (∀ x : ℚ, ((histPdf hs (b0 :: bs) x : ℚ) : ℝ) = histPdf (castL hs) (castL (b0 :: bs)) (x : ℝ)) := by
  have hb' := incr_cast _ hb
  have hz' : histZ (castL hs) (castL (b0 :: bs)) ≠ 0 := by
    rw [← histZ_cast]; exact_mod_cast hz
  simp only [castL] at hb' hz' ⊢
  refine ⟨?_, ?_, ?_, ?_⟩
  · rw [lastB_cast]; exact (iso_integral_one _ _ _ hb' hz').2
  · intro x
    rw [← isoCdf_is_integral _ _ _ _ hb' hz']
    exact isoCdf_cast hs b0 bs x hb hz
  · intro k
    rw [lastB_cast, ← (isoMoment_is_integral k _ _ _ hb' hz').2]
    unfold isoMoment
    split_ifs
    · simp
    · exact histMoment_cast k hs (b0 :: bs)
  · intro x; exact histPdf_cast hs (b0 :: bs) x

/-! ### non-vacuity over `ℝ` -/

noncomputable def exDr : List ℝ := [1/5, 0, 1/2, 3/10]
noncomputable def exBr : List ℝ := [0, 1, 3/2, 7/2, 4]
theorem exBr_incr : Incr exBr := by norm_num [exBr, Incr]
theorem exDr_nonNeg : NonNeg exDr := by
  intro h hh; simp only [exDr, List.mem_cons, List.not_mem_nil, or_false] at hh
  rcases hh with rfl | rfl | rfl | rfl <;> norm_num
theorem exZr : histZ exDr exBr = 27/20 := by norm_num [histZ, exDr, exBr]

example : ∫ t in (0 : ℝ)..4, histPdf exDr exBr t = 1 := by
  have := (iso_integral_one exDr 0 _ exBr_incr (by rw [show (0 : ℝ) :: _ = exBr from rfl, exZr]; norm_num)).2
  have e : lastB (0 : ℝ) [1, 3/2, 7/2, 4] = 4 := by simp [lastB]
  rw [e] at this
  exact this

example (x : ℝ) : isoCdf exDr exBr x = ∫ t in (0 : ℝ)..x, histPdf exDr exBr t :=
  isoCdf_is_integral exDr 0 _ x exBr_incr (by rw [show (0 : ℝ) :: _ = exBr from rfl, exZr]; norm_num)

/-- the mean of the example histogram is `253/108` (SciPy: `2.3425925…`) and it is the integral `∫ t·pdf` -/
example : ∫ t in (0 : ℝ)..4, t ^ 1 * histPdf exDr exBr t = 253/108 := by
  have h := (isoMoment_is_integral 1 exDr 0 _ exBr_incr
    (by rw [show (0 : ℝ) :: _ = exBr from rfl, exZr]; norm_num)).1
  have e : lastB (0 : ℝ) [1, 3/2, 7/2, 4] = 4 := by simp [lastB]
  rw [e] at h
  rw [show exBr = (0 : ℝ) :: [1, 3/2, 7/2, 4] from rfl, ← h]
  norm_num [histMoment, histMomentZ, histZ, exDr]

example (t : ℝ) :
    volume {u : ℝ | u ∈ Icc (0 : ℝ) 1 ∧ isoPpf (-1) exDr exBr u ≤ t} = ENNReal.ofReal (isoCdf exDr exBr t) :=
  (inverse_transform_measure (-1) exDr 0 _ t exDr_nonNeg exBr_incr
    (by rw [show (0 : ℝ) :: _ = exBr from rfl, exZr]; norm_num)).1

example : ∀ x : ℚ, ((isoCdf exD exB x : ℚ) : ℝ) = ∫ t in ((0 : ℚ) : ℝ)..(x : ℝ), histPdf (castL exD) (castL exB) t :=
  (iso_rat_is_integral exD 0 _ exB_incr (by rw [show (0 : ℚ) :: _ = exB from rfl, exZ]; norm_num)).2.1


/-! ## C. witnesses: what the independent reviewers broke -/

/-- un-normalised cdf of the mutant sampler "pick bin `i` with probability `hᵢ/Σh`, then uniform inside the
bin" (`Isotonic.sample` with densities read as bin masses) -/
def heightPropRaw {α : Type} [Field α] [LT α] [DecidableLT α] (t : α) : List α → List α → α
  | h :: hs, lo :: hi :: bs =>
      (if t < lo then 0 else if t < hi then h * ((t - lo) / (hi - lo)) else h) + heightPropRaw t hs (hi :: bs)
  | _, _ => 0

/-- its cdf -/
def heightPropCdf {α : Type} [Field α] [LT α] [DecidableLT α] (hs b : List α) (t : α) : α :=
  heightPropRaw t hs b / tsum hs

/-- **height_proportional_sampling_is_wrong**: for bins of unequal width the law "bin `i` with probability
`hᵢ/Σh`, uniform inside" is NOT the leaf's distribution: `densities = [1/2, 1/2]`, `breaks = [0, 1, 3]` (SciPy
reads heights since the widths vary; the leaf is the uniform law on `[0,3]`): `cdf(1) = 1/3`, the mutant's is
`1/2`. For equal widths (`breaks = [0, 1, 2]`) the two agree — why a test with equal bins does not see it. -/
theorem height_proportional_sampling_is_wrong :
    Incr ([0, 1, 3] : List ℚ) ∧ isoHs [1/2, 1/2] [0, 1, 3] = [1/2, 1/2] ∧
    isoCdf (isoHs [1/2, 1/2] [0, 1, 3]) [0, 1, 3] 1 = 1/3 ∧ heightPropCdf [1/2, 1/2] [0, 1, 3] (1 : ℚ) = 1/2 ∧
    isoCdf (isoHs [1/2, 1/2] [0, 1, 2]) [0, 1, 2] 1 = heightPropCdf [1/2, 1/2] [0, 1, 2] (1 : ℚ) := by
  refine ⟨by norm_num [Incr], by decide +kernel, by decide +kernel, by decide +kernel, by decide +kernel⟩

/-- raw moment of the mutant `Isotonic.moment` that treats `densities` as bin MASSES (each bin uniform) -/
def massMoment {α : Type} [Field α] (k : ℕ) : List α → List α → α
  | d :: ds, lo :: hi :: bs =>
      d * ((hi ^ (k + 1) - lo ^ (k + 1)) / (((k + 1 : ℕ) : α) * (hi - lo))) + massMoment k ds (hi :: bs)
  | _, _ => 0

/-- **mass_moment_is_wrong**: same leaf (uniform on `[0,3]`, mean `3/2`); bin masses `[1/2, 1/2]` give `5/4`. -/
theorem mass_moment_is_wrong :
    isoMoment 1 (isoHs [1/2, 1/2] [0, 1, 3]) ([0, 1, 3] : List ℚ) = 3/2 ∧
    massMoment 1 [1/2, 1/2] ([0, 1, 3] : List ℚ) = 5/4 := by
  constructor <;> decide +kernel

/-! ## D. Uniform(start, width) — the one-bin histogram -/

/-- `Uniform` is the histogram with the single bin `[start, start+width)` of height one: same density except at
the right end point (SciPy's `uniform` support is closed), same cdf, same ppf on `[0,1]` -/
theorem uniform_is_one_bin {α : Type} [Field α] [LinearOrder α] [IsStrictOrderedRing α] (s w : α) (hw : 0 < w) :
    (∀ x, x ≠ s + w → uniPdf s w x = histPdf [1] [s, s + w] x) ∧
    (∀ x, uniCdf s w x = isoCdf [1] [s, s + w] x) ∧
    (∀ u, 0 ≤ u → u ≤ 1 → uniPpf s w u = isoPpf 0 [1] [s, s + w] u) := by
  have hsw : s < s + w := by linarith
  have hz : histZ [1] [s, s + w] = w := by simp [histZ]
  have hb : Incr [s, s + w] := ⟨hsw, trivial⟩
  refine ⟨?_, ?_, ?_⟩
  · intro x hx
    simp only [uniPdf, histPdf, histRaw, hz]
    by_cases h1 : x < s
    · simp [h1]
    · by_cases h2 : s + w < x
      · have : ¬ x < s + w := not_lt.2 h2.le
        simp [h1, h2, this]
      · have : x < s + w := lt_of_le_of_ne (not_lt.1 h2) hx
        simp [h1, h2, this]
  · intro x
    rw [isoCdf_closed [1] s [s + w] x hb (by rw [hz]; exact hw.ne'), hz]
    simp only [uniCdf, histCdfRaw]
    by_cases h1 : x < s
    · simp [h1]
    · by_cases h2 : s + w < x
      · have : ¬ x < s + w := not_lt.2 h2.le
        simp [h1, h2, this, hw.ne']
      · rcases lt_or_eq_of_le (not_lt.1 h2) with h3 | h3
        · simp [h1, h2, h3]
        · subst h3; simp [h1, hw.ne']
  · intro u h0 h1
    simp only [uniPpf, isoPpf, histPpf, cdfKnots, histKnots, hz, interp, interpAux, List.map_cons, List.map_nil,
      Prod.swap_prod_mk, lastB]
    by_cases hin : 0 < u ∧ u < 1
    · have e : (0 : α) + 1 / w * (s + w - s) = 1 := by field_simp; ring
      rw [if_pos hin, if_neg (not_lt.2 h0), e, if_pos hin.2]
      ring
    · rw [if_neg hin, if_neg (not_lt.2 h0), if_neg (not_lt.2 h1)]
      by_cases hu : u < 1
      · have : u = 0 := le_antisymm (not_lt.1 (fun h => hin ⟨h, hu⟩)) h0
        simp [hu, this]
      · have : u = 1 := le_antisymm h1 (not_lt.1 hu)
        simp [this]

/-- **uniform_integral_one** -/
theorem uniform_integral_one (s w : ℝ) (hw : 0 < w) : ∫ t in s..s + w, uniPdf s w t = 1 := by
  have heq : EqOn (fun _ => 1 / w) (fun t => uniPdf s w t) (Ioo s (s + w)) := by
    intro t ht
    simp [uniPdf, not_lt.2 ht.1.le, not_lt.2 ht.2.le]
  rw [← integral_congr_Ioo_of_le (by linarith) heq]
  simp [hw.ne']

/-- **uniform_moment**: `Uniform.moment(k)` is `∫ tᵏ·pdf` and has the closed form
`((s+w)^{k+1} − s^{k+1}) / ((k+1)·w)` -/
theorem uniform_moment (s w : ℝ) (hw : 0 < w) (k : ℕ) :
    uniMoment s w k = ∫ t in s..s + w, t ^ k * uniPdf s w t ∧
    uniMoment s w k = ((s + w) ^ (k + 1) - s ^ (k + 1)) / ((k + 1) * w) := by
  have heq : EqOn (fun t => t ^ k * (1 / w)) (fun t => t ^ k * uniPdf s w t) (Ioo s (s + w)) := by
    intro t ht
    simp [uniPdf, not_lt.2 ht.1.le, not_lt.2 ht.2.le]
  have hint : ∫ t in s..s + w, t ^ k * uniPdf s w t = ((s + w) ^ (k + 1) - s ^ (k + 1)) / ((k + 1) * w) := by
    rw [← integral_congr_Ioo_of_le (by linarith) heq, intervalIntegral.integral_mul_const, integral_pow]
    field_simp
  have hcl : uniMoment s w k = ((s + w) ^ (k + 1) - s ^ (k + 1)) / ((k + 1) * w) := by
    unfold uniMoment
    split_ifs with hk
    · subst hk; field_simp; ring
    · simp only [histMoment, histMomentZ, histZ]
      have e : (1 : ℝ) * (s + w - s) + 0 = w := by ring
      rw [e]
      push_cast
      field_simp
      ring
  exact ⟨hcl.trans hint.symm, hcl⟩

/-- F14 (`Uniform.fit` on a constant column gave width 0): a zero-width "uniform" has total mass `0`, not `1` -/
theorem uniform_width_zero (s : ℝ) : ∫ t in s..s + 0, uniPdf s 0 t = 0 := by simp

/-- law of `Uniform.sample` (`start + width·U`): `{u ∈ [0,1] : ppf u ≤ t} = [0, cdf t]` for `t ≥ start` -/
theorem uniform_inverse_transform {α : Type} [Field α] [LinearOrder α] [IsStrictOrderedRing α] (s w t : α)
    (hw : 0 < w) (ht : s ≤ t) :
    {u | u ∈ Icc (0 : α) 1 ∧ uniPpf s w u ≤ t} = Icc 0 (uniCdf s w t) := by
  ext u
  simp only [uniPpf, uniCdf, if_neg (not_lt.2 ht), Set.mem_ofPred_eq, mem_Icc]
  by_cases h2 : s + w < t
  · rw [if_pos h2]
    constructor
    · rintro ⟨⟨h0, h1⟩, _⟩; exact ⟨h0, h1⟩
    · rintro ⟨h0, h1⟩
      refine ⟨⟨h0, h1⟩, ?_⟩
      have := mul_le_mul_of_nonneg_left h1 hw.le
      linarith
  · rw [if_neg h2]
    have key : s + w * u ≤ t ↔ u ≤ (t - s) / w := by
      rw [le_div_iff₀ hw]; constructor <;> intro h <;> linarith
    constructor
    · rintro ⟨⟨h0, _⟩, h⟩; exact ⟨h0, key.1 h⟩
    · rintro ⟨h0, h⟩
      refine ⟨⟨h0, ?_⟩, key.2 h⟩
      have : (t - s) / w ≤ 1 := by rw [div_le_one hw]; linarith [not_lt.1 h2]
      linarith

example : ∫ t in (3/2 : ℝ)..3/2 + 2, uniPdf (3/2) 2 t = 1 := uniform_integral_one _ _ (by norm_num)
example : uniMoment (3/2 : ℝ) 2 2 = ∫ t in (3/2 : ℝ)..3/2 + 2, t ^ 2 * uniPdf (3/2) 2 t :=
  (uniform_moment _ _ (by norm_num) 2).1
/-- SciPy: `Uniform(0, 1.5, 2.0).moment(2) = 6.58333…` -/
example : uniMoment (3/2 : ℚ) 2 2 = 79/12 ∧ uniMode (3/2 : ℚ) 2 = 3/2 := by constructor <;> decide +kernel
example : {u | u ∈ Icc (0 : ℚ) 1 ∧ uniPpf (3/2) 2 u ≤ 2} = Icc 0 (uniCdf (3/2) 2 2) :=
  uniform_inverse_transform _ _ _ (by norm_num) (by norm_num)


/-! ## E. discrete families: Bernoulli, Categorical (pmf by CATEGORY VALUE) -/

/-- **bernoulli_sum_one** -/
theorem bernoulli_sum_one {α : Type} [CommRing α] [LT α] [DecidableLT α] (p : α) :
    bernPmf p 0 + bernPmf p 1 = 1 := by
  simp [bernPmf]

/-- Bernoulli(p) is the Categorical leaf with categories `[0, 1]` and probabilities `[1−p, p]`: same pmf, same
raw moments (`p` for every order `≥ 1`), and its dense table is the exporter's `[1−p, p]` -/
theorem bernoulli_is_categorical {α : Type} [CommRing α] [LT α] [DecidableLT α] (p : α) :
    (∀ x : Int, bernPmf p x = catPmf [0, 1] [1 - p, p] x) ∧
    (∀ k : ℕ, catMoment k [0, 1] [1 - p, p] = bernMoment p k) ∧
    denseTbl [0, 1] [1 - p, p] 2 = [1 - p, p] := by
  refine ⟨?_, ?_, ?_⟩
  · intro x
    simp only [bernPmf, catPmf]
    by_cases h1 : x = 1
    · subst h1; simp
    · by_cases h0 : x = 0
      · subst h0; simp
      · simp [h0, h1]
  · intro k
    cases k with
    | zero => simp [catMoment, bernMoment]
    | succ k => simp [catMoment, bernMoment]
  · simp [denseTbl, List.range_succ, catPmf]

/-- **categorical_sum_one**: the pmf summed over the support (the listed, pairwise different categories) is the
sum of the probabilities — one, when they sum to one. Categories in any order, with gaps, negative allowed. -/
theorem categorical_sum_one {α : Type} [CommSemiring α] (cats : List Int) (ps : List α) (hn : cats.Nodup)
    (hl : cats.length = ps.length) (hs : tsum ps = 1) :
    tsum (cats.map (fun c => catPmf cats ps c)) = 1 := by
  have := tsum_support (fun _ => (1 : α)) cats ps hn hl
  simp only [one_mul] at this
  rw [this, catSum_one cats ps hl, hs]

/-- **categorical_moment_is_expectation**: `Categorical.moment(k) = Σ_c cᵏ·p_c` is the expectation
`Σ_{x ∈ support} xᵏ·pmf(x)` with the pmf taken by CATEGORY VALUE -/
theorem categorical_moment_is_expectation {α : Type} [CommRing α] (k : ℕ) (cats : List Int) (ps : List α)
    (hn : cats.Nodup) (hl : cats.length = ps.length) :
    catMoment k cats ps = tsum (cats.map (fun c => ((c : Int) : α) ^ k * catPmf cats ps c)) := by
  rw [catMoment_eq_catSum, tsum_support (fun c => ((c : Int) : α) ^ k) cats ps hn hl]

/-- **index_moment_is_wrong**: with categories `[5, 2, 9]` (not `0..K−1`) the mean is `47/10`; using the INDEX
in place of the category gives `11/10`; likewise `Categorical.mpe` must answer the category `2`, not the index
`1` of the maximal probability. -/
theorem index_moment_is_wrong :
    catMoment 1 [5, 2, 9] [(1/5 : ℚ), 1/2, 3/10] = 47/10 ∧ idxMoment 1 0 [(1/5 : ℚ), 1/2, 3/10] = 11/10 ∧
    catMode [5, 2, 9] [(1/5 : ℚ), 1/2, 3/10] = 2 ∧ argmaxFirst [(1/5 : ℚ), 1/2, 3/10] = 1 := by
  refine ⟨by decide +kernel, by decide +kernel, by decide +kernel, by decide +kernel⟩

/-- **categorical_mode_is_argmax_category**: `Categorical.mpe` answers a category of the support with maximal
pmf — the one stored at the FIRST maximal probability: every category stored before it has a strictly smaller pmf. -/
theorem categorical_mode_is_argmax_category {α : Type} [CommSemiring α] [LinearOrder α] (cats : List Int) (ps : List α)
    (hn : cats.Nodup) (hl : cats.length = ps.length) (hne : ps ≠ []) :
    catMode cats ps ∈ cats ∧
    (∀ c ∈ cats, catPmf cats ps c ≤ catPmf cats ps (catMode cats ps)) ∧
    (∀ (j : ℕ) (c : Int), j < argmaxFirst ps → cats[j]? = some c →
      catPmf cats ps c < catPmf cats ps (catMode cats ps)) := by
  obtain ⟨rv, hr, hmax, hfirst⟩ := argmaxFirst_spec ps hne
  have hlt : argmaxFirst ps < cats.length := by
    rw [hl]
    by_contra hc
    rw [List.getElem?_eq_none (not_lt.1 hc)] at hr
    cases hr
  have hget : cats[argmaxFirst ps]? = some (cats.getD (argmaxFirst ps) 0) := by
    rw [List.getD_eq_getElem?_getD, List.getElem?_eq_getElem hlt]; rfl
  have hmode : catPmf cats ps (catMode cats ps) = rv :=
    catPmf_getElem cats ps _ _ rv hn hget hr
  refine ⟨List.mem_of_getElem? hget, ?_, ?_⟩
  · intro c hc
    obtain ⟨j, hj, hjc⟩ := List.getElem_of_mem hc
    have hj' : j < ps.length := hl ▸ hj
    have h1 : cats[j]? = some c := by rw [List.getElem?_eq_getElem hj, hjc]
    have h2 : ps[j]? = some ps[j] := List.getElem?_eq_getElem hj'
    rw [hmode, catPmf_getElem cats ps j c _ hn h1 h2]
    exact hmax j _ h2
  · intro j c hj hc
    have hj' : j < ps.length := by
      have := (List.getElem?_eq_some_iff.1 hc).1
      exact hl ▸ this
    have h2 : ps[j]? = some ps[j] := List.getElem?_eq_getElem hj'
    rw [hmode, catPmf_getElem cats ps j c _ hn hc h2]
    exact hfirst j _ hj h2


/-- `Bernoulli.mpe` (`0 if p < 0.5 else 1`, tie towards 1) answers a value of maximal pmf -/
theorem bernoulli_mode_maximal {α : Type} [Field α] [LinearOrder α] [IsStrictOrderedRing α] (p : α) (h0 : 0 ≤ p)
    (h1 : p ≤ 1) (x : Int) : bernPmf p x ≤ bernPmf p (bernMode p) := by
  have h2 : (1 : α) / (1 + 1) = 1 / 2 := by norm_num
  simp only [bernMode, h2]
  by_cases hp : p < 1 / 2
  · rw [if_pos hp]
    simp only [bernPmf]
    by_cases hx1 : x = 1
    · subst hx1; simp; linarith
    · by_cases hx0 : x = 0
      · subst hx0; simp
      · simp [hx0, hx1]; linarith
  · rw [if_neg hp]
    have hp' : 1 / 2 ≤ p := not_lt.1 hp
    simp only [bernPmf]
    by_cases hx1 : x = 1
    · subst hx1; simp
    · by_cases hx0 : x = 0
      · subst hx0; simp; linarith
      · simp [hx0, hx1]; linarith

/-! ### non-vacuity: categories with gaps, stored unsorted -/

def exCats : List Int := [5, 2, 9]
def exPs : List ℚ := [1/5, 1/2, 3/10]

example : tsum (exCats.map (fun c => catPmf exCats exPs c)) = 1 :=
  categorical_sum_one exCats exPs (by decide) rfl (by norm_num [exPs, tsum])
example (k : ℕ) : catMoment k exCats exPs = tsum (exCats.map (fun c => ((c : Int) : ℚ) ^ k * catPmf exCats exPs c)) :=
  categorical_moment_is_expectation k exCats exPs (by decide) rfl
example : catMode exCats exPs ∈ exCats ∧
    (∀ c ∈ exCats, catPmf exCats exPs c ≤ catPmf exCats exPs (catMode exCats exPs)) ∧
    (∀ (j : ℕ) (c : Int), j < argmaxFirst exPs → exCats[j]? = some c →
      catPmf exCats exPs c < catPmf exCats exPs (catMode exCats exPs)) :=
  categorical_mode_is_argmax_category exCats exPs (by decide) rfl (by simp [exPs])
/-- ties go to the category stored first (`np.argmax`), not to the smallest category -/
example : catMode [5, 2, 9] [(2/5 : ℚ), 1/5, 2/5] = 5 := by decide +kernel
example : bernPmf (3/10 : ℚ) 0 + bernPmf (3/10 : ℚ) 1 = 1 := bernoulli_sum_one _
example (x : Int) : bernPmf (1/2 : ℚ) x ≤ bernPmf (1/2 : ℚ) (bernMode (1/2 : ℚ)) :=
  bernoulli_mode_maximal _ (by norm_num) (by norm_num) x
/-- `Bernoulli.mpe` at `p = 1/2` is `1`; the Categorical rule on the same table would answer `0` -/
example : bernMode (1/2 : ℚ) = 1 ∧ catMode [0, 1] [(1/2 : ℚ), 1/2] = 0 := by constructor <;> decide +kernel

/-! ## F. connection to the circuit theory (`Spec/Validity.lean`, `Props/CircMarg.lean`, `Props/C19.lean`) -/
open Deeprob Deeprob.Circ Deeprob.MCirc

/-- **LeafOK / LeafNorm instances**: the table leaf `Circ.catLeaf v tbl` built from a Categorical leaf's own
parameters — `tbl[j] = pmf(j)` for the values `j < dom v`, categories pairwise different naturals below `dom v`,
probabilities summing to one — is a distribution over its variable (so it is a valid leaf of `Circ.Valid`) and
reports one when nothing is observed (the `LeafNorm` hypothesis of `Circ.normalised`). -/
theorem categorical_leaf_ok {α : Type} [CommSemiring α] (dom : Nat → Nat) (v : Nat) (cats : List Int) (ps : List α)
    (hn : cats.Nodup) (hr : ∀ c ∈ cats, 0 ≤ c ∧ c < dom v) (hl : cats.length = ps.length) (hs : tsum ps = 1) :
    Circ.Valid dom (Circ.catLeaf v (denseTbl cats ps (dom v))) ∧
    Circ.LeafNorm dom (Circ.catLeaf v (denseTbl cats ps (dom v))) ∧
    Circ.NormW (Circ.catLeaf v (denseTbl cats ps (dom v))) := by
  refine ⟨?_, ?_, ?_⟩
  · unfold Circ.catLeaf Circ.Valid
    exact Circ.catLeaf_ok dom v _ (denseTbl_length cats ps (dom v))
      (by rw [denseTbl_tsum cats ps (dom v) hn hr hl, hs])
  · simp [Circ.catLeaf, Circ.LeafNorm, Circ.catLeafFn]
  · simp [Circ.catLeaf, Circ.NormW]

/-- **the leaf-moment hypothesis of `C19.moment_exact`, instantiated for the discrete families**: for the table
leaf of a Categorical (or Bernoulli) leaf, `MomOK` holds, the recursion of `moment(root, k)` returns the leaf's own
`Categorical.moment(k) = Σ_c cᵏ·p_c`, and that is the exact raw moment `momentSpec` (`Σ_x xᵏ·leaf(x)` over the
domain). -/
theorem categorical_leaf_moment_exact {α : Type} [CommRing α] (dom : Nat → Nat) (k v : Nat) (cats : List Int)
    (ps : List α) (hn : cats.Nodup) (hr : ∀ c ∈ cats, 0 ≤ c ∧ c < dom v) (hl : cats.length = ps.length)
    (hs : tsum ps = 1) :
    MCirc.MomOK dom k v (MCirc.cat v (denseTbl cats ps (dom v))) ∧
    MCirc.moment k v (MCirc.cat v (denseTbl cats ps (dom v))) = catMoment k cats ps ∧
    catMoment k cats ps = momentSpec dom k v (Circ.catLeaf v (denseTbl cats ps (dom v))) := by
  have hm : MCirc.MomOK dom k v (MCirc.cat v (denseTbl cats ps (dom v))) :=
    C19.cat_momOK dom k v v _ (denseTbl_length cats ps (dom v))
  have h1 : MCirc.moment k v (MCirc.cat v (denseTbl cats ps (dom v))) = catMoment k cats ps := by
    simp [MCirc.cat, MCirc.moment, tblMoment_denseTbl k (dom v) cats ps hn hr]
  obtain ⟨hv, hln, hnw⟩ := categorical_leaf_ok dom v cats ps hn hr hl hs
  have h2 := C19.moment_exact dom k v (MCirc.cat v (denseTbl cats ps (dom v)))
    (by rw [MCirc.cat_toCirc]; exact hv) (by rw [MCirc.cat_toCirc]; exact hnw)
    (by rw [MCirc.cat_toCirc]; exact hln) hm (by simp [MCirc.cat, MCirc.scope])
  rw [MCirc.cat_toCirc] at h2
  exact ⟨hm, h1, h1 ▸ h2⟩

/-! ### non-vacuity: a mixture of two Categorical leaves over the categories `{1, 3, 4}` resp. `{4, 0}`
(gaps, unsorted) of one variable with domain `0..4` -/

def exDom : Nat → Nat := fun _ => 5
def exCatsA : List Int := [3, 1, 4]
def exPsA : List ℚ := [1/2, 1/5, 3/10]
def exCatsB : List Int := [4, 0]
def exPsB : List ℚ := [1/4, 3/4]
def exMix : MCirc ℚ :=
  .sum [0] [2/5, 3/5] [MCirc.cat 0 (denseTbl exCatsA exPsA 5), MCirc.cat 0 (denseTbl exCatsB exPsB 5)]

theorem exA_ok : Circ.Valid exDom (Circ.catLeaf 0 (denseTbl exCatsA exPsA (exDom 0))) ∧
    Circ.LeafNorm exDom (Circ.catLeaf 0 (denseTbl exCatsA exPsA (exDom 0))) ∧
    Circ.NormW (Circ.catLeaf 0 (denseTbl exCatsA exPsA (exDom 0))) := categorical_leaf_ok (α := ℚ) exDom 0 exCatsA exPsA (by decide)
  (by intro c hc; simp [exCatsA] at hc; rcases hc with rfl | rfl | rfl <;> simp [exDom]) rfl (by norm_num [exPsA, tsum])
theorem exB_ok : Circ.Valid exDom (Circ.catLeaf 0 (denseTbl exCatsB exPsB (exDom 0))) ∧
    Circ.LeafNorm exDom (Circ.catLeaf 0 (denseTbl exCatsB exPsB (exDom 0))) ∧
    Circ.NormW (Circ.catLeaf 0 (denseTbl exCatsB exPsB (exDom 0))) := categorical_leaf_ok (α := ℚ) exDom 0 exCatsB exPsB (by decide)
  (by intro c hc; simp [exCatsB] at hc; rcases hc with rfl | rfl <;> simp [exDom]) rfl (by norm_num [exPsB, tsum])

/-- every hypothesis of `C19.moment_exact` (validity, normalised weights, `LeafNorm`, `MomOK`) is discharged from
the leaf theory; the value is the mixture of the leaves' own moments -/
theorem exMix_moment (k : ℕ) : MCirc.moment k 0 exMix = momentSpec exDom k 0 exMix.toCirc ∧
    MCirc.moment k 0 exMix = 2/5 * catMoment k exCatsA exPsA + 3/5 * catMoment k exCatsB exPsB := by
  have hA := categorical_leaf_moment_exact (α := ℚ) exDom k 0 exCatsA exPsA (by decide)
    (by intro c hc; simp [exCatsA] at hc; rcases hc with rfl | rfl | rfl <;> simp [exDom]) rfl (by norm_num [exPsA, tsum])
  have hB := categorical_leaf_moment_exact (α := ℚ) exDom k 0 exCatsB exPsB (by decide)
    (by intro c hc; simp [exCatsB] at hc; rcases hc with rfl | rfl <;> simp [exDom]) rfl (by norm_num [exPsB, tsum])
  constructor
  · apply C19.moment_exact exDom k 0 exMix
    · simp only [exMix, MCirc.toCirc, List.map, MCirc.cat_toCirc]
      unfold Circ.Valid
      refine ⟨by simp, by simp, ?_, ?_⟩
      · intro c hc; simp at hc; rcases hc with rfl | rfl <;> (intro v; simp [Circ.scope, Circ.catLeaf])
      · intro c hc; simp at hc; rcases hc with rfl | rfl
        · exact exA_ok.1
        · exact exB_ok.1
    · simp only [exMix, MCirc.toCirc, List.map, MCirc.cat_toCirc]
      unfold Circ.NormW
      refine ⟨by norm_num [tsum], ?_⟩
      intro c hc; simp at hc; rcases hc with rfl | rfl
      · exact exA_ok.2.2
      · exact exB_ok.2.2
    · simp only [exMix, MCirc.toCirc, List.map, MCirc.cat_toCirc]
      unfold Circ.LeafNorm
      intro c hc; simp at hc; rcases hc with rfl | rfl
      · exact exA_ok.2.1
      · exact exB_ok.2.1
    · unfold exMix MCirc.MomOK
      intro c hc; simp at hc; rcases hc with rfl | rfl
      · exact hA.1
      · exact hB.1
    · simp [exMix, MCirc.scope]
  · have e1 := hA.2.1
    have e2 := hB.2.1
    simp only [exDom] at e1 e2
    simp only [exMix, MCirc.moment, List.map, wsum, e1, e2]
    ring

/-- numbers of the differential run: mean `= 2/5·(3·1/2 + 1·1/5 + 4·3/10) + 3/5·(4·1/4) = 44/25` -/
example : MCirc.moment 1 0 exMix = 44/25 := by
  rw [(exMix_moment 1).2]; norm_num [catMoment, exCatsA, exPsA, exCatsB, exPsB]


/-! ## G. the two readings of `densities` (heights / counts) and the modes as coded -/
section Readings
variable {α : Type} [Field α] [LinearOrder α] [IsStrictOrderedRing α]

theorem histZ_scale (c : α) : ∀ (hs b : List α), histZ (hs.map (fun h => h / c)) b = histZ hs b / c
  | [], _ => by simp [histZ]
  | _ :: _, [] => by simp [histZ]
  | _ :: _, [_] => by simp [histZ]
  | h :: hs, lo :: hi :: bs => by
      simp only [List.map_cons, histZ]
      rw [histZ_scale c hs (hi :: bs)]
      ring

theorem histRaw_scale (c x : α) : ∀ (hs b : List α), histRaw x (hs.map (fun h => h / c)) b = histRaw x hs b / c
  | [], _ => by simp [histRaw]
  | _ :: _, [] => by simp [histRaw]
  | _ :: _, [_] => by simp [histRaw]
  | h :: hs, lo :: hi :: bs => by
      simp only [List.map_cons, histRaw]
      rw [histRaw_scale c x hs (hi :: bs)]
      split_ifs <;> rfl

theorem zipWith_equal_widths (c : α) : ∀ (d b : List α), (∀ w ∈ widths b, w = c) → d.length + 1 = b.length →
    List.zipWith (fun x w => x / w) d (widths b) = d.map (fun h => h / c)
  | [], _, _, _ => by simp
  | _ :: _, [], _, h => by simp at h
  | _ :: _, [_], _, h => by simp at h
  | x :: d, lo :: hi :: bs, hw, hl => by
      simp only [widths, List.zipWith_cons_cons, List.map_cons]
      rw [hw (hi - lo) (by simp [widths]),
        zipWith_equal_widths c d (hi :: bs) (fun w hw' => hw w (by simp [widths, hw'])) (by simpa using hl)]

/-- **equal widths: both readings give the same distribution.** When every bin has the same width `c`, reading the
`densities` as counts (dividing by the widths, what SciPy does then) or as heights (what the reference formulas of the
harness do) yields the same normalised density — whatever `np.allclose` decides. (For widths that differ by less than
`allclose`'s tolerance the two readings differ by that relative amount: the model follows SciPy.) -/
theorem equal_widths_readings_agree (atol rtol : α) (d b : List α) (c : α) (hc : c ≠ 0)
    (hw : ∀ w ∈ widths b, w = c) (hl : d.length + 1 = b.length) (x : α) :
    histPdf (isoHeights atol rtol d b) b x = histPdf d b x := by
  unfold isoHeights
  split_ifs
  · rfl
  · rw [zipWith_equal_widths c d b hw hl]
    cases b with
    | nil => simp [histPdf]
    | cons b0 bs =>
      simp only [histPdf]
      split_ifs
      · rfl
      · rw [histRaw_scale, histZ_scale, div_div_div_cancel_right₀ hc]

/-- `Uniform.mpe` fills the left edge `start` (F17), which has full density `1/width` in SciPy's closed support;
`Isotonic.likelihood` at its own left edge answers the out-of-support constant instead. -/
theorem edge_modes_as_coded (s w ood : α) (hw : 0 ≤ w) (hs : List α) (b0 : α) (bs : List α) :
    uniPdf s w (uniMode s w) = 1 / w ∧ isoLik ood hs (b0 :: bs) b0 = ood := by
  constructor
  · simp [uniPdf, uniMode, not_lt.2 hw]
  · simp [isoLik]

end Readings

example (x : ℚ) : histPdf (isoHs [1/5, 3/10, 1/2] [0, 1/2, 1, 3/2]) [0, 1/2, 1, 3/2] x
    = histPdf [1/5, 3/10, 1/2] [0, 1/2, 1, 3/2] x :=
  equal_widths_readings_agree _ _ _ _ (1/2) (by norm_num)
    (by intro w hw; simp [widths] at hw; rcases hw with rfl | rfl | rfl <;> norm_num) rfl x
/-- here SciPy takes the counts reading (`heights = densities / width`) -/
example : isoHs [1/5, 3/10, 1/2] [0, 1/2, 1, 3/2] = [2/5, 3/5, 1] := by decide +kernel
example : uniPdf (3/2 : ℚ) 2 (uniMode (3/2) 2) = 1 / 2 ∧ isoLik oodDefault exD exB 0 = oodDefault :=
  edge_modes_as_coded _ _ _ (by norm_num) _ _ _


/-! ### remaining non-vacuity examples -/

example : NonNeg (isoHs exD exB) := isoHeights_nonNeg _ _ exD exB exD_nonNeg exB_incr
example (x : ℚ) : isoCdf exD exB x = if x < 0 then 0 else histCdfRaw x exD exB / histZ exD exB :=
  isoCdf_closed_form exD 0 _ x exB_incr (by rw [show (0 : ℚ) :: _ = exB from rfl, exZ]; norm_num)
example : (∀ x y : ℚ, x ≤ y → isoCdf exD exB x ≤ isoCdf exD exB y) ∧
    ∀ x : ℚ, 0 ≤ isoCdf exD exB x ∧ isoCdf exD exB x ≤ 1 :=
  isoCdf_monotone exD 0 _ exD_nonNeg exB_incr (by rw [show (0 : ℚ) :: _ = exB from rfl, exZ]; norm_num)
example (k : ℕ) : IntervalIntegrable (fun t => t ^ k * histPdf exDr exBr t) volume 0 (lastB 0 [1, 3/2, 7/2, 4]) :=
  isoMoment_integrable k exDr 0 _ exBr_incr
example : (∀ x : ℚ, x ≠ 3/2 + 2 → uniPdf (3/2) 2 x = histPdf [1] [3/2, 3/2 + 2] x) ∧
    (∀ x : ℚ, uniCdf (3/2) 2 x = isoCdf [1] [3/2, 3/2 + 2] x) ∧
    (∀ u : ℚ, 0 ≤ u → u ≤ 1 → uniPpf (3/2) 2 u = isoPpf 0 [1] [3/2, 3/2 + 2] u) :=
  uniform_is_one_bin _ _ (by norm_num)
example : ∫ t in (5 : ℝ)..5 + 0, uniPdf 5 0 t = 0 := uniform_width_zero 5
example : (∀ x : Int, bernPmf (3/10 : ℚ) x = catPmf [0, 1] [1 - 3/10, 3/10] x) ∧
    (∀ k : ℕ, catMoment k [0, 1] [1 - 3/10, (3/10 : ℚ)] = bernMoment (3/10) k) ∧
    denseTbl [0, 1] [1 - 3/10, (3/10 : ℚ)] 2 = [1 - 3/10, 3/10] :=
  bernoulli_is_categorical _

end Deeprob.LeafTheory
