import DeeprobModel.Lemmas.E2ECltLemmas
import DeeprobModel.Props.C13Clt
set_option linter.unusedSimpArgs false
set_option linter.unusedVariables false
set_option linter.unusedSectionVars false
/-
END-TO-END corollaries for binary Chow-Liu trees (C02, C06, C12, C13): the property theorems of `Props/Clt.lean`,
`Props/CltOrder.lean` stated DIRECTLY about the definitions extracted from the source by the translator
(`Gen.S4bfsStep`, `Gen.S4cltMessages`, `Gen.S4cltRootValue`, `Gen.S4cltMpe`, `Gen.S4cltLogLikelihood`, the `to_pc`
constants), by composing them with the "as coded" obligations of `Oblig/Struct4Clt*.lean`, `Oblig/StructClt.lean`:

    source --(py2lean)--> Gen.*  --(Oblig: … _as_coded)--> model  --(Props)--> specification.

Objects (Lemmas/E2ECltLemmas.lean; linear-domain reading `+ ↦ *`, `0 ↦ 1`, `logsumexp ↦ Σ`, `np.max ↦ max`):
* `genBfs tree r`            — `Gen.S4bfsStep` iterated from `([r], [])` (`Struct4.bfsRun`), fuel `n`;
* `genMessages / genValue`   — `Gen.S4cltMessages` then `Gen.S4cltRootValue`, with `self.bfs := genBfs`;
* `genMpe`                   — `Gen.S4cltMpe` fed with `genMessages` ('mpe') and `genBfs`;
* `genLogLikelihood`         — `Gen.S4cltLogLikelihood` with `self.message_passing := genValue`;
* `genToPc`                  — `Clt.pc` of the row(s) the extracted `return` statement of `to_pc` selects.
Rows: `rowList scope n e` is the row of the evidence `e` (column `i` = variable `scope[i]`); every row of length `n` is
one (`rowList_evOfRow`).  All theorems quantify over `WellFormedPred tree` (what `fit`, the learners and `load` produce).
Every theorem is followed by a non-vacuity example on the regression tree `[3, 4, 1, -1, 0]` of `Props/CltOrder.lean`.
-/
namespace Deeprob.E2EClt
open Deeprob Deeprob.Clt
open Deeprob.GraphIo (exTree exCpt exScope exEv exTree_wf exCpt_nonneg)

/-! ## 1. `compute_bfs_ordering` (C02 / C06 / C12: the order every pass walks) -/

/-- **e2e_bfs**: for every well-formed predecessor vector the GENERATED breadth-first loop (`Gen.S4bfsStep` iterated from
the root, `Struct4.bfsRun`) returns a permutation of the positions that starts with the root and lists every position
after its parent; `reversed(bfs[1:])` — the list `message_passing` walks — is a permutation of the non-root positions with
every child before its parent; the list is THE breadth-first order (concatenation of the levels); and the result does not
depend on the bound put on the `while` loop (any fuel `≥ n`).
Ingredients: `Struct4.bfs_as_coded` (O) + `bfsOrder_perm`, `bfsOrder_parent_before_child`, `bfsOrder_levels` (P); linking
lemma `genBfs_eq` (the loop driven by the generated step is `GraphIo.computeBfsOrdering`). -/
theorem e2e_bfs (tree : List Int) (hwf : GraphIo.WellFormedPred tree) :
    ∃ r, GraphIo.rootIdx tree = some r ∧
      (genBfs tree r).Perm (List.range tree.length) ∧
      (genBfs tree r).head? = some r ∧
      (∀ i p, i < tree.length → CltFit.parent tree i = some p → (genBfs tree r).idxOf p < (genBfs tree r).idxOf i) ∧
      (genBfs tree r).tail.reverse.Perm ((List.range tree.length).erase r) ∧
      GraphIo.childFirst tree (genBfs tree r).tail.reverse = true ∧
      genBfs tree r = (List.range tree.length).flatMap (GraphIo.level tree r) ∧
      (∀ f, tree.length ≤ f → Struct4.bfsRun tree f [r] [] = genBfs tree r) := by
  obtain ⟨r, h⟩ := GraphIo.WF.of_wf hwf
  obtain ⟨hgen, hfuel⟩ := genBfs_eq h
  obtain ⟨r1, bfs1, hr1, hb1, hperm, hhead⟩ := GraphIo.bfsOrder_perm tree hwf
  obtain ⟨r2, bfs2, hr2, hb2, hpf, hperm2, hcf⟩ := GraphIo.bfsOrder_parent_before_child tree hwf
  obtain ⟨r3, bfs3, hr3, hb3, hlev, _⟩ := GraphIo.bfsOrder_levels tree hwf
  have e1 : r1 = r := Option.some.inj (hr1.symm.trans h.root)
  have e2 : r2 = r := Option.some.inj (hr2.symm.trans h.root)
  have e3 : r3 = r := Option.some.inj (hr3.symm.trans h.root)
  have f1 : bfs1 = genBfs tree r := Option.some.inj (hb1.symm.trans hgen)
  have f2 : bfs2 = genBfs tree r := Option.some.inj (hb2.symm.trans hgen)
  have f3 : bfs3 = genBfs tree r := Option.some.inj (hb3.symm.trans hgen)
  subst e1 e2 e3 f1
  rw [f2] at hpf hperm2 hcf
  rw [f3] at hlev
  exact ⟨_, h.root, hperm, hhead, hpf, hperm2, hcf, hlev, hfuel⟩

example : genBfs exTree 3 = [3, 0, 4, 1, 2] ∧ Struct4.bfsRun exTree 9 [3] [] = [3, 0, 4, 1, 2] ∧
    ∃ r, GraphIo.rootIdx exTree = some r ∧ (genBfs exTree r).Perm (List.range exTree.length) := by
  obtain ⟨r, h1, h2, _⟩ := e2e_bfs exTree exTree_wf
  exact ⟨by decide, by decide, r, h1, h2⟩

/-! ## 2. `message_passing(…, return_lls=True, reduce='mar')` (C02) -/

section semiring
variable {α : Type} [CommSemiring α]

/-- **e2e_message_passing_value**: on every row (binary observed entries) of a well-formed tree the GENERATED
`message_passing` — the extracted upward loop over the reversed GENERATED breadth-first order, then the extracted root step —
writes the row's entry (`some`) and the value is the model's `Clt.value` of the row's evidence.
Ingredients: `Struct4.messages_as_coded` (O, loop shape), linking lemmas `msgStep_link` / `rootValue_link` (one extracted
iteration = `GraphIo.passStep`; root step = `GraphIo.rootValue`), `e2e_bfs` (child-first order), `arrayPass_order_indep` (P). -/
theorem e2e_message_passing_value (tree : List Int) (hwf : GraphIo.WellFormedPred tree) (scope : List Nat)
    (cpt : List (List (List α))) (e : Ev) (hbin : ∀ j, j < tree.length → ∀ o, e (scope.getD j 0) = some o → o < 2)
    (mx : List α → α) :
    ∃ r, GraphIo.rootIdx tree = some r ∧
      genValue cpt tree r Struct4.sumL mx (rowList scope tree.length e)
          ((rowList scope tree.length e).map (fun o => !o.isNone)) "mar" =
        some (Clt.value scope tree cpt e) := by
  obtain ⟨r, hr, _, _, _, hperm2, hcf, _, _⟩ := e2e_bfs tree hwf
  obtain ⟨r', h⟩ := GraphIo.WF.of_wf hwf
  have : r' = r := Option.some.inj (h.root.symm.trans hr)
  subst this
  refine ⟨r', hr, ?_⟩
  rw [sumL_eq_redL, genValue_eq_passValue cpt tree r' mx _ _ (GraphIo.rowOf scope e) "mar" (Or.inl rfl) h.r_lt
    (rowList_length _ _ _) (fun j hj => rowList_getD scope _ e j hj) (fun j _ => obs_getD _ j) hbin
    (orderOK_of_perm h _ hperm2)]
  obtain ⟨r'', hr'', hall, _⟩ := GraphIo.arrayPass_order_indep tree hwf scope cpt e
  have : r'' = r' := Option.some.inj (hr''.symm.trans hr)
  subst this
  rw [(hall _ hperm2 hcf).1]

example : ∃ r, GraphIo.rootIdx exTree = some r ∧
    genValue exCpt exTree r Struct4.sumL Struct4.maxL (rowList exScope exTree.length exEv)
      ((rowList exScope exTree.length exEv).map (fun o => !o.isNone)) "mar" = some (Clt.value exScope exTree exCpt exEv) :=
  e2e_message_passing_value exTree exTree_wf exScope exCpt exEv
    (by intro j _ o h; unfold exEv at h; split at h <;> simp at h; omega) _

/-- **e2e_message_passing_marginal (C02 for Chow-Liu trees, about the extracted code)**: the value the GENERATED
`message_passing` returns for a row with missing entries is the sum, over all completions of the missing variables of the
scope, of the tree's values at the completed rows.
Ingredients: `e2e_message_passing_value` + `Clt.value_marg` (P) (equivalently `codeValue_marg`). -/
theorem e2e_message_passing_marginal (dom : Nat → Nat) (tree : List Int) (hwf : GraphIo.WellFormedPred tree)
    (scope : List Nat) (cpt : List (List (List α))) (hlen : scope.length = tree.length) (hnd : scope.Nodup)
    (hdom : ∀ v ∈ scope, dom v = 2) (e : Ev) (hbin : ∀ v ∈ scope, ∀ o, e v = some o → o < 2) (mx : List α → α) :
    ∃ r, GraphIo.rootIdx tree = some r ∧
      genValue cpt tree r Struct4.sumL mx (rowList scope tree.length e)
          ((rowList scope tree.length e).map (fun o => !o.isNone)) "mar" =
        some (sumOver dom scope e (fun e' => Clt.value scope tree cpt e')) := by
  obtain ⟨r, hr, hv⟩ := e2e_message_passing_value tree hwf scope cpt e
    (fun j hj o ho => hbin _ (getD_mem_scope scope j (by omega)) o ho) mx
  refine ⟨r, hr, ?_⟩
  rw [hv, ← Clt.value_marg dom scope tree cpt ((GraphIo.wellFormedPred_iff_build tree).1.1 hwf) hlen hnd hdom e]

theorem exEv_bin : ∀ v ∈ exScope, ∀ o, exEv v = some o → o < 2 := by
  intro v _ o h; unfold exEv at h; split at h <;> simp at h; omega

example : genValue exCpt exTree 3 Struct4.sumL Struct4.maxL (rowList exScope exTree.length exEv)
      ((rowList exScope exTree.length exEv).map (fun o => !o.isNone)) "mar" =
        some (sumOver (fun _ => 2) exScope exEv (fun e' => Clt.value exScope exTree exCpt e')) ∧
    rowList exScope exTree.length exEv = [none, none, some 1, none, none] := by
  obtain ⟨r, hr, h⟩ := e2e_message_passing_marginal (fun _ => 2) exTree exTree_wf exScope exCpt rfl (by decide)
    (fun _ _ => rfl) exEv exEv_bin Struct4.maxL
  have : r = 3 := Option.some.inj (hr.symm.trans (by decide))
  subst this
  exact ⟨h, by decide⟩

/-- … and the number the extracted code computes on that row (evaluated by the kernel) -/
example : genValue exCpt exTree 3 Struct4.sumL Struct4.maxL [none, none, some 1, none, none]
    ([none, none, some 1, none, none].map (fun o => !o.isNone)) "mar" = some (3319 / 5000) := by decide +kernel

/-- the same statement for an arbitrary ROW `x` (a list with `none` = NaN) of the right length with binary entries: the
evidence is the one the row stands for -/
theorem e2e_message_passing_marginal_row (dom : Nat → Nat) (tree : List Int) (hwf : GraphIo.WellFormedPred tree)
    (scope : List Nat) (cpt : List (List (List α))) (hlen : scope.length = tree.length) (hnd : scope.Nodup)
    (hdom : ∀ v ∈ scope, dom v = 2) (x : List (Option Nat)) (hx : x.length = tree.length)
    (hbin : ∀ j o, x.getD j none = some o → o < 2) (mx : List α → α) :
    ∃ r, GraphIo.rootIdx tree = some r ∧
      genValue cpt tree r Struct4.sumL mx x (x.map (fun o => !o.isNone)) "mar" =
        some (sumOver dom scope (evOfRow scope x) (fun e' => Clt.value scope tree cpt e')) := by
  have hrow : rowList scope tree.length (evOfRow scope x) = x := by
    rw [← hlen]; exact rowList_evOfRow scope hnd x (by rw [hx, hlen])
  have := e2e_message_passing_marginal dom tree hwf scope cpt hlen hnd hdom (evOfRow scope x)
    (by intro v hv o ho; unfold evOfRow at ho; rw [if_pos hv] at ho; exact hbin _ o ho) mx
  rw [hrow] at this
  exact this

example : ∃ r, GraphIo.rootIdx exTree = some r ∧
    genValue exCpt exTree r Struct4.sumL Struct4.maxL [none, some 0, some 1, none, none]
        ([none, some 0, some 1, none, none].map (fun o => !o.isNone)) "mar" =
      some (sumOver (fun _ => 2) exScope (evOfRow exScope [none, some 0, some 1, none, none])
        (fun e' => Clt.value exScope exTree exCpt e')) :=
  e2e_message_passing_marginal_row (fun _ => 2) exTree exTree_wf exScope exCpt rfl (by decide) (fun _ _ => rfl)
    [none, some 0, some 1, none, none] rfl
    (by intro j o h
        rcases j with _ | _ | _ | _ | _ | j <;> simp at h <;> omega) _

end semiring

/-! ## 3. `message_passing(…, reduce='mpe')` and `BinaryCLT.mpe` (C06) -/

section maxprod
variable {α : Type} [CommSemiring α] [LinearOrder α] [IsStrictOrderedRing α]

/-- **e2e_message_passing_max** (the `reduce='mpe'` instance): the `messages` array the GENERATED upward loop returns with
`np.max` as the reduction holds, at every position `j` and for both values `k` of `j`, the product over the children of `j`
of the max-product messages `upMax` (each of which is the maximum over the completions of the child's sub-tree:
`up_max_eq_maxOver`); in the form `mpe_loop_is_decode` asks for (`Struct4.MsgsOK`): at every node `j` with children `cs` of
the unfolded tree it is `[msgMax … cs 0 e, msgMax … cs 1 e]`.
Ingredients: `messages_as_coded` (O) + `msgStep_link` at the carrier with `+ := max` + `arrayPass_rel` (from the max-times
carrier) + `e2e_bfs` + `arrayPass_max_slots` (P). -/
theorem e2e_message_passing_max (tree : List Int) (hwf : GraphIo.WellFormedPred tree) (scope : List Nat)
    (cpt : List (List (List α))) (hc : ∀ i l k, 0 ≤ cptAt cpt i l k) (e : Ev)
    (hbin : ∀ j, j < tree.length → ∀ o, e (scope.getD j 0) = some o → o < 2) (lse : List α → α) :
    ∃ r, GraphIo.rootIdx tree = some r ∧
      (∀ j, j < tree.length →
        (genMessages cpt tree r lse Struct4.maxL (rowList scope tree.length e)
            ((rowList scope tree.length e).map (fun o => !o.isNone)) "mpe").getD j [] =
          [lprod ((Clt.childrenOf tree j).map (fun d => upMax scope cpt (build tree tree.length d) 0 e)),
           lprod ((Clt.childrenOf tree j).map (fun d => upMax scope cpt (build tree tree.length d) 1 e))]) ∧
      Struct4.MsgsOK scope cpt e (build tree tree.length r)
        (genMp cpt tree r lse Struct4.maxL (rowList scope tree.length e)
          ((rowList scope tree.length e).map (fun o => !o.isNone)) false "mpe") := by
  obtain ⟨r, hr, _, _, _, hperm2, hcf, _, _⟩ := e2e_bfs tree hwf
  obtain ⟨r', h⟩ := GraphIo.WF.of_wf hwf
  have : r' = r := Option.some.inj (h.root.symm.trans hr)
  subst this
  have hslots := fun j hj =>
    genMessages_mpe_slots hwf hr scope cpt hc e lse hbin hperm2 hcf (orderOK_of_perm h _ hperm2) j hj
  refine ⟨r', hr, hslots, ?_⟩
  intro j cs hm
  obtain ⟨hjl, hcs⟩ := node_of_build h hm
  unfold genMp
  rw [Struct4.getI_natCast, hslots j hjl, hcs]
  simp only [msgMax, List.map_map]
  rfl

example : ∃ r, GraphIo.rootIdx exTree = some r ∧
    Struct4.MsgsOK exScope exCpt exEv (build exTree exTree.length r)
      (genMp exCpt exTree r Struct4.sumL Struct4.maxL (rowList exScope exTree.length exEv)
        ((rowList exScope exTree.length exEv).map (fun o => !o.isNone)) false "mpe") := by
  obtain ⟨r, hr, _, h⟩ := e2e_message_passing_max exTree exTree_wf exScope exCpt exCpt_nonneg exEv
    (fun j hj o ho => exEv_bin _ (getD_mem_scope exScope j hj) o ho) Struct4.sumL
  exact ⟨r, hr, h⟩

example : genMessages exCpt exTree 3 Struct4.sumL Struct4.maxL [none, none, some 1, none, none]
    ([none, none, some 1, none, none].map (fun o => !o.isNone)) "mpe" =
      [[27 / 100, 297 / 1000], [9 / 10, 1 / 2], [1, 1], [2079 / 10000, 81 / 500], [2 / 5, 27 / 50]] := by decide +kernel

/-- **e2e_mpe_is_argmax (C06 for Chow-Liu trees, about the extracted code)**: for every well-formed tree, scope without
duplicates, non-negative tables and every row with binary observed entries, the row `y` the GENERATED `mpe` returns
(extracted decoding loop over the generated breadth-first order, fed with the generated max-product messages)
(i) has the length of the input, (ii) keeps every observed entry, (iii) holds a value `< 2` at every position,
(iv) is the model's `Clt.mpe` entry by entry, and (v) ATTAINS THE MAXIMUM of the tree's value over all binary completions
of the evidence.
Ingredients: `mpe_as_coded`, `mpe_loop_is_dec(ode)` (O) with its bundle `LoopOK` discharged by `loopOK_of_order` from
`e2e_bfs` and `e2e_message_passing_max`; `decode_keeps_observed`, `decode_fills_all`, `mpe_attains_max` (P). -/
theorem e2e_mpe_is_argmax (tree : List Int) (hwf : GraphIo.WellFormedPred tree) (scope : List Nat)
    (cpt : List (List (List α))) (hc : ∀ i l k, 0 ≤ cptAt cpt i l k)
    (hlen : scope.length = tree.length) (hnd : scope.Nodup) (e : Ev)
    (hbin : ∀ v ∈ scope, ∀ o, e v = some o → o < 2) (lse : List α → α) :
    ∃ r, GraphIo.rootIdx tree = some r ∧
      (genMpe cpt tree r lse Struct4.maxL (rowList scope tree.length e)).length = tree.length ∧
      (∀ j, j < tree.length → ∀ o, (rowList scope tree.length e).getD j none = some o →
        (genMpe cpt tree r lse Struct4.maxL (rowList scope tree.length e)).getD j none = some o) ∧
      (∀ j, j < tree.length → ∃ k, k < 2 ∧
        (genMpe cpt tree r lse Struct4.maxL (rowList scope tree.length e)).getD j none = some k) ∧
      (∀ j, j < tree.length →
        (genMpe cpt tree r lse Struct4.maxL (rowList scope tree.length e)).getD j none =
          Clt.mpe scope tree cpt e (scope.getD j 0)) ∧
      (∀ X : Ev, (∀ v ∈ scope, e v ≠ none → X v = e v) → (∀ v ∈ scope, e v = none → ∃ k, k < 2 ∧ X v = some k) →
        Clt.value scope tree cpt X ≤
          Clt.value scope tree cpt (evOfRow scope (genMpe cpt tree r lse Struct4.maxL (rowList scope tree.length e)))) := by
  obtain ⟨r, hr, hperm, hhead, hpf, hperm2, hcf, _, _⟩ := e2e_bfs tree hwf
  obtain ⟨r', h⟩ := GraphIo.WF.of_wf hwf
  have : r' = r := Option.some.inj (h.root.symm.trans hr)
  subst this
  have hbin' : ∀ j, j < tree.length → ∀ o, e (scope.getD j 0) = some o → o < 2 :=
    fun j hj o ho => hbin _ (getD_mem_scope scope j (by omega)) o ho
  obtain ⟨hl, hdec⟩ := genMpe_is_decode hwf h scope cpt hc hlen hnd e lse hbin' hperm hhead hpf hperm2 hcf
    (orderOK_of_perm h _ hperm2)
  have hroot : rootOf tree = some r' := by rw [← GraphIo.rootIdx_eq_rootOf]; exact hr
  have hmpe : ∀ w, Clt.mpe scope tree cpt e w = Clt.decode scope cpt (build tree tree.length r') 0 e w := by
    intro w; simp only [Clt.mpe, hroot]
  have hlab := lab_perm_scope h scope hlen
  refine ⟨r', hr, hl, ?_, ?_, fun j hj => by rw [hdec j hj, hmpe], ?_⟩
  · intro j hj o ho
    rw [hdec j hj]
    rw [rowList_getD scope _ e j hj] at ho
    exact decode_keeps_observed scope cpt _ 0 e _ o ho
  · intro j hj
    rw [hdec j hj]
    have hm : scope.getD j 0 ∈ lab scope (build tree tree.length r') :=
      hlab.mem_iff.2 (getD_mem_scope scope j (by omega))
    obtain ⟨k, hk, hlt⟩ := (decode_fills_all scope cpt (build tree tree.length r') 0 e).1 _ hm
    exact ⟨k, hlt (fun v hv o ho => hbin v (hlab.mem_iff.1 hv) o ho), hk⟩
  · intro X hobs hmis
    have hmax := mpe_attains_max scope tree cpt hc ((GraphIo.wellFormedPred_iff_build tree).1.1 hwf) hlen hnd e X hobs hmis
    have hcongr : Clt.value scope tree cpt (Clt.mpe scope tree cpt e) =
        Clt.value scope tree cpt (evOfRow scope (genMpe cpt tree r' lse Struct4.maxL (rowList scope tree.length e))) := by
      apply value_congr h scope hlen
      intro v hv
      have hi : scope.idxOf v < tree.length := by rw [← hlen]; exact List.idxOf_lt_length_iff.2 hv
      unfold evOfRow
      rw [if_pos hv, hdec _ hi, getD_idxOf_mem scope v hv, hmpe]
    rw [← hcongr]
    exact hmax

example : ∃ r, GraphIo.rootIdx exTree = some r ∧
    (∀ j, j < exTree.length → (genMpe exCpt exTree r Struct4.sumL Struct4.maxL (rowList exScope exTree.length exEv)).getD j none =
        Clt.mpe exScope exTree exCpt exEv (exScope.getD j 0)) ∧
    (genMpe exCpt exTree r Struct4.sumL Struct4.maxL (rowList exScope exTree.length exEv)).getD 2 none = some 1 := by
  obtain ⟨r, hr, _, hk, _, hd, _⟩ := e2e_mpe_is_argmax exTree exTree_wf exScope exCpt exCpt_nonneg rfl (by decide) exEv
    exEv_bin Struct4.sumL
  exact ⟨r, hr, hd, hk 2 (by decide) 1 (by decide)⟩

/-- the completion the extracted code returns for that row (evaluated by the kernel): column 2 keeps its observed 1 -/
example : genMpe exCpt exTree 3 Struct4.sumL Struct4.maxL [none, none, some 1, none, none] =
    [some 0, some 0, some 1, some 1, some 1] := by decide +kernel

end maxprod

/-! ## 4. `BinaryCLT.log_likelihood`: complete rows, rows with missing entries, mixed batches (C02) -/

section loglik
variable {α : Type} [CommSemiring α]

/-- **e2e_complete_evidence**: the GENERATED `log_likelihood` (the NaN-mask split as extracted, with the generated
`message_passing` plugged in) on ONE row of a batch, whatever the rest of the batch is (`batchAny` = "some row of the batch has
a missing entry", necessarily true when this row has one):
(a) always writes the row's entry, and the value is the tree's value `Clt.value` of the row's evidence — the same function of
    the row on the vectorised path and on the message-passing path, so a batch mixing both kinds of rows is consistent;
(b) that value is the sum over the completions of the missing variables (on a complete row: the value itself);
(c) on a row without missing entries it is the vectorised product `Clt.joint` (root row selected by the LAST column).
Hypothesis kept explicit: the two rows of the root's table are equal (`hroot`; `Clt.root_rows_needed` shows it is needed for
(a) on complete rows).
Ingredients: `logLikelihood_as_coded`, `joint_as_coded` (O) + `joint_eq_up`, `value_marg` (P) + `e2e_message_passing_value`. -/
theorem e2e_complete_evidence (dom : Nat → Nat) (tree : List Int) (hwf : GraphIo.WellFormedPred tree)
    (scope : List Nat) (cpt : List (List (List α))) (hlen : scope.length = tree.length) (hnd : scope.Nodup)
    (hdom : ∀ v ∈ scope, dom v = 2)
    (hroot : ∀ r, rootOf tree = some r → ∀ k, cptAt cpt r 0 k = cptAt cpt r 1 k)
    (e : Ev) (hbin : ∀ v ∈ scope, ∀ o, e v = some o → o < 2) (mx : List α → α) (batchAny : Bool) (nRows : Nat)
    (hb : (rowList scope tree.length e).any Option.isNone = true → batchAny = true) :
    ∃ r, GraphIo.rootIdx tree = some r ∧
      genLogLikelihood cpt tree r Struct4.sumL mx batchAny nRows (rowList scope tree.length e) =
        some (Clt.value scope tree cpt e) ∧
      Clt.value scope tree cpt e = sumOver dom scope e (fun e' => Clt.value scope tree cpt e') ∧
      ((rowList scope tree.length e).any Option.isNone = false →
        genLogLikelihood cpt tree r Struct4.sumL mx batchAny nRows (rowList scope tree.length e) =
          some (Clt.joint scope tree cpt (fun v => (e v).getD 0))) := by
  have hbin' : ∀ j, j < tree.length → ∀ o, e (scope.getD j 0) = some o → o < 2 :=
    fun j hj o ho => hbin _ (getD_mem_scope scope j (by omega)) o ho
  obtain ⟨r, hr, hv⟩ := e2e_message_passing_value tree hwf scope cpt e hbin' mx
  obtain ⟨r', h⟩ := GraphIo.WF.of_wf hwf
  have : r' = r := Option.some.inj (h.root.symm.trans hr)
  subst this
  have htree := (GraphIo.wellFormedPred_iff_build tree).1.1 hwf
  -- the vectorised path on a complete row
  have hjoint : (rowList scope tree.length e).any Option.isNone = false →
      @Struct4.eviSum α ⟨1⟩ ⟨(· * ·)⟩ (params cpt) tree (rowList scope tree.length e) =
        Clt.joint scope tree cpt (fun v => (e v).getD 0) ∧
      Clt.joint scope tree cpt (fun v => (e v).getD 0) = Clt.value scope tree cpt e := by
    intro hno
    obtain ⟨hrow, hall⟩ := rowList_complete scope tree.length e hno
    have hpred : ∀ i < tree.length, -1 ≤ tree.getD i (-1) ∧ tree.getD i (-1) < (tree.length : Int) := by
      intro i hi
      by_cases hir : i = r'
      · subst hir; rw [h.root_entry]; have := h.pos; omega
      · obtain ⟨p, _, _, hpl, hpe⟩ := h.parent_ne hi hir
        rw [hpe]; omega
    refine ⟨?_, ?_⟩
    · rw [hrow]
      exact (Struct4.joint_as_coded scope tree cpt (fun v => (e v).getD 0) hpred).symm
    · rw [joint_eq_up scope tree cpt _ htree hroot
        (by intro i hi
            cases he : e (scope.getD i 0) with
            | none => exact absurd he (hall i hi)
            | some o => simpa [he] using hbin' i hi o he)]
      apply value_congr h scope hlen
      intro v hv
      have hi : scope.idxOf v < tree.length := by rw [← hlen]; exact List.idxOf_lt_length_iff.2 hv
      have := hall _ hi
      rw [getD_idxOf_mem scope v hv] at this
      cases he : e v with
      | none => exact absurd he this
      | some o => simp
  have hmain : genLogLikelihood cpt tree r' Struct4.sumL mx batchAny nRows (rowList scope tree.length e) =
      some (Clt.value scope tree cpt e) := by
    unfold genLogLikelihood
    rw [@Struct4.logLikelihood_as_coded α ⟨1⟩ ⟨(· * ·)⟩ _ _ _ _ _ _ hb]
    cases hm : (rowList scope tree.length e).any Option.isNone with
    | true =>
      simp only [if_true]
      unfold genMessagePassing
      rw [hv]; rfl
    | false =>
      simp only [Bool.false_eq_true, if_false]
      obtain ⟨h1, h2⟩ := hjoint hm
      rw [h1, h2]
  refine ⟨r', hr, hmain, Clt.value_marg dom scope tree cpt htree hlen hnd hdom e, fun hno => ?_⟩
  rw [hmain, (hjoint hno).2]

/-- a complete row of the regression tree -/
def exFull : Ev := fun v => if v = 9 ∨ v = 7 then some 1 else some 0

theorem exRoot : ∀ r, rootOf exTree = some r → ∀ k, cptAt exCpt r 0 k = cptAt exCpt r 1 k := by
  intro r hr k
  have : r = 3 := Option.some.inj (hr.symm.trans (by decide))
  subst this
  unfold cptAt exCpt
  rfl

/-- non-vacuity: one batch holding the row of `exEv` (missing entries: through the generated message passing) and the
complete row `exFull` (vectorised path, in a batch where ANOTHER row has a missing entry, and in a batch without any) -/
example : ∃ r, GraphIo.rootIdx exTree = some r ∧
    genLogLikelihood exCpt exTree r Struct4.sumL Struct4.maxL true 2 (rowList exScope exTree.length exEv) =
      some (Clt.value exScope exTree exCpt exEv) ∧
    genLogLikelihood exCpt exTree r Struct4.sumL Struct4.maxL true 2 (rowList exScope exTree.length exFull) =
      some (Clt.value exScope exTree exCpt exFull) ∧
    genLogLikelihood exCpt exTree r Struct4.sumL Struct4.maxL false 1 (rowList exScope exTree.length exFull) =
      some (Clt.joint exScope exTree exCpt (fun v => (exFull v).getD 0)) ∧
    rowList exScope exTree.length exFull = [some 1, some 0, some 1, some 0, some 0] := by
  have hfb : ∀ v ∈ exScope, ∀ o, exFull v = some o → o < 2 := by
    intro v _ o h; unfold exFull at h; split at h <;> simp at h <;> omega
  have hrow : rowList exScope exTree.length exFull = [some 1, some 0, some 1, some 0, some 0] := by decide
  obtain ⟨r, hr, h1, _, _⟩ := e2e_complete_evidence (fun _ => 2) exTree exTree_wf exScope exCpt rfl (by decide)
    (fun _ _ => rfl) exRoot exEv exEv_bin Struct4.maxL true 2 (fun _ => rfl)
  obtain ⟨r2, hr2, h2, _, _⟩ := e2e_complete_evidence (fun _ => 2) exTree exTree_wf exScope exCpt rfl (by decide)
    (fun _ _ => rfl) exRoot exFull hfb Struct4.maxL true 2 (fun _ => rfl)
  obtain ⟨r3, hr3, _, _, h3⟩ := e2e_complete_evidence (fun _ => 2) exTree exTree_wf exScope exCpt rfl (by decide)
    (fun _ _ => rfl) exRoot exFull hfb Struct4.maxL false 1 (by rw [hrow]; decide)
  have e2 : r2 = r := Option.some.inj (hr2.symm.trans hr)
  have e3 : r3 = r := Option.some.inj (hr3.symm.trans hr)
  subst e2 e3
  exact ⟨_, hr, h1, h2, h3 (by rw [hrow]; decide), hrow⟩

example : genLogLikelihood exCpt exTree 3 Struct4.sumL Struct4.maxL false 1 [some 1, some 0, some 1, some 0, some 0] =
      some (567 / 40000) ∧
    genLogLikelihood exCpt exTree 3 Struct4.sumL Struct4.maxL true 2 [some 1, some 0, some 1, some 0, some 0] =
      some (567 / 40000) ∧
    genLogLikelihood exCpt exTree 3 Struct4.sumL Struct4.maxL true 2 [none, none, some 1, none, none] =
      some (3319 / 5000) := by
  refine ⟨by decide +kernel, by decide +kernel, by decide +kernel⟩

end loglik

/-! ## 5. `BinaryCLT.to_pc` (C12, C10) -/

section topc
variable {α : Type} [CommSemiring α]

/-- **e2e_to_pc_partial (C12)**: the circuit `to_pc` returns — as far as the GENERATED side determines it — evaluates to
the tree's value on every complete and marginal query, is valid (smooth, decomposable, indicator leaves), structured
decomposable (laminar product scopes) and deterministic on complete evidence; and the value the GENERATED `message_passing`
returns for a row is the value of that circuit (the two sides of the C12 comparison, both read off the source).
PARTIAL, and what is missing: `to_pc` has no extracted definition.  The translator extracts only constants of its body —
which buffer the `return` statement reads and with which index (`Gen.toPcReturnBuffer`, `Gen.toPcReturnIndex`), which table
row each buffer's sums carry (`Gen.toPcBufferRows`), how products pair leaves with buffers (`Gen.toPcProducts`,
`Gen.toPcSumChildren`, `Gen.toPcLeafP`) — and `StructClt.to_pc_as_coded` states their values.  The post-order stack walk
itself is the hand-written unfolding `Clt.pc` (tied to the code only by the C12 correspondence test).  `genToPc` is therefore
`Clt.pc` applied to the row(s) selected by the generated constants; the theorem shows that this selection yields exactly one
circuit and that it has the properties.  To close the chain one needs an extracted loop of `to_pc` (stack, `neg_buffer`,
`pos_buffer`) and an obligation that running it on `build tree n r` yields `Clt.pc`.
Ingredients: `StructClt.toPc_row` (O) + `toPc_eval`, `pc_structured`, `pc_deterministic`, `value_marg` (P). -/
theorem e2e_to_pc_partial (dom : Nat → Nat) (tree : List Int) (hwf : GraphIo.WellFormedPred tree)
    (scope : List Nat) (cpt : List (List (List α))) (hlen : scope.length = tree.length) (hnd : scope.Nodup)
    (hdom : ∀ v ∈ scope, dom v = 2)
    (hroot : ∀ r, rootOf tree = some r → ∀ k, cptAt cpt r 0 k = cptAt cpt r 1 k) :
    ∃ r c, GraphIo.rootIdx tree = some r ∧ genToPc scope tree cpt r = [c] ∧ c = toPc scope tree cpt ∧
      (∀ e : Ev, Circ.eval e c = Clt.value scope tree cpt e) ∧
      (∀ e : Ev, Circ.eval e c = sumOver dom scope e (fun e' => Circ.eval e' c)) ∧
      Circ.Valid dom c ∧
      Laminar (Circ.prodScopes c) ∧
      (∀ e : Ev, (∀ v ∈ scope, e v ≠ none) → Circ.DetAt e c) ∧
      (∀ (e : Ev) (mx : List α → α), (∀ v ∈ scope, ∀ o, e v = some o → o < 2) →
        genValue cpt tree r Struct4.sumL mx (rowList scope tree.length e)
          ((rowList scope tree.length e).map (fun o => !o.isNone)) "mar" = some (Circ.eval e c)) := by
  obtain ⟨r, h⟩ := GraphIo.WF.of_wf hwf
  have hr : rootOf tree = some r := by rw [← GraphIo.rootIdx_eq_rootOf]; exact h.root
  have htree := (GraphIo.wellFormedPred_iff_build tree).1.1 hwf
  obtain ⟨heval, hvalid⟩ := toPc_eval dom scope tree cpt r hr (hroot r hr)
  have hlab := lab_perm_scope h scope hlen
  have hpc : toPc scope tree cpt = pc scope cpt (build tree tree.length r) 1 := by simp only [toPc, hr]
  refine ⟨r, toPc scope tree cpt, h.root, Oblig.StructClt.toPc_row scope tree cpt r hr, rfl, heval, ?_,
    hvalid htree hlen hnd hdom, ?_, ?_, ?_⟩
  · intro e
    rw [heval e, Clt.value_marg dom scope tree cpt htree hlen hnd hdom e]
    congr 1
    funext e'
    exact (heval e').symm
  · rw [hpc]
    exact (pc_structured scope cpt _ 1).2.2 (hlab.nodup_iff.2 hnd)
  · intro e hcomp
    rw [hpc]
    exact pc_deterministic scope cpt e _ 1 (fun v hv => hcomp v (hlab.mem_iff.1 hv))
  · intro e mx hbin
    obtain ⟨r', hr', hv⟩ := e2e_message_passing_value tree hwf scope cpt e
      (fun j hj o ho => hbin _ (getD_mem_scope scope j (by omega)) o ho) mx
    have : r' = r := Option.some.inj (hr'.symm.trans h.root)
    subst this
    rw [hv, heval e]

example : ∃ r c, GraphIo.rootIdx exTree = some r ∧ genToPc exScope exTree exCpt r = [c] ∧
    Circ.Valid (fun _ => 2) c ∧ Laminar (Circ.prodScopes c) ∧
    Circ.eval exEv c = Clt.value exScope exTree exCpt exEv ∧ Clt.value exScope exTree exCpt exEv = 3319 / 5000 := by
  obtain ⟨r, c, h1, h2, _, h4, _, h6, h7, _, _⟩ := e2e_to_pc_partial (fun _ => 2) exTree exTree_wf exScope exCpt rfl
    (by decide) (fun _ _ => rfl) exRoot
  exact ⟨r, c, h1, h2, h6, h7, h4 exEv, GraphIo.exValue⟩

end topc

/-! ## 6. C13: the breadth-first order of a reloaded Chow-Liu tree -/

/-- **e2e_clt_roundtrip_bfs (C13)**: saving an admissible Chow-Liu object and loading the document gives an object with the
same scope, predecessor vector and root whose `bfs` — recomputed by the constructor with `compute_bfs_ordering` — is the list
the GENERATED breadth-first loop returns on the ORIGINAL vector; hence (by `e2e_bfs`) a parent-first permutation, and all
passes of the reloaded object walk the same order as those of the original.
Ingredients: `cltDecode_encode` (P, document model) + `genBfs_eq` / `Struct4.bfs_as_coded` (O). -/
theorem e2e_clt_roundtrip_bfs (o : GraphIo.CltObj) (ha : GraphIo.Admissible o) :
    ∃ d o' r, GraphIo.cltEncode o = some d ∧ GraphIo.cltDecode d = some o' ∧
      o'.scope = o.scope ∧ o'.tree = o.tree ∧ o'.root = some r ∧ o.root = some r ∧
      o'.bfs = some (genBfs o.tree r) ∧ o.bfs = some (genBfs o.tree r) ∧
      (genBfs o.tree r).Perm (List.range o.tree.length) := by
  obtain ⟨d, o', h1, h2, h3, h4, h5, _, h7, _⟩ := GraphIo.cltDecode_encode o ha
  obtain ⟨r, hr, hperm, _⟩ := e2e_bfs o.tree ha.wf
  obtain ⟨r', h⟩ := GraphIo.WF.of_wf ha.wf
  have : r' = r := Option.some.inj (h.root.symm.trans hr)
  subst this
  have hg := (genBfs_eq h).1
  refine ⟨d, o', r', h1, h2, h3, h4, ?_, hr, ?_, hg, hperm⟩
  · rw [h5]; exact hr
  · rw [h7]; exact hg

example : ∃ d o', GraphIo.cltEncode GraphIo.exObj = some d ∧ GraphIo.cltDecode d = some o' ∧
    o'.bfs = some (genBfs GraphIo.exObj.tree 3) ∧ genBfs GraphIo.exObj.tree 3 = [3, 0, 4, 1, 2] := by
  obtain ⟨d, o', r, h1, h2, _, _, _, hr, h7, _⟩ := e2e_clt_roundtrip_bfs GraphIo.exObj GraphIo.exObj_admissible
  have : r = 3 := Option.some.inj (hr.symm.trans (by decide))
  subst this
  exact ⟨d, o', h1, h2, h7, by decide⟩

end Deeprob.E2EClt
