import DeeprobModel.Props.C13Clt
import Mathlib.Data.List.Nodup
import Mathlib.Data.List.Perm.Subperm
set_option linter.unusedSimpArgs false
set_option linter.unusedVariables false
/-
C13, Chow-Liu documents: COMPLETENESS of the modelled `is_arborescence` (`Model/CltIo.lean: isArborescence`; soundness is
`isArborescence_sound` in `Lemmas/CltIoDecode.lean`).  The decision procedure searches the weakly connected component of the
first node with `2·len(G)` rounds of neighbourhood expansion; completeness says that this bound is enough: on a graph whose node
ids are distinct and whose edges end in nodes (`GraphOK` — every graph `node_link_graph` builds is one, `graphOfDoc_ok`), every
node joined to the first node by a path of edges (direction ignored) is found.  Hence `isArborescence_iff`: the Boolean test
accepts EXACTLY the arborescences, and `cltDecode_tree_test_iff`: the tree test of `load_binary_clt_json` rejects a document iff
its graph is not an arborescence.
-/
namespace Deeprob.GraphIo
open Deeprob Deeprob.Clt Deeprob.CltFit

/-- what every NetworkX graph satisfies: distinct node ids, every edge ends in a node -/
structure GraphOK (g : DiGraph) : Prop where
  nodup : (nodeIds g).Nodup
  closed : ∀ e ∈ edgesOf g, e.1 ∈ nodeIds g ∧ e.2 ∈ nodeIds g

theorem find_of_nodup : ∀ (g : DiGraph), (nodeIds g).Nodup → ∀ x ∈ g, g.find? (fun y => y.id == x.id) = some x
  | [], _, x, hx => by simp at hx
  | y :: g, hnd, x, hx => by
    have hnd' : y.id ∉ nodeIds g ∧ (nodeIds g).Nodup := by simpa [nodeIds] using hnd
    rcases List.mem_cons.1 hx with rfl | hx'
    · simp
    · have hne : y.id ≠ x.id := by
        intro h
        apply hnd'.1
        rw [h]
        exact List.mem_map.2 ⟨x, hx', rfl⟩
      rw [List.find?_cons_of_neg (by simpa using hne)]
      exact find_of_nodup g hnd'.2 x hx'

theorem succOf_of_edge {g : DiGraph} (hok : GraphOK g) {u v : Nat} (h : (u, v) ∈ edgesOf g) : v ∈ succOf g u := by
  unfold edgesOf at h
  rw [List.mem_flatMap] at h
  obtain ⟨x, hx, hm⟩ := h
  rw [List.mem_map] at hm
  obtain ⟨w, hw, he⟩ := hm
  have h1 : x.id = u := by injection he
  have h2 : w = v := by injection he
  subst h1 h2
  unfold succOf
  rw [find_of_nodup g hok.nodup x hx]
  exact hw

/-! ### the component search reaches a fixed point within `len(G)` rounds -/

theorem expand_eq_or_lt (g : DiGraph) (S : List Nat) : expand g S = S ∨ S.length < (expand g S).length := by
  unfold expand
  cases hf : (nodeIds g).filter (fun v => !S.contains v &&
      S.any (fun u => (succOf g u).contains v || (succOf g v).contains u)) with
  | nil => left; simp
  | cons a l => right; simp

theorem expand_nodup (g : DiGraph) (S : List Nat) (hn : (nodeIds g).Nodup) (hS : S.Nodup) : (expand g S).Nodup := by
  unfold expand
  rw [List.nodup_append]
  refine ⟨hS, hn.filter _, ?_⟩
  intro a ha b hb hab
  subst hab
  rw [List.mem_filter] at hb
  simp at hb
  exact hb.2.1 ha

theorem expand_subset (g : DiGraph) (S : List Nat) (hS : ∀ v ∈ S, v ∈ nodeIds g) : ∀ v ∈ expand g S, v ∈ nodeIds g := by
  intro v hv
  unfold expand at hv
  rcases List.mem_append.1 hv with h | h
  · exact hS v h
  · exact (List.mem_filter.1 h).1

theorem rounds_inv (g : DiGraph) (hn : (nodeIds g).Nodup) : ∀ (k : Nat) (S : List Nat), S.Nodup → (∀ v ∈ S, v ∈ nodeIds g) →
    (rounds g k S).Nodup ∧ ∀ v ∈ rounds g k S, v ∈ nodeIds g
  | 0, S, h1, h2 => ⟨h1, h2⟩
  | k + 1, S, h1, h2 => rounds_inv g hn k _ (expand_nodup g S hn h1) (expand_subset g S h2)

theorem rounds_fixed (g : DiGraph) (S : List Nat) (h : expand g S = S) : ∀ k, rounds g k S = S
  | 0 => rfl
  | k + 1 => by simp only [rounds]; rw [h]; exact rounds_fixed g S h k

/-- either a fixed point was met within `k` rounds, or every round added a node -/
theorem rounds_progress (g : DiGraph) (S : List Nat) : ∀ k,
    (∃ j ≤ k, expand g (rounds g j S) = rounds g j S) ∨ S.length + k ≤ (rounds g k S).length
  | 0 => Or.inr (by simp [rounds])
  | k + 1 => by
    rcases rounds_progress g S k with ⟨j, hj, hfix⟩ | hlen
    · exact Or.inl ⟨j, by omega, hfix⟩
    · rcases expand_eq_or_lt g (rounds g k S) with heq | hlt
      · exact Or.inl ⟨k, by omega, heq⟩
      · right
        rw [rounds_succ']
        omega

theorem length_le_of_nodup_subset {l m : List Nat} (hl : l.Nodup) (hs : ∀ v ∈ l, v ∈ m) : l.length ≤ m.length :=
  (List.subperm_of_subset hl hs).length_le

/-- the search has stabilised after `2·len(G)` rounds -/
theorem component_fixed {g : DiGraph} (hok : GraphOK g) (x : GNode) (rest : List GNode) (hg : g = x :: rest) :
    expand g (component g) = component g := by
  have hx : x.id ∈ nodeIds g := by rw [hg]; simp [nodeIds]
  have hc : component g = rounds g (2 * g.length) [x.id] := by unfold component; rw [hg]
  rcases rounds_progress g [x.id] g.length with ⟨j, hj, hfix⟩ | hlen
  · rw [hc]
    have e : 2 * g.length = j + (2 * g.length - j) := by omega
    rw [e, rounds_add, rounds_fixed g _ hfix]
    exact hfix
  · exfalso
    obtain ⟨h1, h2⟩ := rounds_inv g hok.nodup g.length [x.id] (by simp) (by intro v hv; simp at hv; rw [hv]; exact hx)
    have := length_le_of_nodup_subset h1 h2
    simp [nodeIds] at this hlen
    omega

/-- a set that contains the start node and is closed under one round of expansion contains every node joined to the start -/
theorem closed_reach {g : DiGraph} (hok : GraphOK g) (S : List Nat) (hfix : expand g S = S) (a : Nat) (ha : a ∈ S) :
    ∀ v, Relation.ReflTransGen (Adj g) a v → v ∈ S := by
  intro v hv
  induction hv with
  | refl => exact ha
  | tail _ hadj ih =>
    rename_i b c _
    rw [← hfix]
    rcases hadj with h | h
    · exact mem_expand ih (hok.closed _ h).2 (Or.inl (by simpa using succOf_of_edge hok h))
    · exact mem_expand ih (hok.closed _ h).1 (Or.inr (by simpa using succOf_of_edge hok h))

/-- **isArborescence_complete**: on a graph with distinct node ids whose edges end in nodes, the decision procedure accepts every
arborescence — the bound of `2·len(G)` expansion rounds loses nothing. -/
theorem isArborescence_complete {g : DiGraph} (hok : GraphOK g) (h : IsArborescence g) : isArborescence g = true := by
  unfold isArborescence
  simp only [Bool.and_eq_true, Bool.not_eq_true', beq_iff_eq, List.all_eq_true, decide_eq_true_eq]
  refine ⟨⟨⟨?_, h.edges⟩, ?_⟩, h.indeg⟩
  · cases g with
    | nil => exact absurd rfl h.nonempty
    | cons x rest => rfl
  · cases hg : g with
    | nil => exact absurd hg h.nonempty
    | cons x rest =>
      rw [← hg]
      unfold weaklyConnected
      rw [List.all_eq_true]
      intro v hv
      simp only [List.contains_iff_mem, decide_eq_true_eq]
      have hfix := component_fixed hok x rest hg
      have hx : x.id ∈ component g := by
        have hc : component g = rounds g (2 * g.length) [x.id] := by unfold component; rw [hg]
        rw [hc]; exact rounds_mono g _ _ _ (by simp)
      exact closed_reach hok _ hfix x.id hx v (h.connected x rest hg v hv)

/-- **isArborescence_iff**: the Boolean test accepts exactly the arborescences. -/
theorem isArborescence_iff {g : DiGraph} (hok : GraphOK g) : isArborescence g = true ↔ IsArborescence g :=
  ⟨isArborescence_sound, isArborescence_complete hok⟩

/-! ### every graph built from a document is a `GraphOK` graph -/

theorem nodeIds_addNode (g : DiGraph) (i : Nat) (a : Option CAttr) :
    nodeIds (addNode g i a) = if hasNode g i then nodeIds g else nodeIds g ++ [i] := by
  unfold addNode
  split
  · simp only [nodeIds, List.map_map]
    apply List.map_congr_left
    intro x _
    simp only [Function.comp]
    split <;> rfl
  · simp [nodeIds]

theorem hasNode_iff (g : DiGraph) (i : Nat) : hasNode g i = true ↔ i ∈ nodeIds g := by
  unfold hasNode nodeIds
  rw [List.any_eq_true, List.mem_map]
  constructor
  · rintro ⟨x, hx, h⟩; exact ⟨x, hx, by simpa using h⟩
  · rintro ⟨x, hx, h⟩; exact ⟨x, hx, by simpa using h⟩

theorem edgesOf_addNode (g : DiGraph) (i : Nat) (a : Option CAttr) : edgesOf (addNode g i a) = edgesOf g := by
  unfold addNode
  split
  · unfold edgesOf
    rw [List.flatMap_map]
    apply List.flatMap_congr
    intro x _
    split <;> rfl
  · simp [edgesOf]

theorem graphOK_addNode {g : DiGraph} (h : GraphOK g) (i : Nat) (a : Option CAttr) : GraphOK (addNode g i a) := by
  have hids := nodeIds_addNode g i a
  refine ⟨?_, ?_⟩
  · rw [hids]
    split
    · exact h.nodup
    · rename_i hn
      rw [List.nodup_append]
      refine ⟨h.nodup, by simp, ?_⟩
      intro x hx y hy hxy
      simp at hy
      subst hy; subst hxy
      exact hn ((hasNode_iff g _).2 hx)
  · intro e he
    rw [edgesOf_addNode] at he
    obtain ⟨h1, h2⟩ := h.closed e he
    rw [hids]
    split
    · exact ⟨h1, h2⟩
    · exact ⟨List.mem_append_left _ h1, List.mem_append_left _ h2⟩

/-- appending a fresh node without successors -/
theorem graphOK_snoc {g : DiGraph} (h : GraphOK g) (i : Nat) (hi : hasNode g i = false) :
    GraphOK (g ++ [{ id := i, attr := none, succ := [] }]) := by
  refine ⟨?_, ?_⟩
  · simp only [nodeIds, List.map_append, List.map_cons, List.map_nil]
    rw [List.nodup_append]
    refine ⟨h.nodup, by simp, ?_⟩
    intro x hx y hy hxy
    simp at hy
    subst hy; subst hxy
    have := (hasNode_iff g _).2 hx
    rw [hi] at this; cases this
  · intro e he
    have he' : e ∈ edgesOf g := by simpa [edgesOf] using he
    obtain ⟨h1, h2⟩ := h.closed e he'
    simp only [nodeIds, List.map_append]
    exact ⟨List.mem_append_left _ h1, List.mem_append_left _ h2⟩

theorem graphOK_ensure {g : DiGraph} (h : GraphOK g) (i : Nat) :
    GraphOK (if hasNode g i then g else g ++ [{ id := i, attr := none, succ := [] }]) ∧
    i ∈ nodeIds (if hasNode g i then g else g ++ [{ id := i, attr := none, succ := [] }]) ∧
    (∀ v ∈ nodeIds g, v ∈ nodeIds (if hasNode g i then g else g ++ [{ id := i, attr := none, succ := [] }])) := by
  cases hh : hasNode g i with
  | true => simp only [if_true]; exact ⟨h, (hasNode_iff g i).1 hh, fun v hv => hv⟩
  | false =>
    simp only [Bool.false_eq_true, if_false]
    exact ⟨graphOK_snoc h i hh, by simp [nodeIds], fun v hv => by simp only [nodeIds, List.map_append]; exact List.mem_append_left _ hv⟩

/-- adding a successor to the nodes with id `u` keeps the ids and adds at most the edge `(u, v)` -/
theorem graphOK_link {g : DiGraph} (h : GraphOK g) (u v : Nat) (hu : u ∈ nodeIds g) (hv : v ∈ nodeIds g) :
    GraphOK (g.map (fun x => if x.id == u && !(x.succ.contains v) then { x with succ := x.succ ++ [v] } else x)) := by
  have hids : nodeIds (g.map (fun x => if x.id == u && !(x.succ.contains v) then { x with succ := x.succ ++ [v] } else x)) = nodeIds g := by
    simp only [nodeIds, List.map_map]
    apply List.map_congr_left
    intro x _
    simp only [Function.comp]
    split <;> rfl
  refine ⟨by rw [hids]; exact h.nodup, ?_⟩
  intro e he
  rw [hids]
  unfold edgesOf at he
  rw [List.flatMap_map, List.mem_flatMap] at he
  obtain ⟨x, hx, hm⟩ := he
  by_cases hc : (x.id == u && !(x.succ.contains v)) = true
  · simp only [hc, if_true, List.map_append, List.mem_append, List.mem_map] at hm
    rcases hm with ⟨w, hw, rfl⟩ | hm
    · exact h.closed _ (by unfold edgesOf; rw [List.mem_flatMap]; exact ⟨x, hx, List.mem_map.2 ⟨w, hw, rfl⟩⟩)
    · simp at hm
      subst hm
      have : x.id = u := by
        simp only [Bool.and_eq_true, beq_iff_eq] at hc; exact hc.1
      exact ⟨by rw [this]; exact hu, hv⟩
  · have hc' : (x.id == u && !(x.succ.contains v)) = false := by simpa using hc
    simp only [hc', Bool.false_eq_true, if_false] at hm
    exact h.closed _ (by unfold edgesOf; rw [List.mem_flatMap]; exact ⟨x, hx, hm⟩)

theorem graphOK_addEdge {g : DiGraph} (h : GraphOK g) (e : Nat × Nat) : GraphOK (addEdge g e) := by
  unfold addEdge
  obtain ⟨h1, hm1, hk1⟩ := graphOK_ensure h e.1
  obtain ⟨h2, hm2, hk2⟩ := graphOK_ensure h1 e.2
  exact graphOK_link h2 e.1 e.2 (hk2 _ hm1) hm2

theorem graphOK_nil : GraphOK [] := ⟨by simp [nodeIds], by simp [edgesOf]⟩

theorem foldl_graphOK {β : Type} (f : DiGraph → β → DiGraph) (hf : ∀ g b, GraphOK g → GraphOK (f g b)) :
    ∀ (l : List β) (g : DiGraph), GraphOK g → GraphOK (l.foldl f g)
  | [], g, h => h
  | b :: l, g, h => foldl_graphOK f hf l _ (hf g b h)

/-- **graphOfDoc_ok**: the graph `node_link_graph` builds from ANY document has distinct node ids and edges that end in nodes. -/
theorem graphOfDoc_ok (d : CDoc) : GraphOK (graphOfDoc d) := by
  unfold graphOfDoc
  apply foldl_graphOK _ (fun g e h => graphOK_addEdge h e)
  exact foldl_graphOK _ (fun g na h => graphOK_addNode h na.1 na.2) _ _ graphOK_nil

/-- **cltDecode_tree_test_iff (C13)**: the tree test of `load_binary_clt_json` passes for a document iff the document's graph is
an arborescence: non-empty, `n − 1` edges, every node joined to the first one by edges (direction ignored), no node with two
incoming edges.  (`cltDecode_rejects_non_tree` is the "only if" half; this is the completeness `DESIGN.md` §9 listed as missing.) -/
theorem cltDecode_tree_test_iff (d : CDoc) : isArborescence (graphOfDoc d) = true ↔ IsArborescence (graphOfDoc d) :=
  isArborescence_iff (graphOfDoc_ok d)

/-- an accepted arborescence with five nodes (edges given in an order that makes the search work through several rounds) -/
example : IsArborescence (graphOfDoc { nodes := [(0, none), (1, none), (2, none), (3, none), (4, none)], edges := [(3, 4), (2, 3), (1, 2), (0, 1)] }) :=
  (cltDecode_tree_test_iff _).1 (by decide +kernel)

/-- rejected: a cycle next to an isolated root (4 nodes, 3 edges, in-degrees ≤ 1 — only connectivity fails) -/
example : ¬ IsArborescence (graphOfDoc { nodes := [(0, none), (1, none), (2, none), (3, none)], edges := [(1, 2), (2, 3), (3, 1)] }) := by
  intro h
  have := (cltDecode_tree_test_iff _).2 h
  revert this
  decide +kernel

/-- rejected: a forest of two trees (too few edges) -/
example : ¬ IsArborescence (graphOfDoc { nodes := [(0, none), (1, none), (2, none), (3, none)], edges := [(0, 1), (2, 3)] }) := by
  intro h
  have := (cltDecode_tree_test_iff _).2 h
  revert this
  decide +kernel

end Deeprob.GraphIo
