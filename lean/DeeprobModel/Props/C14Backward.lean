import DeeprobModel.Model.EmBackward
import DeeprobModel.Props.C14Net
import DeeprobModel.Lemmas.MpeLemmas
import DeeprobModel.Oblig.Struct3Em
import Mathlib.Algebra.Order.Field.Basic
import Mathlib.Algebra.Order.Field.Rat
import Mathlib.Tactic.Ring
import Mathlib.Tactic.FieldSimp
import Mathlib.Tactic.IntervalCases
set_option linter.unusedSimpArgs false
set_option linter.unusedVariables false
set_option linter.unusedSectionVars false
/-
C14 — the backward pass AS CODED (`Model/EmBackward.lean`: log domain, `lls` floored at `-1e31`, float32 absorption) against
the linear-domain derivative `backward` of `Model/Em.lean` (`C14.backward_is_derivative`).

 * `coded_grads_rel`                       — the invariant: on every non-negative table, after the coded pass every node
                                             holds a number (never `top`: no overflow, no NaN), and every node of NON-ZERO
                                             value holds exactly the linear-domain gradient; zero-valued nodes may hold
                                             anything (they do: `coded_grad_wrong_witness`);
 * `backward_coded_eq_derivative_of_pos`   — all values positive: the coded pass IS `backward` (hence the derivative);
 * `resp_coded_exact`, `leaf_stat_coded_exact`, `sum_stat_coded_exact`
                                           — what EM uses (`weights * stats` of every sum edge, `stats` of every leaf) is
                                             exact on every row of positive probability, zero-valued product children included;
 * `raw_stat_zero_weight_witness`          — the only entries of `stats` that can be wrong: a zero-WEIGHT edge from a
                                             zero-valued sum to a positive child (multiplied by the weight `0` in `em_step`);
 * `resp_coded_exact_valid`                — the same with the derivative characterised semantically (valid tables);
 * `forwardC_eq_codedLls`                  — the forward pass as coded (`node_log_likelihood`, floor active) produces
                                             exactly the table `codedLls (evalNet …)` the statements above start from;
 * `stat_fin_as_coded`                     — on finite entries the statistic is the expression extracted from em.py.
The model is executed next to the real pass by `harness/demos/demo_embackward.py` (driver op `embackward`): `lls`,
`grads` (the wrong entries included) and all statistics agree.
-/
namespace Deeprob.C14B
open Deeprob Deeprob.Bwd Deeprob.LogV

/-! ### the operations of the log domain are homomorphic for `expL` as long as nothing is `top` -/

section ops
variable {F : Type} [Field F] [DecidableEq F]

theorem expL_ofLin (w : F) : expL (ofLin w) = some w := by
  unfold ofLin
  split
  · next h => simp [expL, h]
  · rfl

theorem llOf_zero : llOf (0 : F) = low 0 := by simp [llOf, ofLin, floorLL]

theorem llOf_ne {v : F} (h : v ≠ 0) : llOf v = fin v := by simp [llOf, ofLin, floorLL, h]

theorem expL_llOf (v : F) : expL (llOf v) = some v := by
  by_cases h : v = 0
  · subst h; rw [llOf_zero]; rfl
  · rw [llOf_ne h]; rfl

theorem expL_add {a b : LogV F} {x y : F} (ha : expL a = some x) (hb : expL b = some y) :
    expL (add a b) = some (x * y) := by
  cases a <;> cases b <;> simp only [expL, add, Option.some.injEq, reduceCtorEq] at ha hb ⊢ <;> subst ha hb <;> simp

theorem expL_lse {a b : LogV F} {x y : F} (ha : expL a = some x) (hb : expL b = some y) :
    expL (lse a b) = some (x + y) := by
  cases a <;> cases b <;> simp only [expL, lse, Option.some.injEq, reduceCtorEq] at ha hb ⊢ <;> subst ha hb <;> simp

theorem expL_sub_fin {a : LogV F} {x : F} (b : F) (ha : expL a = some x) :
    expL (sub a (fin b)) = some (x / b) := by
  cases a <;> simp only [expL, sub, Option.some.injEq, reduceCtorEq] at ha ⊢ <;> subst ha <;> simp

/-- `(g + F) - F`: a number, whatever `g` was (`0.0` for an ordinary `g`) -/
theorem expL_floor_cancel {g : LogV F} {x : F} (hg : expL g = some x) :
    ∃ d, expL (sub (add g (low 0)) (low 0)) = some d := by
  cases g with
  | fin a => exact ⟨1, rfl⟩
  | low k => exact ⟨0, rfl⟩
  | bot => exact ⟨0, rfl⟩
  | top => simp [expL] at hg

/-- `(g + F) - finite`: zero -/
theorem expL_floor_sub_fin {g : LogV F} {x : F} (b : F) (hg : expL g = some x) :
    expL (sub (add g (low 0)) (fin b)) = some 0 := by
  cases g <;> simp only [expL, sub, add, Option.some.injEq, reduceCtorEq] at hg ⊢

/-- the argument of `np.exp` in em.py, `ll - root_ll + grad`, for a node of value `v`, a root of non-zero value `r` and a
coded gradient that is a number `d`: `exp` of it is `v/r·d` -/
theorem expL_stat (v r d : F) {G : LogV F} (hr : r ≠ 0) (hG : expL G = some d) :
    expL (add (sub (llOf v) (llOf r)) G) = some (v / r * d) := by
  rw [llOf_ne hr]
  exact expL_add (expL_sub_fin r (expL_llOf v)) hG

end ops

/-! ### the invariant of one table entry -/

section rel
variable {F : Type} [Field F] [DecidableEq F]

/-- entry invariant: the coded entry `G` of a node of value `v` is a number, and it is the linear-domain entry `D`
whenever `v ≠ 0` -/
def Rel (v : F) (G : LogV F) (D : F) : Prop := ∃ d, expL G = some d ∧ (v ≠ 0 → d = D)

theorem rel_lse {v : F} {G C : LogV F} {D E : F} (h1 : Rel v G D) (h2 : Rel v C E) : Rel v (lse G C) (D + E) := by
  obtain ⟨d, hd, hd'⟩ := h1
  obtain ⟨c, hc, hc'⟩ := h2
  exact ⟨d + c, expL_lse hd hc, fun hv => by rw [hd' hv, hc' hv]⟩

/-- what a product of value `vi = vc·P` sends to its child of value `vc` -/
theorem prod_contrib {vi vc P Di : F} {G : LogV F} (hvi : vi = vc * P) (hR : Rel vi G Di) :
    Rel vc (sub (add G (llOf vi)) (llOf vc)) (Di * P) := by
  obtain ⟨d, hd, hd'⟩ := hR
  by_cases hc : vc = 0
  · have hi : vi = 0 := by rw [hvi, hc, zero_mul]
    subst hc; subst hi
    rw [llOf_zero]
    obtain ⟨d2, h2⟩ := expL_floor_cancel hd
    exact ⟨d2, h2, fun h => absurd rfl h⟩
  · rw [llOf_ne hc]
    by_cases hi : vi = 0
    · rw [hi, llOf_zero]
      refine ⟨0, expL_floor_sub_fin vc hd, fun _ => ?_⟩
      have : P = 0 := by
        rcases mul_eq_zero.1 (hvi.symm.trans hi) with h | h
        · exact absurd h hc
        · exact h
      rw [this, mul_zero]
    · rw [llOf_ne hi]
      refine ⟨d * vi / vc, expL_sub_fin vc (expL_add hd rfl), fun _ => ?_⟩
      rw [hd' hi, hvi]
      field_simp

/-- what a sum of value `vi` sends along an edge of weight `w` to a child of value `vc` -/
theorem sum_contrib {vi vc w Di : F} {G : LogV F} (hz : vi = 0 → w * vc = 0) (hR : Rel vi G Di) :
    Rel vc (add G (ofLin w)) (Di * w) := by
  obtain ⟨d, hd, hd'⟩ := hR
  refine ⟨d * w, expL_add hd (expL_ofLin w), fun hc => ?_⟩
  by_cases hi : vi = 0
  · have : w = 0 := by
      rcases mul_eq_zero.1 (hz hi) with h | h
      · exact h
      · exact absurd h hc
    rw [this, mul_zero, mul_zero]
  · rw [hd' hi]

end rel

/-! ### tables -/

section tables
variable {F : Type} [Field F] [DecidableEq F]

theorem getD_set' {β : Type} (l : List β) (c : Nat) (x d : β) (j : Nat) :
    (l.set c x).getD j d = if j = c ∧ c < l.length then x else l.getD j d := by
  simp only [List.getD_eq_getElem?_getD, List.getElem?_set]
  by_cases h1 : c = j
  · subst h1
    by_cases h2 : c < l.length
    · simp [h2]
    · simp [h2, List.getElem?_eq_none (Nat.le_of_not_lt h2)]
  · have : ¬ j = c := fun h => h1 h.symm
    simp [h1, this]

/-- the coded table `G` and the linear table `D` are related entry by entry -/
def TRel (vals : List F) (G : List (LogV F)) (D : List F) : Prop :=
  G.length = D.length ∧ ∀ j, Rel (vals.getD j 0) (G.getD j bot) (D.getD j 0)

theorem trel_set {vals : List F} {G : List (LogV F)} {D : List F} (h : TRel vals G D) (c : Nat) (g' : LogV F) (d' : F)
    (hr : Rel (vals.getD c 0) g' d') : TRel vals (G.set c g') (D.set c d') := by
  refine ⟨by simp [h.1], fun j => ?_⟩
  rw [getD_set', getD_set', h.1]
  split
  · next hj => rw [hj.1]; exact hr
  · exact h.2 j

theorem foldl_rel {A B X : Type} (R : A → B → Prop) (f : A → X → A) (g : B → X → B) (l : List X)
    (hstep : ∀ a b x, x ∈ l → R a b → R (f a x) (g b x)) : ∀ a b, R a b → R (l.foldl f a) (l.foldl g b) := by
  induction l with
  | nil => intro a b h; exact h
  | cons x xs ih =>
    intro a b h
    simp only [List.foldl_cons]
    exact ih (fun a b y hy => hstep a b y (List.mem_cons_of_mem _ hy)) _ _ (hstep a b x List.mem_cons_self h)

theorem getD_codedLls (vals : List F) (i : Nat) : (codedLls vals).getD i (low 0) = llOf (vals.getD i 0) := by
  simp only [codedLls, List.getD_eq_getElem?_getD, List.getElem?_map]
  cases vals[i]? with
  | none => simp [llOf_zero]
  | some v => simp

theorem lprod_eraseIdx (v : Nat → F) : ∀ (ch : List Nat) (j c : Nat), ch[j]? = some c →
    lprod (ch.map v) = v c * lprod ((ch.eraseIdx j).map v) := by
  intro ch
  induction ch with
  | nil => intro j c h; simp at h
  | cons a as ih =>
    intro j c h
    cases j with
    | zero =>
      simp only [List.getElem?_cons_zero, Option.some.injEq] at h
      subst h
      simp [lprod]
    | succ j =>
      simp only [List.getElem?_cons_succ] at h
      simp only [List.eraseIdx_cons_succ, List.map_cons, lprod]
      rw [ih j c h]
      ring

end tables

/-! ### the simulation: the coded pass next to the linear pass -/

section sim
variable {F : Type} [Field F] [LinearOrder F] [IsStrictOrderedRing F] [DecidableEq F]

theorem wsum_zero_edge (v : Nat → F) (hv : ∀ c, 0 ≤ v c) : ∀ (ws : List F) (ch : List Nat), (∀ w ∈ ws, 0 ≤ w) →
    wsum ws (ch.map v) = 0 → ∀ cw ∈ ch.zip ws, cw.2 * v cw.1 = 0 := by
  intro ws
  induction ws with
  | nil => intro ch _ _ cw hcw; simp at hcw
  | cons w ws ih =>
    intro ch hw h cw hcw
    cases ch with
    | nil => simp at hcw
    | cons c cs =>
      simp only [List.map_cons, wsum] at h
      have h1 : 0 ≤ w * v c := mul_nonneg (hw w List.mem_cons_self) (hv c)
      have h2 : 0 ≤ wsum ws (cs.map v) := by
        apply TD.wsum_nonneg
        · intro a ha; exact hw a (List.mem_cons_of_mem _ ha)
        · intro a ha
          obtain ⟨c', _, rfl⟩ := List.mem_map.1 ha
          exact hv c'
      have h3 := (add_eq_zero_iff_of_nonneg h1 h2).1 h
      simp only [List.zip_cons_cons, List.mem_cons] at hcw
      rcases hcw with rfl | hcw
      · exact h3.1
      · exact ih cs (fun a ha => hw a (List.mem_cons_of_mem _ ha)) h3.2 cw hcw

/-- one node of the sweep keeps the tables related -/
theorem sendDown_rel (vals : List F) (x : NNode F) (i : Nat)
    (hsum : x.kind = .sum → vals.getD i 0 = wsum x.ws (x.ch.map (fun c => vals.getD c 0)))
    (hprod : x.kind = .prod → vals.getD i 0 = lprod (x.ch.map (fun c => vals.getD c 0)))
    (hv : ∀ c, 0 ≤ vals.getD c 0) (hws : ∀ w ∈ x.ws, 0 ≤ w)
    (g : LogV F) (Di : F) (hR : Rel (vals.getD i 0) g Di) (G : List (LogV F)) (D : List F) (hT : TRel vals G D) :
    TRel vals (sendDownC (codedLls vals) x i g G) (sendDown vals x Di D) := by
  unfold sendDownC sendDown
  cases hk : x.kind with
  | leaf => exact hT
  | sum =>
    simp only
    have hz := wsum_zero_edge (fun c => vals.getD c 0) hv x.ws x.ch hws
    apply foldl_rel (TRel vals) _ _ (x.ch.zip x.ws) _ G D hT
    intro a b cw hcw hab
    apply trel_set hab
    apply rel_lse (hab.2 cw.1)
    apply sum_contrib _ hR
    intro hi
    exact hz (by rw [← hsum hk]; exact hi) cw hcw
  | prod =>
    simp only
    have hconv : ∀ (f : List (LogV F) → Nat → List (LogV F)) (G : List (LogV F)),
        x.ch.foldl f G = x.ch.zipIdx.foldl (fun gr cj => f gr cj.1) G := by
      intro f G
      conv_lhs => rw [← List.zipIdx_map_fst 0 x.ch, List.foldl_map]
    rw [hconv]
    apply foldl_rel (TRel vals) _ _ x.ch.zipIdx _ G D hT
    intro a b cj hcj hab
    apply trel_set hab
    apply rel_lse (hab.2 cj.1)
    rw [getD_codedLls, getD_codedLls]
    apply prod_contrib _ hR
    rw [hprod hk]
    exact lprod_eraseIdx (fun c => vals.getD c 0) x.ch cj.2 cj.1 (List.mem_zipIdx_iff_getElem?.1 hcj)

/-- **coded_grads_rel** — the invariant of the coded pass. For every table whose value list is consistent at the sum
and product entries (`vals` = `evalNet`, see the corollaries) and non-negative, with non-negative weights: after
`eval_backward` as coded, every entry is a number (no overflow, no NaN: `expL … = some d`), and at every node of
non-zero value that number is the linear-domain gradient `backward … [j]`. No smoothness, decomposability or
ordering hypothesis is needed: the argument is local (a zero-valued node sends `0` to each of its non-zero
children — a product because `value/child = 0`, a sum because the weight must be `0`). -/
theorem coded_grads_rel (net : Net F) (vals : List F) (root : Nat)
    (hsum : ∀ (i : Nat) (x : NNode F), net[i]? = some x → x.kind = .sum →
      vals.getD i 0 = wsum x.ws (x.ch.map (fun c => vals.getD c 0)))
    (hprod : ∀ (i : Nat) (x : NNode F), net[i]? = some x → x.kind = .prod →
      vals.getD i 0 = lprod (x.ch.map (fun c => vals.getD c 0)))
    (hv : ∀ c, 0 ≤ vals.getD c 0) (hws : ∀ (i : Nat) (x : NNode F), net[i]? = some x → ∀ w ∈ x.ws, 0 ≤ w) (j : Nat) :
    Rel (vals.getD j 0) ((backwardC net (codedLls vals) root).getD j bot) ((backward net vals root).getD j 0) := by
  have hT : TRel vals (backwardC net (codedLls vals) root) (backward net vals root) := by
    unfold backwardC backward
    apply foldl_rel (TRel vals)
    · intro a b i _ hab
      cases hn : net[i]? with
      | none => exact hab
      | some x =>
        simp only
        exact sendDown_rel vals x i (hsum i x hn) (hprod i x hn) hv (hws i x hn) _ _ (hab.2 i) a b hab
    · apply trel_set
      · refine ⟨by simp, fun j => ?_⟩
        refine ⟨0, ?_, fun _ => ?_⟩
        · have : (List.replicate net.length (bot : LogV F)).getD j bot = bot := by
            simp only [List.getD_eq_getElem?_getD, List.getElem?_replicate]; split <;> rfl
          rw [this]; rfl
        · simp only [List.getD_eq_getElem?_getD, List.getElem?_replicate]; split <;> rfl
      · exact ⟨1, rfl, fun _ => rfl⟩
  exact hT.2 j

end sim

/-! ### the theorems about the row tables `evalNet` -/

section main
variable {F : Type} [Field F] [LinearOrder F] [IsStrictOrderedRing F] [DecidableEq F]

/-- the circuit is non-negative on the row: weights `≥ 0`, leaf values `≥ 0` -/
def NonNegNet (e : Ev) (dens : List F) (net : Net F) : Prop :=
  (∀ (i : Nat) (x : NNode F), net[i]? = some x → ∀ w ∈ x.ws, 0 ≤ w) ∧
  (∀ (i : Nat) (x : NNode F), net[i]? = some x → x.kind = .leaf → 0 ≤ x.leaf.fn x.scope (dens.getD i 0) e)

/-- the gradients the coded pass returns for the row `e`: `eval_backward(root, lls)` with `lls` the floored logs of
the row's node values -/
abbrev codedGrads (e : Ev) (dens : List F) (net : Net F) (root : Nat) : List (LogV F) :=
  backwardC net (codedLls (evalNet e dens net)) root

theorem evalNet_at_sum (e : Ev) (dens : List F) (net : Net F) (hw : WellOrdered net) (i : Nat) (x : NNode F)
    (hn : net[i]? = some x) (hk : x.kind = .sum) :
    (evalNet e dens net).getD i 0 = wsum x.ws (x.ch.map (fun c => (evalNet e dens net).getD c 0)) := by
  obtain ⟨hi, rfl⟩ := List.getElem?_eq_some_iff.1 hn
  rw [evalNet_rec e dens net hw i hi]
  unfold nodeFn
  rw [hk]

theorem evalNet_at_prod (e : Ev) (dens : List F) (net : Net F) (hw : WellOrdered net) (i : Nat) (x : NNode F)
    (hn : net[i]? = some x) (hk : x.kind = .prod) :
    (evalNet e dens net).getD i 0 = lprod (x.ch.map (fun c => (evalNet e dens net).getD c 0)) := by
  obtain ⟨hi, rfl⟩ := List.getElem?_eq_some_iff.1 hn
  rw [evalNet_rec e dens net hw i hi]
  unfold nodeFn
  rw [hk]

theorem evalNet_nonneg (e : Ev) (dens : List F) (net : Net F) (hw : WellOrdered net) (hnn : NonNegNet e dens net) :
    ∀ k, 0 ≤ (evalNet e dens net).getD k 0 := by
  intro k
  induction k using Nat.strong_induction_on with
  | _ k ih =>
    by_cases hk : k < net.length
    · have hn : net[k]? = some net[k] := by simp [hk]
      rw [evalNet_rec e dens net hw k hk]
      unfold nodeFn
      cases hkind : (net[k]).kind with
      | leaf => exact hnn.2 k _ hn hkind
      | sum =>
        apply TD.wsum_nonneg _ _ (hnn.1 k _ hn)
        intro a ha
        obtain ⟨c, hc, rfl⟩ := List.mem_map.1 ha
        exact ih c (hw k _ hn c hc)
      | prod =>
        apply TD.lprod_nonneg
        intro a ha
        obtain ⟨c, hc, rfl⟩ := List.mem_map.1 ha
        exact ih c (hw k _ hn c hc)
    · rw [List.getD_eq_getElem?_getD, List.getElem?_eq_none (by rw [evalNet_length]; omega)]
      exact le_refl _

/-- `coded_grads_rel` for the value table of a row -/
theorem coded_grads_evalNet (e : Ev) (dens : List F) (net : Net F) (hw : WellOrdered net)
    (hws : ∀ (i : Nat) (x : NNode F), net[i]? = some x → ∀ w ∈ x.ws, 0 ≤ w)
    (hv : ∀ k, 0 ≤ (evalNet e dens net).getD k 0) (root j : Nat) :
    Rel ((evalNet e dens net).getD j 0) ((codedGrads e dens net root).getD j bot)
      ((backward net (evalNet e dens net) root).getD j 0) :=
  coded_grads_rel net _ root (fun i x hn hk => evalNet_at_sum e dens net hw i x hn hk)
    (fun i x hn hk => evalNet_at_prod e dens net hw i x hn hk) hv hws j

/-- **backward_coded_eq_derivative_of_pos** — when every node value of the row is positive (no floor is active) the
pass as coded returns, at every node, exactly the linear-domain gradient of `Model/Em.lean` (`exp grads[i]` =
`backward … [i]`; a gradient `0`, possible with zero weights, is `-inf`), so that the whole existing theory
(`C14.backward_is_derivative`, `resp_is_posterior`, `resp_is_mass_through_node`) is a theory of the code's pass. -/
theorem backward_coded_eq_derivative_of_pos (e : Ev) (dens : List F) (net : Net F) (hw : WellOrdered net)
    (hws : ∀ (i : Nat) (x : NNode F), net[i]? = some x → ∀ w ∈ x.ws, 0 ≤ w) (root : Nat)
    (hpos : ∀ i, i < net.length → 0 < (evalNet e dens net).getD i 0) (i : Nat) (hi : i < net.length) :
    expL ((codedGrads e dens net root).getD i bot) = some ((backward net (evalNet e dens net) root).getD i 0) := by
  have hv : ∀ k, 0 ≤ (evalNet e dens net).getD k 0 := by
    intro k
    by_cases hk : k < net.length
    · exact le_of_lt (hpos k hk)
    · rw [List.getD_eq_getElem?_getD, List.getElem?_eq_none (by rw [evalNet_length]; omega)]
      exact le_refl _
  obtain ⟨d, hd, hd'⟩ := coded_grads_evalNet e dens net hw hws hv root i
  rw [hd, hd' (ne_of_gt (hpos i hi))]

/-- … hence, on such rows, the number the code holds at node `i` is the derivative of the root with respect to the
value of node `i` (`C14.backward_is_derivative` transported to the coded pass) -/
theorem backward_coded_is_derivative_of_pos (e : Ev) (dens : List F) (net : Net F) (hw : WellOrdered net)
    (hws : ∀ (i : Nat) (x : NNode F), net[i]? = some x → ∀ w ∈ x.ws, 0 ≤ w) (root : Nat)
    (hpos : ∀ i, i < net.length → 0 < (evalNet e dens net).getD i 0) (i : Nat) (hr : root < net.length)
    (hi : i < net.length) (hd : DecompAt net root i) :
    ∃ a : F, expL ((codedGrads e dens net root).getD i bot) = some a ∧
      ∀ x : F, (evalNetWith e dens net i x).getD root 0 = (evalNetWith e dens net i 0).getD root 0 + a * x :=
  ⟨_, backward_coded_eq_derivative_of_pos e dens net hw hws root hpos i hi,
    fun x => C14.backward_is_derivative e dens net hw root i hr hi hd x⟩

/-- **leaf_stat_coded_exact** — the statistic EM hands to `Leaf.em_step`, `exp(lls[i] - root_ll + grads[i])` as coded,
is exactly `value[i]·∂root/∂node_i / value[root]` (`respLeaf` of the linear model) for EVERY node `i` of every
non-negative table on every row of positive root value: zero-valued product children included (there the `grads`
entry is wrong, the statistic is `0` as it must be). No leaf statistic is affected by the 0/0 entries. -/
theorem leaf_stat_coded_exact (e : Ev) (dens : List F) (net : Net F) (hw : WellOrdered net)
    (hnn : NonNegNet e dens net) (root : Nat) (hroot : 0 < (evalNet e dens net).getD root 0) (i : Nat) :
    expL (statLeafC (codedLls (evalNet e dens net)) (codedGrads e dens net root) root i)
      = some (respLeaf (evalNet e dens net) (backward net (evalNet e dens net) root) root i) := by
  obtain ⟨d, hd, hd'⟩ := coded_grads_evalNet e dens net hw hnn.1 (evalNet_nonneg e dens net hw hnn) root i
  unfold statLeafC respLeaf
  rw [getD_codedLls, getD_codedLls, expL_stat _ _ d (ne_of_gt hroot) hd]
  by_cases hz : (evalNet e dens net).getD i 0 = 0
  · rw [hz]; simp
  · rw [hd' hz, div_mul_eq_mul_div]

/-- the raw entry of `stats` for a sum edge, `exp(lls[c] - root_ll + grads[n])` as coded, in terms of the number `d` the
coded pass holds at the sum node -/
theorem sum_stat_coded_raw (e : Ev) (dens : List F) (net : Net F) (root n : Nat) (x : NNode F)
    (hroot : (evalNet e dens net).getD root 0 ≠ 0) (d : F)
    (hd : expL ((codedGrads e dens net root).getD n bot) = some d) (j c : Nat) (hc : x.ch[j]? = some c) :
    ((statSumC (codedLls (evalNet e dens net)) (codedGrads e dens net root) root n x).map expL)[j]?
      = some (some ((evalNet e dens net).getD c 0 / (evalNet e dens net).getD root 0 * d)) := by
  unfold statSumC
  rw [List.map_map, List.getElem?_map, hc]
  simp only [Option.map_some, Function.comp, getD_codedLls]
  rw [expL_stat _ _ d hroot hd]

/-- **sum_stat_coded_exact** — the raw entry of `stats` of a sum edge `n → c` is exact whenever the child has value `0`
or the sum node has a non-zero value — in particular for every edge of positive weight (next theorem) -/
theorem sum_stat_coded_exact (e : Ev) (dens : List F) (net : Net F) (hw : WellOrdered net)
    (hnn : NonNegNet e dens net) (root : Nat) (hroot : 0 < (evalNet e dens net).getD root 0) (n : Nat) (x : NNode F)
    (j c : Nat) (hc : x.ch[j]? = some c)
    (hcase : (evalNet e dens net).getD c 0 = 0 ∨ (evalNet e dens net).getD n 0 ≠ 0) :
    ((statSumC (codedLls (evalNet e dens net)) (codedGrads e dens net root) root n x).map expL)[j]?
      = (respSum (evalNet e dens net) (backward net (evalNet e dens net) root) root n x)[j]?.map some := by
  obtain ⟨d, hd, hd'⟩ := coded_grads_evalNet e dens net hw hnn.1 (evalNet_nonneg e dens net hw hnn) root n
  rw [sum_stat_coded_raw e dens net root n x (ne_of_gt hroot) d hd j c hc]
  unfold respSum
  rw [List.getElem?_map, hc]
  simp only [Option.map_some, Option.some.injEq]
  rcases hcase with hz | hz
  · rw [hz]; simp
  · rw [hd' hz, div_mul_eq_mul_div]

/-- a zero-valued sum node has value-zero children along all its edges of non-zero weight -/
theorem sum_zero_child_zero (e : Ev) (dens : List F) (net : Net F) (hw : WellOrdered net)
    (hnn : NonNegNet e dens net) (n : Nat) (x : NNode F) (hn : net[n]? = some x) (hk : x.kind = .sum)
    (hz : (evalNet e dens net).getD n 0 = 0) (j c : Nat) (w : F) (hc : x.ch[j]? = some c) (hwj : x.ws[j]? = some w) :
    w * (evalNet e dens net).getD c 0 = 0 := by
  have h0 := evalNet_at_sum e dens net hw n x hn hk
  rw [hz] at h0
  have hmem : (c, w) ∈ x.ch.zip x.ws := by
    rw [List.mem_iff_getElem?]
    exact ⟨j, by rw [List.getElem?_zip_eq_some]; exact ⟨hc, hwj⟩⟩
  exact wsum_zero_edge (fun c => (evalNet e dens net).getD c 0) (evalNet_nonneg e dens net hw hnn) x.ws x.ch
    (hnn.1 n x hn) h0.symm (c, w) hmem

/-- **resp_coded_exact** — the responsibilities. For every non-negative children-first table, every row of positive
root value, every sum node `n` and every edge `n → c` of weight `w`: what `Sum.em_step` makes of the coded
statistics, `weights * exp(children_ll - root_ll + grads[n])`, is exactly
`w · value[c] · ∂root/∂node_n / value[root]` (`w ·` the entry of `respSum` of the linear model, whose `grads` is the
derivative by `C14.backward_is_derivative`). Zero-valued product children — whose `grads` entries are wrong — included:
the wrong entries never reach a responsibility. -/
theorem resp_coded_exact (e : Ev) (dens : List F) (net : Net F) (hw : WellOrdered net)
    (hnn : NonNegNet e dens net) (root : Nat) (hroot : 0 < (evalNet e dens net).getD root 0) (n : Nat) (x : NNode F)
    (hn : net[n]? = some x) (hk : x.kind = .sum) (j c : Nat) (w : F) (hc : x.ch[j]? = some c)
    (hwj : x.ws[j]? = some w) :
    (respSumC (codedLls (evalNet e dens net)) (codedGrads e dens net root) root n x)[j]?
      = some (some (w * ((evalNet e dens net).getD c 0 * (backward net (evalNet e dens net) root).getD n 0
          / (evalNet e dens net).getD root 0))) := by
  obtain ⟨d, hd, hd'⟩ := coded_grads_evalNet e dens net hw hnn.1 (evalNet_nonneg e dens net hw hnn) root n
  have hraw := sum_stat_coded_raw e dens net root n x (ne_of_gt hroot) d hd j c hc
  rw [List.getElem?_map] at hraw
  unfold respSumC
  rw [List.getElem?_zipWith, hwj]
  cases hs : (statSumC (codedLls (evalNet e dens net)) (codedGrads e dens net root) root n x)[j]? with
  | none => rw [hs] at hraw; simp at hraw
  | some s =>
    rw [hs] at hraw
    simp only [Option.map_some, Option.some.injEq] at hraw
    simp only [hraw, Option.map_some, Option.some.injEq]
    by_cases hz : (evalNet e dens net).getD n 0 = 0
    · have h0 := sum_zero_child_zero e dens net hw hnn n x hn hk hz j c w hc hwj
      rcases mul_eq_zero.1 h0 with h | h
      · rw [h]; simp
      · rw [h]; simp
    · rw [hd' hz, div_mul_eq_mul_div]

/-- every edge of non-zero weight has an exact raw statistic -/
theorem sum_stat_coded_exact_of_weight (e : Ev) (dens : List F) (net : Net F) (hw : WellOrdered net)
    (hnn : NonNegNet e dens net) (root : Nat) (hroot : 0 < (evalNet e dens net).getD root 0) (n : Nat) (x : NNode F)
    (hn : net[n]? = some x) (hk : x.kind = .sum) (j c : Nat) (w : F) (hc : x.ch[j]? = some c)
    (hwj : x.ws[j]? = some w) (hw0 : w ≠ 0) :
    ((statSumC (codedLls (evalNet e dens net)) (codedGrads e dens net root) root n x).map expL)[j]?
      = (respSum (evalNet e dens net) (backward net (evalNet e dens net) root) root n x)[j]?.map some := by
  apply sum_stat_coded_exact e dens net hw hnn root hroot n x j c hc
  by_cases hz : (evalNet e dens net).getD n 0 = 0
  · left
    rcases mul_eq_zero.1 (sum_zero_child_zero e dens net hw hnn n x hn hk hz j c w hc hwj) with h | h
    · exact absurd h hw0
    · exact h
  · right; exact hz

end main

/-! ### the forward pass as coded produces the table the backward pass is given -/

section forward
variable {F : Type} [Field F] [LinearOrder F] [IsStrictOrderedRing F] [DecidableEq F]

/-- running `np.sum` of floored logs: `s` stands for the product `a` -/
def PInv (s : LogV F) (a : F) : Prop := (a ≠ 0 ∧ s = fin a) ∨ (a = 0 ∧ ∃ k, s = low k)

theorem pinv_step {s : LogV F} {a : F} (u : F) (h : PInv s a) : PInv (add s (llOf u)) (a * u) := by
  rcases h with ⟨ha, rfl⟩ | ⟨rfl, k, rfl⟩
  · by_cases hu : u = 0
    · subst hu; rw [llOf_zero]; right; exact ⟨mul_zero _, 0, rfl⟩
    · rw [llOf_ne hu]; left; exact ⟨mul_ne_zero ha hu, rfl⟩
  · by_cases hu : u = 0
    · subst hu; rw [llOf_zero]; right; exact ⟨zero_mul _, k + 0 + 1, rfl⟩
    · rw [llOf_ne hu]; right; exact ⟨zero_mul _, k, rfl⟩

theorem pinv_fold (v : Nat → F) : ∀ (ch : List Nat) (s : LogV F) (a : F), PInv s a →
    PInv (ch.foldl (fun s c => add s (llOf (v c))) s) (a * lprod (ch.map v)) := by
  intro ch
  induction ch with
  | nil => intro s a h; simpa [lprod] using h
  | cons c cs ih =>
    intro s a h
    simp only [List.foldl_cons, List.map_cons, lprod]
    rw [← mul_assoc]
    exact ih _ _ (pinv_step (v c) h)

theorem pinv_floor {s : LogV F} {a : F} (h : PInv s a) : floorLL s = llOf a := by
  rcases h with ⟨ha, rfl⟩ | ⟨rfl, k, rfl⟩
  · rw [llOf_ne ha]; rfl
  · rw [llOf_zero]; rfl

/-- running `logsumexp(·, b=weights)` of floored logs: `s` stands for the partial weighted sum `a ≥ 0` -/
def SInv (s : LogV F) (a : F) : Prop := 0 ≤ a ∧ ((a ≠ 0 ∧ s = fin a) ∨ (a = 0 ∧ (s = bot ∨ ∃ k, s = low k)))

theorem sinv_step {s : LogV F} {a : F} (w u : F) (hw : 0 ≤ w) (hu : 0 ≤ u) (h : SInv s a) :
    SInv (lse s (add (ofLin w) (llOf u))) (a + w * u) := by
  obtain ⟨ha0, h⟩ := h
  have hwu : 0 ≤ w * u := mul_nonneg hw hu
  refine ⟨add_nonneg ha0 hwu, ?_⟩
  by_cases hw0 : w = 0
  · have ht : add (ofLin w) (llOf u) = bot := by
      subst hw0
      by_cases hu0 : u = 0
      · subst hu0; simp [ofLin, llOf_zero, add]
      · simp [ofLin, llOf_ne hu0, add]
    rw [ht, hw0, zero_mul, add_zero]
    rcases h with ⟨ha, rfl⟩ | ⟨rfl, rfl | ⟨k, rfl⟩⟩
    · left; exact ⟨ha, rfl⟩
    · right; exact ⟨rfl, Or.inl rfl⟩
    · right; exact ⟨rfl, Or.inr ⟨k, rfl⟩⟩
  · by_cases hu0 : u = 0
    · have ht : add (ofLin w) (llOf u) = low 0 := by subst hu0; simp [ofLin, hw0, llOf_zero, add]
      rw [ht, hu0, mul_zero, add_zero]
      rcases h with ⟨ha, rfl⟩ | ⟨rfl, rfl | ⟨k, rfl⟩⟩
      · left; exact ⟨ha, rfl⟩
      · right; exact ⟨rfl, Or.inr ⟨0, rfl⟩⟩
      · right; exact ⟨rfl, Or.inr ⟨min k 0, rfl⟩⟩
    · have ht : add (ofLin w) (llOf u) = fin (w * u) := by simp [ofLin, hw0, llOf_ne hu0, add]
      have hpos : 0 < w * u := lt_of_le_of_ne hwu (Ne.symm (mul_ne_zero hw0 hu0))
      rw [ht]
      left
      rcases h with ⟨ha, rfl⟩ | ⟨rfl, rfl | ⟨k, rfl⟩⟩
      · exact ⟨ne_of_gt (add_pos_of_nonneg_of_pos ha0 hpos), rfl⟩
      · exact ⟨by rw [zero_add]; exact ne_of_gt hpos, by rw [zero_add]; rfl⟩
      · exact ⟨by rw [zero_add]; exact ne_of_gt hpos, by rw [zero_add]; rfl⟩

theorem sinv_fold (v : Nat → F) (hv : ∀ c, 0 ≤ v c) : ∀ (ws : List F) (ch : List Nat) (s : LogV F) (a : F),
    (∀ w ∈ ws, 0 ≤ w) → SInv s a →
    SInv ((ch.zip ws).foldl (fun s cw => lse s (add (ofLin cw.2) (llOf (v cw.1)))) s) (a + wsum ws (ch.map v)) := by
  intro ws
  induction ws with
  | nil => intro ch s a _ h; simpa [wsum] using h
  | cons w ws ih =>
    intro ch s a hw h
    cases ch with
    | nil => simpa [wsum] using h
    | cons c cs =>
      simp only [List.zip_cons_cons, List.foldl_cons, List.map_cons, wsum]
      rw [← add_assoc]
      exact ih cs _ _ (fun a ha => hw a (List.mem_cons_of_mem _ ha))
        (sinv_step w (v c) (hw w List.mem_cons_self) (hv c) h)

theorem sinv_floor {s : LogV F} {a : F} (h : SInv s a) : floorLL s = llOf a := by
  rcases h.2 with ⟨ha, rfl⟩ | ⟨rfl, rfl | ⟨k, rfl⟩⟩
  · rw [llOf_ne ha]; rfl
  · rw [llOf_zero]; rfl
  · rw [llOf_zero]; rfl

/-- one node: `node_log_likelihood` applied to the floored logs of a non-negative table is the floored log of the
node's linear value -/
theorem evalNodeC_eq (e : Ev) (dens : List F) (acc : List F) (hacc : ∀ c, 0 ≤ acc.getD c 0) (x : NNode F)
    (hws : ∀ w ∈ x.ws, 0 ≤ w) :
    evalNodeC (x.leaf.fn x.scope (dens.getD acc.length 0) e) (codedLls acc) x = llOf (evalNode e dens acc x) := by
  unfold evalNodeC evalNode
  cases x.kind with
  | leaf => rfl
  | prod =>
    simp only [getD_codedLls]
    have h := pinv_fold (fun c => acc.getD c 0) x.ch (fin 1) 1 (Or.inl ⟨one_ne_zero, rfl⟩)
    rw [one_mul] at h
    exact pinv_floor h
  | sum =>
    simp only [getD_codedLls]
    have h := sinv_fold (fun c => acc.getD c 0) hacc x.ws x.ch bot 0 hws ⟨le_refl _, Or.inr ⟨rfl, Or.inl rfl⟩⟩
    rw [zero_add] at h
    exact sinv_floor h

theorem evalNet_snoc (e : Ev) (dens : List F) (l : Net F) (x : NNode F) :
    evalNet e dens (l ++ [x]) = evalNet e dens l ++ [evalNode e dens (evalNet e dens l) x] := by
  simp [evalNet, List.foldl_append]

theorem forwardC_snoc (e : Ev) (dens : List F) (l : Net F) (x : NNode F) :
    forwardC e dens (l ++ [x]) = forwardC e dens l
      ++ [evalNodeC (x.leaf.fn x.scope (dens.getD (forwardC e dens l).length 0) e) (forwardC e dens l) x] := by
  simp [forwardC, List.foldl_append]

theorem nonNegNet_prefix (e : Ev) (dens : List F) (l : Net F) (x : NNode F) (h : NonNegNet e dens (l ++ [x])) :
    NonNegNet e dens l := by
  constructor
  · intro i y hy
    exact h.1 i y (by rw [List.getElem?_append_left (List.getElem?_eq_some_iff.1 hy).1]; exact hy)
  · intro i y hy
    exact h.2 i y (by rw [List.getElem?_append_left (List.getElem?_eq_some_iff.1 hy).1]; exact hy)

/-- **forwardC_eq_codedLls** — for every table that is non-negative on the row (no ordering hypothesis): the forward
pass as coded (`node_log_likelihood` with its floor, node after node) yields exactly the floored logs of the linear
values, i.e. the table `lls` all theorems above hand to the coded backward pass; and all linear values are `≥ 0`. -/
theorem forwardC_eq_codedLls (e : Ev) (dens : List F) (net : Net F) (hnn : NonNegNet e dens net) :
    forwardC e dens net = codedLls (evalNet e dens net) ∧ ∀ c, 0 ≤ (evalNet e dens net).getD c 0 := by
  induction net using List.reverseRecOn with
  | nil => exact ⟨rfl, fun c => by simp [evalNet]⟩
  | append_singleton l x ih =>
    obtain ⟨ih1, ih2⟩ := ih (nonNegNet_prefix e dens l x hnn)
    have hx : (l ++ [x])[l.length]? = some x := by simp
    have hlen : (evalNet e dens l).length = l.length := evalNet_length e dens l
    have hnode := evalNodeC_eq e dens (evalNet e dens l) ih2 x (hnn.1 l.length x hx)
    constructor
    · rw [forwardC_snoc, evalNet_snoc, ih1]
      have hl : (codedLls (evalNet e dens l)).length = (evalNet e dens l).length := by simp [codedLls]
      rw [hl, hnode]
      simp [codedLls]
    · intro c
      rw [evalNet_snoc, List.getD_eq_getElem?_getD]
      by_cases hc : c < (evalNet e dens l).length
      · rw [List.getElem?_append_left hc, ← List.getD_eq_getElem?_getD]; exact ih2 c
      · by_cases hc2 : c = (evalNet e dens l).length
        · subst hc2
          simp only [List.getElem?_concat_length, Option.getD_some]
          unfold evalNode
          cases hk : x.kind with
          | leaf => simp only; rw [hlen]; exact hnn.2 l.length x hx hk
          | sum =>
            simp only
            apply TD.wsum_nonneg _ _ (hnn.1 l.length x hx)
            intro a ha
            obtain ⟨c', _, rfl⟩ := List.mem_map.1 ha
            exact ih2 c'
          | prod =>
            simp only
            apply TD.lprod_nonneg
            intro a ha
            obtain ⟨c', _, rfl⟩ := List.mem_map.1 ha
            exact ih2 c'
        · rw [List.getElem?_eq_none (by simp; omega)]
          exact le_refl _

/-- the whole coded pipeline — `eval_backward(root, lls)` on the `lls` of the coded forward pass — is `codedGrads` -/
theorem backwardC_forwardC (e : Ev) (dens : List F) (net : Net F) (hnn : NonNegNet e dens net) (root : Nat) :
    backwardC net (forwardC e dens net) root = codedGrads e dens net root := by
  rw [(forwardC_eq_codedLls e dens net hnn).1]

end forward

/-! ### static tie of the statistic's shape to the expression the translator extracts from em.py -/

section generated
variable {F : Type} [Field F] [LinearOrder F] [IsStrictOrderedRing F]

/-- on finite entries the model's `statSumC` / `statLeafC` entry — `add (sub lc lr) g`, the association `(lc - lr) + g` of
the generated `Gen.S3emRespSum` / `Gen.S3emRespLeaf` — has the exponential the generated expression denotes in any
field with `exp`/`log` (`Oblig/Struct3Em.lean: resp_entry_as_coded`) -/
theorem stat_fin_as_coded (E : ExpLog F) (vc vr g : F) (hc : 0 < vc) (hr : 0 < vr) (hg : 0 < g) :
    expL (add (sub (fin vc) (fin vr)) (fin g)) = some (Gen.S3emRespSum E (E.log vc) (E.log vr) (E.log g)) ∧
    expL (add (sub (fin vc) (fin vr)) (fin g)) = some (Gen.S3emRespLeaf E (E.log vc) (E.log vr) (E.log g)) := by
  obtain ⟨h1, h2⟩ := Struct3.resp_entry_as_coded E vc vr g hc hr hg
  rw [h1, h2]
  simp only [sub, add, expL, div_mul_eq_mul_div, and_self]

example : expL (add (sub (fin ((1:ℝ)/2)) (fin (3/8))) (fin (1/4)))
    = some (Gen.S3emRespSum realExpLog (realExpLog.log (1/2)) (realExpLog.log (3/8)) (realExpLog.log (1/4))) :=
  (stat_fin_as_coded realExpLog (1/2) (3/8) (1/4) (by norm_num) (by norm_num) (by norm_num)).1

end generated

/-! ### valid tables: the responsibilities in terms of the derivative itself -/

section valid
variable {F : Type} [Field F] [LinearOrder F] [IsStrictOrderedRing F] [DecidableEq F]

/-- **resp_coded_exact_valid** — the same under the hypotheses `check_spn` establishes (`NodeOK` at every entry: smooth
sums, decomposable products): there is a number `a` — THE derivative `∂root/∂node_n`: the root value is affine in the
value forced at `n` with slope `a` — such that for every edge `n → c` of weight `w` the code's
`weights * exp(children_ll - root_ll + grads[n])` is `w·value[c]·a/value[root]`, and the code's leaf statistic
`exp(lls[n] - root_ll + grads[n])` of any node `n` is `value[n]·a/value[root]`. Every row of positive root value,
zero-valued product children included. -/
theorem resp_coded_exact_valid (dom : Nat → Nat) (e : Ev) (dens : List F) (net : Net F) (hw : WellOrdered net)
    (hok : ∀ i (x : NNode F), net[i]? = some x → NodeOK dom net dens i x) (hnn : NonNegNet e dens net)
    (root n : Nat) (hr : root < net.length) (hn : n < net.length) (hne : scopeOf net n ≠ [])
    (hroot : 0 < (evalNet e dens net).getD root 0) :
    ∃ a : F,
      (∀ y : F, (evalNetWith e dens net n y).getD root 0 = (evalNetWith e dens net n 0).getD root 0 + a * y) ∧
      (expL (statLeafC (codedLls (evalNet e dens net)) (codedGrads e dens net root) root n)
        = some ((evalNet e dens net).getD n 0 * a / (evalNet e dens net).getD root 0)) ∧
      ((net[n]).kind = .sum → ∀ (j c : Nat) (w : F), (net[n]).ch[j]? = some c → (net[n]).ws[j]? = some w →
        (respSumC (codedLls (evalNet e dens net)) (codedGrads e dens net root) root n net[n])[j]?
          = some (some (w * ((evalNet e dens net).getD c 0 * a / (evalNet e dens net).getD root 0)))) :=
  ⟨(backward net (evalNet e dens net) root).getD n 0,
    fun y => C14.backward_is_derivative_valid dom e dens net hw hok root n hr hn hne y,
    leaf_stat_coded_exact e dens net hw hnn root hroot n,
    fun hk j c w hc hwj => resp_coded_exact e dens net hw hnn root hroot n net[n] (by simp [hn]) hk j c w hc hwj⟩

end valid

/-! ### witnesses and non-vacuity -/

/-- a DAG with a Bernoulli leaf of parameter exactly `0` (entry 0: `P(X0=1) = 0`); leaf 1 is shared by the two
products 2 and 4 -/
def exZ : Net ℚ :=
  [⟨0, .leaf, [0], [], [], .cat 0 [1, 0]⟩,
   ⟨1, .leaf, [1], [], [], .cat 1 [1/3, 2/3]⟩,
   ⟨2, .prod, [0, 1], [0, 1], [], .absent⟩,
   ⟨3, .leaf, [0], [], [], .cat 0 [1/2, 1/2]⟩,
   ⟨4, .prod, [0, 1], [3, 1], [], .absent⟩,
   ⟨5, .sum, [0, 1], [2, 4], [1/2, 1/2], .absent⟩]

/-- the row `(X0, X1) = (1, 0)`: leaf 0 and product 2 have value `0`, the root `1/12` -/
def exZRow : Ev := Ev.ofList [some 1, some 0]

theorem exZ_vals : evalNet exZRow [] exZ = [0, 1/3, 0, 1/2, 1/6, 1/12] := by decide +kernel

theorem exZ_lls : codedLls (evalNet exZRow [] exZ) = [low 0, fin (1/3), low 0, fin (1/2), fin (1/6), fin (1/12)] := by
  decide +kernel

/-- the forward pass as coded produces that table -/
example : forwardC exZRow [] exZ = codedLls (evalNet exZRow [] exZ) := by decide +kernel

theorem exZ_true_grads : backward exZ (evalNet exZRow [] exZ) 5 = [1/6, 1/4, 1/2, 1/6, 1/2, 1] := by decide +kernel

theorem exZ_coded_grads : codedGrads exZRow [] exZ 5 = [fin 1, fin (1/4), fin (1/2), fin (1/6), fin (1/2), fin 1] := by
  decide +kernel

/-- **coded_grad_wrong_witness** — what DESIGN §0.2 row C14 observed: leaf 0 of `exZ` is a zero-valued child of product 2;
the true derivative of the root with respect to it is `w·value(sibling) = 1/2·1/3 = 1/6` (the root moves by `1/6` when
the node's value goes from `0` to `1`), the entry the coded pass returns is `0.0` (`fin 1`: gradient `1`). The shared
leaf 1 (positive value, one zero-valued parent) is exact. -/
theorem coded_grad_wrong_witness :
    (evalNet exZRow [] exZ).getD 0 0 = 0 ∧ (exZ[2]).kind = .prod ∧ 0 ∈ (exZ[2]).ch ∧
    (backward exZ (evalNet exZRow [] exZ) 5).getD 0 0 = 1/6 ∧
    (evalNetWith exZRow [] exZ 0 1).getD 5 0 - (evalNetWith exZRow [] exZ 0 0).getD 5 0 = 1/6 ∧
    expL ((codedGrads exZRow [] exZ 5).getD 0 bot) = some 1 ∧
    expL ((codedGrads exZRow [] exZ 5).getD 1 bot) = some ((backward exZ (evalNet exZRow [] exZ) 5).getD 1 0) := by
  decide +kernel

theorem exZ_wo : WellOrdered exZ := (wellOrderedB_iff exZ).1 (by decide)

theorem exZ_nonneg : NonNegNet exZRow [] exZ := by
  constructor
  · intro i x hx
    have hi : i < 6 := by
      by_contra h
      rw [List.getElem?_eq_none (by simp [exZ]; omega)] at hx
      cases hx
    interval_cases i <;> simp only [exZ, List.getElem?_cons_zero, List.getElem?_cons_succ, Option.some.injEq] at hx <;>
      subst hx <;> intro w hw <;> simp at hw
    subst hw
    norm_num
  · intro i x hx hk
    have hi : i < 6 := by
      by_contra h
      rw [List.getElem?_eq_none (by simp [exZ]; omega)] at hx
      cases hx
    interval_cases i <;> simp only [exZ, List.getElem?_cons_zero, List.getElem?_cons_succ, Option.some.injEq] at hx <;>
      subst hx <;> simp only [reduceCtorEq] at hk <;> decide +kernel

example : forwardC exZRow [] exZ = codedLls (evalNet exZRow [] exZ) ∧ ∀ c, 0 ≤ (evalNet exZRow [] exZ).getD c 0 :=
  forwardC_eq_codedLls exZRow [] exZ exZ_nonneg

example : backwardC exZ (forwardC exZRow [] exZ) 5 = [fin 1, fin (1/4), fin (1/2), fin (1/6), fin (1/2), fin 1] := by
  rw [backwardC_forwardC exZRow [] exZ exZ_nonneg 5, exZ_coded_grads]

/-- non-vacuity of `coded_grads_rel` / `leaf_stat_coded_exact` at the node with the wrong entry: the statistic is `0` -/
example : expL (statLeafC (codedLls (evalNet exZRow [] exZ)) (codedGrads exZRow [] exZ 5) 5 0)
    = some (respLeaf (evalNet exZRow [] exZ) (backward exZ (evalNet exZRow [] exZ) 5) 5 0) :=
  leaf_stat_coded_exact exZRow [] exZ exZ_wo exZ_nonneg 5 (by rw [exZ_vals]; norm_num) 0

example : respLeaf (evalNet exZRow [] exZ) (backward exZ (evalNet exZRow [] exZ) 5) 5 0 = 0 := by decide +kernel

/-- … and at the shared positive leaf 1: `(1/3)·(1/4)/(1/12) = 1` -/
example : expL (statLeafC (codedLls (evalNet exZRow [] exZ)) (codedGrads exZRow [] exZ 5) 5 1) = some 1 := by
  rw [leaf_stat_coded_exact exZRow [] exZ exZ_wo exZ_nonneg 5 (by rw [exZ_vals]; norm_num) 1]
  decide +kernel

/-- non-vacuity of `resp_coded_exact`: the edge of the root sum into the zero-valued product 2 (responsibility `0`) and
into product 4 (responsibility `1/2·(1/6)·1/(1/12) = 1`) -/
example : (respSumC (codedLls (evalNet exZRow [] exZ)) (codedGrads exZRow [] exZ 5) 5 5 exZ[5])[0]?
    = some (some (1/2 * ((evalNet exZRow [] exZ).getD 2 0 * (backward exZ (evalNet exZRow [] exZ) 5).getD 5 0
        / (evalNet exZRow [] exZ).getD 5 0))) :=
  resp_coded_exact exZRow [] exZ exZ_wo exZ_nonneg 5 (by rw [exZ_vals]; norm_num) 5 exZ[5] rfl rfl 0 2 (1/2) rfl rfl

example : respSumC (codedLls (evalNet exZRow [] exZ)) (codedGrads exZRow [] exZ 5) 5 5 exZ[5] = [some 0, some 1] := by
  decide +kernel

/-- non-vacuity of `backward_coded_eq_derivative_of_pos`: the row `(0, 0)`, on which every node of `exZ` is positive -/
def exZRowPos : Ev := Ev.ofList [some 0, some 0]

theorem exZ_weights : ∀ (i : Nat) (x : NNode ℚ), exZ[i]? = some x → ∀ w ∈ x.ws, 0 ≤ w := exZ_nonneg.1

example : ∀ i, i < exZ.length → expL ((codedGrads exZRowPos [] exZ 5).getD i bot)
    = some ((backward exZ (evalNet exZRowPos [] exZ) 5).getD i 0) :=
  backward_coded_eq_derivative_of_pos exZRowPos [] exZ exZ_wo exZ_weights 5
    (by intro i hi
        have hi' : i < 6 := hi
        interval_cases i <;> decide +kernel)

example : codedGrads exZRowPos [] exZ 5 = [fin (1/6), fin (3/4), fin (1/2), fin (1/6), fin (1/2), fin 1] := by
  decide +kernel

/-- `check_spn`'s conditions hold for `exZ` (binary variables) -/
theorem exZ_nodeOK : ∀ i (x : NNode ℚ), exZ[i]? = some x → NodeOK (fun _ => 2) exZ [] i x := by
  intro i x hx
  have hi : i < 6 := by
    by_contra h
    rw [List.getElem?_eq_none (by simp [exZ]; omega)] at hx
    cases hx
  have hcat : ∀ (v : Nat) (a b : ℚ), a + b = 1 →
      LeafOK (fun _ => 2) [v] ((LeafP.cat v [a, b]).fn [v] (([] : List ℚ).getD i 0)) := by
    intro v a b hab
    exact Circ.catLeaf_ok (fun _ => 2) v [a, b] rfl (by simp [tsum, hab])
  interval_cases i <;> simp only [exZ, List.getElem?_cons_zero, List.getElem?_cons_succ, Option.some.injEq] at hx <;>
    subst hx <;> unfold NodeOK <;> simp only
  · exact hcat 0 _ _ (by norm_num)
  · exact hcat 1 _ _ (by norm_num)
  · simp [scopeOf, exZ, scopeEq]
  · exact hcat 0 _ _ (by norm_num)
  · simp [scopeOf, exZ, scopeEq]
  · simp [scopeOf, exZ, scopeEq]

/-- non-vacuity of `resp_coded_exact_valid` at the zero-valued product child 0 (leaf statistic) and at the root sum -/
example : ∃ a : ℚ,
    (∀ y : ℚ, (evalNetWith exZRow [] exZ 0 y).getD 5 0 = (evalNetWith exZRow [] exZ 0 0).getD 5 0 + a * y) ∧
    (expL (statLeafC (codedLls (evalNet exZRow [] exZ)) (codedGrads exZRow [] exZ 5) 5 0)
      = some ((evalNet exZRow [] exZ).getD 0 0 * a / (evalNet exZRow [] exZ).getD 5 0)) ∧
    ((exZ[0]).kind = .sum → ∀ (j c : Nat) (w : ℚ), (exZ[0]).ch[j]? = some c → (exZ[0]).ws[j]? = some w →
      (respSumC (codedLls (evalNet exZRow [] exZ)) (codedGrads exZRow [] exZ 5) 5 0 exZ[0])[j]?
        = some (some (w * ((evalNet exZRow [] exZ).getD c 0 * a / (evalNet exZRow [] exZ).getD 5 0)))) :=
  resp_coded_exact_valid (fun _ => 2) exZRow [] exZ exZ_wo exZ_nodeOK exZ_nonneg 5 0 (by decide) (by decide)
    (by simp [scopeOf, exZ]) (by rw [exZ_vals]; norm_num)

/-! #### the only statistics the 0/0 entries can reach: zero-weight edges -/

/-- sum 2 has the weights `[1, 0]`: on the row `(1, 0)` its first child (Bernoulli, `p = 0`) is zero, its second child
(weight `0`) is positive; the sum is a zero-valued child of product 4 -/
def exW : Net ℚ :=
  [⟨0, .leaf, [0], [], [], .cat 0 [1, 0]⟩,
   ⟨1, .leaf, [0], [], [], .cat 0 [1/2, 1/2]⟩,
   ⟨2, .sum, [0], [0, 1], [1, 0], .absent⟩,
   ⟨3, .leaf, [1], [], [], .cat 1 [1/3, 2/3]⟩,
   ⟨4, .prod, [0, 1], [2, 3], [], .absent⟩,
   ⟨5, .leaf, [0], [], [], .cat 0 [1/2, 1/2]⟩,
   ⟨6, .leaf, [1], [], [], .cat 1 [1/4, 3/4]⟩,
   ⟨7, .prod, [0, 1], [5, 6], [], .absent⟩,
   ⟨8, .sum, [0, 1], [4, 7], [1/2, 1/2], .absent⟩]

/-- **raw_stat_zero_weight_witness** — the raw entry `stats[1]` of sum 2 (`exp(lls[1] - root_ll + grads[2])`) is `8` as
coded, `4/3` with the true derivative (`grads[2]` is the wrong entry `0.0` instead of `log(1/6)`); `Sum.em_step`
multiplies it by the weight `0`, so the responsibility is `0` either way (`resp_coded_exact`). This is the only
kind of statistic a 0/0 entry can reach: `sum_stat_coded_exact_of_weight`, `leaf_stat_coded_exact`. -/
theorem raw_stat_zero_weight_witness :
    (statSumC (codedLls (evalNet exZRow [] exW)) (codedGrads exZRow [] exW 8) 8 2 exW[2]).map expL = [some 0, some 8] ∧
    respSum (evalNet exZRow [] exW) (backward exW (evalNet exZRow [] exW) 8) 8 2 exW[2] = [0, 4/3] ∧
    respSumC (codedLls (evalNet exZRow [] exW)) (codedGrads exZRow [] exW 8) 8 2 exW[2] = [some 0, some 0] := by
  decide +kernel

end Deeprob.C14B
