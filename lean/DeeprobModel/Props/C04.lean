import DeeprobModel.Model.Learn
import DeeprobModel.Spec.LearnSpec
import DeeprobModel.Lemmas.LearnInv
import DeeprobModel.Lemmas.LearnFinal
import Mathlib.Data.List.Range
/-
C04 — the LearnSPN structure learner returns a valid circuit over all features (machine `Model/Learn.lean`,
repaired re-queue `front := true`; every data-dependent decision is an arbitrary oracle answer).

WHAT THE ORACLE MUST SATISFY. Nothing beyond what the machine itself checks (and what Python enforces by
raising): each consultation is answered by an entry of the kind asked for (`zeroVar` / `rows` / `cols`),
zero-variance positions are `< |scope|`, a row splitter returns exactly one label per row handed to it, a
column splitter exactly one label per column. Under these checks `np.unique` slicing automatically yields
non-empty clusters that partition the rows / columns (`slicesOf_perm`, `slicesOf_ne_nil`), so the theorems
below hold for EVERY script on which the machine does not stop with `.error`.
-/
namespace Deeprob.Learn
open List

/-- **`learn_inv`** — the invariant of the whole machine (all five operations, any oracle script, any
number of iterations). `Inv s` (Lemmas/LearnInv.lean) says, for every node `i` of the table:
* Sum: `(rows of the children attached so far) ++ (rows of the pending tasks whose parent is i, in deque
  order) = parts i`, position by position, where `parts i = slicesOf labels (rows i)` are the label classes
  of the splitter's answer in `np.unique` order and `weights i = (|slice|, |rows i|)` in the same order
  (`SumStatic`); all those children / tasks have the sum's scope;
* Product: `(scopes of children) ++ (scopes of pending tasks) = parts i`, non-empty slices that partition
  `scope i` (`ProdStatic`); all those children / tasks have the product's rows;
* every node and every task has non-empty rows and a non-empty scope; task parents are inner nodes of the
  table; children indices are larger than their parent's (the table is acyclic). -/
theorem learn_inv (cfg : Cfg) (hf : cfg.front = true) (nRows nCols : Nat) (hr : 0 < nRows) (hc : 0 < nCols)
    (script : List Ans) (fuel : Nat) (s : St) (h : run cfg fuel (init nRows nCols script) = .ok s) : Inv s :=
  inv_run cfg hf fuel _ s
    (inv_initOn _ _ script (by simpa using Nat.ne_of_gt hr) (by simpa using Nat.ne_of_gt hc)) h

/-- one step preserves the invariant (the inductive core of `learn_inv`) -/
theorem learn_inv_step (cfg : Cfg) (hf : cfg.front = true) (s s' : St) (hI : Inv s) (h : step cfg s = .ok s') :
    Inv s' := inv_step cfg hf s s' hI h

/-- **`learn_final_valid`** — when the deque is empty the machine returns (`root = tmp_node.children[0]`
exists) a structurally valid circuit: every sum has ≥ 1 child, one weight per child and children over the
sum's scope; every product has children with pairwise disjoint scopes whose union is the product's scope;
the root's scope is the list of all columns and it was learned on all rows; moreover (C05) the weights are
the row proportions and the rows are routed (`Tree.Proportions`, `Tree.Routed`). -/
theorem learn_final_valid (cfg : Cfg) (hf : cfg.front = true) (nRows nCols : Nat) (hr : 0 < nRows)
    (hc : 0 < nCols) (script : List Ans) (s : St) (h : learn cfg nRows nCols script = .ok s)
    (hq : s.queue = []) :
    ∃ t, result s = some t ∧ t.Valid ∧ t.scope = List.range nCols ∧ t.rows = List.range nRows ∧
      t.Proportions ∧ t.Routed := by
  obtain ⟨t, h1, h2, h3, h4⟩ := run_final cfg hf (List.range nRows) (List.range nCols) script _ s
    (by simpa using Nat.ne_of_gt hr) (by simpa using Nat.ne_of_gt hc) h hq
  exact ⟨t, h1, Tree.Good.valid t h2 (h4 ▸ nodup_range), h4, h3, Tree.Good.proportions t h2,
    Tree.Good.routed t h2⟩

/-- non-vacuity: a 3-slice history with one deferred task (the first slice's column split fails, then its
row split fails, so it is re-queued twice and becomes a leaf), plus a REM_FEATURES and a SPLIT_NAIVE step -/
def exScript : List Ans :=
  [.zeroVar [], .rows [0, 0, 0, 1, 1, 2, 2, 2],           -- root: SPLIT_ROWS into 3 slices
   .zeroVar [], .cols [0, 0, 0],                           -- slice 0: SPLIT_COLS fails   → front re-queue
   .zeroVar [], .rows [5, 5, 5],                           --          SPLIT_ROWS fails   → front re-queue
   .zeroVar [],                                            --          CREATE_LEAF
   .zeroVar [0, 1, 2],                                     -- slice 1: all constant       → SPLIT_NAIVE
   .zeroVar [1],                                           -- slice 2: column 1 constant  → REM_FEATURES
   .zeroVar [], .cols [7, -1],                             --          rest: SPLIT_COLS into 2
   .zeroVar [], .zeroVar []]                               --          two leaves (1 column < min_cols_slice)

example : ∃ s, learn ⟨3, 2, true⟩ 8 3 exScript = .ok s ∧ (s.queue = [] ∧ s.script = [] ∧ s.size = 9) :=
  exists_ok_of_check _ _ (by decide +kernel)

end Deeprob.Learn
