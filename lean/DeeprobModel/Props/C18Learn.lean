import DeeprobModel.Lemmas.CnetLearnLemmas
import DeeprobModel.Spec.CnetLearn
import DeeprobModel.Props.C18
import Mathlib.Algebra.Order.Field.Basic
import Mathlib.Algebra.Order.Field.Rat
import Mathlib.Data.List.Nodup
import Mathlib.Data.List.Perm.Basic
import Mathlib.Tactic.Ring
import Mathlib.Tactic.Linarith
import Mathlib.Tactic.FieldSimp
import Mathlib.Tactic.NormNum
import Mathlib.Tactic.Positivity
set_option linter.unusedSimpArgs false
set_option linter.unusedVariables false
set_option linter.unusedSectionVars false
/-
C18 — the three cutset-network LEARNERS (`BinaryCNet.fit`, `learn_cnet_bd`, `learn_cnet_bic`) inside the model.

All theorems quantify over EVERY oracle script (the data-dependent choices: which variable to cut, whether to
stop) and every leaf oracle `lf` (the Chow-Liu tree fitted at a leaf), for the machine of Model/CnetLearn.lean.
-/
namespace Deeprob.CnetLearn
open Deeprob

/-! ### the running examples (non-vacuity)

Eight training rows over three binary variables; the oracle script is `[cut X0, cut X2, stop]`:
the root is cut on X0, its left child (rows with X0 = 0) on X2, its right child is consulted and kept.
`exTree` is what the entropy-based `fit` (`alpha = 1/100`, `min_n_samples = 2`) returns, `exTreeBd` what
`learn_cnet_bd` (`ess = 1`) returns: same shape, weights `(5 + 1/2)/(8 + 1)` at the root and
`(2 + 1/4)/(5 + 1/2)` one level down (`node_ess` halved). -/

def exData : List (List Nat) :=
  [[0,0,1],[0,1,1],[1,0,0],[1,1,0],[0,0,1],[1,1,1],[0,1,0],[0,0,0]]
def exCfg : Cfg := { kind := .fit, minSamples := 2 }
def exCfgBd : Cfg := { kind := .bd }
def exScript : List Dec := [.cut 0, .cut 2, .stop]

def exTree : LTree ℚ :=
  .or [0,1,2,3,4,5,6,7] [0,1,2] 0 (501/802) (301/802)
    (.or [0,1,4,6,7] [1,2] 2 (201/502) (301/502) (.leaf [6,7] [1]) (.leaf [0,1,4] [1]))
    (.leaf [2,3,5] [1,2])

def exTreeBd : LTree ℚ :=
  .or [0,1,2,3,4,5,6,7] [0,1,2] 0 (11/18) (7/18)
    (.or [0,1,4,6,7] [1,2] 2 (9/22) (13/22) (.leaf [6,7] [1]) (.leaf [0,1,4] [1]))
    (.leaf [2,3,5] [1,2])

theorem ok_of_toOption {ε β : Type} {e : Except ε β} {a : β} (h : e.toOption = some a) : e = .ok a := by
  cases e with
  | error _ => simp [Except.toOption] at h
  | ok b => simp only [Except.toOption, Option.some.injEq] at h; rw [h]

theorem exLearn : learn exCfg exData 3 (1/100 : ℚ) exScript = .ok exTree := ok_of_toOption (by decide +kernel)
theorem exLearnBd : learn exCfgBd exData 3 (1 : ℚ) exScript = .ok exTreeBd := ok_of_toOption (by decide +kernel)

/-- a data set whose column 1 is constant, and the (possible for `fit`, impossible for the score-based learners)
decision to cut on it: the left branch receives no row -/
def exDataC : List (List Nat) := [[0,1,1],[1,1,0],[0,1,0],[1,1,1]]
def exCfgC : Cfg := { kind := .fit, minSamples := 1 }
def exTreeC : LTree ℚ := .or [0,1,2,3] [0,1,2] 1 (1/42) (41/42) (.leaf [] [0,2]) (.leaf [0,1,2,3] [0,2])
theorem exLearnC : learn exCfgC exDataC 3 (1/10 : ℚ) [.cut 1, .stop] = .ok exTreeC := ok_of_toOption (by decide +kernel)

def exDom : Nat → Nat := fun _ => 2

/-- a leaf oracle that depends on the rows and on the scope: independent Bernoulli(1 / (|rows| + 2)) tables -/
def exLf : List Nat → List Nat → Ev → ℚ :=
  fun R S x => lprod (S.map (fun v => C18.tbl2 v (1 / ((R.length : ℚ) + 2)) x))

theorem exLf_dist1 (R : List Nat) (v : Nat) : LeafDist exDom [v] (exLf R [v]) := by
  constructor
  · intro a b h; simp [exLf, lprod, C18.tbl2, Circ.catLeafFn, h v (by simp)]
  · simp only [sumOver, exDom]
    rw [C18.sumVar_two]
    simp [exLf, lprod, C18.tbl2, Circ.catLeafFn, Ev.set]

theorem exLf_dist2 (R : List Nat) (u v : Nat) (huv : u ≠ v) : LeafDist exDom [u, v] (exLf R [u, v]) := by
  constructor
  · intro a b h; simp [exLf, lprod, C18.tbl2, Circ.catLeafFn, h u (by simp), h v (by simp)]
  · simp only [sumOver, exDom]
    rw [C18.sumVar_two, C18.sumVar_two, C18.sumVar_two]
    simp [exLf, lprod, C18.tbl2, Circ.catLeafFn, Ev.set, huv, huv.symm]
    ring

theorem exLf_dist : LeavesDist exDom exLf exTree := by
  intro x hx
  simp only [exTree, LTree.leaves, List.map_cons, List.map_nil, List.cons_append, List.nil_append, List.mem_cons,
    List.not_mem_nil, or_false] at hx
  rcases hx with rfl | rfl | rfl
  · exact exLf_dist1 _ 1
  · exact exLf_dist1 _ 1
  · exact exLf_dist2 _ 1 2 (by decide)

theorem exLf_distBd : LeavesDist exDom exLf exTreeBd := by
  intro x hx
  simp only [exTreeBd, LTree.leaves, List.map_cons, List.map_nil, List.cons_append, List.nil_append, List.mem_cons,
    List.not_mem_nil, or_false] at hx
  rcases hx with rfl | rfl | rfl
  · exact exLf_dist1 _ 1
  · exact exLf_dist1 _ 1
  · exact exLf_dist2 _ 1 2 (by decide)

section field
variable {α : Type} [Field α] [LinearOrder α] [IsStrictOrderedRing α]

/-! ### the machine invariant, for every script -/

/-- **learned_tree_good** — for EVERY oracle script: whatever `learn` returns is over all training rows and all
columns and satisfies `Good` at every OR node (Lemmas/CnetLearnLemmas.lean): the cut variable is in the node's
scope, the node passed the score-free stop rules, the children hold exactly the node's rows whose cut value is 0
resp. 1 (in data order) over the scope with the cut variable erased (the same scope for both), the weights are
`leftWeight` of the counts and `1 - leftWeight`, the children's smoothing parameter is `childPar` (halved for BDeu),
and — score-based learners — no child is empty. The proof is an invariant of the FIFO work-queue machine
(`Inv`, `step_inv`, `run_inv`) transferred to the unfolded table (`toTree_good`). -/
theorem learned_tree_good (cfg : Cfg) (data : List (List Nat)) (nCols : Nat) (p : α) (script : List Dec) (t : LTree α)
    (h : learn cfg data nCols p script = .ok t) :
    Good cfg data p t ∧ t.rows = List.range data.length ∧ t.scope = List.range nCols :=
  learn_good cfg data nCols p script t h

example : Good exCfg exData (1/100 : ℚ) exTree ∧ exTree.rows = List.range exData.length ∧ exTree.scope = List.range 3 :=
  learned_tree_good exCfg exData 3 (1/100 : ℚ) exScript exTree exLearn

/-- **learn_loop_terminates** — `2 * |script| + 1` iterations of `while node_stack:` always suffice: whenever the loop
does not fail the queue is empty at the end (each iteration pops one node and pushes two only when it consumes a
script entry) -/
theorem learn_loop_terminates (cfg : Cfg) (data : List (List Nat)) (nCols : Nat) (p : α) (script : List Dec) (s : St α)
    (h : learnSt cfg data nCols p script = .ok s) : s.queue = [] :=
  learnSt_queue_empty cfg data nCols p script s h

example : ((learnSt exCfg exData 3 (1/100 : ℚ) exScript).toOption.map (fun s => (s.queue, s.nodes.length, s.script)))
    = some ([], 5, []) := by decide +kernel

/-! ### branch weights -/

/-- **learned_weights** — at every OR node of what ANY of the three learners returns (any script), at depth `d`:
the weights are the exact rationals of the smoothed counts the code computes
(`(n0 + alpha) / (n + 2 alpha)` for `fit` / BIC, `(n0 + ess/2^(d+1)) / (n + ess/2^d)` for BDeu, with `n0` the number of
the node's rows whose cut value is 0 and `n` the number of the node's rows; right weight `1 - left`), they sum to
one and lie in `[0, 1]`; they lie strictly inside `(0, 1)` when the smoothing parameter is positive, and for the
score-based learners even when it is zero. -/
theorem learned_weights (cfg : Cfg) (data : List (List Nat)) (nCols : Nat) (p : α) (hp : 0 ≤ p)
    (script : List Dec) (t : LTree α) (h : learn cfg data nCols p script = .ok t) :
    t.AllOr (fun d r _ v w0 w1 _ _ =>
      w0 = leftWeight cfg.kind (parAt cfg.kind p d) (side data v 0 r).length r.length ∧
      w1 = 1 - w0 ∧ w0 + w1 = 1 ∧ 0 ≤ w0 ∧ w0 ≤ 1 ∧ 0 ≤ w1 ∧ w1 ≤ 1 ∧
      ((0 < p ∨ cfg.kind ≠ .fit) → 0 < w0 ∧ w0 < 1 ∧ 0 < w1 ∧ w1 < 1)) 0 := by
  have hg := (learn_good cfg data nCols p script t h).1
  refine Good.allOr cfg data p _ ?_ t 0 hg
  intro d r s v w0 w1 c0 c1 hG
  obtain ⟨a1, a2, a3, a4, a5, a6, a7, a8⟩ :=
    Good.weights_local cfg data _ (parAt_nonneg cfg.kind p hp d) r s v w0 w1 c0 c1 hG
  refine ⟨a1, a2, a3, a4, a5, a6, a7, ?_⟩
  intro hs
  apply a8
  rcases hs with hs | hs
  · exact Or.inl (parAt_pos cfg.kind p hs d)
  · exact Or.inr hs

/-- non-vacuity (fit, two OR nodes): the inner node's left weight is `(2 + 1/100) / (5 + 2/100)` -/
example : exTree.AllOr (fun d r _ v w0 w1 _ _ =>
      w0 = leftWeight Kind.fit (parAt Kind.fit (1/100 : ℚ) d) (side exData v 0 r).length r.length ∧
      w1 = 1 - w0 ∧ w0 + w1 = 1 ∧ 0 ≤ w0 ∧ w0 ≤ 1 ∧ 0 ≤ w1 ∧ w1 ≤ 1 ∧
      ((0 < (1/100 : ℚ) ∨ Kind.fit ≠ .fit) → 0 < w0 ∧ w0 < 1 ∧ 0 < w1 ∧ w1 < 1)) 0 :=
  learned_weights exCfg exData 3 (1/100 : ℚ) (by norm_num) exScript exTree exLearn

/-- non-vacuity (BDeu): the equivalent sample size is halved one level down: `(2 + 1/4) / (5 + 1/2) = 9/22` -/
example : exTreeBd.AllOr (fun d r _ v w0 w1 _ _ =>
      w0 = leftWeight Kind.bd (parAt Kind.bd (1 : ℚ) d) (side exData v 0 r).length r.length ∧
      w1 = 1 - w0 ∧ w0 + w1 = 1 ∧ 0 ≤ w0 ∧ w0 ≤ 1 ∧ 0 ≤ w1 ∧ w1 ≤ 1 ∧
      ((0 < (1 : ℚ) ∨ Kind.bd ≠ .fit) → 0 < w0 ∧ w0 < 1 ∧ 0 < w1 ∧ w1 < 1)) 0 :=
  learned_weights exCfgBd exData 3 (1 : ℚ) (by norm_num) exScript exTreeBd exLearnBd

example : leftWeight Kind.bd (parAt Kind.bd (1 : ℚ) 1) 2 5 = 9 / 22 := by
  rw [parAt_bd]; norm_num [leftWeight]

/-- **fit_empty_branch** — what `BinaryCNet.fit` does when a branch receives no row (the cut variable is constant
on the node's rows; nothing in `fit` prevents the oracle from choosing it): the child IS created, it is a leaf at
once (`0 <= min_n_samples`: its Chow-Liu tree is fitted on an empty partition), and its weight is the pure
smoothing mass `alpha / (n + 2 alpha)` (left) resp. `1 - (n0 + alpha) / (n + 2 alpha)` (right). -/
theorem fit_empty_branch (cfg : Cfg) (hk : cfg.kind = .fit) (data : List (List Nat)) (nCols : Nat) (p : α)
    (script : List Dec) (t : LTree α) (h : learn cfg data nCols p script = .ok t) :
    t.AllOr (fun _ r _ _ w0 _ c0 c1 =>
      (c0.rows = [] → c0.isLeaf = true ∧ w0 = p / ((r.length : α) + 2 * p)) ∧
      (c1.rows = [] → c1.isLeaf = true)) 0 := by
  have hg := (learn_good cfg data nCols p script t h).1
  refine Good.allOr cfg data p _ ?_ t 0 hg
  intro d r s v w0 w1 c0 c1 hG
  obtain ⟨_, _, e0, e1, _, _, hw0, hw1, hne, g0, g1⟩ := hG
  have leafOf : ∀ (c : LTree α) (q : α), Good cfg data q c → c.rows = [] → c.isLeaf = true := by
    intro c q gc hr
    cases c with
    | leaf _ _ => rfl
    | or r' s' v' a b x y =>
      have := gc.2.1
      simp only [LTree.rows] at hr
      subst hr
      simp [consults, hk] at this
  constructor
  · intro he
    refine ⟨leafOf c0 _ g0 he, ?_⟩
    rw [hw0, he, parAt_fit' cfg hk]
    simp [leftWeight, hk]
  · intro he
    exact leafOf c1 _ g1 he

/-- non-vacuity: cutting `exDataC` on its constant column: the empty left child exists, is a leaf, and has weight
`(1/10) / (4 + 2/10) = 1/42` -/
example : exTreeC.AllOr (fun _ r _ _ w0 _ c0 c1 =>
      (c0.rows = [] → c0.isLeaf = true ∧ w0 = (1/10 : ℚ) / ((r.length : ℚ) + 2 * (1/10))) ∧
      (c1.rows = [] → c1.isLeaf = true)) 0 :=
  fit_empty_branch exCfgC rfl exDataC 3 (1/10 : ℚ) [.cut 1, .stop] exTreeC exLearnC

example : (exTreeC.leaves.map (fun x => x.2.1)) = [[], [0,1,2,3]] := by decide

/-- with `alpha = 0` the empty branch of `fit` gets weight 0 (its rows have likelihood 0; the Boolean validator,
which demands `0 < w`, rejects; `CNet.WF` and normalisation still hold) -/
theorem fit_zero_alpha_weight_zero :
    learn exCfgC exDataC 3 (0 : ℚ) [.cut 1, .stop]
      = .ok (.or [0,1,2,3] [0,1,2] 1 0 1 (.leaf [] [0,2]) (.leaf [0,1,2,3] [0,2])) :=
  ok_of_toOption (by decide +kernel)

/-- **score_learners_no_empty_branch** — `learn_cnet_bd` / `learn_cnet_bic` never create an empty branch
(candidates with an empty side are skipped), so both children of every OR node hold at least one training row -/
theorem score_learners_no_empty_branch (cfg : Cfg) (hk : cfg.kind ≠ .fit) (data : List (List Nat)) (nCols : Nat) (p : α)
    (script : List Dec) (t : LTree α) (h : learn cfg data nCols p script = .ok t) :
    t.AllOr (fun _ _ _ _ _ _ c0 c1 => c0.rows ≠ [] ∧ c1.rows ≠ []) 0 := by
  have hg := (learn_good cfg data nCols p script t h).1
  refine Good.allOr cfg data p _ ?_ t 0 hg
  intro d r s v w0 w1 c0 c1 hG
  exact hG.2.2.2.2.2.2.2.2.1 hk

example : exTreeBd.AllOr (fun _ _ _ _ _ _ c0 c1 => c0.rows ≠ [] ∧ c1.rows ≠ []) 0 :=
  score_learners_no_empty_branch exCfgBd (by decide) exData 3 (1 : ℚ) exScript exTreeBd exLearnBd

/-- the score-based learners cannot take the decision of `exLearnC`: the script is not the record of a run -/
example : (learn { kind := .bic } exDataC 3 (1/10 : ℚ) [.cut 1, .stop]).toOption = none := by decide +kernel

/-! ### the rows at the leaves -/

/-- **leaf_rows_are_path_filter** — for every script: the rows on which the Chow-Liu tree of a leaf is fitted are
EXACTLY the training rows (in data order) that agree with the path to the leaf at every cut variable, and the
leaf's scope is the full scope with the cut variables of the path removed. -/
theorem leaf_rows_are_path_filter (cfg : Cfg) (data : List (List Nat)) (nCols : Nat) (p : α)
    (script : List Dec) (t : LTree α) (h : learn cfg data nCols p script = .ok t) :
    ∀ x ∈ t.leaves, x.2.1 = (List.range data.length).filter (agrees data x.1) ∧
                    x.2.2 = scopeAfter (List.range nCols) x.1 := by
  obtain ⟨hg, hr, hs⟩ := learn_good cfg data nCols p script t h
  intro x hx
  have := good_leaves cfg data t p hg x hx
  rw [hr, hs] at this
  exact this

/-- non-vacuity: the leaf reached by X0 = 0, X2 = 1 is fitted on rows 0, 1, 4 over the scope [1] -/
example : ([(0, 0), (2, 1)], [0, 1, 4], [1]) ∈ exTree.leaves ∧
    ([0, 1, 4] : List Nat) = (List.range exData.length).filter (agrees exData [(0, 0), (2, 1)]) ∧
    ([1] : List Nat) = scopeAfter (List.range 3) [(0, 0), (2, 1)] :=
  ⟨by decide, leaf_rows_are_path_filter exCfg exData 3 (1/100 : ℚ) exScript exTree exLearn
    ([(0, 0), (2, 1)], [0, 1, 4], [1]) (by decide)⟩

/-- membership form of `leaf_rows_are_path_filter` -/
theorem leaf_rows_mem_iff (cfg : Cfg) (data : List (List Nat)) (nCols : Nat) (p : α)
    (script : List Dec) (t : LTree α) (h : learn cfg data nCols p script = .ok t)
    (x : List (Nat × Nat) × List Nat × List Nat) (hx : x ∈ t.leaves) (r : Nat) :
    r ∈ x.2.1 ↔ r < data.length ∧ ∀ vb ∈ x.1, cellOf data r vb.1 = vb.2 := by
  rw [(leaf_rows_are_path_filter cfg data nCols p script t h x hx).1]
  simp [agrees, List.mem_filter]

example : 4 ∈ ([0, 1, 4] : List Nat) ↔ 4 < exData.length ∧ ∀ vb ∈ [(0, 0), (2, 1)], cellOf exData 4 vb.1 = vb.2 :=
  leaf_rows_mem_iff exCfg exData 3 (1/100 : ℚ) exScript exTree exLearn ([(0, 0), (2, 1)], [0, 1, 4], [1]) (by decide) 4

/-- **leaf_rows_partition** — on binary data the leaves partition the training set: every training row is in the
row set of exactly one leaf -/
theorem leaf_rows_partition (cfg : Cfg) (data : List (List Nat)) (hb : BinaryData data) (nCols : Nat) (p : α)
    (script : List Dec) (t : LTree α) (h : learn cfg data nCols p script = .ok t) :
    ((t.leaves.map (fun x => x.2.1)).flatten).Perm (List.range data.length) := by
  obtain ⟨hg, hr, _⟩ := learn_good cfg data nCols p script t h
  rw [← hr]
  exact good_leaves_perm cfg data hb t p hg

theorem exData_binary : BinaryData exData := binaryData_of_isBinaryB exData (by decide)

example : ((exTree.leaves.map (fun x => x.2.1)).flatten).Perm (List.range exData.length) :=
  leaf_rows_partition exCfg exData exData_binary 3 (1/100 : ℚ) exScript exTree exLearn

/-! ### well-formedness and normalisation of the learned network -/

/-- **learned_cnet_wellFormed** — for every script and every leaf oracle that is a distribution at the leaves: what
any of the three learners returns is a well-formed cutset network (S layer `CNet.WF`: cut variable in the scope and
binary, both children over the scope minus the cut variable, `w0 + w1 = 1`, leaves normalised over the remaining
scope). No hypothesis on the smoothing parameter is needed. -/
theorem learned_cnet_wellFormed (cfg : Cfg) (data : List (List Nat)) (nCols : Nat) (p : α)
    (script : List Dec) (t : LTree α) (h : learn cfg data nCols p script = .ok t)
    (dom : Nat → Nat) (hdom : ∀ v, v < nCols → dom v = 2)
    (lf : List Nat → List Nat → Ev → α) (hlf : LeavesDist dom lf t) :
    C18.CNet.WF dom (toCNet lf t) ∧ (toCNet lf t).scope = List.range nCols := by
  obtain ⟨hg, _, hs⟩ := learn_good cfg data nCols p script t h
  refine ⟨good_WF cfg data dom lf t p hg (by rw [hs]; exact List.nodup_range) ?_
    (leavesOK_of_leavesDist dom lf t hlf), by rw [toCNet_scope, hs]⟩
  intro v hv
  rw [hs] at hv
  exact hdom v (List.mem_range.1 hv)

example : C18.CNet.WF exDom (toCNet exLf exTree) ∧ (toCNet exLf exTree).scope = List.range 3 :=
  learned_cnet_wellFormed exCfg exData 3 (1/100 : ℚ) exScript exTree exLearn exDom (fun _ _ => rfl) exLf exLf_dist

/-- **learned_cnet_normalised** — for every data set, every script (including the one that never splits) and every
leaf oracle that is a distribution at the leaves: the values of the learned cutset network over all `2^nCols`
complete binary rows sum to one. -/
theorem learned_cnet_normalised (cfg : Cfg) (data : List (List Nat)) (nCols : Nat) (p : α)
    (script : List Dec) (t : LTree α) (h : learn cfg data nCols p script = .ok t)
    (dom : Nat → Nat) (hdom : ∀ v, v < nCols → dom v = 2)
    (lf : List Nat → List Nat → Ev → α) (hlf : LeavesDist dom lf t) :
    sumOver dom (List.range nCols) (fun _ => none) (fun x => cnetEval x (toCNet lf t)) = 1 := by
  obtain ⟨hwf, hs⟩ := learned_cnet_wellFormed cfg data nCols p script t h dom hdom lf hlf
  have := C18.cnet_normalised dom (toCNet lf t) hwf (fun _ => none) (fun _ _ => rfl)
  rw [hs] at this
  exact this

example : sumOver exDom (List.range 3) (fun _ => none) (fun x => cnetEval x (toCNet exLf exTree)) = 1 :=
  learned_cnet_normalised exCfg exData 3 (1/100 : ℚ) exScript exTree exLearn exDom (fun _ _ => rfl) exLf exLf_dist

example : sumOver exDom (List.range 3) (fun _ => none) (fun x => cnetEval x (toCNet exLf exTreeBd)) = 1 :=
  learned_cnet_normalised exCfgBd exData 3 (1 : ℚ) exScript exTreeBd exLearnBd exDom (fun _ _ => rfl) exLf exLf_distBd

/-- **learned_cnet_batch** — the breadth-first routing loop of `BinaryCNet.log_likelihood` run on the learned object
returns, for every row of any batch, the recursive value (instance of `C18.cnet_eval`) -/
theorem learned_cnet_batch (lf : List Nat → List Nat → Ev → α) (t : LTree α) (rows : Nat → Ev) (n r : Nat) (hr : r < n) :
    (cnetBatch rows n (toCNet lf t))[r]? = some (cnetEval (rows r) (toCNet lf t)) :=
  C18.cnet_eval rows n (toCNet lf t) r hr

example : (cnetBatch C18.exRows 3 (toCNet exLf exTree))[1]? = some (cnetEval (C18.exRows 1) (toCNet exLf exTree)) :=
  learned_cnet_batch exLf exTree C18.exRows 3 1 (by norm_num)

/-! ### a row's value is the product of the branch weights on its path times the leaf reached -/

/-- **learned_eval_is_path_product** — the statement of C18 for a learned network, for every script: a complete
binary row `x` is evaluated to the product of the branch weights selected by its values at the cut variables
(`descend`: root first) times the value of the Chow-Liu tree of the leaf reached; the path recorded is the one `x`
follows, the leaf reached is a leaf of the learned tree, and that leaf's tree is the one fitted on exactly the
training rows agreeing with the path, over the scope without the path's variables. -/
theorem learned_eval_is_path_product (cfg : Cfg) (data : List (List Nat)) (nCols : Nat) (p : α)
    (script : List Dec) (t : LTree α) (h : learn cfg data nCols p script = .ok t)
    (lf : List Nat → List Nat → Ev → α) (x : Ev) (hx : BinaryRow (List.range nCols) x) :
    cnetEval x (toCNet lf t) = lprod (t.descend x).1 * lf (t.descend x).2.2.1 (t.descend x).2.2.2 x ∧
    ((t.descend x).2.1, (t.descend x).2.2) ∈ t.leaves ∧
    (∀ vb ∈ (t.descend x).2.1, x vb.1 = some vb.2) ∧
    (t.descend x).2.2.1 = (List.range data.length).filter (agrees data (t.descend x).2.1) ∧
    (t.descend x).2.2.2 = scopeAfter (List.range nCols) (t.descend x).2.1 := by
  obtain ⟨hg, _, hs⟩ := learn_good cfg data nCols p script t h
  have hb : BinaryRow t.cutVars x := fun u hu => hx u (by rw [← hs]; exact good_cutVars_subset cfg data t p hg u hu)
  obtain ⟨e, m, a⟩ := cnetEval_descend lf x t hb
  have := leaf_rows_are_path_filter cfg data nCols p script t h _ m
  exact ⟨e, m, a, this.1, this.2⟩

/-- non-vacuity: the row (0, 1, 1) selects the weights 501/802 and 301/502 and reaches the leaf fitted on rows 0, 1, 4 -/
def exRow : Ev := Ev.ofList [some 0, some 1, some 1]

example : exTree.descend exRow = ([501/802, 301/502], [(0, 0), (2, 1)], [0, 1, 4], [1]) := by decide +kernel

example : cnetEval exRow (toCNet exLf exTree)
      = lprod (exTree.descend exRow).1 * exLf (exTree.descend exRow).2.2.1 (exTree.descend exRow).2.2.2 exRow :=
  (learned_eval_is_path_product exCfg exData 3 (1/100 : ℚ) exScript exTree exLearn exLf exRow
    (by intro v hv
        have : v = 0 ∨ v = 1 ∨ v = 2 := by simp [List.mem_range] at hv; omega
        rcases this with rfl | rfl | rfl <;> simp [exRow, Ev.ofList])).1

/-! ### the Boolean validator accepts every learned network -/

section validator
variable [DecidableEq α]

/-- **learned_cnet_wellFormedB** — the executable validator `cnetWellFormedB` (the one the harness runs on every
learned object) accepts what any learner returns, for every script, as soon as the smoothing parameter is positive
(score-based learners: non-negative). With `alpha = 0` the entropy-based `fit` can give a branch weight 0
(`fit_zero_alpha_weight_zero`). -/
theorem learned_cnet_wellFormedB (cfg : Cfg) (data : List (List Nat)) (nCols : Nat) (p : α) (hp : 0 ≤ p)
    (hs : 0 < p ∨ cfg.kind ≠ .fit) (script : List Dec) (t : LTree α) (h : learn cfg data nCols p script = .ok t)
    (dom : Nat → Nat) (hdom : ∀ v, v < nCols → dom v = 2) (lf : List Nat → List Nat → Ev → α) :
    cnetWellFormedB dom (toCNet lf t) = true := by
  obtain ⟨hg, _, hsc⟩ := learn_good cfg data nCols p script t h
  refine good_wellFormedB cfg data dom lf p hp hs t 0 hg (by rw [hsc]; exact List.nodup_range) ?_
  intro v hv
  rw [hsc] at hv
  exact hdom v (List.mem_range.1 hv)

example : cnetWellFormedB exDom (toCNet exLf exTree) = true :=
  learned_cnet_wellFormedB exCfg exData 3 (1/100 : ℚ) (by norm_num) (Or.inl (by norm_num)) exScript exTree exLearn
    exDom (fun _ _ => rfl) exLf

end validator

/-! ### the learner does not split at all -/

/-- **learn_nosplit_is_single_clt** — when the learner does not split the root — a score-free stop rule applies
there (`fit`: `n_samples <= min_n_samples or n_features <= min_n_features`; score-based learners: one variable) or
the scores tell it to stop — what it returns is ONE leaf: the Chow-Liu tree fitted on all rows over all columns
(repaired `fit`; the two score-based learners return the root object itself). -/
theorem learn_nosplit_is_single_clt (cfg : Cfg) (data : List (List Nat)) (nCols : Nat) (p : α) (script : List Dec)
    (hroot : consults cfg data.length nCols = false ∨ (candCrash cfg nCols = false ∧ script.head? = some .stop))
    (hkeep : cfg.kind = .fit → cfg.keepRootClt = true) :
    learn cfg data nCols p script = .ok (.leaf (List.range data.length) (List.range nCols)) := by
  obtain ⟨sc, hsc⟩ := learnSt_nosplit cfg data nCols p script hroot
  unfold learn
  rw [hsc]
  by_cases hk : cfg.kind = .fit
  · simp [hk, hkeep hk, toTree, getN]
  · simp [hk, toTree, getN]

/-- non-vacuity 1: thresholds that forbid any split (`min_n_samples = 8 = n_samples`): no oracle is consulted -/
example : learn { kind := .fit, minSamples := 8 } exData 3 (1/100 : ℚ) [] = .ok (.leaf (List.range 8) (List.range 3)) :=
  learn_nosplit_is_single_clt { kind := .fit, minSamples := 8 } exData 3 (1/100 : ℚ) [] (Or.inl (by decide)) (fun _ => rfl)

/-- non-vacuity 2: the BDeu learner's scores say "do not split" at the root -/
example : learn exCfgBd exData 3 (1 : ℚ) [.stop] = .ok (.leaf (List.range 8) (List.range 3)) :=
  learn_nosplit_is_single_clt exCfgBd exData 3 (1 : ℚ) [.stop] (Or.inr ⟨by decide, rfl⟩) (by decide)

/-- the value of that network IS the leaf tree's value, and it is normalised when the tree is -/
theorem learn_nosplit_value (dom : Nat → Nat) (lf : List Nat → List Nat → Ev → α) (R S : List Nat) (x : Ev) :
    cnetEval x (toCNet lf (.leaf R S : LTree α)) = lf R S x ∧
    (LeafDist dom S (lf R S) → sumOver dom S (fun _ => none) (fun x => cnetEval x (toCNet lf (.leaf R S : LTree α))) = 1) :=
  ⟨rfl, fun h => h.2⟩

example : sumOver exDom [1, 2] (fun _ => none) (fun x => cnetEval x (toCNet exLf (.leaf [2, 3, 5] [1, 2] : LTree ℚ))) = 1 :=
  (learn_nosplit_value exDom exLf [2, 3, 5] [1, 2] (fun _ => none)).2 (exLf_dist2 _ 1 2 (by decide))

/-- **old_fit_nosplit_loses_tree** (defect F11, witness for the root special case) — the pinned `fit`
(`keepRootClt = false`: no `self.clt = root.clt`) returns, in exactly the situation of
`learn_nosplit_is_single_clt`, an object with neither children nor a tree: evaluation raises. -/
theorem old_fit_nosplit_loses_tree (cfg : Cfg) (hk : cfg.kind = .fit) (hkeep : cfg.keepRootClt = false)
    (data : List (List Nat)) (nCols : Nat) (p : α) (script : List Dec)
    (hroot : consults cfg data.length nCols = false ∨ (candCrash cfg nCols = false ∧ script.head? = some .stop)) :
    learn cfg data nCols p script =
      .error "raises: the root was never split and its Chow-Liu tree is not copied (F11)" := by
  obtain ⟨sc, hsc⟩ := learnSt_nosplit cfg data nCols p script hroot
  unfold learn
  rw [hsc]
  simp [hk, hkeep, getN]

example : learn { kind := .fit, minSamples := 8, keepRootClt := false } exData 3 (1/100 : ℚ) []
    = .error "raises: the root was never split and its Chow-Liu tree is not copied (F11)" :=
  old_fit_nosplit_loses_tree { kind := .fit, minSamples := 8, keepRootClt := false } rfl rfl exData 3 (1/100 : ℚ) []
    (Or.inl (by decide))

/-- **score_learners_ncand_one_raises** — with `n_cand_cuts = 1` both score-based learners raise on every data set
with at least two columns (`select_cand_cuts` returns a scalar, `for i in search_indices` is a `TypeError`),
whatever the scores are -/
theorem score_learners_ncand_one_raises (cfg : Cfg) (hk : cfg.kind ≠ .fit) (hn : cfg.nCand = 1)
    (data : List (List Nat)) (nCols : Nat) (hc : 2 ≤ nCols) (p : α) (script : List Dec) :
    learn cfg data nCols p script =
      .error "raises: TypeError ('numpy.int64' object is not iterable): n_cand_cuts == 1" := by
  have h1 : consults cfg data.length nCols = true := by
    cases hkk : cfg.kind with
    | fit => exact absurd hkk hk
    | bd => simp [consults, hkk]; omega
    | bic => simp [consults, hkk]; omega
  have h2 : candCrash cfg nCols = true := by
    simp only [candCrash, hn, Bool.and_eq_true, bne_iff_ne, ne_eq, beq_iff_eq]
    exact ⟨hk, by omega⟩
  unfold learn learnSt
  rw [show 2 * script.length + 1 = (2 * script.length) + 1 from rfl]
  unfold run
  simp only [init, step, getN, List.getD_cons_zero, List.length_range, h1, h2, Bool.not_true, Bool.false_eq_true,
    if_false, if_true]

example : learn { kind := .bic, nCand := 1 } exData 3 (1/100 : ℚ) exScript
    = .error "raises: TypeError ('numpy.int64' object is not iterable): n_cand_cuts == 1" :=
  score_learners_ncand_one_raises { kind := .bic, nCand := 1 } (by decide) rfl exData 3 (by norm_num) (1/100 : ℚ) exScript

end field
end Deeprob.CnetLearn
