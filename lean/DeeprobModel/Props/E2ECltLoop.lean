import DeeprobModel.Props.E2EClt
import DeeprobModel.Oblig.Struct5Clt
set_option linter.unusedSimpArgs false
set_option linter.unusedVariables false
set_option linter.unusedSectionVars false
/-
END-TO-END corollaries for binary Chow-Liu trees, stated about the LOOPS extracted whole by tools/listprog.py (block K):
`Gen.S5cltMessagePassing` (fragment `cltree.message_passing.loop`) and `Gen.S5cltMpeLoop` (`cltree.mpe.loop`) — the
traversal of `self.bfs`, the slot written, the slots read, the call of `self.message_passing` inside `mpe` with its keywords,
what is returned — instantiated on one row with the bodies of `Model/CltLoop.lean`:

    loopMp  cpt tree r lse mx x obs return_lls reduce   = `message_passing(x, obs, return_lls, reduce)`   (`.inl` messages / `.inr` value)
    loopMpe cpt tree r lse mx x                         = `mpe(x)`  (generated decoding loop ∘ generated upward loop)

with `self.bfs` = the generated breadth-first order (`genBfsI`), linear-domain reading (`0 ↦ 1`, `+ ↦ *`).  The main theorems of
`Props/E2EClt.lean` (`e2e_message_passing_marginal`, `e2e_message_passing_max`, `e2e_mpe_is_argmax`) are restated for these
objects; the chain is   source --(listprog K)--> S5 loop skeleton --(Struct5Clt.*_as_coded)--> S4 definitions --(E2EClt)--> spec.
Every theorem is followed by a non-vacuity example on the regression tree `[3, 4, 1, -1, 0]`.
-/
namespace Deeprob.E2ECltLoop
open Deeprob Deeprob.Clt Deeprob.E2EClt
open Deeprob.GraphIo (exTree exCpt exScope exEv exTree_wf exCpt_nonneg)

section defs
variable {α : Type} [CommSemiring α]

/-- `message_passing` of the object built from `tree` on ONE row: the GENERATED loop skeleton, `self.bfs` = the generated order -/
def loopMp (cpt : List (List (List α))) (tree : List Int) (r : Nat) (lse mx : List α → α)
    (x : List (Option Nat)) (obs : List Bool) (return_lls : Bool) (reduce : String) : List (List α) ⊕ Option α :=
  @CltLoop.messagePassing α ⟨1⟩ ⟨(· * ·)⟩ (params cpt) (r : Int) (genBfsI tree r) tree lse mx x obs return_lls reduce

theorem loopMp_messages (cpt : List (List (List α))) (tree : List Int) (r : Nat) (lse mx : List α → α)
    (x : List (Option Nat)) (obs : List Bool) (reduce : String) (hred : reduce = "mar" ∨ reduce = "mpe") :
    loopMp cpt tree r lse mx x obs false reduce = .inl (genMessages cpt tree r lse mx x obs reduce) :=
  @Oblig.Struct5Clt.msg_loop_as_coded α ⟨1⟩ ⟨(· * ·)⟩ (params cpt) (r : Int) (genBfsI tree r) tree lse mx [] 1 x obs reduce hred

theorem loopMp_value (cpt : List (List (List α))) (tree : List Int) (r : Nat) (lse mx : List α → α)
    (x : List (Option Nat)) (obs : List Bool) (reduce : String) (hred : reduce = "mar" ∨ reduce = "mpe") :
    loopMp cpt tree r lse mx x obs true reduce = .inr (genValue cpt tree r lse mx x obs reduce) :=
  @Oblig.Struct5Clt.msg_value_as_coded α ⟨1⟩ ⟨(· * ·)⟩ (params cpt) (r : Int) (genBfsI tree r) tree lse mx [] 1 x obs reduce hred

end defs

/-! ## `message_passing(…, return_lls=True, reduce='mar')` (C02) -/

section semiring
variable {α : Type} [CommSemiring α]

/-- **e2e_message_passing_marginal_loop (C02 for Chow-Liu trees, about the extracted LOOP)**: the value the generated loop of
`message_passing` (zeros, upward loop over `reversed(self.bfs[1:])` writing `messages[self.tree[j]]`, root step from
`messages[self.root]`) returns for a row with missing entries is the sum, over all completions of the missing variables of the
scope, of the tree's values at the completed rows.
Ingredients: `Struct5Clt.msg_value_as_coded` (O) + `E2EClt.e2e_message_passing_marginal`. -/
theorem e2e_message_passing_marginal_loop (dom : Nat → Nat) (tree : List Int) (hwf : GraphIo.WellFormedPred tree)
    (scope : List Nat) (cpt : List (List (List α))) (hlen : scope.length = tree.length) (hnd : scope.Nodup)
    (hdom : ∀ v ∈ scope, dom v = 2) (e : Ev) (hbin : ∀ v ∈ scope, ∀ o, e v = some o → o < 2) (mx : List α → α) :
    ∃ r, GraphIo.rootIdx tree = some r ∧
      loopMp cpt tree r Struct4.sumL mx (rowList scope tree.length e)
          ((rowList scope tree.length e).map (fun o => !o.isNone)) true "mar" =
        .inr (some (sumOver dom scope e (fun e' => Clt.value scope tree cpt e'))) := by
  obtain ⟨r, hr, h⟩ := e2e_message_passing_marginal dom tree hwf scope cpt hlen hnd hdom e hbin mx
  exact ⟨r, hr, by rw [loopMp_value _ _ _ _ _ _ _ _ (Or.inl rfl), h]⟩

example : loopMp exCpt exTree 3 Struct4.sumL Struct4.maxL (rowList exScope exTree.length exEv)
      ((rowList exScope exTree.length exEv).map (fun o => !o.isNone)) true "mar" =
        .inr (some (sumOver (fun _ => 2) exScope exEv (fun e' => Clt.value exScope exTree exCpt e'))) := by
  obtain ⟨r, hr, h⟩ := e2e_message_passing_marginal_loop (fun _ => 2) exTree exTree_wf exScope exCpt rfl (by decide)
    (fun _ _ => rfl) exEv exEv_bin Struct4.maxL
  have : r = 3 := Option.some.inj (hr.symm.trans (by decide))
  subst this
  exact h

/-- … and the number the extracted loop computes on that row (evaluated by the kernel) -/
example : loopMp exCpt exTree 3 Struct4.sumL Struct4.maxL [none, none, some 1, none, none]
    ([none, none, some 1, none, none].map (fun o => !o.isNone)) true "mar" = .inr (some (3319 / 5000)) := by decide +kernel

end semiring

/-! ## `message_passing(…, reduce='mpe')` and `BinaryCLT.mpe` (C06) -/

section maxprod
variable {α : Type} [CommSemiring α] [LinearOrder α] [IsStrictOrderedRing α]

/-- `BinaryCLT.mpe` of the object built from `tree` on ONE row: the GENERATED decoding loop with the GENERATED loop of
`message_passing` composed in (the call `self.message_passing(x, obs_mask, return_lls=False, reduce='mpe')` is part of the skeleton) -/
def loopMpe (cpt : List (List (List α))) (tree : List Int) (r : Nat) (lse mx : List α → α) (x : List (Option Nat)) :
    List (Option Nat) :=
  @CltLoop.mpe α ⟨1⟩ ⟨(· * ·)⟩ _ _ (params cpt) (r : Int) (genBfsI tree r) tree lse mx x

theorem loopMpe_eq (cpt : List (List (List α))) (tree : List Int) (r : Nat) (lse mx : List α → α) (x : List (Option Nat)) :
    loopMpe cpt tree r lse mx x = genMpe cpt tree r lse mx x :=
  @Oblig.Struct5Clt.mpe_composed_as_coded α ⟨1⟩ ⟨(· * ·)⟩ _ _ (params cpt) (r : Int) (genBfsI tree r) tree lse mx [] 1 x

/-- **e2e_message_passing_max_loop** (the `reduce='mpe'` instance): the `messages` array the generated loop returns with `np.max` as
the reduction holds, at every position `j` and for both values `k` of `j`, the product over the children of `j` of the max-product
messages `upMax`; in the form the decoding loop needs (`Struct4.MsgsOK`).
Ingredients: `Struct5Clt.msg_loop_as_coded` (O) + `E2EClt.e2e_message_passing_max`. -/
theorem e2e_message_passing_max_loop (tree : List Int) (hwf : GraphIo.WellFormedPred tree) (scope : List Nat)
    (cpt : List (List (List α))) (hc : ∀ i l k, 0 ≤ cptAt cpt i l k) (e : Ev)
    (hbin : ∀ j, j < tree.length → ∀ o, e (scope.getD j 0) = some o → o < 2) (lse : List α → α) :
    ∃ r M, GraphIo.rootIdx tree = some r ∧
      loopMp cpt tree r lse Struct4.maxL (rowList scope tree.length e)
          ((rowList scope tree.length e).map (fun o => !o.isNone)) false "mpe" = .inl M ∧
      (∀ j, j < tree.length → M.getD j [] =
          [lprod ((Clt.childrenOf tree j).map (fun d => upMax scope cpt (build tree tree.length d) 0 e)),
           lprod ((Clt.childrenOf tree j).map (fun d => upMax scope cpt (build tree tree.length d) 1 e))]) ∧
      Struct4.MsgsOK scope cpt e (build tree tree.length r)
        (CltLoop.msgsOf (loopMp cpt tree r lse Struct4.maxL (rowList scope tree.length e)
          ((rowList scope tree.length e).map (fun o => !o.isNone)) false "mpe")) := by
  obtain ⟨r, hr, hslots, hok⟩ := e2e_message_passing_max tree hwf scope cpt hc e hbin lse
  refine ⟨r, _, hr, loopMp_messages _ _ _ _ _ _ _ _ (Or.inr rfl), hslots, ?_⟩
  rw [loopMp_messages _ _ _ _ _ _ _ _ (Or.inr rfl)]
  exact hok

example : ∃ r M, GraphIo.rootIdx exTree = some r ∧
    loopMp exCpt exTree r Struct4.sumL Struct4.maxL (rowList exScope exTree.length exEv)
      ((rowList exScope exTree.length exEv).map (fun o => !o.isNone)) false "mpe" = .inl M ∧
    Struct4.MsgsOK exScope exCpt exEv (build exTree exTree.length r)
      (CltLoop.msgsOf (loopMp exCpt exTree r Struct4.sumL Struct4.maxL (rowList exScope exTree.length exEv)
        ((rowList exScope exTree.length exEv).map (fun o => !o.isNone)) false "mpe")) := by
  obtain ⟨r, M, hr, hM, _, h⟩ := e2e_message_passing_max_loop exTree exTree_wf exScope exCpt exCpt_nonneg exEv
    (fun j hj o ho => exEv_bin _ (getD_mem_scope exScope j hj) o ho) Struct4.sumL
  exact ⟨r, M, hr, hM, h⟩

example : loopMp exCpt exTree 3 Struct4.sumL Struct4.maxL [none, none, some 1, none, none]
    ([none, none, some 1, none, none].map (fun o => !o.isNone)) false "mpe" =
      .inl [[27 / 100, 297 / 1000], [9 / 10, 1 / 2], [1, 1], [2079 / 10000, 81 / 500], [2 / 5, 27 / 50]] := by decide +kernel

/-- **e2e_mpe_is_argmax_loop (C06 for Chow-Liu trees, about the extracted LOOPS)**: for every well-formed tree, scope without
duplicates, non-negative tables and every row with binary observed entries, the row the generated `mpe` returns — copy, messages of
the generated `message_passing(…, return_lls=False, reduce='mpe')`, masked store at the root, generated loop over `self.bfs[1:]`
writing `x[j]` from `x[self.tree[j]]` —
(i) has the length of the input, (ii) keeps every observed entry, (iii) holds a value `< 2` at every position, (iv) is the model's
`Clt.mpe` entry by entry, and (v) ATTAINS THE MAXIMUM of the tree's value over all binary completions of the evidence.
Ingredients: `Struct5Clt.mpe_composed_as_coded` (O) + `E2EClt.e2e_mpe_is_argmax`. -/
theorem e2e_mpe_is_argmax_loop (tree : List Int) (hwf : GraphIo.WellFormedPred tree) (scope : List Nat)
    (cpt : List (List (List α))) (hc : ∀ i l k, 0 ≤ cptAt cpt i l k)
    (hlen : scope.length = tree.length) (hnd : scope.Nodup) (e : Ev)
    (hbin : ∀ v ∈ scope, ∀ o, e v = some o → o < 2) (lse : List α → α) :
    ∃ r, GraphIo.rootIdx tree = some r ∧
      (loopMpe cpt tree r lse Struct4.maxL (rowList scope tree.length e)).length = tree.length ∧
      (∀ j, j < tree.length → ∀ o, (rowList scope tree.length e).getD j none = some o →
        (loopMpe cpt tree r lse Struct4.maxL (rowList scope tree.length e)).getD j none = some o) ∧
      (∀ j, j < tree.length → ∃ k, k < 2 ∧
        (loopMpe cpt tree r lse Struct4.maxL (rowList scope tree.length e)).getD j none = some k) ∧
      (∀ j, j < tree.length →
        (loopMpe cpt tree r lse Struct4.maxL (rowList scope tree.length e)).getD j none =
          Clt.mpe scope tree cpt e (scope.getD j 0)) ∧
      (∀ X : Ev, (∀ v ∈ scope, e v ≠ none → X v = e v) → (∀ v ∈ scope, e v = none → ∃ k, k < 2 ∧ X v = some k) →
        Clt.value scope tree cpt X ≤
          Clt.value scope tree cpt (evOfRow scope (loopMpe cpt tree r lse Struct4.maxL (rowList scope tree.length e)))) := by
  simp only [loopMpe_eq]
  exact e2e_mpe_is_argmax tree hwf scope cpt hc hlen hnd e hbin lse

example : ∃ r, GraphIo.rootIdx exTree = some r ∧
    (∀ j, j < exTree.length → (loopMpe exCpt exTree r Struct4.sumL Struct4.maxL (rowList exScope exTree.length exEv)).getD j none =
        Clt.mpe exScope exTree exCpt exEv (exScope.getD j 0)) ∧
    (loopMpe exCpt exTree r Struct4.sumL Struct4.maxL (rowList exScope exTree.length exEv)).getD 2 none = some 1 := by
  obtain ⟨r, hr, _, hk, _, hd, _⟩ := e2e_mpe_is_argmax_loop exTree exTree_wf exScope exCpt exCpt_nonneg rfl (by decide) exEv
    exEv_bin Struct4.sumL
  exact ⟨r, hr, hd, hk 2 (by decide) 1 (by decide)⟩

/-- the completion the extracted loops return for that row (evaluated by the kernel): column 2 keeps its observed 1 -/
example : loopMpe exCpt exTree 3 Struct4.sumL Struct4.maxL [none, none, some 1, none, none] =
    [some 0, some 0, some 1, some 1, some 1] := by decide +kernel

end maxprod

end Deeprob.E2ECltLoop
